/-
  C04 — Probabilistic grammars define a probability distribution over their language.
  Models: PS/Model/Prob.lean (tagged_det_grammar.py, tagged_u_grammar.py) on top of
  PS/Model/Grammar.lean (det_grammar.py / ttcfg.py), PS/Model/Cfg.lean (`CFG.programs`) and
  PS/Model/Ucfg.lean (u_grammar.py / u_cfg.py).  Lemmas: PS/Proofs/{Lang, ProbDet, Mass,
  Programs, Ucfg, UMass, UOps, FromCfg}.lean.

  Statement: the probability reported for a program is the product of the probabilities of the
  rules of its unique derivation (times the probability of its start symbol when there are
  several), 0 outside the language; on a finite grammar these probabilities sum to 1 over the
  language and the reported number of programs is the size of the language.

  * `prob` / `probU` are the statement's probability (stack-free derivations `derivation` /
    `derivs`); `probabilityDet` / `probabilityU` transcribe the code (pending stack,
    `reduce_derivations`, exceptions).
  * `lang G k nt` enumerates the language (`C04_lang`: exactly the derivable terms of at most `k`
    levels, without repetition); `bounded G k nt` says all derivations finish within `k` levels
    (`C04_lang_complete`: then `lang G k nt` is the whole language).
  * several start symbols: the code omits the start factor — finding C04-F1, `finding_C04_F1`;
    the U theorems about the code are `_partial` under "every start symbol has weight 1"
    (a single start symbol with normalised start weights).
-/
import PS.Proofs.ProbDet
import PS.Proofs.Mass
import PS.Proofs.Programs
import PS.Proofs.Ucfg
import PS.Proofs.UMass
import PS.Proofs.UOps
import PS.Proofs.FromCfg
import PS.Proofs.C04CountT
import PS.Proofs.C04CountU
namespace PS.G
open PS

variable {S : Type} [DecidableEq S]

/-! ## Deterministic grammars (ProbDetGrammar) -/

/-- **probability = product of the rule weights of the unique derivation**, 0 outside the
    language: for EVERY tagged grammar (weights may be incomplete or unnormalised), program and
    start non-terminal. -/
theorem C04_prob_det (G : TT S Unit) (tags : Tags S Unit) (t : Prog) :
    probabilityDet G tags t = prob G tags t G.start :=
  probabilityDet_eq_prob G tags t

theorem C04_prob_det_from (G : TT S Unit) (tags : Tags S Unit) (t : Prog) (nt : NT S Unit) :
    probabilityDetFrom G tags t nt = prob G tags t nt :=
  probabilityDetFrom_eq_prob G tags t nt

/-- the fold of `reduce_derivations` (pending stack) is the fold over the stack-free derivation,
    for every reducer -/
theorem C04_reduce_derivations {α : Type} (G : TT S Unit)
    (f : α → NT S Unit → Sym → (List (Ty × S) × Unit) → α) (t : Prog) (v : α)
    (h : gen G t G.start = true) :
    reduceDerivations G f v t = some ((derivation G t G.start).foldl (stepDer G f) v) := by
  unfold reduceDerivations
  exact reduceRec_derivation G f t G.start [] v h

/-- **0 outside the language** — tree-traversing grammars with any state type included -/
theorem C04_outside_zero {T : Type} [DecidableEq T] (G : TT S T) (tags : Tags S T) (t : Prog)
    (h : contains G t = false) : probabilityDet G tags t = 0 :=
  probabilityDet_outside G tags t h

/-- … in terms of the specification's membership -/
theorem C04_outside_zero_gen (G : TT S Unit) (tags : Tags S Unit) (t : Prog)
    (h : gen G t G.start = false) : probabilityDet G tags t = 0 := by
  rw [C04_prob_det]; simp [prob, h]

/-- **the enumeration `lang` is the language**: exactly the derivable terms of at most `k`
    levels, each once -/
theorem C04_lang (G : TT S Unit) (h : RowsNodup G) (k : Nat) (nt : NT S Unit) :
    (∀ t, t ∈ lang G k nt ↔ (gen G t nt = true ∧ Tree.depth t ≤ k)) ∧ (lang G k nt).Nodup :=
  ⟨fun t => mem_lang_iff G h k t nt, lang_nodup G h k nt⟩

/-- when all derivations finish within `k` levels, `lang G k nt` is the whole language -/
theorem C04_lang_complete (G : TT S Unit) (h : RowsNodup G) (k : Nat) (nt : NT S Unit)
    (hb : bounded G k nt = true) (t : Prog) : t ∈ lang G k nt ↔ gen G t nt = true :=
  mem_lang_of_bounded G h k t nt hb

/-- **the probabilities sum to 1 over the language**: normalised weights, finite grammar.
    Stated for the code's `probabilityDet`. -/
theorem C04_sum_one (G : TT S Unit) (tags : Tags S Unit) (hk : (AList.keys G.rules).Nodup)
    (hn : Normalised G tags) (k : Nat) (hb : bounded G k G.start = true) :
    ((lang G k G.start).map (fun t => probabilityDet G tags t)).sum = 1 := by
  have h := mass_eq_one G tags hk hn k G.start hb
  unfold mass at h
  rw [show (fun t => probabilityDet G tags t) = (fun t => prob G tags t G.start) from
    funext (fun t => C04_prob_det G tags t)]
  exact h

/-- the recursion behind it: Σ over `nt` = Σ over its rules of weight × Π of the Σ's of the
    arguments -/
theorem C04_mass_step (G : TT S Unit) (tags : Tags S Unit) (h : RowsNodup G) (k : Nat) (nt : NT S Unit)
    (rs : AList Sym (List (Ty × S) × Unit)) (hl : AList.lookup nt G.rules = some rs) :
    mass G tags (k + 1) nt
      = (rs.map (fun r => weight tags nt r.1 * (r.2.1.map (fun a => mass G tags k (argNT a))).prod)).sum :=
  mass_succ G tags h k nt rs hl

/-- **counting**: Σ over rules Π over arguments is the size of the enumeration -/
theorem C04_count (G : TT S Unit) (k : Nat) (nt : NT S Unit) : count G k nt = (lang G k nt).length :=
  count_eq_length G k nt

/-- **`CFG.programs()`**: whenever it returns a number (not -1), all derivations are finite and
    the number is the size of the language — whatever the order of the table -/
theorem C04_programs (G : CFG) (hk : (AList.keys G.rules).Nodup) (n : Nat) (h : programs G = some n) :
    ∃ k, bounded G k G.start = true ∧ n = (lang G k G.start).length := by
  obtain ⟨k, hb, hn⟩ := Programs.programs_eq_count G hk n h
  exact ⟨k, hb, by rw [hn, count_eq_length]⟩

/-- **uniform()** is normalised (no empty row, dict keys distinct) … -/
theorem C04_uniform_normalised (G : TT S Unit) (hk : (AList.keys G.rules).Nodup)
    (hr : ∀ e ∈ G.rules, e.2 ≠ [] ∧ (AList.keys e.2).Nodup) : Normalised G (uniform G) :=
  uniform_normalised G hk hr

/-- … hence a distribution on a finite grammar -/
theorem C04_uniform_sum_one (G : TT S Unit) (hk : (AList.keys G.rules).Nodup)
    (hr : ∀ e ∈ G.rules, e.2 ≠ [] ∧ (AList.keys e.2).Nodup) (k : Nat) (hb : bounded G k G.start = true) :
    ((lang G k G.start).map (fun t => probabilityDet G (uniform G) t)).sum = 1 :=
  C04_sum_one G (uniform G) hk (uniform_normalised G hk hr) k hb

omit [DecidableEq S] in
/-- **normalise()**: every row keeps its key and its symbols and, when its total is not 0,
    sums to 1 afterwards (Python raises ZeroDivisionError for a zero total) -/
theorem C04_normalise {T : Type} (tags : Tags S T) :
    ∀ e ∈ normalise tags, ∃ e' ∈ tags, e.1 = e'.1 ∧ AList.keys e.2 = AList.keys e'.2 ∧
      (rowSum e'.2 ≠ 0 → rowSum e.2 = 1) := by
  intro e he
  obtain ⟨e', he', h1, h2⟩ := normalise_rows tags e he
  exact ⟨e', he', h1, by rw [h2, keys_normaliseRow], fun h => by rw [h2]; exact rowSum_normaliseRow _ h⟩

/-- **pcfg_from_samples**: every row of learnt weights sums to 1 (non-terminals never visited
    get no row) -/
theorem C04_from_samples (G : TT S Unit) (hk : (AList.keys G.rules).Nodup)
    (hr : ∀ e ∈ G.rules, (AList.keys e.2).Nodup) (samples : List Prog) (tags : Tags S Unit)
    (h : fromSamples G samples = .ok tags) : ∀ e ∈ tags, rowSum e.2 = 1 :=
  fromSamples_rows G hk hr samples tags h

/-! ### non-vacuity -/
namespace Ex04
def int : Ty := .base "int"
def one : Sym := Sym.prim "1" int
def x : Sym := Sym.var 0 int
def plus : Sym := Sym.prim "+" (.arrow int (.arrow int int))
def n0 : NT Nat Unit := (int, (0, ()))
def n1 : NT Nat Unit := (int, (1, ()))
/-- `S0 → 1 | + S1 S1`,  `S1 → 1 | x` -/
def G0 : TT Nat Unit := ⟨n0, [(n0, [(one, ([], ())), (plus, ([(int, 1), (int, 1)], ()))]),
                              (n1, [(one, ([], ())), (x, ([], ()))])]⟩
def tags0 : Tags Nat Unit := [(n0, [(one, 1/2), (plus, 1/2)]), (n1, [(one, 1/4), (x, 3/4)])]
def leaf (s : Sym) : Prog := .node s []
def t1 : Prog := .node plus [leaf one, leaf x]
def bad : Prog := .node plus [leaf one]
end Ex04
open Ex04 in
example : probabilityDet G0 tags0 t1 = 3/32 ∧ probabilityDet G0 tags0 bad = 0 ∧ gen G0 t1 G0.start = true := by
  decide +kernel
open Ex04 in
theorem ex_normalised : Normalised G0 tags0 ∧ (AList.keys G0.rules).Nodup ∧ bounded G0 2 G0.start = true := by
  refine ⟨?_, by decide, by decide⟩
  intro e he
  simp only [G0, List.mem_cons, List.not_mem_nil, or_false] at he
  rcases he with rfl | rfl <;> exact ⟨by decide +kernel, by decide⟩
open Ex04 in
/-- the hypotheses of `C04_sum_one` hold on a grammar with 5 programs -/
example : ((lang G0 2 G0.start).map (fun t => probabilityDet G0 tags0 t)).sum = 1 ∧ (lang G0 2 G0.start).length = 5 :=
  ⟨C04_sum_one G0 tags0 ex_normalised.2.1 ex_normalised.1 2 ex_normalised.2.2, by decide⟩
open Ex04 in
example : (fromSamples G0 [t1, leaf one, t1]).toOption
    = some [(n0, [(one, 1/3), (plus, 2/3)]), (n1, [(one, 1/2), (x, 1/2)])] := by
  decide +kernel

end PS.G

/-! ## Unambiguous grammars (ProbUGrammar) -/
namespace PS.U
open PS PS.G PS.U.Mass

variable {U : Type} [DecidableEq U]

/-- **derivations**: the stack-based `__reduce_derivations_rec__` over possibility lists lists
    exactly the stack-free derivations, in the same order, from all start symbols -/
theorem C04_reduce_u (G : UCFG U) (t : Prog) :
    (reduceAll G t).map (fun p => p.map Step.rule) = (allDerivs G t).map (·.2) :=
  reduceAll_derivs G t

/-- **membership** by possibility lists = existence of a derivation -/
theorem C04_contains_u (G : UCFG U) (t : Prog) : contains G t = genU G t :=
  contains_eq_genU G t

/-- **probability = start weight × product of the rule weights of the unique derivation**, 0
    outside the language.
    Full statement (FALSE for the code when there are several start symbols, finding C04-F1, see
    `finding_C04_F1`):  unambiguousOn G t → probabilityU G tg t = probU G tg t.
    Proved under the decidable hypothesis that every start symbol has weight 1 — i.e. a single
    start symbol with normalised start weights (`C04_prob_u_single`). -/
theorem C04_prob_u_partial (G : UCFG U) (tg : UTags U) (t : Prog)
    (hu : unambiguousOn G t = true) (hs : ∀ s ∈ G.starts, startWeight tg s = 1) :
    probabilityU G tg t = probU G tg t :=
  probabilityU_eq_probU G tg t hu hs

theorem C04_prob_u_single (G : UCFG U) (tg : UTags U) (t : Prog) (s : UNT U)
    (hst : G.starts = [s]) (hw : (G.starts.map (startWeight tg)).sum = 1)
    (hu : unambiguousOn G t = true) : probabilityU G tg t = probU G tg t := by
  apply C04_prob_u_partial G tg t hu
  intro s' hs'
  rw [hst] at hs' hw
  simp only [List.mem_cons, List.not_mem_nil, or_false] at hs'
  subst hs'
  simpa [Rat.add_zero] using hw

/-- **0 outside the language**, any number of start symbols -/
theorem C04_outside_zero_u (G : UCFG U) (tg : UTags U) (t : Prog) (h : contains G t = false) :
    probabilityU G tg t = 0 := by
  rw [C04_contains_u] at h
  have hd : allDerivs G t = [] := by
    unfold genU at h
    cases hh : allDerivs G t with
    | nil => rfl
    | cons a l => rw [hh] at h; simp at h
  have hr := C04_reduce_u G t
  rw [hd] at hr
  have : reduceAll G t = [] := by simpa using hr
  unfold probabilityU
  simp [this]

/-- **the statement's distribution** (specification level, several start symbols allowed):
    start weight × derivation weights sum to 1 over all derivations of a finite grammar -/
theorem C04_spec_u_total (G : UCFG U) (tg : UTags U) (hn : NormalisedU G tg) (k : Nat)
    (hb : ∀ s ∈ G.starts, boundedU G k s = true)
    (hs : (G.starts.map (startWeight tg)).sum = 1) :
    (G.starts.map (fun s => startWeight tg s * massU G tg k s)).sum = 1 :=
  spec_total_one G tg hn k hb hs

/-- **the code's probabilities sum to 1 over the programs** of a finite unambiguous grammar with
    one start symbol. (`langU` lists one term per derivation; unambiguity makes them distinct
    programs.)  Several start symbols: false for the code, `finding_C04_F1`. -/
theorem C04_sum_one_u_partial (G : UCFG U) (tg : UTags U) (hn : NormalisedU G tg) (s : UNT U)
    (hst : G.starts = [s]) (hw : startWeight tg s = 1) (k : Nat) (hb : boundedU G k s = true)
    (hu : ∀ t, unambiguousOn G t = true) :
    ((langU G k s).map (fun t => probabilityU G tg t)).sum = 1 := by
  have h := probU_sum_one G tg hn s hst hw k hb hu
  have he : (fun t => probabilityU G tg t) = (fun t => probU G tg t) := by
    funext t
    apply C04_prob_u_partial G tg t (hu t)
    intro s' hs'
    rw [hst] at hs'
    simp only [List.mem_cons, List.not_mem_nil, or_false] at hs'
    rw [hs']; exact hw
  rw [he]; exact h

/-- **`UCFG.from_CFG`** yields an unambiguous grammar with the same language: every program has
    exactly one derivation if it is in the CFG and none otherwise — so the hypothesis
    `unambiguousOn` of the theorems above holds for every grammar obtained this way -/
theorem C04_from_cfg {S : Type} [DecidableEq S] (G : TT S Unit) (hk : (AList.keys G.rules).Nodup)
    (hr : ∀ e ∈ G.rules, (AList.keys e.2).Nodup) (t : Prog) :
    unambiguousOn (fromCFG G) t = true ∧ genU (fromCFG G) t = gen G t G.start ∧
    (fromCFG G).starts.length = 1 :=
  ⟨FromCfg.fromCFG_unambiguous G hk hr t, FromCfg.genU_fromCFG G hk hr t, rfl⟩

/-- **uniform()** for unambiguous grammars is normalised (every alternative of a non-terminal gets
    1/(number of alternatives of that non-terminal), every start symbol 1/(number of starts)) -/
theorem C04_uniform_u_normalised (G : UCFG U) (hk : (AList.keys G.rules).Nodup)
    (hr : ∀ e ∈ G.rules, (AList.keys e.2).Nodup ∧ (∃ r ∈ e.2, r.2 ≠ []) ∧ ∀ r ∈ e.2, r.2.Nodup)
    (hs : G.starts.Nodup) (hne : G.starts ≠ []) :
    NormalisedU G (uniformU G) ∧ (G.starts.map (startWeight (uniformU G))).sum = 1 :=
  ⟨Ops.uniformU_normalised G hk hr, Ops.uniformU_starts G hs hne⟩

omit [DecidableEq U] in
/-- **normalise()** for unambiguous grammars: a row with non-zero total sums to 1 afterwards, and
    so do the start weights -/
theorem C04_normalise_u (tg : UTags U) :
    (∀ e ∈ (normaliseU tg).tags, ∃ e' ∈ tg.tags, e.1 = e'.1 ∧ (rowSumU e'.2 ≠ 0 → rowSumU e.2 = 1)) ∧
    ((tg.startTags.map (·.2)).sum ≠ 0 → ((normaliseU tg).startTags.map (·.2)).sum = 1) :=
  ⟨Ops.rowSumU_normaliseU tg, Ops.startSum_normaliseU tg⟩

/-- **counting** derivations -/
theorem C04_count_u (G : UCFG U) (k : Nat) (nt : UNT U) : countU G k nt = (langU G k nt).length :=
  Ops.countU_eq_length G k nt

/-- **`UCFG.programs()`** (memoised recursion): on a finite grammar the number returned is the
    number of derivations from the start symbols (= programs, when unambiguous) -/
theorem C04_programs_u (G : UCFG U) (fuel n k : Nat) (h : programs G fuel = some n)
    (hb : ∀ s ∈ G.starts, boundedU G k s = true) :
    n = (G.starts.map (fun s => (langU G k s).length)).sum :=
  Ops.programs_eq_length G fuel n k h hb

/-! ### non-vacuity and the recorded finding -/
namespace Ex04
def int : Ty := .base "int"
def a : Sym := Sym.prim "a" int
def b : Sym := Sym.prim "b" int
def f : Sym := Sym.prim "f" (.arrow int int)
def q0 : UNT Nat := (int, 0)
def q1 : UNT Nat := (int, 1)
/-- two start symbols: `q0 → a`, `q1 → b | f q0` -/
def G2 : UCFG Nat := ⟨[q0, q1], [(q0, [(a, [[]])]), (q1, [(b, [[]]), (f, [[q0]])])], q0⟩
/-- one start symbol, two alternatives for `f`: `q1 → b | f q0 | f q1'` … kept small -/
def G1 : UCFG Nat := ⟨[q1], [(q0, [(a, [[]])]), (q1, [(b, [[]]), (f, [[q0]])])], q1⟩
def ta : Prog := .node a []
def tb : Prog := .node b []
def tfa : Prog := .node f [.node a []]
end Ex04

open Ex04 in
/-- hypotheses of `C04_prob_u_partial` / `C04_sum_one_u_partial` are satisfiable: one start, the
    uniform weights, a language of two programs -/
example : unambiguousOn G1 tfa = true ∧ startWeight (uniformU G1) q1 = 1 ∧
    probabilityU G1 (uniformU G1) tfa = 1/2 ∧ probU G1 (uniformU G1) tfa = 1/2 ∧
    langU G1 2 q1 = [tb, tfa] ∧ boundedU G1 2 q1 = true ∧ programs G1 5 = some 2 ∧ programs G2 5 = some 3 := by
  decide +kernel

open Ex04 in
/-- **finding C04-F1** on the model: with two start symbols (uniform weights: start weights
    1/2, 1/2) the code reports 1 for the program `a` whose probability is 1/2, and the reported
    probabilities of the three programs of the language sum to 2 instead of 1. -/
theorem finding_C04_F1 :
    unambiguousOn G2 ta = true ∧
    probabilityU G2 (uniformU G2) ta = 1 ∧ probU G2 (uniformU G2) ta = 1/2 ∧
    (([ta, tb, tfa].map (fun t => probabilityU G2 (uniformU G2) t)).sum = 2) ∧
    (([ta, tb, tfa].map (fun t => probU G2 (uniformU G2) t)).sum = 1) := by
  decide +kernel

end PS.U

/-! ## The reported number of programs (second half of the statement), TTCFG-based and
     unambiguous grammars, any number of start symbols -/
namespace PS.G
open PS

/-- **`ProbDetGrammar.programs()` over a TTCFG** (`TTCFG.programs()`, memoised dictionaries of
    counts per final state; /repo after fix 875cb5a = `PS.T.programsR`): for every table whose
    rows are dicts and that does not use the end-marker type `UnknownType` as a key or as an
    argument slot (three decidable hypotheses, evaluated by the driver on every case), whenever
    it returns `n` there is a duplicate-free list of `n` programs that contains exactly the
    programs of the grammar (`program in grammar`, equivalently the stack-free specification
    `PS.T.inLang`), and every program outside it has probability 0. -/
theorem C04_programs_ttcfg {S T : Type} [DecidableEq S] [DecidableEq T] (G : TT S T) (tags : Tags S T)
    (hr : PS.T.rowsNodup G = true) (hU : PS.T.noUnknownKey G = true) (hA : PS.T.noUnknownArg G = true)
    (fuel n : Nat) (hp : PS.T.programsR G fuel = some n) :
    ∃ L : List Prog, L.Nodup ∧ n = L.length ∧
      (∀ t, t ∈ L ↔ contains G t = true) ∧ (∀ t, t ∈ L ↔ PS.T.inLang G t = true) ∧
      (∀ t, t ∉ L → probabilityDet G tags t = 0) := by
  obtain ⟨h1, h2, h3⟩ := CntT.programsR_contains G hr hU hA fuel n hp
  refine ⟨_, h1, h2, h3, fun t => by rw [h3 t, PS.T.contains_eq_inLang], ?_⟩
  intro t ht
  apply C04_outside_zero G tags t
  cases hc : contains G t with
  | false => rfl
  | true => exact absurd ((h3 t).mpr hc) ht

/-- … and on a table with a trivial state (a CFG handed to the TTCFG code) the number is the
    length of the enumeration `lang` of `C04_lang`, the number `CFG.programs()` reports
    (`C04_programs`): the two transcriptions count the same language. -/
theorem C04_programs_ttcfg_cfg {S : Type} [DecidableEq S] (G : TT S Unit) (hr : PS.T.rowsNodup G = true)
    (hU : PS.T.noUnknownKey G = true) (hA : PS.T.noUnknownArg G = true) (fuel n : Nat)
    (hp : PS.T.programsR G fuel = some n) (hrn : RowsNodup G) (k : Nat)
    (hb : bounded G k G.start = true) : n = (lang G k G.start).length :=
  CntT.programsR_eq_lang G hr hU hA fuel n hp hrn k hb

namespace Ex04T
def int : Ty := .base "int"
def a : Sym := Sym.prim "a" int
def b : Sym := Sym.prim "b" int
def f : Sym := Sym.prim "f" (.arrow int int)
/-- a table with a non-trivial state component: `(int,(0,0)) → f (int,1) | a`, `(int,(1,0)) → a | b` -/
def GT : TT Nat Nat := ⟨(int, (0, 0)),
  [((int, (0, 0)), [(f, ([(int, 1)], 0)), (a, ([], 5))]), ((int, (1, 0)), [(a, ([], 7)), (b, ([], 7))])]⟩
end Ex04T

open Ex04T in
/-- non-vacuity of `C04_programs_ttcfg`: the hypotheses hold, `programs()` returns 3, the language
    has the three programs `a`, `(f a)`, `(f b)` -/
example : PS.T.rowsNodup GT = true ∧ PS.T.noUnknownKey GT = true ∧ PS.T.noUnknownArg GT = true ∧
    PS.T.programsR GT 10 = some 3 ∧ (PS.T.langOf GT 10).length = 3 ∧
    contains GT (.node f [.node b []]) = true ∧ contains GT (.node b []) = false := by
  decide +kernel

end PS.G

namespace PS.U
open PS PS.G PS.U.Mass PS.U.Cnt

variable {U : Type} [DecidableEq U]

/-- **`ProbUGrammar.programs()` counts derivations**, any number of start symbols: on a finite
    grammar (`boundedU` for every start symbol; rows are dicts) the number returned is the length
    of the enumeration `langAll` from all start symbols, in which every program occurs as many
    times as it has (start symbol, derivation) pairs — in particular it contains exactly the
    programs of the grammar. No unambiguity needed. -/
theorem C04_programs_u_derivations (G : UCFG U)
    (hr : ∀ nt rs, AList.lookup nt G.rules = some rs → (AList.keys rs).Nodup) (fuel n k : Nat)
    (h : programs G fuel = some n) (hb : ∀ s ∈ G.starts, boundedU G k s = true) :
    n = (langAll G k).length ∧
    (∀ t, (langAll G k).count t = (allDerivs G t).length) ∧
    (∀ t, t ∈ langAll G k ↔ contains G t = true) := by
  refine ⟨?_, count_langAll G hr k hb, fun t => by rw [mem_langAll G hr k hb t, contains_eq_genU]⟩
  rw [Ops.programs_eq_length G fuel n k h hb]
  unfold langAll
  rw [List.length_flatMap]

/-- **`ProbUGrammar.programs()` = the size of the language** of a finite UNAMBIGUOUS grammar, any
    number of start symbols: `n` is the length of a duplicate-free list that contains exactly
    the programs of the grammar. (For the grammars `UCFG.from_DFTA` builds the unambiguity
    hypothesis is a theorem: `C06_unambiguousOn_partial`; for `from_CFG`: `C04_from_cfg`.) -/
theorem C04_programs_ucfg (G : UCFG U)
    (hr : ∀ nt rs, AList.lookup nt G.rules = some rs → (AList.keys rs).Nodup) (fuel n k : Nat)
    (h : programs G fuel = some n) (hb : ∀ s ∈ G.starts, boundedU G k s = true)
    (hu : ∀ t, unambiguousOn G t = true) :
    ∃ L : List Prog, L.Nodup ∧ n = L.length ∧ ∀ t, t ∈ L ↔ contains G t = true :=
  ⟨langAll G k, langAll_nodup G hr k hb hu,
    (C04_programs_u_derivations G hr fuel n k h hb).1,
    (C04_programs_u_derivations G hr fuel n k h hb).2.2⟩

/-- **the statement's probabilities sum to 1 over the language**, several start symbols, start
    weights included: normalised rows, start weights summing to 1, finite unambiguous grammar.
    (The CODE omits the start factor — finding C04-F1, `finding_C04_F1` — so this is about the
    specification `probU`; with one start symbol of weight 1 the code agrees:
    `C04_sum_one_u_partial`.) -/
theorem C04_sum_one_u (G : UCFG U) (tg : UTags U) (hn : NormalisedU G tg) (k : Nat)
    (hb : ∀ s ∈ G.starts, boundedU G k s = true)
    (hs : (G.starts.map (startWeight tg)).sum = 1) (hu : ∀ t, unambiguousOn G t = true) :
    (langAll G k).Nodup ∧ (∀ t, t ∈ langAll G k ↔ contains G t = true) ∧
    ((langAll G k).map (fun t => probU G tg t)).sum = 1 := by
  have hr : ∀ nt rs, AList.lookup nt G.rules = some rs → (AList.keys rs).Nodup :=
    fun nt rs h => (hn (nt, rs) (AList.lookup_some_mem h)).2
  exact ⟨langAll_nodup G hr k hb hu, fun t => by rw [mem_langAll G hr k hb t, contains_eq_genU],
    probU_sum_one_starts G tg hn k hb hs hu⟩

/-- finding C04-F1 made quantitative, for every unambiguous grammar and every program with its
    unique (start symbol, derivation) pair `(s, d)` all of whose rules carry a weight: the CODE
    reports the product of the rule weights of `d`, the STATEMENT asks for that product times the
    weight of the start symbol `s`. -/
theorem C04_prob_u_code (G : UCFG U) (tg : UTags U) (t : Prog) (s : UNT U) (d : Der U)
    (h : allDerivs G t = [(s, d)]) (hw : ∀ x ∈ d, (tagOfU tg x.1 x.2.1 x.2.2).isSome = true) :
    probabilityU G tg t = derWeightU tg d ∧ probU G tg t = startWeight tg s * derWeightU tg d := by
  refine ⟨?_, by rw [probU, h]⟩
  have hred := reduceAll_derivs G t
  rw [h] at hred
  simp only [List.map_cons, List.map_nil] at hred
  cases hR : reduceAll G t with
  | nil => rw [hR] at hred; simp at hred
  | cons p ps =>
    rw [hR] at hred
    simp only [List.map_cons, List.cons.injEq, List.map_eq_nil_iff] at hred
    obtain ⟨hp, hps⟩ := hred
    subst hps
    unfold probabilityU
    rw [hR]
    obtain ⟨h1, h2⟩ := foldSteps_spec tg p 1
    cases hf : foldSteps tg (some 1) p with
    | some v =>
      simp only [List.map_cons, List.map_nil, hf, List.any_cons, Option.isNone_some, List.any_nil,
        Bool.or_self, Bool.false_eq_true, if_false]
      rw [h1 v hf, Rat.one_mul, hp]
    | none =>
      exfalso
      -- every step has a tag, so the fold cannot fail
      have key : ∀ (q : List (Step U)) (c : Rat), (∀ e ∈ q, (tagOfU tg e.nt e.sym e.args).isSome = true) →
          foldSteps tg (some c) q ≠ none := by
        intro q
        induction q with
        | nil => intro c _ e; simp [foldSteps] at e
        | cons e es ih =>
          intro c hall
          rw [foldSteps]
          have := hall e (by simp)
          cases ht : tagOfU tg e.nt e.sym e.args with
          | none => rw [ht] at this; cases this
          | some w => simp only [Option.map_some]; exact ih _ (fun x hx => hall x (by simp [hx]))
      apply key p 1 _ hf
      intro e he
      have : Step.rule e ∈ d := by rw [← hp]; exact List.mem_map.mpr ⟨e, he, rfl⟩
      exact hw _ this

open Ex04 in
/-- non-vacuity of `C04_programs_ucfg` / `C04_sum_one_u` on the grammar with TWO start symbols of
    `finding_C04_F1`: rows are dicts, both start symbols are bounded, every program has at most
    one derivation (checked on the language), `programs()` = 3 = |language|, the statement's
    probabilities (uniform weights: start weights 1/2, 1/2) sum to 1 -/
example : langAll G2 2 = [ta, tb, tfa] ∧ programs G2 5 = some 3 ∧
    (G2.starts.all (fun s => boundedU G2 2 s)) = true ∧
    ((langAll G2 2).all (fun t => unambiguousOn G2 t)) = true ∧
    (G2.starts.map (startWeight (uniformU G2))).sum = 1 ∧
    ((langAll G2 2).map (fun t => probU G2 (uniformU G2) t)).sum = 1 := by
  decide +kernel

end PS.U
