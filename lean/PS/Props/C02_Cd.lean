/- placeholder -/
import PS.Model.Enum.ConstantDelay
