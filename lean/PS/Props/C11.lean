/-
  C11 — Program evaluation is compositional and independent of the cache and its history.
  Property theorems only (model: PS/Model/Evaluator.lean, lemmas: PS/Proofs/Evaluator.lean).
  All statements are for every semantics `S` (every `leaf`, `apply`, `skip`), every program,
  every input and every history of earlier evaluations and cache clearings.
-/
import PS.Proofs.Evaluator
namespace PS.C11
open PS

variable {σ V E : Type} [DecidableEq σ] [DecidableEq V]

/-- every memo table of the cache holds compositional values only -/
def CacheSound (S : Sem σ V E) (c : Cache σ V) : Prop :=
  ∀ inp ev, AList.lookup inp c = some ev → MemoSound S inp ev

/-- **One call.** From any sound cache state, with the cache on or off, `eval` returns the
    compositional outcome (value / None for a skippable exception / the propagated
    exception) and leaves a sound cache. -/
theorem C11_eval (S : Sem σ V E) (useCache : Bool) (c : Cache σ V) (p : Tree σ) (inp : List V)
    (hc : CacheSound S c) :
    (eval S useCache c p inp).2 = specEval S p inp ∧ CacheSound S (eval S useCache c p inp).1 := by
  have hs1 : CacheSound S (prepCache useCache c inp) := by
    unfold prepCache
    split
    · intro i ev h
      rw [AList.lookup_insert] at h
      by_cases hi : i = inp
      · simp [hi] at h; subst h; intro q v hq; simp [AList.lookup] at hq
      · simp [hi] at h; exact hc i ev h
    · exact hc
  have hsev : MemoSound S inp (memoOf useCache (prepCache useCache c inp) inp) := by
    unfold memoOf
    split
    · cases hl : AList.lookup inp (prepCache useCache c inp) with
      | none => intro q v hq; simp [AList.lookup] at hq
      | some m => simpa using hs1 inp m hl
    · intro q v hq; simp [AList.lookup] at hq
  unfold eval
  generalize prepCache useCache c inp = cache1 at hs1 hsev
  generalize memoOf useCache cache1 inp = ev at hsev
  unfold evalCore
  cases hp : AList.lookup p ev with
  | some v =>
    exact ⟨by simp [specEval, hsev p v hp, outcomeOf], hs1⟩
  | none =>
    obtain ⟨hs2, _, hok, herr⟩ := loop_dfs S inp p ev hsev
    have hs3 : CacheSound S (if useCache = true then AList.insert inp (loop S inp ev (Tree.dfs p)).1 cache1 else cache1) := by
      split
      · intro i m h
        rw [AList.lookup_insert] at h
        by_cases hi : i = inp
        · simp [hi] at h; subst h; subst hi; exact hs2
        · simp [hi] at h; exact hs1 i m h
      · exact hs1
    unfold finish
    cases hr : (loop S inp ev (Tree.dfs p)).2 with
    | some e =>
      exact ⟨by simp [specEval, herr e hr, outcomeOf], hs3⟩
    | none =>
      obtain ⟨v, hv⟩ := hok hr
      simp only [hv]
      exact ⟨by simp [specEval, hs2 p v hv, outcomeOf], hs3⟩

/-- **Histories.** Every cache state reachable by any sequence of evaluations and cache
    clearings on one evaluator is sound. -/
theorem C11_history (S : Sem σ V E) (useCache : Bool) (h : List (Op σ V)) :
    CacheSound S (runHistory S useCache h) := by
  unfold runHistory
  suffices ∀ c, CacheSound S c → CacheSound S (h.foldl (runOp S useCache) c) from
    this [] (by intro i ev hl; simp [AList.lookup] at hl)
  induction h with
  | nil => intro c hc; exact hc
  | cons op rest ih =>
    intro c hc
    apply ih
    cases op with
    | eval p inp => exact (C11_eval S useCache c p inp hc).2
    | clear => intro i ev hl; simp [runOp, clearCache, AList.lookup] at hl

/-- **C11 (history independence).** Whatever was evaluated or cleared before on the same
    evaluator, with the cache on or off, `eval p input` returns the compositional outcome. -/
theorem C11_independent (S : Sem σ V E) (useCache : Bool) (h : List (Op σ V)) (p : Tree σ)
    (inp : List V) :
    (eval S useCache (runHistory S useCache h) p inp).2 = specEval S p inp :=
  (C11_eval S useCache _ p inp (C11_history S useCache h)).1

/-- cache on (after any history) and cache off (fresh) give the same outcome -/
theorem C11_cache_on_off (S : Sem σ V E) (h : List (Op σ V)) (p : Tree σ) (inp : List V) :
    (eval S true (runHistory S true h) p inp).2 = (eval S false [] p inp).2 := by
  rw [C11_independent S true h p inp]
  exact (C11_independent S false [] p inp).symm

omit [DecidableEq σ] [DecidableEq V] in
/-- the outcome is `None` exactly when the compositional evaluation raises a skippable
    exception; any other exception propagates unchanged -/
theorem C11_skip (S : Sem σ V E) (p : Tree σ) (inp : List V) (e : E)
    (h : denote S inp p = .error e) :
    specEval S p inp = if S.skip e then .skipped else .raised e := by
  simp [specEval, outcomeOf, h]

/-! ### non-vacuity: a partial semantics, the history that used to break the cache -/
namespace Example
/-- labels: 0 = `1`, 1 = `var0`, 2 = `div`, 3 = `seven` (a function ignoring its argument) -/
def S : Sem Nat Int String where
  leaf := fun l inp => match l with
    | 0 => .ok 1
    | 1 => match inp with | x :: _ => .ok x | [] => .error "IndexError"
    | 2 => .ok 1000      -- function values encoded as integers ≥ 1000
    | 3 => .ok 2000
    | _ => .error "KeyError"
  apply := fun f v =>
    if f == 1000 then .ok (3000 + 1)            -- (div 1): partial application, numerator 1
    else if f == 3001 then (if v == 0 then .error "ZeroDivisionError" else .ok (1 / v))
    else if f == 2000 then .ok 7
    else .error "TypeError"
  skip := fun e => e == "ZeroDivisionError"
  keyError := "KeyError"
def divp : Tree Nat := .node 2 [.node 0 [], .node 1 []]       -- (div 1 var0)
def big : Tree Nat := .node 3 [divp]                           -- (seven (div 1 var0))
-- after evaluating the failing sub-program, the larger program still fails (None) …
example : (eval S true (runHistory S true [.eval divp [0]]) big [0]).2 = .skipped := by decide
-- … exactly as with the cache off, and both succeed on another input
example : (eval S false [] big [0]).2 = .skipped := by decide
example : (eval S true (runHistory S true [.eval divp [0], .eval divp [2]]) big [2]).2 = .value 7 := by decide
end Example

end PS.C11
