import PS.Model.Solver
namespace PS.C10
theorem C10_stub : True := trivial
end PS.C10
