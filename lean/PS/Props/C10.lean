/-
  C10 — A PBE solver yields exactly the enumerated programs consistent with all examples,
  in enumeration order; True stops, False resumes at the next program; naive and cut-off agree;
  on acceptance the statistics grew by the rank of the accepted program.

  Property theorems only (model: PS/Model/Solver.lean, lemmas: PS/Proofs/Solver.lean).
  Quantification: every program type, every evaluator `ev` with state that is *faithful* to a
  semantics `spec` under an invariant `Inv` (section A), and — discharging that hypothesis with
  property C11 — the model of the real `DSLEvaluator` for every DSL semantics `S`, cache on or off,
  after every history of earlier evaluations, tasks and cache clearings (section B); every
  enumeration `es`, every task (`exs`, any number of examples), every answer stream `as`
  (possibly shorter than needed: the generator is then left suspended), every clock `dl`
  ("deadline passed before iteration i"), every state `s` of the solver object left by earlier
  tasks.  No bound on any length.

  Model after the proposed fix C10-F1 (NaivePBESolver divided by zero on a task without examples).

  Section "restart solver" (after the non-vacuity examples of A and B): RestartPBESolver over
  MetaPBESolver — theorems `C10_restart_*`, findings C10-F2 / C10-F3 with their witnesses.
-/
import PS.Proofs.Solver
import PS.Proofs.SolverRestartStats
import PS.Proofs.SolverRestartGrammarRows
import PS.Proofs.SolverRestartFuel
import PS.Props.C11
set_option linter.unusedSectionVars false
namespace PS.C10
open PS
open PS.C11 (Outcome)

variable {St P I V E : Type} [DecidableEq V]

/-! ## A. every faithful evaluator -/

/-- "satisfies every example" spelled out -/
theorem C10_sat_iff (spec : P → I → Outcome V E) (exs : List (I × V)) (p : P) :
    sat spec exs p = true ↔ ∀ ex ∈ exs, spec p ex.1 = .value ex.2 := by
  simp only [sat, List.all_eq_true]
  constructor
  · intro h ex hex
    have := h ex hex
    cases hs : spec p ex.1 <;> simp_all [matchesOut]
  · intro h ex hex
    simp [h ex hex, matchesOut]

/-- **C10_yields.** The programs yielded are exactly, in order, the programs of the enumeration that
    satisfy every example — among those enumerated before an outside event (deadline, escaping
    exception) — up to and including the first one answered True (one more than the number of
    answers when the caller stops answering). -/
theorem C10_yields {ev : Ev St P I V E} {spec : P → I → Outcome V E} {Inv : St → Prop}
    (hF : Faithful ev spec Inv) (k : Kind) (exs : List (I × V)) (s : Solver P) (st : St) (hst : Inv st)
    (es : List P) (dl as : List Bool) :
    (solve (test k ev exs) s st es dl as).yielded =
      upToAccepted ((es.take (horizon (verdict k spec exs) es dl)).filter (sat spec exs)) as := by
  obtain ⟨hT, hv⟩ := refines_of_faithful hF k exs
  exact yields_spec hT hv es _ st dl as hst

/-- without outside events the horizon is the whole enumeration -/
theorem C10_horizon_full (k : Kind) (spec : P → I → Outcome V E) (exs : List (I × V)) (es : List P)
    (dl : List Bool) (hdl : ∀ b ∈ dl, b = false)
    (hne : ∀ p ∈ es, ∀ ex ∈ exs, raisedOf (spec p ex.1) = none) :
    horizon (verdict k spec exs) es dl = es.length := by
  induction es generalizing dl with
  | nil => rfl
  | cons p rest ih =>
    have hd : deadlinePassed dl = false := by
      cases dl with
      | nil => rfl
      | cons b r => exact hdl b (by simp)
    have hok : ∃ b, verdict k spec exs p = .ok b := by
      cases hv : verdict k spec exs p with
      | ok b => exact ⟨b, rfl⟩
      | error e =>
        exfalso
        cases k with
        | naive =>
          unfold verdict at hv
          simp only at hv
          split at hv
          · next e' hf =>
            obtain ⟨ex, hmem, hr⟩ := List.exists_of_findSome?_eq_some hf
            rw [hne p (by simp) ex hmem] at hr
            cases hr
          · cases hv
        | cutoff =>
          unfold verdict at hv
          simp only at hv
          split at hv
          · cases hv
          · next ex hf =>
            have hmem := List.mem_of_find?_eq_some hf
            have := hne p (by simp) ex hmem
            cases hs : spec p ex.1 <;> simp_all [raisedOf]
    obtain ⟨b, hb⟩ := hok
    have hdl' : ∀ b ∈ dl.tail, b = false := fun b hb => hdl b (List.mem_of_mem_tail hb)
    simp only [horizon, hd, hb, Bool.false_eq_true, if_false, List.length_cons]
    rw [ih dl.tail hdl' (fun q hq => hne q (by simp [hq]))]
    omega

/-- **C10_yields, undisturbed.** When the clock never strikes and no evaluation raises a
    non-skippable exception: the yielded programs are `es.filter satisfies`, up to and including
    the first answered True. -/
theorem C10_yields_undisturbed {ev : Ev St P I V E} {spec : P → I → Outcome V E} {Inv : St → Prop}
    (hF : Faithful ev spec Inv) (k : Kind) (exs : List (I × V)) (s : Solver P) (st : St) (hst : Inv st)
    (es : List P) (dl as : List Bool) (hdl : ∀ b ∈ dl, b = false)
    (hne : ∀ p ∈ es, ∀ ex ∈ exs, raisedOf (spec p ex.1) = none) :
    (solve (test k ev exs) s st es dl as).yielded = upToAccepted (es.filter (sat spec exs)) as := by
  rw [C10_yields hF k exs s st hst es dl as, C10_horizon_full k spec exs es dl hdl hne, List.take_length]

/-- **C10_never_wrong.** Whatever the answers, the clock, the solver history and the evaluator
    state: every yielded program was enumerated and its evaluation on every example input equals
    the example output. -/
theorem C10_never_wrong {ev : Ev St P I V E} {spec : P → I → Outcome V E} {Inv : St → Prop}
    (hF : Faithful ev spec Inv) (k : Kind) (exs : List (I × V)) (s : Solver P) (st : St) (hst : Inv st)
    (es : List P) (dl as : List Bool) (p : P)
    (hp : p ∈ (solve (test k ev exs) s st es dl as).yielded) :
    p ∈ es ∧ ∀ ex ∈ exs, spec p ex.1 = .value ex.2 := by
  rw [C10_yields hF k exs s st hst es dl as] at hp
  have h := upToAccepted_sublist _ _ p hp
  rw [List.mem_filter] at h
  exact ⟨List.mem_of_mem_take h.1, (C10_sat_iff spec exs p).mp h.2⟩

/-- **C10_never_skips.** A program that satisfies every example and that the solver went past
    (its position is below the final value of the counter `_programs`) was yielded. -/
theorem C10_never_skips {ev : Ev St P I V E} {spec : P → I → Outcome V E} {Inv : St → Prop}
    (hF : Faithful ev spec Inv) (k : Kind) (exs : List (I × V)) (s : Solver P) (st : St) (hst : Inv st)
    (pre : List P) (q : P) (post : List P) (dl as : List Bool)
    (hq : ∀ ex ∈ exs, spec q ex.1 = .value ex.2)
    (hpast : pre.length < (solve (test k ev exs) s st (pre ++ q :: post) dl as).solver.programs) :
    q ∈ (solve (test k ev exs) s st (pre ++ q :: post) dl as).yielded := by
  obtain ⟨hT, hv⟩ := refines_of_faithful hF k exs
  exact never_skips_spec hT hv _ (initTask s) st dl as hst pre q post rfl
    ((C10_sat_iff spec exs q).mpr hq) (by simpa [solve, initTask] using hpast)

/-- **C10_never_skips, exhausted enumeration.** If the generator ends because the enumeration is
    exhausted, *every* satisfying program of the enumeration was yielded (and the statistics are
    left untouched: `_close_task_solving_` is not called on this path). -/
theorem C10_exhausted {ev : Ev St P I V E} {spec : P → I → Outcome V E} {Inv : St → Prop}
    (hF : Faithful ev spec Inv) (k : Kind) (exs : List (I × V)) (s : Solver P) (st : St) (hst : Inv st)
    (es : List P) (dl as : List Bool)
    (hend : (solve (test k ev exs) s st es dl as).status = .finished .exhausted) :
    (solve (test k ev exs) s st es dl as).yielded = es.filter (sat spec exs) ∧
    (solve (test k ev exs) s st es dl as).solver.statsPrograms = s.statsPrograms ∧
    (solve (test k ev exs) s st es dl as).solver.programs = es.length := by
  obtain ⟨hT, hv⟩ := refines_of_faithful hF k exs
  obtain ⟨h1, h2, _, _, h5⟩ := exhausted_spec hT hv es (initTask s) st dl as hst hend
  exact ⟨h1, h2, by simpa [solve, initTask] using h5⟩

/-- **C10_rank.** When a solution is accepted, it is the program at some position `pre.length` of
    the enumeration, every satisfying program before it was yielded (and refused), and
    `get_stats("programs")` grew by `pre.length + 1`, its 1-based rank — whatever the statistics
    accumulated by earlier tasks. -/
theorem C10_rank {ev : Ev St P I V E} {spec : P → I → Outcome V E} {Inv : St → Prop}
    (hF : Faithful ev spec Inv) (k : Kind) (exs : List (I × V)) (s : Solver P) (st : St) (hst : Inv st)
    (es : List P) (dl as : List Bool)
    (hend : (solve (test k ev exs) s st es dl as).status = .finished .accepted) :
    ∃ pre p post, es = pre ++ p :: post ∧ (∀ ex ∈ exs, spec p ex.1 = .value ex.2) ∧
      (solve (test k ev exs) s st es dl as).yielded = pre.filter (sat spec exs) ++ [p] ∧
      (solve (test k ev exs) s st es dl as).solver.statsPrograms = s.statsPrograms + (pre.length + 1) ∧
      (solve (test k ev exs) s st es dl as).solver.statsLast = some p := by
  obtain ⟨hT, hv⟩ := refines_of_faithful hF k exs
  obtain ⟨pre, p, post, he, hp, hy, h1, h2, _, _⟩ := accepted_spec hT hv es (initTask s) st dl as hst hend
  exact ⟨pre, p, post, he, (C10_sat_iff spec exs p).mp hp, hy, by simpa [solve, initTask, Nat.add_assoc] using h1, h2⟩

/-- **C10_timeout.** When the deadline strikes before `es[pre.length]`: what satisfied before was
    yielded, the statistics grew by the number `pre.length` of programs tested. -/
theorem C10_timeout {ev : Ev St P I V E} {spec : P → I → Outcome V E} {Inv : St → Prop}
    (hF : Faithful ev spec Inv) (k : Kind) (exs : List (I × V)) (s : Solver P) (st : St) (hst : Inv st)
    (es : List P) (dl as : List Bool)
    (hend : (solve (test k ev exs) s st es dl as).status = .finished .timeout) :
    ∃ pre p post, es = pre ++ p :: post ∧
      (solve (test k ev exs) s st es dl as).yielded = pre.filter (sat spec exs) ∧
      (solve (test k ev exs) s st es dl as).solver.statsPrograms = s.statsPrograms + pre.length ∧
      (solve (test k ev exs) s st es dl as).solver.statsLast = some p := by
  obtain ⟨hT, hv⟩ := refines_of_faithful hF k exs
  obtain ⟨pre, p, post, he, hy, h1, h2, _⟩ := timeout_spec hT hv es (initTask s) st dl as hst hend
  exact ⟨pre, p, post, he, hy, by simpa [solve, initTask] using h1, h2⟩

/-- **C10_resume.** Let `p` be the first program of the enumeration that passes the test (those of
    `pre` are rejected, the clock does not strike up to `p`).  Then `p` is yielded first, and
      * answering True ends the generator at once (nothing else is yielded, accepted),
      * answering False resumes the search at the next program: what follows is what the
        enumeration `post` gives with the remaining answers and clock,
      * not answering leaves the generator suspended. -/
theorem C10_resume {ev : Ev St P I V E} {spec : P → I → Outcome V E} {Inv : St → Prop}
    (hF : Faithful ev spec Inv) (k : Kind) (exs : List (I × V)) (s : Solver P) (st : St) (hst : Inv st)
    (pre : List P) (p : P) (post : List P) (dl as : List Bool)
    (hpre : ∀ q ∈ pre, verdict k spec exs q = .ok false) (hp : verdict k spec exs p = .ok true)
    (hdl : ∀ b ∈ dl.take (pre.length + 1), b = false) :
    (solve (test k ev exs) s st (pre ++ p :: post) dl (true :: as)).yielded = [p] ∧
    (solve (test k ev exs) s st (pre ++ p :: post) dl (true :: as)).status = .finished .accepted ∧
    (solve (test k ev exs) s st (pre ++ p :: post) dl (false :: as)).yielded =
      p :: specYields (verdict k spec exs) (sat spec exs) post (dl.drop (pre.length + 1)) as ∧
    (solve (test k ev exs) s st (pre ++ p :: post) dl []).yielded = [p] ∧
    (solve (test k ev exs) s st (pre ++ p :: post) dl []).status = .suspended := by
  obtain ⟨hT, hv⟩ := refines_of_faithful hF k exs
  obtain ⟨s', st', h1, _, _, _, _, hinv⟩ := advance_to_yield hT p post hp pre (initTask s) st dl hst hpre hdl
  unfold solve
  rw [h1]
  refine ⟨by simp [drive, send, drive_finished], by simp [drive, send, drive_finished], ?_,
          by simp [drive], by simp [drive]⟩
  simp only [drive, send, Bool.false_eq_true, if_false]
  rw [yields_spec hT hv post s' st' _ as hinv]

/-- **C10_naive_cutoff (tests).** Whenever the naive test reaches a verdict, the cut-off test reaches
    the same verdict; whenever the cut-off test accepts, so does the naive test.  (The scores
    differ; and the naive test, which evaluates every example, may propagate an exception of an
    example the cut-off test never evaluates.) -/
theorem C10_naive_cutoff {ev₁ : Ev St P I V E} {St₂ : Type} {ev₂ : Ev St₂ P I V E}
    {spec : P → I → Outcome V E} {Inv₁ : St → Prop} {Inv₂ : St₂ → Prop}
    (hF₁ : Faithful ev₁ spec Inv₁) (hF₂ : Faithful ev₂ spec Inv₂) (exs : List (I × V))
    (st₁ : St) (st₂ : St₂) (h₁ : Inv₁ st₁) (h₂ : Inv₂ st₂) (p : P) :
    (∀ b, (testNaive ev₁ exs st₁ p).2.map Prod.fst = .ok b → (testCutoff ev₂ exs st₂ p).2.map Prod.fst = .ok b) ∧
    ((testCutoff ev₂ exs st₂ p).2.map Prod.fst = .ok true → (testNaive ev₁ exs st₁ p).2.map Prod.fst = .ok true) := by
  have e1 := (test_refines hF₁ .naive exs st₁ p h₁).2
  have e2 := (test_refines hF₂ .cutoff exs st₂ p h₂).2
  simp only [test] at e1 e2
  rw [e1, e2]
  exact ⟨fun b h => verdict_naive_cutoff spec exs p b h, fun h => verdict_cutoff_naive_true spec exs p h⟩

/-- **C10_naive_cutoff (runs).** If no evaluation of an enumerated program on an example input raises
    a non-skippable exception, a naive and a cut-off solver (each with its own evaluator, in any
    faithful state, with the same statistics) yield the same programs, end in the same way and
    report the same statistics. -/
theorem C10_naive_cutoff_runs {ev₁ : Ev St P I V E} {St₂ : Type} {ev₂ : Ev St₂ P I V E}
    {spec : P → I → Outcome V E} {Inv₁ : St → Prop} {Inv₂ : St₂ → Prop}
    (hF₁ : Faithful ev₁ spec Inv₁) (hF₂ : Faithful ev₂ spec Inv₂) (exs : List (I × V))
    (s : Solver P) (st₁ : St) (st₂ : St₂) (h₁ : Inv₁ st₁) (h₂ : Inv₂ st₂) (es : List P) (dl as : List Bool)
    (hne : ∀ p ∈ es, ∀ ex ∈ exs, raisedOf (spec p ex.1) = none) :
    (solve (test .naive ev₁ exs) s st₁ es dl as).yielded = (solve (test .cutoff ev₂ exs) s st₂ es dl as).yielded ∧
    (solve (test .naive ev₁ exs) s st₁ es dl as).status = (solve (test .cutoff ev₂ exs) s st₂ es dl as).status ∧
    (solve (test .naive ev₁ exs) s st₁ es dl as).solver.statsPrograms =
      (solve (test .cutoff ev₂ exs) s st₂ es dl as).solver.statsPrograms ∧
    (solve (test .naive ev₁ exs) s st₁ es dl as).solver.statsLast =
      (solve (test .cutoff ev₂ exs) s st₂ es dl as).solver.statsLast := by
  have hag : ∀ p ∈ es, verdict .naive spec exs p = verdict .cutoff spec exs p := by
    intro p hp
    cases hv : verdict .naive spec exs p with
    | ok b => exact (verdict_naive_cutoff spec exs p b hv).symm
    | error e =>
      exfalso
      unfold verdict at hv
      simp only at hv
      split at hv
      · next e' hf =>
        obtain ⟨ex, hmem, hr⟩ := List.exists_of_findSome?_eq_some hf
        rw [hne p hp ex hmem] at hr
        cases hr
      · cases hv
  obtain ⟨g1, g2, g3, g4, _, _⟩ :=
    runs_agree (refines_of_faithful hF₁ .naive exs).1 (refines_of_faithful hF₂ .cutoff exs).1 es hag
      (initTask s) (initTask s) st₁ st₂ dl as h₁ h₂ rfl rfl rfl rfl
  exact ⟨g1, g2, g3, g4⟩

/-- **C10_score.** The documented post-condition of `_test_`: the score is a fraction in [0, 1]
    (denominator positive — no division by zero, also on a task without examples), and it is 1
    whenever the test accepts — for both solvers, every evaluator and every evaluator state. -/
theorem C10_score (k : Kind) (ev : Ev St P I V E) (exs : List (I × V)) (st : St) (p : P) (b : Bool) (sc : Score)
    (h : (test k ev exs st p).2 = .ok (b, sc)) :
    0 < sc.den ∧ sc.num ≤ sc.den ∧ (b = true → sc.num = sc.den) := by
  cases k with
  | naive => exact testNaive_score ev exs st p b sc h
  | cutoff => exact testCutoff_score ev exs st p b sc h

/-- **C10_evaluator_state.** A run leaves the evaluator in a faithful state: the next task on the
    same evaluator starts from a state to which all the theorems above apply again. -/
theorem C10_evaluator_state {ev : Ev St P I V E} {spec : P → I → Outcome V E} {Inv : St → Prop}
    (hF : Faithful ev spec Inv) (k : Kind) (exs : List (I × V)) (s : Solver P) (st : St) (hst : Inv st)
    (es : List P) (dl as : List Bool) :
    Inv (solve (test k ev exs) s st es dl as).st :=
  run_inv (refines_of_faithful hF k exs).1 es _ st dl as hst

/-- **C10_session.** After any sequence of tasks (each with its own enumeration, examples, clock and
    answers), `reset_stats()` and `clear_cache()` calls on one solver and one evaluator, the evaluator
    is in a faithful state. -/
theorem C10_session {ev : Ev St P I V E} {spec : P → I → Outcome V E} {Inv : St → Prop}
    (hF : Faithful ev spec Inv) (clear : St → St) (hclear : ∀ st, Inv (clear st)) (k : Kind)
    (ops : List (Op P I V)) (s : Solver P) (st : St) (hst : Inv st) :
    Inv (runSession k ev clear s st ops).2 := by
  induction ops generalizing s st with
  | nil => exact hst
  | cons op rest ih =>
    simp only [runSession]
    apply ih
    cases op with
    | task t => exact C10_evaluator_state hF k t.examples s st hst t.es t.dl t.answers
    | resetStats => exact hst
    | clearCache => exact hclear st

/-! ## B. the real evaluator (property C11 discharges `Faithful`) -/
section dsl
variable {σ : Type} [DecidableEq σ]

/-- the model of `DSLEvaluator.eval` is faithful to the compositional semantics on sound caches -/
theorem dslEv_faithful (S : C11.Sem σ V E) (useCache : Bool) :
    Faithful (dslEv S useCache) (C11.specEval S) (C11.CacheSound S) :=
  ⟨fun c p i hc => by
    have := C11.C11_eval S useCache c p i hc
    exact ⟨this.2, this.1⟩⟩

theorem cacheSound_nil (S : C11.Sem σ V E) : C11.CacheSound S ([] : C11.Cache σ V) := by
  intro i ev hl; simp [AList.lookup] at hl

/-- the cache left by any session (tasks, `reset_stats`, `clear_cache`) started on a fresh evaluator -/
theorem C10_dsl_session_sound (S : C11.Sem σ V E) (useCache : Bool) (k : Kind)
    (ops : List (Op (Tree σ) (List V) V)) (s : Solver (Tree σ)) :
    C11.CacheSound S (runSession k (dslEv S useCache) C11.clearCache s [] ops).2 :=
  C10_session (dslEv_faithful S useCache) C11.clearCache (fun _ => cacheSound_nil S) k ops s []
    (cacheSound_nil S)

/-- **C10 for the real evaluator.** For every DSL semantics (total, partial, higher-order), cache on
    or off, after every earlier session on the same solver and evaluator and every further history
    `h` of direct evaluations / cache clearings: the yielded programs are exactly the programs of
    the enumeration whose *compositional* value on every example input is the example output, in
    order, up to the first one answered True. -/
theorem C10_dsl_yields (S : C11.Sem σ V E) (useCache : Bool) (k : Kind)
    (before : List (Op (Tree σ) (List V) V)) (s₀ : Solver (Tree σ))
    (exs : List (List V × V)) (es : List (Tree σ)) (dl as : List Bool) :
    let r := runSession k (dslEv S useCache) C11.clearCache s₀ [] before
    (solve (test k (dslEv S useCache) exs) r.1 r.2 es dl as).yielded =
      upToAccepted ((es.take (horizon (verdict k (C11.specEval S) exs) es dl)).filter
        (sat (C11.specEval S) exs)) as := by
  intro r
  exact C10_yields (dslEv_faithful S useCache) k exs r.1 r.2
    (C10_dsl_session_sound S useCache k before s₀) es dl as

/-- never wrong / rank, for the real evaluator after any earlier session -/
theorem C10_dsl_never_wrong_and_rank (S : C11.Sem σ V E) (useCache : Bool) (k : Kind)
    (before : List (Op (Tree σ) (List V) V)) (s₀ : Solver (Tree σ))
    (exs : List (List V × V)) (es : List (Tree σ)) (dl as : List Bool) :
    let r := runSession k (dslEv S useCache) C11.clearCache s₀ [] before
    let run := solve (test k (dslEv S useCache) exs) r.1 r.2 es dl as
    (∀ p ∈ run.yielded, p ∈ es ∧ ∀ ex ∈ exs, C11.specEval S p ex.1 = .value ex.2) ∧
    (run.status = .finished .accepted →
      ∃ pre p post, es = pre ++ p :: post ∧ run.yielded.getLast? = some p ∧
        run.solver.statsPrograms = r.1.statsPrograms + (pre.length + 1)) := by
  intro r run
  have hs := C10_dsl_session_sound S useCache k before s₀
  refine ⟨fun p hp => C10_never_wrong (dslEv_faithful S useCache) k exs r.1 r.2 hs es dl as p hp, ?_⟩
  intro hend
  obtain ⟨pre, p, post, he, _, hy, h1, _⟩ := C10_rank (dslEv_faithful S useCache) k exs r.1 r.2 hs es dl as hend
  exact ⟨pre, p, post, he, by rw [hy]; simp, h1⟩

end dsl

/-! ## non-vacuity -/
namespace Example
/-- programs are numbers: 0 ↦ `1`, 1 ↦ `var0`, 2 ↦ `var0 + 1`, 3 ↦ `1 / var0` (skippable failure at 0),
    4 ↦ `1 + var0`, 5 ↦ raises a non-skippable exception on input 1 -/
def spec : Nat → Int → Outcome Int String
  | 0, _ => .value 1
  | 1, i => .value i
  | 2, i => .value (i + 1)
  | 3, i => if i = 0 then .skipped else .value (1 / i)
  | 4, i => .value (1 + i)
  | 5, i => if i = 1 then .raised "TypeError" else .value 1
  | _, _ => .skipped
def exs : List (Int × Int) := [(0, 1), (1, 2)]
def run (k : Kind) (es : List Nat) (dl as : List Bool) := solve (test k (pureEv spec) exs) Solver.init () es dl as

-- reject, failing primitive in between, resume after False, accept the second solution: rank 5
example : (run .naive [0, 1, 2, 3, 4, 2] [] [false, true]).yielded = [2, 4] := by decide
example : (run .cutoff [0, 1, 2, 3, 4, 2] [] [false, true]).status = .finished .accepted := by decide
example : (run .cutoff [0, 1, 2, 3, 4, 2] [] [false, true]).solver.statsPrograms = 5 := by decide
-- exhausted: every solution yielded, statistics untouched
example : (run .naive [0, 2, 4] [] [false, false]).yielded = [2, 4] ∧
    (run .naive [0, 2, 4] [] [false, false]).status = .finished .exhausted ∧
    (run .naive [0, 2, 4] [] [false, false]).solver.statsPrograms = 0 := by decide
-- deadline before the third program; caller stops answering
example : (run .naive [0, 2, 4] [false, false, true] [false]).status = .finished .timeout := by decide
example : (run .naive [0, 2, 4] [] []).status = .suspended := by decide
-- hypotheses of C10_resume are satisfiable
example : (∀ q ∈ [0, 1], verdict .cutoff spec exs q = .ok false) ∧ verdict .cutoff spec exs 2 = .ok true :=
  ⟨by intro q hq; simp at hq; rcases hq with rfl | rfl <;> rfl, rfl⟩
-- an escaping exception: program 5 passes example (0,1), then raises on input 1 — for both tests;
-- on examples where the first one already fails, only the naive test raises (why the run-level
-- agreement needs its hypothesis)
example : verdict .naive spec [(0, 7), (1, 2)] 5 = .error "TypeError" ∧
          verdict .cutoff spec [(0, 7), (1, 2)] 5 = .ok false := ⟨rfl, rfl⟩
-- hypothesis of C10_naive_cutoff_runs / C10_yields_undisturbed (no escaping exception) on a non-trivial enumeration
example : ∀ p ∈ [0, 1, 2, 3, 4], ∀ ex ∈ exs, raisedOf (spec p ex.1) = none := by decide
-- hypothesis of C10_never_skips: the counter went past position 1 (program 2, a solution)
example : [0].length < (run .naive ([0] ++ 2 :: [4]) [] [false, false]).solver.programs := by decide
-- statistics accumulate over tasks: a second task on the same solver, accepted at rank 2, after 5 programs
example : (solve (test .cutoff (pureEv spec) exs) (run .cutoff [0, 1, 2, 3, 4, 2] [] [false, true]).solver ()
    [1, 4] [] [true]).solver.statsPrograms = 5 + 2 := by decide
-- scores: program 0 passes one of two examples: naive 1/2; cut-off 1/2 as well (stopped at the second)
example : (test .naive (pureEv spec) exs () 0).2 = .ok (false, ⟨1, 2⟩) := rfl
example : (test .cutoff (pureEv spec) exs () 1).2 = .ok (false, ⟨0, 2⟩) := rfl
-- a task without examples: every program is a solution, for both solvers (C10-F1 repaired)
example : (solve (test .naive (pureEv spec) []) Solver.init () [0, 3] [] [false, false]).yielded = [0, 3] := by decide

/-- the real evaluator (C11 model) over the C11 example semantics: `(div 1 var0)` fails on 0 -/
def S := C11.Example.S
example : (solve (test .naive (dslEv S true) [([0], 7)]) Solver.init [] [C11.Example.divp, C11.Example.big] [] [true]).yielded
    = [] := by decide
example : (solve (test .cutoff (dslEv S true) [([2], 7)]) Solver.init [] [C11.Example.divp, C11.Example.big] [] [true]).yielded
    = [C11.Example.big] := by decide
end Example

/-! ## restart solver -/
/-
  RestartPBESolver (synth/pbe/solvers/restart_pbe_solver.py) over MetaPBESolver
  (pbe_solver.py:132-190); model: PS/Model/SolverRestart.lean, lemmas: PS/Proofs/SolverRestart*.lean.
  Quantification: every enumerator interface (`prm.stream`: finite or infinite streams), every restart
  criterion (any Bool function of the solver object), every restart function (enumerator × `_data` →
  enumerator), both sub-solvers, every faithful evaluator, every task, answer stream, clock, prior
  state `s` of the solver object, and every amount `fuel` of loop iterations (the real loop need not
  terminate).  `segProgs prm k spec exs fuel s en` is the SEGMENTED enumeration: segment i is the
  prefix of the i-th enumerator's stream consumed before the (i+1)-th restart (`C10_restart_segments`).
  Switches `prm.fixNext` / `prm.fixStats`: the proposed repairs C10-F2 / C10-F3 (false = the code as it is).
-/
section restart
variable {En : Type}

/-- **C10_restart_refines.** The restart solver behaves as the plain solver (section A) run on the
    segmented enumeration: same yielded programs, corresponding end (`toBase`: the end of the
    segmented enumeration — StopIteration, normal end after the repair, or fuel used up — is the plain
    solver's "exhausted"), same counter `_programs`, same evaluator state. -/
theorem C10_restart_refines {ev : Ev St P I V E} {spec : P → I → Outcome V E} {Inv : St → Prop}
    (hF : Faithful ev spec Inv) (prm : Params En P) (k : Kind) (exs : List (I × V)) (fuel : Nat)
    (s : RSolver P) (st : St) (hst : Inv st) (en : En) (dl as : List Bool) (bs : Solver P) :
    (solveR prm (test k ev exs) fuel s st en dl as).yielded =
      (solve (test k ev exs) bs st (segProgs prm k spec exs fuel s en) dl as).yielded ∧
    (solveR prm (test k ev exs) fuel s st en dl as).status.toBase =
      (solve (test k ev exs) bs st (segProgs prm k spec exs fuel s en) dl as).status ∧
    (solveR prm (test k ev exs) fuel s st en dl as).solver.self.programs =
      (solve (test k ev exs) bs st (segProgs prm k spec exs fuel s en) dl as).solver.programs ∧
    (solveR prm (test k ev exs) fuel s st en dl as).st =
      (solve (test k ev exs) bs st (segProgs prm k spec exs fuel s en) dl as).st :=
  sim (refinesS_of_faithful hF k exs) fuel (initTaskR s) st en 0 dl as (initTask bs) hst rfl

/-- **C10_restart_yields.** The programs yielded are exactly, in order, the programs of the segmented
    enumeration that satisfy every example — among those consumed before an outside event (deadline,
    escaping exception) — up to and including the first one answered True. -/
theorem C10_restart_yields {ev : Ev St P I V E} {spec : P → I → Outcome V E} {Inv : St → Prop}
    (hF : Faithful ev spec Inv) (prm : Params En P) (k : Kind) (exs : List (I × V)) (fuel : Nat)
    (s : RSolver P) (st : St) (hst : Inv st) (en : En) (dl as : List Bool) :
    (solveR prm (test k ev exs) fuel s st en dl as).yielded =
      upToAccepted (((segProgs prm k spec exs fuel s en).take
        (horizon (verdict k spec exs) (segProgs prm k spec exs fuel s en) dl)).filter (sat spec exs)) as := by
  rw [(C10_restart_refines hF prm k exs fuel s st hst en dl as Solver.init).1]
  exact C10_yields hF k exs Solver.init st hst _ dl as

/-- **C10_restart_never_wrong.** Every yielded program was produced by one of the enumerators (it is
    an entry of the segmented enumeration, at its position of its enumerator's stream) and its
    evaluation on every example input equals the example output. -/
theorem C10_restart_never_wrong {ev : Ev St P I V E} {spec : P → I → Outcome V E} {Inv : St → Prop}
    (hF : Faithful ev spec Inv) (prm : Params En P) (k : Kind) (exs : List (I × V)) (fuel : Nat)
    (s : RSolver P) (st : St) (hst : Inv st) (en : En) (dl as : List Bool) (p : P)
    (hp : p ∈ (solveR prm (test k ev exs) fuel s st en dl as).yielded) :
    (∃ e ∈ segOf prm k spec exs fuel s en, e.p = p ∧ prm.stream e.en e.pos = some p) ∧
    ∀ ex ∈ exs, spec p ex.1 = .value ex.2 := by
  rw [(C10_restart_refines hF prm k exs fuel s st hst en dl as Solver.init).1] at hp
  obtain ⟨h1, h2⟩ := C10_never_wrong hF k exs Solver.init st hst _ dl as p hp
  refine ⟨?_, h2⟩
  obtain ⟨e, he, hep⟩ := List.mem_map.mp h1
  obtain ⟨pre, post, hsplit⟩ := List.append_of_mem he
  obtain ⟨g1, _⟩ := segRun_entry fuel (initTaskR s) en 0 pre e post hsplit
  exact ⟨e, he, hep, by rw [← hep]; exact g1⟩

/-- **C10_restart_never_skips.** A program of the segmented enumeration that satisfies every example
    and that the solver went past (its position is below the final value of `_programs`) was yielded. -/
theorem C10_restart_never_skips {ev : Ev St P I V E} {spec : P → I → Outcome V E} {Inv : St → Prop}
    (hF : Faithful ev spec Inv) (prm : Params En P) (k : Kind) (exs : List (I × V)) (fuel : Nat)
    (s : RSolver P) (st : St) (hst : Inv st) (en : En) (dl as : List Bool)
    (pre : List P) (q : P) (post : List P) (hseg : segProgs prm k spec exs fuel s en = pre ++ q :: post)
    (hq : ∀ ex ∈ exs, spec q ex.1 = .value ex.2)
    (hpast : pre.length < (solveR prm (test k ev exs) fuel s st en dl as).solver.self.programs) :
    q ∈ (solveR prm (test k ev exs) fuel s st en dl as).yielded := by
  obtain ⟨h1, _, h3, _⟩ := C10_restart_refines hF prm k exs fuel s st hst en dl as Solver.init
  rw [h1]
  rw [h3] at hpast
  rw [hseg] at hpast ⊢
  exact C10_never_skips hF k exs Solver.init st hst pre q post dl as hq hpast

/-- **C10_restart_exhausted.** If the generator ends because the current enumerator's stream ended
    (normally after the repair C10-F2, with StopIteration → RuntimeError as the code is), every
    satisfying program of the segmented enumeration was yielded, and the statistics are untouched
    (`_close_task_solving_` is not called on this path, as for the plain solver). -/
theorem C10_restart_exhausted {ev : Ev St P I V E} {spec : P → I → Outcome V E} {Inv : St → Prop}
    (hF : Faithful ev spec Inv) (prm : Params En P) (k : Kind) (exs : List (I × V)) (fuel : Nat)
    (s : RSolver P) (st : St) (hst : Inv st) (en : En) (dl as : List Bool)
    (hend : (solveR prm (test k ev exs) fuel s st en dl as).status = .finished .exhausted ∨
            (solveR prm (test k ev exs) fuel s st en dl as).status = .finished .stopIteration) :
    (solveR prm (test k ev exs) fuel s st en dl as).yielded =
      (segProgs prm k spec exs fuel s en).filter (sat spec exs) ∧
    (solveR prm (test k ev exs) fuel s st en dl as).solver.self.statsPrograms = s.self.statsPrograms ∧
    (solveR prm (test k ev exs) fuel s st en dl as).solver.statsRestarts = s.statsRestarts ∧
    (solveR prm (test k ev exs) fuel s st en dl as).solver.self.programs =
      (segProgs prm k spec exs fuel s en).length := by
  obtain ⟨h1, h2, h3, _⟩ := C10_restart_refines hF prm k exs fuel s st hst en dl as Solver.init
  have hb : (solve (test k ev exs) Solver.init st (segProgs prm k spec exs fuel s en) dl as).status
      = .finished .exhausted := by
    rw [← h2]; rcases hend with h | h <;> rw [h] <;> rfl
  obtain ⟨g1, _, g3⟩ := C10_exhausted hF k exs Solver.init st hst _ dl as hb
  have hfr : Frame (initTaskR s) (solveR prm (test k ev exs) fuel s st en dl as).solver := by
    apply unclosed_frame <;> (rcases hend with h | h <;> rw [solveR] at h <;> rw [h] <;> simp)
  exact ⟨by rw [h1, g1], hfr.selfStatsPrograms, hfr.statsRestarts, by rw [h3, g3]⟩

/-- **C10_restart_ends_normally_partial.** Full statement (violated by the code as it is, finding
    C10-F2): *a run never ends with an exception that no evaluation raised*.  Proved under the
    decidable hypothesis "the repair `next(gen, None)` is in place"; without it the end of an
    enumerator's stream is a `StopIteration` inside the generator, i.e. a RuntimeError
    (`finding_C10_restart_stop_iteration` below). -/
theorem C10_restart_ends_normally_partial (prm : Params En P) (T : St → P → St × Except E (Bool × Score))
    (hfix : prm.fixNext = true) (fuel : Nat) (s : RSolver P) (st : St) (en : En) (dl as : List Bool) :
    (solveR prm T fuel s st en dl as).status ≠ .finished .stopIteration := by
  intro h
  have := (end_of_stream (prm := prm) (T := T) fuel (initTaskR s) st en 0 dl as).2 h
  rw [hfix] at this; cases this

/-- … and as the code is, a run never ends *normally* at the end of a stream -/
theorem C10_restart_never_exhausted_unrepaired (prm : Params En P) (T : St → P → St × Except E (Bool × Score))
    (hfix : prm.fixNext = false) (fuel : Nat) (s : RSolver P) (st : St) (en : En) (dl as : List Bool) :
    (solveR prm T fuel s st en dl as).status ≠ .finished .exhausted := by
  intro h
  have := (end_of_stream (prm := prm) (T := T) fuel (initTaskR s) st en 0 dl as).1 h
  rw [hfix] at this; cases this

/-- **C10_restart_rank.** When a solution is accepted, it is the program of an entry `e` of the
    segmented enumeration, at rank `pre.length + 1`; every satisfying program before it was yielded
    (and refused); the task is closed: `get_stats("programs")` is `statsBase + rank` — where
    `statsBase` is the meta solver's previous value after the repair C10-F3 and the *sub-solver's*
    value as the code is —, `get_stats("restarts")` grew by the number of restarts (segments started
    after the first entry), 'program_probability' is that of the accepted program. -/
theorem C10_restart_rank {ev : Ev St P I V E} {spec : P → I → Outcome V E} {Inv : St → Prop}
    (hF : Faithful ev spec Inv) (prm : Params En P) (k : Kind) (exs : List (I × V)) (fuel : Nat)
    (s : RSolver P) (st : St) (hst : Inv st) (en : En) (dl as : List Bool)
    (hend : (solveR prm (test k ev exs) fuel s st en dl as).status = .finished .accepted) :
    ∃ pre e post, segOf prm k spec exs fuel s en = pre ++ e :: post ∧
      (∀ ex ∈ exs, spec e.p ex.1 = .value ex.2) ∧
      (solveR prm (test k ev exs) fuel s st en dl as).yielded = (pre.map (·.p)).filter (sat spec exs) ++ [e.p] ∧
      (solveR prm (test k ev exs) fuel s st en dl as).solver.self.statsPrograms =
        statsBase prm.fixStats (initTaskR s) + (pre.length + 1) ∧
      (solveR prm (test k ev exs) fuel s st en dl as).solver.statsRestarts =
        s.statsRestarts + starts (pre ++ [e]).tail ∧
      (solveR prm (test k ev exs) fuel s st en dl as).solver.self.statsLast = some e.p := by
  have hT := refinesS_of_faithful hF k exs
  obtain ⟨pre, e, post, sc, hsplit, hte, hsol⟩ :=
    accepted_specR (prm := prm) hT fuel (initTaskR s) st en 0 dl as hst hend
  obtain ⟨_, g2, _, g4, g5⟩ := segRun_entry fuel (initTaskR s) en 0 pre e post hsplit
  -- the plain solver on the segmented enumeration accepts the same program
  obtain ⟨h1, h2, h3, _⟩ := C10_restart_refines hF prm k exs fuel s st hst en dl as Solver.init
  have hb : (solve (test k ev exs) Solver.init st (segProgs prm k spec exs fuel s en) dl as).status
      = .finished .accepted := by rw [← h2, hend]; rfl
  obtain ⟨pre', p', post', he', hp', hy', hs', _⟩ := C10_rank hF k exs Solver.init st hst _ dl as hb
  have hprog : (solveR prm (test k ev exs) fuel s st en dl as).solver.self.programs = pre.length + 1 := by
    rw [solveR, hsol, closeR_programs]; simp [testedS, countedS, g2, initTaskR, initTask]
  have hprog' : (solve (test k ev exs) Solver.init st (segProgs prm k spec exs fuel s en) dl as).solver.programs
      = pre'.length + 1 := by
    have := (base_stats (T := test k ev exs) (segProgs prm k spec exs fuel s en) (initTask Solver.init) st dl as).1
      (Or.inl hb)
    simp only [solve] at hs' this ⊢
    rw [hs'] at this
    simp [initTask, Solver.init] at this ⊢
    omega
  have hlen : pre'.length = pre.length := by rw [h3, hprog'] at hprog; omega
  have hes : segProgs prm k spec exs fuel s en = pre.map (·.p) ++ e.p :: post.map (·.p) := by
    simp [segProgs, segOf, hsplit]
  rw [hes] at he'
  obtain ⟨q1, q2⟩ := List.append_inj he' (by simp [hlen])
  simp only [List.cons.injEq] at q2
  refine ⟨pre, e, post, hsplit, ?_, ?_, ?_, ?_, ?_⟩
  · rw [q2.1]; exact hp'
  · rw [h1, hy', q1, q2.1]
  · rw [solveR, hsol, closeR_statsPrograms, statsBase_frame (g5.trans (frame_testedS e.s sc))]
    simp [testedS, countedS, g2, initTaskR, initTask]
  · rw [solveR, hsol, closeR_statsRestarts]
    simp [testedS, countedS, g4, g5.statsRestarts, initTaskR]
  · rw [solveR, hsol]; exact (closeR_statsLast _ _ _).1

set_option linter.unusedSimpArgs false in
/-- **C10_restart_rank_partial.** Full statement (violated by the code as it is, finding C10-F3):
    *on acceptance `get_stats("programs")` grew by the rank of the accepted program in the segmented
    enumeration, whatever the statistics accumulated by earlier tasks*.  Proved under the decidable
    hypothesis that the repair C10-F3 is in place or that the meta solver's and the sub-solver's
    counts agree before the task (in a session: no task was closed since the construction of the
    solver or the last `reset_stats`, see `C10_restart_session_sub`); witness of the violation:
    `finding_C10_restart_stats_not_cumulative`. -/
theorem C10_restart_rank_partial {ev : Ev St P I V E} {spec : P → I → Outcome V E} {Inv : St → Prop}
    (hF : Faithful ev spec Inv) (prm : Params En P) (k : Kind) (exs : List (I × V)) (fuel : Nat)
    (s : RSolver P) (st : St) (hst : Inv st) (en : En) (dl as : List Bool)
    (hyp : prm.fixStats = true ∨ s.self.statsPrograms = s.sub.statsPrograms)
    (hend : (solveR prm (test k ev exs) fuel s st en dl as).status = .finished .accepted) :
    ∃ pre e post, segOf prm k spec exs fuel s en = pre ++ e :: post ∧
      (solveR prm (test k ev exs) fuel s st en dl as).solver.self.statsPrograms =
        s.self.statsPrograms + (pre.length + 1) ∧
      (solveR prm (test k ev exs) fuel s st en dl as).solver.statsRestarts =
        s.statsRestarts + starts (pre ++ [e]).tail := by
  obtain ⟨pre, e, post, h1, _, _, h4, h5, _⟩ := C10_restart_rank hF prm k exs fuel s st hst en dl as hend
  refine ⟨pre, e, post, h1, ?_, h5⟩
  rw [h4]
  rcases hyp with h | h
  · simp [statsBase, h, initTaskR, initTask]
  · cases hfx : prm.fixStats <;> simp [statsBase, hfx, h, initTaskR, initTask]

/-- **C10_restart_timeout.** When the deadline strikes before the entry `e` of the segmented
    enumeration is tested: what satisfied before was yielded, the task is closed with
    `get_stats("programs") = statsBase + number of programs tested`, 'restarts' grew by the number
    of restarts. -/
theorem C10_restart_timeout {ev : Ev St P I V E} {spec : P → I → Outcome V E} {Inv : St → Prop}
    (hF : Faithful ev spec Inv) (prm : Params En P) (k : Kind) (exs : List (I × V)) (fuel : Nat)
    (s : RSolver P) (st : St) (hst : Inv st) (en : En) (dl as : List Bool)
    (hend : (solveR prm (test k ev exs) fuel s st en dl as).status = .finished .timeout) :
    ∃ pre e post, segOf prm k spec exs fuel s en = pre ++ e :: post ∧
      (solveR prm (test k ev exs) fuel s st en dl as).yielded = (pre.map (·.p)).filter (sat spec exs) ∧
      (solveR prm (test k ev exs) fuel s st en dl as).solver.self.statsPrograms =
        statsBase prm.fixStats (initTaskR s) + pre.length ∧
      (solveR prm (test k ev exs) fuel s st en dl as).solver.statsRestarts =
        s.statsRestarts + starts (pre ++ [e]).tail ∧
      (solveR prm (test k ev exs) fuel s st en dl as).solver.self.statsLast = some e.p := by
  have hT := refinesS_of_faithful hF k exs
  obtain ⟨pre, e, post, hsplit, hsol⟩ :=
    timeout_specR (prm := prm) hT fuel (initTaskR s) st en 0 dl as hst hend
  obtain ⟨_, g2, _, g4, g5⟩ := segRun_entry fuel (initTaskR s) en 0 pre e post hsplit
  obtain ⟨h1, h2, h3, _⟩ := C10_restart_refines hF prm k exs fuel s st hst en dl as Solver.init
  have hb : (solve (test k ev exs) Solver.init st (segProgs prm k spec exs fuel s en) dl as).status
      = .finished .timeout := by rw [← h2, hend]; rfl
  obtain ⟨pre', p', post', he', hy', hs', _⟩ := C10_timeout hF k exs Solver.init st hst _ dl as hb
  have hprog : (solveR prm (test k ev exs) fuel s st en dl as).solver.self.programs = pre.length := by
    rw [solveR, hsol, closeR_programs]; simp [g2, initTaskR, initTask]
  have hprog' : (solve (test k ev exs) Solver.init st (segProgs prm k spec exs fuel s en) dl as).solver.programs
      = pre'.length := by
    have := (base_stats (T := test k ev exs) (segProgs prm k spec exs fuel s en) (initTask Solver.init) st dl as).1
      (Or.inr hb)
    simp only [solve] at hs' this ⊢
    rw [hs'] at this
    simp [initTask, Solver.init] at this ⊢
    omega
  have hlen : pre'.length = pre.length := by rw [h3, hprog'] at hprog; omega
  have hes : segProgs prm k spec exs fuel s en = pre.map (·.p) ++ e.p :: post.map (·.p) := by
    simp [segProgs, segOf, hsplit]
  rw [hes] at he'
  obtain ⟨q1, _⟩ := List.append_inj he' (by simp [hlen])
  refine ⟨pre, e, post, hsplit, by rw [h1, hy', q1], ?_, ?_, ?_⟩
  · rw [solveR, hsol, closeR_statsPrograms, statsBase_frame g5]
    simp [g2, initTaskR, initTask]
  · rw [solveR, hsol, closeR_statsRestarts]
    simp [g4, g5.statsRestarts, initTaskR]
  · rw [solveR, hsol]; exact (closeR_statsLast _ _ _).1

/-- **C10_restart_resume.** Let `p` be the first program of the segmented enumeration that passes the
    test (those of `pre` are rejected, the clock does not strike up to `p`).  Then `p` is yielded first, and
      * answering True ends the generator at once (accepted; `C10_restart_rank`: the task is closed),
      * answering False resumes the search at the next program *of the segmented enumeration* — the
        next program of the current enumerator, or the first program of the restarted one —: what
        follows is what `post` gives with the remaining answers and clock,
      * not answering leaves the generator suspended. -/
theorem C10_restart_resume {ev : Ev St P I V E} {spec : P → I → Outcome V E} {Inv : St → Prop}
    (hF : Faithful ev spec Inv) (prm : Params En P) (k : Kind) (exs : List (I × V)) (fuel : Nat)
    (s : RSolver P) (st : St) (hst : Inv st) (en : En) (dl as : List Bool)
    (pre : List P) (p : P) (post : List P) (hseg : segProgs prm k spec exs fuel s en = pre ++ p :: post)
    (hpre : ∀ q ∈ pre, verdict k spec exs q = .ok false) (hp : verdict k spec exs p = .ok true)
    (hdl : ∀ b ∈ dl.take (pre.length + 1), b = false) :
    (solveR prm (test k ev exs) fuel s st en dl (true :: as)).yielded = [p] ∧
    (solveR prm (test k ev exs) fuel s st en dl (true :: as)).status = .finished .accepted ∧
    (solveR prm (test k ev exs) fuel s st en dl (false :: as)).yielded =
      p :: specYields (verdict k spec exs) (sat spec exs) post (dl.drop (pre.length + 1)) as ∧
    (solveR prm (test k ev exs) fuel s st en dl []).yielded = [p] ∧
    (solveR prm (test k ev exs) fuel s st en dl []).status = .suspended := by
  obtain ⟨b1, b2, b3, b4, b5⟩ := C10_resume hF k exs Solver.init st hst pre p post dl as hpre hp hdl
  obtain ⟨t1, t2, _, _⟩ := C10_restart_refines hF prm k exs fuel s st hst en dl (true :: as) Solver.init
  obtain ⟨f1, _, _, _⟩ := C10_restart_refines hF prm k exs fuel s st hst en dl (false :: as) Solver.init
  obtain ⟨n1, n2, _, _⟩ := C10_restart_refines hF prm k exs fuel s st hst en dl [] Solver.init
  rw [hseg] at t1 t2 f1 n1 n2
  exact ⟨by rw [t1, b1], toBase_accepted (by rw [t2, b2]), by rw [f1, b3], by rw [n1, b4],
    toBase_suspended (by rw [n2, b5])⟩

/-- **C10_restart_segments.** What the segmented enumeration is.  (1) Its first entry is the first
    program of the given enumerator.  (2) Every entry is the program at its position of its
    enumerator's stream, and the solver object then holds: `_programs` = number of entries before,
    `_data` = the earlier programs of positive score with their scores, in order.  (3) After an entry
    `a` the next entry `b` is the next program of the same enumerator when the criterion — evaluated on
    the solver object after the bookkeeping for `a` — does not fire; when it fires, `b` is the first
    program of the enumerator `restart a.en _data`, `_restarts` is one more and `_last_size` is
    `len(_data)`. -/
theorem C10_restart_segments [DecidableEq V] (prm : Params En P) (k : Kind) (spec : P → I → Outcome V E)
    (exs : List (I × V)) (fuel : Nat) (s : RSolver P) (en : En) :
    (∀ e post, segOf prm k spec exs fuel s en = e :: post → e.en = en ∧ e.pos = 0) ∧
    (∀ pre e post, segOf prm k spec exs fuel s en = pre ++ e :: post →
      prm.stream e.en e.pos = some e.p ∧ e.s.self.programs = pre.length ∧
      e.s.data = dataOf (pureTest k spec exs) (pre.map (·.p))) ∧
    (∀ pre a b post, segOf prm k spec exs fuel s en = pre ++ a :: b :: post →
      ∃ s2 : RSolver P,
        s2.data = dataOf (pureTest k spec exs) ((pre ++ [a]).map (·.p)) ∧ s2.restarts = a.s.restarts ∧
        s2.lastSize = a.s.lastSize ∧ s2.self.programs = pre.length + 1 ∧
        ((prm.criterion s2 = false ∧ b.en = a.en ∧ b.pos = a.pos + 1 ∧ b.s.restarts = a.s.restarts ∧
            b.s.lastSize = a.s.lastSize) ∨
         (prm.criterion s2 = true ∧ b.en = prm.restart a.en s2.data ∧ b.pos = 0 ∧
            b.s.restarts = a.s.restarts + 1 ∧ b.s.lastSize = s2.data.length))) := by
  refine ⟨?_, ?_, ?_⟩
  · intro e post h
    obtain ⟨_, h2, h3, _⟩ := segRun_head h
    exact ⟨h2, h3⟩
  · intro pre e post h
    obtain ⟨g1, g2, g3, _, _⟩ := segRun_entry fuel (initTaskR s) en 0 pre e post h
    exact ⟨g1, by simpa [initTaskR, initTask] using g2, by simpa [initTaskR] using g3⟩
  · intro pre a b post h
    obtain ⟨ok, sc, hta, hb⟩ := segRun_next fuel (initTaskR s) en 0 pre a b post h
    obtain ⟨_, g2, g3, _, _⟩ := segRun_entry fuel (initTaskR s) en 0 pre a (b :: post) h
    obtain ⟨s2, q1, _, _, q4, q5, q6, hc⟩ := afterTest_cases prm (testedS a.s sc) a.p a.en (a.pos + 1)
    refine ⟨s2, ?_, q4, q5, ?_, ?_⟩
    · rw [q6]
      simp only [testedS, countedS, g3, initTaskR, List.nil_append, List.map_append, List.map_cons, List.map_nil]
      simp only [dataOf, List.filterMap_append, List.filterMap_cons, List.filterMap_nil, hta]
      by_cases hp : 0 < sc.num <;> simp [hp]
    · rw [q1]; simp [testedS, countedS, g2, initTaskR, initTask]
    · rcases hc with ⟨c1, c2⟩ | ⟨c1, c2⟩
      · rw [c2] at hb
        simp only [Prod.mk.injEq] at hb
        obtain ⟨e1, e2, e3⟩ := hb
        exact Or.inl ⟨c1, e2, e3, by rw [e1, q4]; rfl, by rw [e1, q5]; rfl⟩
      · rw [c2] at hb
        simp only [Prod.mk.injEq] at hb
        obtain ⟨e1, e2, e3⟩ := hb
        exact Or.inr ⟨c1, e2, e3, by rw [e1]; simp [q4, testedS, countedS], by rw [e1]⟩

/-- **C10_restart_no_restart.** With a criterion that never fires, on an enumerator whose stream is
    the list `es`, given more fuel than `es` has programs, the restart solver behaves exactly like
    its sub-solver on `es` (section A): same yielded programs, same end (the end of `es` being
    StopIteration as the code is, a normal end after the repair C10-F2; never out of fuel), same
    counter, same evaluator state, no restart, and the same `get_stats("programs")` whenever the meta
    solver's count equals `statsBase` before the task (always, after the repair C10-F3). -/
theorem C10_restart_no_restart {ev : Ev St P I V E} {spec : P → I → Outcome V E} {Inv : St → Prop}
    (hF : Faithful ev spec Inv) (prm : Params En P) (k : Kind) (exs : List (I × V)) (fuel : Nat)
    (s : RSolver P) (st : St) (hst : Inv st) (en : En) (dl as : List Bool)
    (hc : ∀ s, prm.criterion s = false) (es : List P) (hs : ∀ i, prm.stream en i = es[i]?)
    (hfuel : es.length < fuel) :
    (solveR prm (test k ev exs) fuel s st en dl as).yielded = (solve (test k ev exs) s.self st es dl as).yielded ∧
    (solveR prm (test k ev exs) fuel s st en dl as).status.toBase = (solve (test k ev exs) s.self st es dl as).status ∧
    (solveR prm (test k ev exs) fuel s st en dl as).status ≠ .outOfFuel ∧
    (solveR prm (test k ev exs) fuel s st en dl as).solver.self.programs =
      (solve (test k ev exs) s.self st es dl as).solver.programs ∧
    (solveR prm (test k ev exs) fuel s st en dl as).st = (solve (test k ev exs) s.self st es dl as).st ∧
    (solveR prm (test k ev exs) fuel s st en dl as).solver.restarts = 0 ∧
    (statsBase prm.fixStats (initTaskR s) = s.self.statsPrograms →
      (solveR prm (test k ev exs) fuel s st en dl as).solver.self.statsPrograms =
        (solve (test k ev exs) s.self st es dl as).solver.statsPrograms) := by
  have hT := refinesS_of_faithful hF k exs
  have hseg : segProgs prm k spec exs fuel s en = cutAtError (pureTest k spec exs) es := by
    have := segEnum_no_restart_cut (tp := pureTest k spec exs) hc en es hs fuel (initTaskR s) 0
    simp only [segEnum, List.drop_zero] at this
    rw [segProgs, segOf, this, List.take_of_length_le (by omega)]
  obtain ⟨h1, h2, h3, h4⟩ := C10_restart_refines hF prm k exs fuel s st hst en dl as s.self
  have hcut : solve (test k ev exs) s.self st (segProgs prm k spec exs fuel s en) dl as =
      solve (test k ev exs) s.self st es dl as := by
    rw [hseg]; exact base_cut hT es _ st dl as hst
  rw [hcut] at h1 h2 h3 h4
  have hclosed : ((solveR prm (test k ev exs) fuel s st en dl as).status = .finished .accepted ∨
      (solveR prm (test k ev exs) fuel s st en dl as).status = .finished .timeout) ↔
      ((solve (test k ev exs) s.self st es dl as).status = .finished .accepted ∨
       (solve (test k ev exs) s.self st es dl as).status = .finished .timeout) := by
    rw [← h2]
    constructor
    · rintro (h | h) <;> rw [h] <;> simp [RStatus.toBase]
    · rintro (h | h)
      · exact Or.inl (toBase_accepted h)
      · exact Or.inr (toBase_timeout h)
  refine ⟨h1, h2, ?_, h3, h4, ?_, ?_⟩
  · intro hout
    have hl := outOfFuel_length (prm := prm) hT fuel (initTaskR s) st en 0 dl as hst hout
    have hle : (segProgs prm k spec exs fuel s en).length ≤ es.length := by
      rw [hseg]
      clear hseg hcut h1 h2 h3 h4 hclosed hs hfuel hl
      induction es with
      | nil => simp [cutAtError]
      | cons p rest ih =>
        simp only [cutAtError]
        split <;> simp <;> omega
    simp only [segProgs, segOf, List.length_map] at hle
    omega
  · rw [solveR, no_restart_restarts hc]; rfl
  · intro hbase
    by_cases hcl : (solveR prm (test k ev exs) fuel s st en dl as).status = .finished .accepted ∨
        (solveR prm (test k ev exs) fuel s st en dl as).status = .finished .timeout
    · have r1 := r_stats (prm := prm) (T := test k ev exs) fuel (initTaskR s) st en 0 dl as hcl
      have b1 := (base_stats (T := test k ev exs) es (initTask s.self) st dl as).1 (hclosed.mp hcl)
      simp only [solve, solveR] at r1 b1 h3 ⊢
      rw [r1, b1, hbase, h3]; rfl
    · have hfr : Frame (initTaskR s) (solveR prm (test k ev exs) fuel s st en dl as).solver := by
        apply unclosed_frame
        · intro h; exact hcl (Or.inl h)
        · intro h; exact hcl (Or.inr h)
      have b1 := (base_stats (T := test k ev exs) es (initTask s.self) st dl as).2 (fun h => hcl (hclosed.mpr h))
      simp only [solve] at b1 ⊢
      rw [hfr.selfStatsPrograms, b1]; rfl

/-- **C10_restart_fuel.** The fuel of the model restricts nothing: a run that ends within its fuel
    (accepted, deadline, end of a stream, exception, or left suspended by the caller) is the same —
    yielded programs, end, solver object, evaluator state — with any larger amount of fuel.
    (A run that uses up every amount of fuel is a `solve` that never returns: a criterion that fires
    before a new program is reached re-enumerates the same programs for ever.) -/
theorem C10_restart_fuel (prm : Params En P) (T : St → P → St × Except E (Bool × Score)) (fuel k : Nat)
    (s : RSolver P) (st : St) (en : En) (dl as : List Bool)
    (h : (solveR prm T fuel s st en dl as).status ≠ .outOfFuel) :
    solveR prm T (fuel + k) s st en dl as = solveR prm T fuel s st en dl as :=
  fuel_mono k fuel (initTaskR s) st en 0 dl as h

/-- **C10_restart_evaluator_state.** A run leaves the evaluator in a faithful state. -/
theorem C10_restart_evaluator_state {ev : Ev St P I V E} {spec : P → I → Outcome V E} {Inv : St → Prop}
    (hF : Faithful ev spec Inv) (prm : Params En P) (k : Kind) (exs : List (I × V)) (fuel : Nat)
    (s : RSolver P) (st : St) (hst : Inv st) (en : En) (dl as : List Bool) :
    Inv (solveR prm (test k ev exs) fuel s st en dl as).st := by
  rw [(C10_restart_refines hF prm k exs fuel s st hst en dl as Solver.init).2.2.2]
  exact C10_evaluator_state hF k exs Solver.init st hst _ dl as

/-- the sub-solver of a meta solver never counts a program: its `_programs` stays 0 and its
    `_stats["programs"]` never moves (only `RestartPBESolver.solve` increments a counter, its own) -/
def SubIdle (s : RSolver P) : Prop := s.sub.statsPrograms = 0 ∧ s.sub.programs = 0

/-- one task keeps the sub-solver idle, whatever its end -/
theorem C10_restart_sub_idle {ev : Ev St P I V E} {spec : P → I → Outcome V E} {Inv : St → Prop}
    (hF : Faithful ev spec Inv) (prm : Params En P) (k : Kind) (exs : List (I × V)) (fuel : Nat)
    (s : RSolver P) (st : St) (hst : Inv st) (en : En) (dl as : List Bool) (hs : SubIdle s) :
    SubIdle (solveR prm (test k ev exs) fuel s st en dl as).solver := by
  have hT := refinesS_of_faithful hF k exs
  have h0 : (initTaskR s).sub.statsPrograms = 0 ∧ (initTaskR s).sub.programs = 0 := ⟨hs.1, rfl⟩
  by_cases ha : (solveR prm (test k ev exs) fuel s st en dl as).status = .finished .accepted
  · obtain ⟨pre, e, post, sc, hsplit, _, hsol⟩ :=
      accepted_specR (prm := prm) hT fuel (initTaskR s) st en 0 dl as hst ha
    obtain ⟨_, _, _, _, g5⟩ := segRun_entry fuel (initTaskR s) en 0 pre e post hsplit
    rw [solveR, hsol]
    cases hfx : prm.fixStats <;>
      simp [SubIdle, closeR, closeTask, testedS, countedS, g5.subStatsPrograms, g5.subPrograms, h0.1, h0.2]
  · by_cases ht : (solveR prm (test k ev exs) fuel s st en dl as).status = .finished .timeout
    · obtain ⟨pre, e, post, hsplit, hsol⟩ :=
        timeout_specR (prm := prm) hT fuel (initTaskR s) st en 0 dl as hst ht
      obtain ⟨_, _, _, _, g5⟩ := segRun_entry fuel (initTaskR s) en 0 pre e post hsplit
      rw [solveR, hsol]
      cases hfx : prm.fixStats <;>
        simp [SubIdle, closeR, closeTask, g5.subStatsPrograms, g5.subPrograms, h0.1, h0.2]
    · have hfr := unclosed_frame (prm := prm) (T := test k ev exs) fuel (initTaskR s) st en 0 dl as ha ht
      exact ⟨by rw [solveR, hfr.subStatsPrograms]; exact h0.1, by rw [solveR, hfr.subPrograms]; exact h0.2⟩

/-- **C10_restart_session.** After any sequence of tasks (each with its own enumerator, examples,
    clock, answers and fuel), `reset_stats()` and `clear_cache()` calls on one restart solver and one
    evaluator: the evaluator is in a faithful state, and — from a solver whose sub-solver is idle, in
    particular a new one — the sub-solver is still idle. -/
theorem C10_restart_session {ev : Ev St P I V E} {spec : P → I → Outcome V E} {Inv : St → Prop}
    (hF : Faithful ev spec Inv) (clear : St → St) (hclear : ∀ st, Inv (clear st)) (prm : Params En P) (k : Kind)
    (ops : List (ROp P I V En)) (s : RSolver P) (st : St) (hst : Inv st) (hs : SubIdle s) :
    Inv (runSessionR prm k ev clear s st ops).2 ∧ SubIdle (runSessionR prm k ev clear s st ops).1 := by
  induction ops generalizing s st with
  | nil => exact ⟨hst, hs⟩
  | cons op rest ih =>
    simp only [runSessionR]
    cases op with
    | task t en fuel =>
      exact ih _ _ (C10_restart_evaluator_state hF prm k t.examples fuel s st hst en t.dl t.answers)
        (C10_restart_sub_idle hF prm k t.examples fuel s st hst en t.dl t.answers hs)
    | resetStats => exact ih _ _ hst ⟨rfl, hs.2⟩
    | clearCache => exact ih _ _ (hclear st) hs

theorem subIdle_init : SubIdle (RSolver.init : RSolver P) := ⟨rfl, rfl⟩

/-- **C10_restart_stats_as_is.** What `get_stats("programs")` is as the code stands (C10-F3): after
    any earlier session on a new restart solver, an accepted task leaves `get_stats("programs")`
    *equal to the rank* of the accepted program in this task's segmented enumeration — the counts of
    the earlier tasks are lost (while 'restarts' does accumulate, `C10_restart_rank`). -/
theorem C10_restart_stats_as_is {ev : Ev St P I V E} {spec : P → I → Outcome V E} {Inv : St → Prop}
    (hF : Faithful ev spec Inv) (clear : St → St) (hclear : ∀ st, Inv (clear st)) (prm : Params En P)
    (hfx : prm.fixStats = false) (k : Kind) (before : List (ROp P I V En)) (st₀ : St) (hst : Inv st₀)
    (exs : List (I × V)) (fuel : Nat) (en : En) (dl as : List Bool) :
    let r := runSessionR prm k ev clear RSolver.init st₀ before
    (solveR prm (test k ev exs) fuel r.1 r.2 en dl as).status = .finished .accepted →
    ∃ pre e post, segOf prm k spec exs fuel r.1 en = pre ++ e :: post ∧
      (solveR prm (test k ev exs) fuel r.1 r.2 en dl as).solver.self.statsPrograms = pre.length + 1 := by
  intro r hend
  obtain ⟨hinv, hidle⟩ := C10_restart_session hF clear hclear prm k before RSolver.init st₀ hst subIdle_init
  obtain ⟨pre, e, post, h1, _, _, h4, _⟩ := C10_restart_rank hF prm k exs fuel r.1 r.2 hinv en dl as hend
  refine ⟨pre, e, post, h1, ?_⟩
  rw [h4]
  have h0 : r.1.sub.statsPrograms = 0 := hidle.1
  simp [statsBase, hfx, initTaskR, initTask, h0]

/-! ### the real evaluator -/
section dslR
variable {σ : Type} [DecidableEq σ]

/-- **C10_restart for the real evaluator** (C11 model of `DSLEvaluator.eval`, every DSL semantics,
    cache on or off), after every earlier session on the same restart solver and evaluator: the
    yielded programs are exactly the programs of the segmented enumeration whose *compositional*
    value on every example input is the example output, in order, up to the first one answered True;
    none of them is wrong. -/
theorem C10_restart_dsl_yields (S : C11.Sem σ V E) (useCache : Bool) (prm : Params En (Tree σ)) (k : Kind)
    (before : List (ROp (Tree σ) (List V) V En)) (exs : List (List V × V)) (fuel : Nat) (en : En)
    (dl as : List Bool) :
    let r := runSessionR prm k (dslEv S useCache) C11.clearCache RSolver.init [] before
    let es := segProgs prm k (C11.specEval S) exs fuel r.1 en
    (solveR prm (test k (dslEv S useCache) exs) fuel r.1 r.2 en dl as).yielded =
      upToAccepted ((es.take (horizon (verdict k (C11.specEval S) exs) es dl)).filter (sat (C11.specEval S) exs)) as ∧
    ∀ p ∈ (solveR prm (test k (dslEv S useCache) exs) fuel r.1 r.2 en dl as).yielded,
      ∀ ex ∈ exs, C11.specEval S p ex.1 = .value ex.2 := by
  intro r es
  have hs := (C10_restart_session (dslEv_faithful S useCache) C11.clearCache (fun _ => cacheSound_nil S) prm k
    before RSolver.init [] (cacheSound_nil S) subIdle_init).1
  exact ⟨C10_restart_yields (dslEv_faithful S useCache) prm k exs fuel r.1 r.2 hs en dl as,
    fun p hp => (C10_restart_never_wrong (dslEv_faithful S useCache) prm k exs fuel r.1 r.2 hs en dl as p hp).2⟩

end dslR

end restart

/-! ### non-vacuity and findings (restart) -/
namespace ExampleR
open Example (spec exs)

/-- enumerators are numbered: 0 ↦ the stream `1, var0, var0+1, 1/var0, 1+var0`; every restarted
    enumerator n+1 ↦ `1+var0, 1, var0+1`; enumerator 99 is empty -/
def stream : Nat → Nat → Option Nat
  | 0, i => [0, 1, 2, 3, 4][i]?
  | 99, _ => none
  | _, i => [4, 0, 2][i]?

/-- restart when two new data items were saved; the restarted enumerator is the next number -/
def prm (fixNext fixStats : Bool) : Params Nat Nat :=
  ⟨stream, fun s => decide (s.data.length - s.lastSize > 1), fun en _ => en + 1, fixNext, fixStats⟩

def run (fx fs : Bool) (k : Kind) (s : RSolver Nat) (en : Nat) (dl as : List Bool) :=
  solveR (prm fx fs) (test k (pureEv spec) exs) 50 s () en dl as

-- scores under the naive test: program 0 passes one example of two (saved), 1 none, 2 both (a solution, saved
-- after it was refused): the criterion fires after program 2; the search restarts on enumerator 1
example : segProgs (prm false false) .naive spec exs 7 RSolver.init 0 = [0, 1, 2, 4, 0, 4, 0] := by decide
example : (segOf (prm false false) .naive spec exs 7 RSolver.init 0).map (fun e => (e.en, e.pos)) =
    [(0, 0), (0, 1), (0, 2), (1, 0), (1, 1), (2, 0), (2, 1)] := by decide
-- refuse the first solution, refuse the second (found after the restart), accept the third: rank 6, two restarts
example : (run false false .naive RSolver.init 0 [] [false, false, true]).yielded = [2, 4, 4] := by decide
example : (run false false .naive RSolver.init 0 [] [false, false, true]).status = .finished .accepted := by decide
example : (run false false .naive RSolver.init 0 [] [false, false, true]).solver.self.statsPrograms = 6 := by decide
example : (run false false .naive RSolver.init 0 [] [false, false, true]).solver.statsRestarts = 2 := by decide
example : (run false false .naive RSolver.init 0 [] [false, false, true]).solver.data.map (·.1) = [0, 2, 4, 0] := by decide
-- the cut-off test gives program 0 the score 1/2 as well, program 1 the score 0
example : (run false false .cutoff RSolver.init 0 [] [false]).yielded = [2, 4] := by decide
-- the caller stops answering; deadline before the fifth program
example : (run false false .naive RSolver.init 0 [] []).status = .suspended := by decide
example : (run false false .naive RSolver.init 0 [false, false, false, false, true] [false, false]).status
    = .finished .timeout := by decide
-- a criterion that fires for ever: the fuel runs out (the real solver does not return)
example : (solveR (prm false false) (test .naive (pureEv spec) exs) 50 RSolver.init () 0 [] (List.replicate 60 false)).status
    = .outOfFuel := by decide
-- hypotheses of C10_restart_resume
example : segProgs (prm false false) .naive spec exs 7 RSolver.init 0 = [0, 1] ++ 2 :: [4, 0, 4, 0] ∧
    (∀ q ∈ [0, 1], verdict .naive spec exs q = .ok false) ∧ verdict .naive spec exs 2 = .ok true :=
  ⟨by decide, by intro q hq; simp at hq; rcases hq with rfl | rfl <;> rfl, rfl⟩
-- hypothesis of C10_restart_never_skips
example : [0, 1].length < (run false false .naive RSolver.init 0 [] [false]).solver.self.programs := by decide
-- hypothesis of C10_restart_no_restart: a criterion that never fires, a list as stream
example : ∀ i, stream 0 i = [0, 1, 2, 3, 4][i]? := fun _ => rfl

/-- **finding C10-F2** (as the code is): an enumeration that is exhausted without an accepted
    solution ends the generator with `StopIteration` raised inside it — a RuntimeError for the caller —
    where the plain solver ends normally; with the repair `next(gen, None)` it ends normally. -/
theorem finding_C10_restart_stop_iteration :
    (solveR (prm false false) (test .naive (pureEv spec) exs) 50 RSolver.init () 99 [] []).status
      = .finished .stopIteration ∧
    (solve (test .naive (pureEv spec) exs) Solver.init () [] [] []).status = .finished .exhausted ∧
    (solveR (prm true false) (test .naive (pureEv spec) exs) 50 RSolver.init () 99 [] []).status
      = .finished .exhausted ∧
    -- … also after programs were tested and a solution refused: enumerator 3 serves `1+var0, 1, var0+1` once
    (solveR ⟨stream, fun _ => false, fun en _ => en, false, false⟩ (test .naive (pureEv spec) exs) 50
      RSolver.init () 3 [] [false, false]).status = .finished .stopIteration ∧
    (solveR ⟨stream, fun _ => false, fun en _ => en, false, false⟩ (test .naive (pureEv spec) exs) 50
      RSolver.init () 3 [] [false, false]).yielded = [4, 2] := by decide

/-- **finding C10-F3** (as the code is): a second task on the same restart solver.  The first task
    accepts at rank 3, the second at rank 1: `get_stats("programs")` is 1 afterwards — it *fell* by 2
    instead of growing by 1 — while 'restarts' and the plain solver's 'programs' accumulate; and
    `_stats["time"]` holds three summands after two tasks.  With the repair: 3 + 1 and two summands. -/
theorem finding_C10_restart_stats_not_cumulative :
    let s1 := (run false false .naive RSolver.init 0 [] [true]).solver
    let s2 := (run false false .naive s1 3 [] [true]).solver
    s1.self.statsPrograms = 3 ∧ s2.self.statsPrograms = 1 ∧ s2.self.statsCloses = 3 ∧
    ¬ (s1.self.statsPrograms = s1.sub.statsPrograms) ∧
    (let t1 := (run false true .naive RSolver.init 0 [] [true]).solver
     let t2 := (run false true .naive t1 3 [] [true]).solver
     t2.self.statsPrograms = 3 + 1 ∧ t2.self.statsCloses = 2) := by decide

end ExampleR

/-! ### the grammar `_restart_` builds -/
section grammar
open PS.G PS.C10.RG
variable {S : Type} [DecidableEq S]

/-- **C10_restart_grammar.** What `_restart_` (restart_pbe_solver.py:99-115) hands to
    `enumerator.clone`: for every grammar `G`, every weight table `tags0` that tags every rule of `G`
    (e.g. `ProbDetGrammar.uniform(G)`, or the result of an earlier restart), all data derivable in `G`
    (they were enumerated from it) and every prior, the computation does not raise and returns
    `normalise u` where
      * `u` tags exactly the rules `tags0` tags, and the result still tags every rule of `G`
        (so the statement applies to the next restart);
      * the weight of a rule in `u` is its accumulated score (Σ over the data of score × number of
        uses of the rule in the derivation of the program) plus `prior × 1/|row|` when `prior > 0`;
      * the result's weights are those of `u` divided by the sum of their row — *proportional to the
        accumulated scores* (plus prior) — and every row whose sum is not 0 sums to 1 (*normalised*);
      * with `prior > 0` and non-negative scores every rule of `G` has a positive weight in `u`
        (*full support*). -/
theorem C10_restart_grammar (G : TT S Unit) (tags0 : Tags S Unit) (data : List (Prog × Rat)) (prior : Rat)
    (hcov : Covers G tags0) (hdata : ∀ d ∈ data, gen G d.1 G.start = true) :
    ∃ u, restartTags G tags0 data prior = some (normalise u) ∧
      (∀ nt P, (tagOf u nt P).isSome = (tagOf tags0 nt P).isSome) ∧
      Covers G (normalise u) ∧
      (∀ nt P, (tagOf tags0 nt P).isSome = true →
        weight u nt P = accScore G data nt P + (if 0 < prior then prior * weight (uniform G) nt P else 0)) ∧
      (∀ nt row, AList.lookup nt u = some row →
        (∀ P, weight (normalise u) nt P = weight u nt P / rowSum row) ∧
        AList.lookup nt (normalise u) = some (normaliseRow row) ∧
        (rowSum row ≠ 0 → rowSum (normaliseRow row) = 1)) ∧
      (0 < prior → (∀ d ∈ data, 0 ≤ d.2) → ∀ nt P, (G.rule? nt P).isSome = true →
        0 < weight (uniform G) nt P → 0 < weight u nt P) := by
  obtain ⟨u, h1, h2, h3⟩ := restartTags_spec G tags0 data prior hcov hdata
  refine ⟨u, h1, h2, ?_, h3, fun nt row h => normalise_weights u nt row h, ?_⟩
  · intro nt P h
    rw [isSome_tagOf_normalise, h2]
    exact hcov nt P h
  · intro hp hnn nt P hr hu
    rw [h3 nt P (hcov nt P hr)]
    simp only [hp, if_true]
    have hacc : 0 ≤ accScore G data nt P := by
      unfold accScore
      clear h1 h2 h3 hdata
      induction data with
      | nil => simp
      | cons d rest ih =>
        simp only [List.map_cons, List.sum_cons]
        have h1 : 0 ≤ d.2 * (uses (derivation G d.1 G.start) nt P : Rat) :=
          Rat.mul_nonneg (hnn d (by simp)) (by exact_mod_cast Nat.zero_le _)
        have h2 := ih (fun e he => hnn e (by simp [he]))
        exact Rat.add_nonneg h1 h2
    have hpos : 0 < prior * weight (uniform G) nt P := Rat.mul_pos hp hu
    grind

/-- **C10_restart_grammar_distribution.** With a positive prior and non-negative scores (they are
    fractions in [0, 1]: `C10_score`), on a grammar every non-terminal of which has a rule, from a
    table whose rows mirror the grammar's (`ProbDetGrammar.uniform(G)`: `covers_uniform`,
    `rowsOf_uniform`; or the result of an earlier restart — the conclusion re-establishes the
    hypotheses): `_restart_` does not raise and the grammar it hands to `clone` is a probability
    distribution with full support — every row sums to exactly 1 and every rule has a positive weight. -/
theorem C10_restart_grammar_distribution (G : TT S Unit) (tags0 : Tags S Unit) (data : List (Prog × Rat))
    (prior : Rat)
    (hG : ∀ nt rs, AList.lookup nt G.rules = some rs → rs ≠ [] ∧ (AList.keys rs).Nodup)
    (hcov : Covers G tags0) (hrows : RowsOf G tags0) (hdata : ∀ d ∈ data, gen G d.1 G.start = true)
    (hnn : ∀ d ∈ data, 0 ≤ d.2) (hp : 0 < prior) :
    ∃ t, restartTags G tags0 data prior = some t ∧ Covers G t ∧ RowsOf G t ∧
      ∀ nt row, AList.lookup nt t = some row →
        rowSum row = 1 ∧ ∀ P ∈ AList.keys row, 0 < weight t nt P :=
  restartTags_distribution G tags0 data prior hG hcov hrows hdata hnn hp

/-- **C10_restart_grammar_spec.** Model = specification: the weight `_restart_` gives to rule `P` of a
    non-terminal is `specWeight` — (accumulated score of `P` + prior/|row|) divided by the sum of
    these numbers over the rules of the non-terminal: *proportional to the accumulated scores*,
    smoothed by the prior. -/
theorem C10_restart_grammar_spec (G : TT S Unit) (tags0 : Tags S Unit) (data : List (Prog × Rat)) (prior : Rat)
    (hcov : Covers G tags0) (hrows : RowsOf G tags0) (hdata : ∀ d ∈ data, gen G d.1 G.start = true) :
    ∃ t, restartTags G tags0 data prior = some t ∧
      ∀ nt rs, AList.lookup nt G.rules = some rs → (AList.keys rs).Nodup →
        ∀ P ∈ AList.keys rs, weight t nt P = specWeight G data prior nt (AList.keys rs) P :=
  restartTags_specWeight G tags0 data prior hcov hrows hdata

namespace ExampleG
/-- a grammar with two non-terminals: `int@0 → f(int@1) | a`, `int@1 → a | b` -/
def int : Ty := .base "int"
def f : Sym := .prim "f" (.arrow int int)
def a : Sym := .prim "a" int
def b : Sym := .prim "b" int
def nt0 : NT Nat Unit := (int, (0, ()))
def nt1 : NT Nat Unit := (int, (1, ()))
def G : TT Nat Unit := ⟨nt0, [(nt0, [(f, ([(int, 1)], ())), (a, ([], ()))]), (nt1, [(a, ([], ())), (b, ([], ()))])]⟩
def fa : Prog := .node f [.node a []]
def data : List (Prog × Rat) := [(fa, 1 / 2), (.node a [], 1), (fa, 1)]

-- hypotheses: the data are derivable; the uniform table tags every rule (covers_uniform)
example : ∀ d ∈ data, gen G d.1 G.start = true := by decide
example : Covers G (uniform G) := covers_uniform G
example : RowsOf G (uniform G) := rowsOf_uniform G
example : ∀ nt rs, AList.lookup nt G.rules = some rs → rs ≠ [] ∧ (AList.keys rs).Nodup := by
  intro nt rs h
  simp only [G, AList.lookup] at h
  split at h
  · cases h; exact ⟨by simp, by decide⟩
  · split at h
    · cases h; exact ⟨by simp, by decide⟩
    · cases h
example : ∀ d ∈ data, (0 : Rat) ≤ d.2 := by decide +kernel
-- accumulated scores: f@0 used by `f a` twice (1/2 + 1), a@0 once (1), a@1 twice (3/2), b@1 never
example : accScore G data nt0 f = 3 / 2 ∧ accScore G data nt0 a = 1 ∧ accScore G data nt1 a = 3 / 2 ∧
    accScore G data nt1 b = 0 := by decide +kernel
-- the grammar after the restart with prior 1/4: (3/2 + 1/8) / (5/2 + 1/4), …; `b` keeps a positive weight
example : (restartTags G (uniform G) data (1 / 4)).map (fun t => (weight t nt0 f, weight t nt0 a, weight t nt1 a, weight t nt1 b))
    = some (13 / 22, 9 / 22, 13 / 14, 1 / 14) := by decide +kernel
example : specWeight G data (1 / 4) nt1 [a, b] b = 1 / 14 := by decide +kernel
-- without prior: proportional to the scores alone, `b` gets 0
example : (restartTags G (uniform G) data 0).map (fun t => (weight t nt0 f, weight t nt1 b)) = some (3 / 5, 0) := by
  decide +kernel
end ExampleG
end grammar

end PS.C10
