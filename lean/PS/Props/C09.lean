/-
  C09 — sampling draws programs / values with the probabilities of the grammar / weight vector.

  Statement (properties.jsonl): after seeding, every sampled program belongs to the grammar, the
  long-run frequency of each program converges to the probability the grammar reports for it, two
  samplers initialised with the same non-zero seed produce the same sequence; this holds for the
  native alias sampler and for the pure-Python fallback, and the lexicon / list / union value
  samplers honour their weight vectors.

  What is proved here, for ALL inputs, about the model `PS.Sampler` (PS/Model/Sampler.lean,
  PS/Model/SamplerU.lean) of the fallback sampler, the value samplers and `sample_program`:
    * the alias/proba tables built from ANY weight vector with non-zero total induce exactly the
      normalised weight vector (`C09_alias`), the coin biases are probabilities, alias entries
      are indices, the construction loop exits as the Python loop does;
    * the biased coin `u < proba[col]` realises `proba[col]` (counting form, `C09_coin`);
    * LexiconSampler / ListSampler / UnionSampler: value distribution = normalised weights of the
      values, list shape = drawn lengths, dispatch on the requested type;
    * `sample_program` (ProbDetGrammar and ProbUGrammar): every sampled program is derivable,
      for every grammar, every draw streams, every pending information stack; with independent
      draws following the rule weights the probability of a program is the product of its rule
      weights (`C09_sample_dist`);
    * the sampled sequence is a function of the draw streams (`C09_seed_det`, by construction).
  Not reachable by a theorem (assumptions, supported by the statistical part of harness/c09.py):
  the native `vose.Sampler`, NumPy's generator (uniformity / independence / reproducibility of
  the streams), and float rounding in the tables.
-/
import PS.Proofs.Sampler
import PS.Proofs.SamplerGrammar
import PS.Proofs.SamplerU
import PS.Proofs.SamplerValue
import Mathlib.Data.List.Nodup
namespace PS.Props.C09
open PS PS.Sampler

/-! ## The fallback alias sampler -/

/-- MAIN THEOREM.  For every weight vector whose total is not zero (no sign or normalisation
    hypothesis), the probability that `sample_1` returns `k` — column uniform, heads with
    probability `proba[col]` — is the normalised weight of `k`. -/
theorem C09_alias (ws : List Rat) (hs : ws.sum ≠ 0) (k : Nat) :
    aliasDist (build ws) k = normalised ws k :=
  aliasDist_build ws hs k

/-- the form of the statement for weights that sum to 1 -/
theorem C09_alias_normalised (ws : List Rat) (hs : ws.sum = 1) (k : Nat) :
    aliasDist (build ws) k = ws.getD k 0 := by
  rw [C09_alias ws (by rw [hs]; decide) k, normalised, hs]
  simp

example : aliasDist (build [2, 1, 1]) 0 = 1 / 2 := by
  rw [C09_alias _ (by decide +kernel)]; decide +kernel
example : ([1/8, 1/2, 1/8, 1/4] : List Rat).sum = 1 := by decide +kernel
example : build [7/10, 1/10, 1/10, 1/10] = ⟨[0, 0, 0, 0], [1, 2/5, 2/5, 2/5]⟩ := by decide +kernel
example : (List.range 4).map (aliasDist (build [7/10, 1/10, 1/10, 1/10])) = [7/10, 1/10, 1/10, 1/10] := by
  decide +kernel

/-- finding C09-F2 (repaired by proposed_fixes/C09-F2.diff): with the former `avg = 1/n` the
    tables built from the unnormalised weights 2,1,1 are uniform, whereas the statement (and
    `vose.Sampler`) asks for 1/2, 1/4, 1/4 -/
theorem finding_unnormalised :
    (List.range 3).map (aliasDist (buildOld [2, 1, 1])) = [1/3, 1/3, 1/3] ∧
    (List.range 3).map (normalised [2, 1, 1]) = [1/2, 1/4, 1/4] := by decide +kernel

/-- for non-negative weights with positive total every coin bias is a probability, so that
    "heads with probability `proba[col]`" is what `uniform() < proba[col]` does -/
theorem C09_proba_range (ws : List Rat) (hpos : ∀ w ∈ ws, 0 ≤ w) (hs : 0 < ws.sum) :
    ∀ p ∈ (build ws).proba, 0 ≤ p ∧ p ≤ 1 :=
  build_proba_range ws hpos hs

example : (∀ w ∈ ([0, 3, 1] : List Rat), 0 ≤ w) ∧ 0 < ([0, 3, 1] : List Rat).sum := by decide +kernel
example : (build [0, 3, 1]).proba = [0, 1, 3/4] := by decide +kernel

/-- both tables have one entry per weight and every alias is a valid index: `sample_1` never
    leaves `0..n-1` -/
theorem C09_tables (ws : List Rat) :
    (build ws).alias.length = ws.length ∧ (build ws).proba.length = ws.length ∧
    ∀ a ∈ (build ws).alias, a < ws.length :=
  ⟨(build_lengths ws).1, (build_lengths ws).2, build_alias_lt ws⟩

theorem C09_sample1_range (ws : List Rat) (col : Nat) (u : Rat) (hc : col < ws.length) :
    sample1 (build ws) col u < ws.length := by
  unfold sample1
  split
  · exact hc
  · have hl := (build_lengths ws).1
    have h : col < (build ws).alias.length := by omega
    have : (build ws).alias.getD col 0 = (build ws).alias[col] := by
      simp [List.getD_eq_getElem?_getD, h]
    rw [this]
    exact build_alias_lt ws _ (List.getElem_mem h)

example : sample1 (build [2, 1, 1]) 1 (7/8) = 0 := by decide +kernel
example : sample1 (build [2, 1, 1]) 1 (1/8) = 1 := by decide +kernel

/-- the `while len(small) > 0 and len(large) > 0` loop, which removes one index per iteration,
    exits with one work list empty after at most `|small|+|large|` iterations -/
theorem C09_loop_exit (avg : Rat) (fuel : Nat) (small large : List Nat) (st : St)
    (h : small.length + large.length ≤ fuel) :
    (pairLoop avg fuel small large st).1 = [] ∨ (pairLoop avg fuel small large st).2.1 = [] :=
  pairLoop_exit avg fuel small large st h

/-- the biased coin, counting form: when `proba[col] = h/m`, exactly `h` of the `m` equally
    spaced values `u = i/m` return the column and `m-h` return its alias -/
theorem C09_coin (T : Tables) (m col h : Nat) (hm : 0 < m) (hh : h ≤ m)
    (hp : T.proba.getD col 0 = (h : Rat) / (m : Rat)) (hne : T.alias.getD col 0 ≠ col) :
    coinCount T m col col = h ∧ coinCount T m col (T.alias.getD col 0) = m - h :=
  coinCount_heads T m col h hm hh hp hne

example : coinCount (build [2, 1, 1]) 4 1 1 = 3 ∧ coinCount (build [2, 1, 1]) 4 1 0 = 1 := by decide +kernel

/-! ## Value samplers -/

/-- LexiconSampler: the probability of drawing the value `v` is the total normalised weight of
    the positions holding `v` -/
theorem C09_lexicon {α : Type} [DecidableEq α] (lexicon : List α) (probs : Option (List Rat))
    (hs : (lexWeights lexicon.length probs).sum ≠ 0) (v : α) :
    lexDist lexicon probs v = lexSpec lexicon probs v := by
  unfold lexDist lexSpec
  simp only []
  congr 1
  apply List.map_congr_left
  intro i _
  exact C09_alias _ hs i

example : lexDist ["a", "b", "a"] (some [2, 1, 1]) "a" = 3 / 4 := by decide +kernel
example : lexDist ["a", "b", "a"] none "a" = 2 / 3 := by decide +kernel
example : (lexWeights 3 none).sum ≠ 0 := by decide +kernel

/-- ListSampler given plain probabilities: index `i` of the length sampler means length `i+1` -/
theorem C09_length_table (ps : List Rat) (i : Nat) (h : i < ps.length) :
    (lengthTable ps)[i]? = some (i + 1, ps.getD i 0) := by
  simp [lengthTable, h]

/-- ListSampler: a value of list type is a list whose length is the entry of the length table
    selected by the next draw of the length sampler -/
theorem C09_list_shape (md : Int) (mapping : List Nat) (t : VTy) (d d' : LDraws) (v : Val)
    (h : listSampleFor md mapping (.list t) d = some (v, d')) :
    ∃ i r len vs, d.lens = i :: r ∧ mapping[i]? = some len ∧ v = Tree.node none vs ∧ vs.length = len := by
  unfold listSampleFor at h
  by_cases hmd : md < 0 ∨ 1 ≤ md
  · simp only [hmd, if_true] at h
    cases hl : d.lens with
    | nil => simp [hl] at h
    | cons i r =>
      simp only [hl] at h
      cases hm : mapping[i]? with
      | none => simp [hm] at h
      | some len =>
        simp only [hm] at h
        obtain ⟨vs, hv, hlen⟩ := list_shape_aux _ _ _ _ _ h
        exact ⟨i, r, len, vs, rfl, hm, hv, hlen⟩
  · simp [hmd] at h

example : (listSampleFor (-1) [1, 2, 3] (.list (.list (.base "int"))) ⟨[1, 0, 2], ["x", "y", "z", "w"]⟩).map (·.1) =
    some (Tree.node none [Tree.node none [Tree.leaf (some "x")],
                          Tree.node none [Tree.leaf (some "y"), Tree.leaf (some "z"), Tree.leaf (some "w")]]) := by
  decide +kernel

/-- UnionSampler: the sampler registered for the requested type, else the fallback -/
theorem C09_union_dispatch {σ : Type} (samplers : AList VTy σ) (fallback : Option σ) (t : VTy) :
    (∀ s, AList.lookup t samplers = some s → unionPick samplers fallback t = some s) ∧
    (AList.lookup t samplers = none → unionPick samplers fallback t = fallback) := by
  constructor
  · intro s h; simp [unionPick, h]
  · intro h; simp [unionPick, h]

/-! ## Grammar sampling -/

/-- rule tables are Python dicts: no symbol occurs twice at a non-terminal -/
def KeysNodup (G : DetG) : Prop :=
  ∀ S rules, AList.lookup S G = some rules → (rules.map (·.1)).Nodup

/-- every program returned by `ProbDetGrammar.sample_program` is a program of the grammar — for
    every grammar, every content of the draw streams, every start non-terminal, every pending
    information stack and every recursion bound -/
theorem C09_sample_member (G : DetG) (hG : KeysNodup G) (fuel : Nat) (d : Draws) (S : NT)
    (info : List NT) (t : Tree Sym) (d' : Draws)
    (h : sampleDet G fuel d S info = some (t, d')) : derives G S t = true :=
  sampleDet_derives G hG fuel d S info t d' h

/-- with independent draws distributed as the rule weights, the probability that
    `sample_program` returns `t` is the product of the weights of the rules used in `t` (and 0
    outside the language) — what `ProbDetGrammar.probability` reports -/
theorem C09_sample_dist (G : DetG) (hG : KeysNodup G) (fuel : Nat) (S : NT) (t : Tree Sym)
    (hd : Tree.depth t ≤ fuel) :
    Dist.mass (sampleDist G fuel S) t = prob G S t :=
  sampleDist_mass G hG fuel S t hd

def exG : DetG := [(0, [(10, ([1, 1], 1/2)), (11, ([], 1/2))]), (1, [(11, ([], 1/4)), (12, ([], 3/4))])]

example : KeysNodup exG := by
  intro S rules h
  simp only [exG, AList.lookup] at h
  split at h
  · cases h; decide
  · split at h
    · cases h; decide
    · cases h
example : sampleProgram exG 5 [(0, [0, 1]), (1, [1, 0, 1])] 0 =
    some (Tree.node 10 [Tree.leaf 12, Tree.leaf 11], [(0, [1]), (1, [1])]) := by decide +kernel
example : derives exG 0 (Tree.node 10 [Tree.leaf 12, Tree.leaf 11]) = true := by decide +kernel
example : Dist.mass (sampleDist exG 3 0) (Tree.node 10 [Tree.leaf 12, Tree.leaf 11]) = 3 / 32 := by decide +kernel
example : prob exG 0 (Tree.node 10 [Tree.leaf 12, Tree.leaf 11]) = 3 / 32 := by decide +kernel

/-- the same for `ProbUGrammar.sample_program` (start draw, rule draw, alternative draw), for
    grammars in which the arity of a symbol does not depend on the rule -/
theorem C09_sampleU_member (G : UG) (ar : Sym → Nat) (hK : UKeysNodup G) (hR : URanked G ar)
    (starts : List NT) (fuel : Nat) (d : UDraws) (t : Tree Sym) (d' : UDraws)
    (h : sampleProgramU G starts fuel d = some (t, d')) :
    ∃ S ∈ starts, derivesU G S t = true :=
  sampleProgramU_derives G ar hK hR starts fuel d t d' h

def exU : UG := [(0, [(10, [([1, 1], 1/4), ([2, 1], 1/4)]), (11, [([], 1/2)])]), (1, [(11, [([], 1)])]), (2, [(12, [([], 1)])])]

example : (sampleProgramU exU [0] 5 ⟨[0], [(0, [0]), (1, [0, 0]), (2, [0])], [((0, 10), [1])]⟩).map (·.1) =
    some (Tree.node 10 [Tree.leaf 12, Tree.leaf 11]) := by
  decide +kernel
example : derivesU exU 0 (Tree.node 10 [Tree.leaf 12, Tree.leaf 11]) = true := by decide +kernel

/-! ## Seeds -/

/-- `ProbUGrammar.init_sampling(seed)` gives pairwise distinct seeds to the rule samplers, the start
    sampler and the alternative samplers (two alias samplers with equal seeds return the same
    stream, which would contradict the independence assumed by `C09_sample_dist`) -/
theorem C09_seeds_distinct (seed nTags nRules : Nat) : (allSeedsU seed nTags nRules).Nodup := by
  unfold allSeedsU ruleSeedsU startSeedU altSeedsU
  rw [List.nodup_append]
  refine ⟨?_, ?_, ?_⟩
  · exact List.Nodup.map (fun a b h => by simpa using h) List.nodup_range
  · rw [List.nodup_cons]
    refine ⟨?_, ?_⟩
    · simp only [List.mem_map, List.mem_range, not_exists, not_and]
      intro k _ h; omega
    · exact List.Nodup.map (fun a b h => by simpa using h) List.nodup_range
  · intro a ha b hb
    simp only [List.mem_map, List.mem_range] at ha
    obtain ⟨i, hi, rfl⟩ := ha
    simp only [List.mem_cons, List.mem_map, List.mem_range] at hb
    rcases hb with rfl | ⟨k, _, rfl⟩ <;> omega

/-- the same for `ProbDetGrammar.init_sampling(seed)` -/
theorem C09_det_seeds_distinct (seed nTags : Nat) : (detSeeds seed nTags).Nodup :=
  List.Nodup.map (fun a b h => by simpa using h) List.nodup_range

example : allSeedsU 5 3 2 = [5, 6, 7, 8, 9, 10] := by decide

/-- finding C09-F4 (repaired by proposed_fixes/C09-F4.diff): with the former assignment
    `seed + 7 * i` for the alternatives of the i-th non-terminal, a grammar with 8 non-terminals
    already has two samplers with the same seed (alternatives of the 2nd = rules of the 8th, and
    alternatives of the 1st = rules of the 1st) -/
theorem finding_seed_collision : ¬ (allSeedsOld 5 [1, 1, 1, 1, 1, 1, 1, 2]).Nodup := by decide

/-- same seed ⇒ same sequence, in the model: the sequence of sampled programs is a function of
    the grammar and of the draw streams only (there is no other state).  On the implementation
    this is a correspondence observable (two samplers / two `init_sampling(seed)`, equal seeds). -/
theorem C09_seed_det (G : DetG) (fuel : Nat) (start : NT) (n : Nat) (d₁ d₂ : Draws) (h : d₁ = d₂) :
    sampleSeq G fuel start n d₁ = sampleSeq G fuel start n d₂ := by
  rw [h]

end PS.Props.C09
