/-
  C12, part beap — filter and merges during beap search (beap_search.py).

  FULL STATEMENT: with a filter, the output is duplicate-free, contains no rejected program and
  contains every program all of whose sub-programs are accepted; after `merge_program(rep, other)`
  exactly the not-yet-yielded programs not containing `other` are yielded; termination.

  Proved here, for every grammar, cost table, filter, fuel and every HISTORY of `next` /
  `merge_program` calls (`C02Beap.Reach`):
    * C12_Beap_yield_accepted     — whatever `next` yields was accepted by the filter;
    * C12_Beap_yield_not_deleted  — the yielded program is not in `_deleted` (the set of rejected and
                                    merged programs) at the moment it is yielded;
    * C12_Beap_deleted_grows      — `_deleted` only grows along `next` and `merge_program`;
    * C12_Beap_merge_deleted      — after `merge_program(rep, other)`, `other ∈ _deleted`;
    * C12_Beap_merged_never_yielded — SAFETY OF THE MERGE HALF for `other` itself: after
                                    `merge_program(rep, other)` no later `next`, whatever else happens in
                                    between, yields `other`;
    * C12_Beap_merge_banks_shrink — `merge_program` only removes programs from the banks.
  The merge half of the statement is FALSE on the code as it is, in both directions (findings C12-F12, C12-F13):
    * finding_C12_F12_contains — `X -> a | m(Y,Y)`, `Y -> a | b`, all costs 1: after `a`, `m(a,a)` have been
      yielded, `merge_program(_, a)`; the next program yielded is `m(a,b)`, which contains `a`
      (the tuples of the running `itertools.product` were built before the merge);
    * finding_C12_F13_lost — same grammar with `b` of cost 2: after `a`, `m(a,a)` and `merge_program(_, a)`
      the generator stops without ever yielding `m(b,b)`, which does not contain `a`
      (`_bank[Y][0]` became empty, `_query_list_` answers "(False, [])", the element is treated as
      the end of a finite grammar and its successors are not pushed);
    * C12_Beap_fix_F13_witness — with the proposed one-line fix (`Env.fixEmptied = true`:
      `return len(bank[cost_index]) == 0, bank[cost_index]`) the same history yields `m(b,b)` and stops.
  Every theorem of the three part files holds for both values of `Env.fixEmptied`.
  THE FILTER HALF (round 2, positive rule costs, histories without merge_program):
    * C12_Beap_filter_complete        — when the generator has stopped, every program of the start symbol all of
                                        whose sub-programs are accepted has been yielded;
    * C12_Beap_filter_prefix_complete — on every prefix: when a program of cost y has been yielded, every such
                                        program of strictly smaller cost has been yielded (recursive grammars too);
    * C12_Beap_filter_terminates_partial — |language| + 1 calls of `next` reach the end whenever the run returns;
    * no duplicates with a filter: C02_Beap_nodup (C02 part file).
  THE MERGE HALF ON THE REPAIRED CODE (fix C12-F13, `Env.fixEmptied = true`; PS/Proofs/Enum/BeapM0..M7.lean):
    * C12_Beap_merge_complete_partial — for every history of `next` / `merge_program` calls (merges after the first
      `next`), when the generator has stopped every program all of whose sub-programs are accepted and were not merged
      has been yielded (nothing that does not contain a merged program is lost);
    * C12_Beap_merge_prefix_complete_partial — the same on every prefix;
    * C12_Beap_merge_step — `merge_program` keeps the completeness invariants for the effective filter "accepted and
      not merged".
    The converse ("only those") is false: finding C12-F12 (open).
  Not proved: termination of one `next` call (existence of a sufficient fuel).
-/
import PS.Proofs.Enum.BeapFilter
import PS.Proofs.Enum.BeapM7
import PS.Props.C02_Beap
namespace PS.C12Beap
open PS PS.G PS.Beap PS.C02Beap

section
variable {S : Type} [DecidableEq S]

/-- `next(generator)` only yields programs accepted by the filter (any history) -/
theorem C12_Beap_yield_accepted (E : Env S) (fuel : Nat) (g g' : Gen S) (p : Prog)
    (h : Beap.next E fuel g = some (g', some p)) : E.filter p = true :=
  ((next_filter E fuel g _ h).2 p rfl).1

/-- the yielded program is not in `_deleted` when it is yielded -/
theorem C12_Beap_yield_not_deleted (E : Env S) (fuel : Nat) (g g' : Gen S) (p : Prog)
    (h : Beap.next E fuel g = some (g', some p)) : p ∉ g'.st.deleted :=
  ((next_filter E fuel g _ h).2 p rfl).2

/-- `_deleted` only grows -/
theorem C12_Beap_deleted_grows (E : Env S) (fuel : Nat) (g : Gen S) (r : Gen S × Option Prog) (q : Prog)
    (h : Beap.next E fuel g = some r) (hq : q ∈ g.st.deleted) : q ∈ r.1.st.deleted :=
  (next_filter E fuel g r h).1 q hq

/-- `merge_program(representative, other)` puts `other` in `_deleted` and removes nothing from it -/
theorem C12_Beap_merge_deleted (g : Gen S) (other q : Prog) (ok : NT S Unit → Bool) :
    other ∈ (Beap.merge g other ok).st.deleted ∧ (q ∈ g.st.deleted → q ∈ (Beap.merge g other ok).st.deleted) :=
  ⟨(merge_deleted g other ok).1, (merge_deleted g other ok).2 q⟩

/-- the histories that start at a given generator object -/
inductive After (E : Env S) (fuel : Nat) (g0 : Gen S) : Gen S → Prop
  | start : After E fuel g0 g0
  | next {g : Gen S} {r : Gen S × Option Prog} : After E fuel g0 g → Beap.next E fuel g = some r → After E fuel g0 r.1
  | merge {g : Gen S} (other : Prog) (ok : NT S Unit → Bool) : After E fuel g0 g → After E fuel g0 (Beap.merge g other ok)

theorem after_deleted (E : Env S) (fuel : Nat) (g0 g : Gen S) (h : After E fuel g0 g) (q : Prog)
    (hq : q ∈ g0.st.deleted) : q ∈ g.st.deleted := by
  induction h with
  | start => exact hq
  | next _ hn ih => exact (next_filter E fuel _ _ hn).1 q ih
  | merge other ok _ ih => exact (merge_deleted _ other ok).2 q ih

/-- **merge, safety for `other` itself**: once `merge_program(rep, other)` has been called, no later
    `next` — after any further history of `next` / `merge_program` calls — yields `other` -/
theorem C12_Beap_merged_never_yielded (E : Env S) (fuel : Nat) (g0 g g' : Gen S) (other p : Prog) (ok : NT S Unit → Bool)
    (ha : After E fuel (Beap.merge g0 other ok) g) (h : Beap.next E fuel g = some (g', some p)) : p ≠ other := by
  intro heq
  subst heq
  have h1 : p ∈ g.st.deleted := after_deleted E fuel _ g ha p (merge_deleted g0 p ok).1
  exact ((next_filter E fuel g _ h).2 p rfl).2 ((next_filter E fuel g _ h).1 p h1)

/-- a program rejected by the filter is never yielded, whatever the history -/
theorem C12_Beap_rejected_never_yielded (E : Env S) (fuel : Nat) (g g' : Gen S) (p : Prog) (hrej : E.filter p = false)
    (h : Beap.next E fuel g = some (g', some p)) : False := by
  have := C12_Beap_yield_accepted E fuel g g' p h
  rw [hrej] at this; cases this

/-- `merge_program` only removes programs from the banks -/
theorem C12_Beap_merge_banks_shrink (g : Gen S) (other : Prog) (ok : NT S Unit → Bool) (nt : NT S Unit) (ci : Nat) (p : Prog)
    (hp : p ∈ (Beap.merge g other ok).st.bankAt nt ci) : p ∈ g.st.bankAt nt ci :=
  merge_bankAt_subset g other ok nt ci p hp
end

/-! ### finding C12-F12 and non-vacuity -/
def nX : NT Nat Unit := (Ty.base "int", (0, ()))
def nY : NT Nat Unit := (Ty.base "int", (1, ()))
/-- symbols: a=0 m=1 b=2;  `X -> a | m(Y, Y)`, `Y -> a | b` -/
def mG : TT Nat Unit :=
  { start := nX,
    rules := [ (nX, [(sy 0, ([], ())), (sy 1, ([(Ty.base "int", 1), (Ty.base "int", 1)], ()))]),
               (nY, [(sy 0, ([], ())), (sy 2, ([], ()))]) ] }
def mW (cb : Rat) : AList (NT Nat Unit) (AList Sym Rat) := [ (nX, [(sy 0, 1), (sy 1, 1)]), (nY, [(sy 0, 1), (sy 2, cb)]) ]
def mE (cb : Rat) (f : Prog → Bool) (fix : Bool := false) : Env Nat :=
  { G := mG, W := mW cb, filter := f, recursive := false, fixEmptied := fix }
def pa : Prog := .node (sy 0) []
def pb : Prog := .node (sy 2) []
def pm (x y : Prog) : Prog := .node (sy 1) [x, y]

/-- after `a`, `m(a,a)` and `merge_program(_, a)` the next program is `m(a,b)`: it contains the merged `a` -/
theorem finding_C12_F12_contains :
    (match take (mE 1 fun _ => true) 100 2 (Gen.new mG) [] with
     | some (g, ys, _) => (take (mE 1 fun _ => true) 100 1 (Beap.merge g pa fun _ => true) []).map (fun r => (ys, r.2.1))
     | none => none) = some ([pa, pm pa pa], [pm pa pb]) := by
  decide +kernel

/-- with `b` of cost 2: after `a`, `m(a,a)` and `merge_program(_, a)` the generator stops at once;
    `m(b,b)` (derivable, not containing `a`) is never yielded -/
theorem finding_C12_F13_lost :
    (match take (mE 2 fun _ => true) 100 2 (Gen.new mG) [] with
     | some (g, ys, _) => (take (mE 2 fun _ => true) 100 10 (Beap.merge g pa fun _ => true) []).map (fun r => (ys, r.2.1, r.2.2))
     | none => none) = some ([pa, pm pa pa], [], true) ∧ gen mG (pm pb pb) nX = true := by
  decide +kernel

/-- with the fix C12-F13 the same history yields `m(b,b)`, the only remaining program that does not contain `a` -/
theorem C12_Beap_fix_F13_witness :
    (match take (mE 2 (fun _ => true) true) 100 2 (Gen.new mG) [] with
     | some (g, ys, _) => (take (mE 2 (fun _ => true) true) 100 10 (Beap.merge g pa fun _ => true) []).map (fun r => (ys, r.2.1, r.2.2))
     | none => none) = some ([pa, pm pa pa], [pm pb pb], true) := by
  decide +kernel

/-- without the merge the same run yields `m(a,b)`, `m(b,a)`, `m(b,b)` and stops -/
example : (take (mE 2 fun _ => true) 100 10 (Gen.new mG) []).map (fun r => (r.2.1, r.2.2))
    = some ([pa, pm pa pa, pm pa pb, pm pb pa, pm pb pb], true) := by
  decide +kernel

/-- non-vacuity of C12_Beap_yield_accepted / C12_Beap_rejected_never_yielded: with the filter
    "is not the leaf `a`" the machine yields exactly `m(b,b)` — the only program all of whose
    sub-programs are accepted — and stops -/
example : (take (mE 2 fun p => decide (p ≠ pa)) 100 10 (Gen.new mG) []).map (fun r => (r.2.1, r.2.2))
    = some ([pm pb pb], true) := by
  decide +kernel

/-! ### the filter half: liveness (round 2) -/
section
variable {S : Type} [DecidableEq S]

/-- **FILTER LIVENESS at the end (positive rule costs, any filter)**: when the generator has stopped, every
    program of the start symbol ALL OF WHOSE SUB-PROGRAMS ARE ACCEPTED by the filter (`clean`) has been yielded
    (no merge_program call in the history) -/
theorem C12_Beap_filter_complete (E : Env S) (hnd : RowsNodup E.G) (hst : StableAfter E) (hprod : Productive E)
    (hpos : PosW E) (fuel k : Nat) (g : Gen S) (ys : List Prog)
    (h : take E fuel k (Gen.new E.G) [] = some (g, ys, true))
    (q : Prog) (x : Rat) (hcl : clean E.filter q = true) (hx : costOf E q E.G.start = some x) : q ∈ ys :=
  C02_Beap_complete E hnd hst hprod hpos fuel k g ys h q x hcl hx

/-- **FILTER LIVENESS on every prefix** (finite and recursive grammars): when a program of cost `y` has been yielded,
    every program of strictly smaller cost all of whose sub-programs are accepted has been yielded -/
theorem C12_Beap_filter_prefix_complete (E : Env S) (hnd : RowsNodup E.G) (hst : StableAfter E) (hprod : Productive E)
    (hpos : PosW E) (fuel k : Nat) (g : Gen S) (ys : List Prog) (fin : Bool)
    (h : take E fuel k (Gen.new E.G) [] = some (g, ys, fin))
    (p q : Prog) (x y : Rat) (hp : p ∈ ys) (hy : costOf E p E.G.start = some y) (hcl : clean E.filter q = true)
    (hx : costOf E q E.G.start = some x) (hlt : x < y) : q ∈ ys :=
  prefix_complete E hnd hst hprod hpos fuel k (g, ys, fin) h p q x y hp hy hcl hx hlt

/-- **TERMINATION with a (rejecting) filter, partial form**: as C02_Beap_terminates_partial — the filter only removes
    programs from the output, so `|lang| + 1` calls of `next` reach the end whenever the run returns (explicit,
    decidable hypothesis: `take … = some …`) -/
theorem C12_Beap_filter_terminates_partial (E : Env S) (hnd : RowsNodup E.G) (hst : StableAfter E)
    (hprod : Productive E) (hpos : PosW E) (lang : List Prog)
    (hmem : ∀ q x, costOf E q E.G.start = some x → q ∈ lang)
    (fuel : Nat) (g : Gen S) (ys : List Prog) (fin : Bool)
    (h : take E fuel (lang.length + 1) (Gen.new E.G) [] = some (g, ys, fin)) : fin = true :=
  C02_Beap_terminates_partial E hnd hst hprod hpos lang hmem fuel g ys fin h
end

/-! non-vacuity with the rejecting filter "is not the leaf `a`" on `X -> a | m(Y,Y)`, `Y -> a | b` -/
def notA : Prog → Bool := fun p => decide (p ≠ pa)
def mRank (nt : NT Nat Unit) : Nat := if nt = nX then 1 else 0

theorem m_rowsNodup : RowsNodup mG := by
  intro nt rs h
  simp only [mG, AList.lookup] at h
  repeat (first | (split at h; (cases h; decide)) | (simp at h))

theorem m_ranked (f : Prog → Bool) : Ranked (mE 2 f) mRank := by
  intro nt P rl hr a ha
  unfold TT.rule? at hr
  split at hr
  · cases hr
  · next rs hrs =>
    have h1 := AList.lookup_some_mem hrs
    have h2 := AList.lookup_some_mem hr
    have h : mG.rules.all (fun r => r.2.all (fun rule => rule.2.1.all (fun a => decide (mRank (ntOf a) < mRank r.1)))) = true := by
      decide
    rw [List.all_eq_true] at h
    have h3 := h _ h1
    rw [List.all_eq_true] at h3
    have h4 := h3 _ h2
    rw [List.all_eq_true] at h4
    simpa using h4 a ha

theorem m_productive : Productive (mE 2 notA) := by
  intro nt h
  by_cases h1 : nt = nX
  · subst h1; exact ⟨pa, 1, by decide +kernel⟩
  · by_cases h2 : nt = nY
    · subst h2; exact ⟨pa, 1, by decide +kernel⟩
    · simp [mE, mG, AList.lookup, Ne.symm h1, Ne.symm h2] at h

theorem m_posW : PosW (mE 2 notA) := posW_of_check (mE 2 notA) (by decide +kernel)
theorem m_stable : StableAfter (mE 2 notA) := stableAfter_of_ranked mRank (mE 2 notA) m_rowsNodup (m_ranked notA)

/-- non-vacuity of C12_Beap_filter_complete: the hypotheses hold for the rejecting filter, the generator stops (see
    the run above: output `[m(b,b)]`), and `m(b,b)` is clean and priced -/
example : ∃ g ys, take (mE 2 notA) 100 10 (Gen.new mG) [] = some (g, ys, true) ∧ pm pb pb ∈ ys := by
  have hrun : (take (mE 2 notA) 100 10 (Gen.new mG) []).map (fun r => r.2.2) = some true := by decide +kernel
  cases hp : take (mE 2 notA) 100 10 (Gen.new mG) [] with
  | none => simp [hp] at hrun
  | some r =>
    obtain ⟨g, ys, fin⟩ := r
    simp only [hp, Option.map_some, Option.some.injEq] at hrun
    subst hrun
    exact ⟨g, ys, rfl, C12_Beap_filter_complete (mE 2 notA) m_rowsNodup m_stable m_productive m_posW 100 10 g ys hp
      (pm pb pb) 5 (by decide +kernel) (by decide +kernel)⟩

/-- the other clean-looking candidates are not clean: `m(a,b)` contains the rejected `a` -/
example : clean notA (pm pa pb) = false ∧ clean notA (pm pb pb) = true := by decide +kernel

/-- C12_Beap_filter_prefix_complete / C12_Beap_filter_terminates_partial instantiated with the rejecting filter -/
example (fuel k : Nat) (g : Gen Nat) (ys : List Prog) (fin : Bool) (h : take (mE 2 notA) fuel k (Gen.new mG) [] = some (g, ys, fin))
    (p q : Prog) (x y : Rat) (hp : p ∈ ys) (hy : costOf (mE 2 notA) p nX = some y) (hcl : clean notA q = true)
    (hx : costOf (mE 2 notA) q nX = some x) (hlt : x < y) : q ∈ ys :=
  C12_Beap_filter_prefix_complete (mE 2 notA) m_rowsNodup m_stable m_productive m_posW fuel k g ys fin h p q x y hp hy hcl hx hlt

example (lang : List Prog) (hmem : ∀ q x, costOf (mE 2 notA) q nX = some x → q ∈ lang) (fuel : Nat) (g : Gen Nat) (ys : List Prog)
    (fin : Bool) (h : take (mE 2 notA) fuel (lang.length + 1) (Gen.new mG) [] = some (g, ys, fin)) : fin = true :=
  C12_Beap_filter_terminates_partial (mE 2 notA) m_rowsNodup m_stable m_productive m_posW lang hmem fuel g ys fin h

/-! ### the merge half with the repaired `_query_list_` (fix C12-F13, `Env.fixEmptied = true`) -/
section
variable {S : Type} [DecidableEq S]

/-- **LIVENESS OF THE MERGE HALF, partial**.  Explicit hypotheses: `E.fixEmptied = true` (the repaired `_query_list_` of
    fix C12-F13: an existing but empty bank entry is an allowed-empty cost index) and every `merge_program` call comes
    after the first `next` (constructor `Hist.merge`).  Then for EVERY history of `next` / `merge_program` calls from
    the fresh generator (`Beap.Hist`: `ys` the programs yielded so far, `ms` the programs merged so far): when the
    generator has stopped, every program of the start symbol all of whose sub-programs (itself included) are accepted
    by the filter and were not merged (`clean (effFilter E ms)`) HAS BEEN YIELDED — nothing that does not contain a
    merged program is lost (what finding C12-F13 broke).  The other half of "exactly" is false (finding C12-F12: a
    program that contains `other` can still be yielded after the merge); what holds there is
    C12_Beap_merged_never_yielded (`other` itself is never yielded again). -/
theorem C12_Beap_merge_complete_partial (E : Env S) (hfix : E.fixEmptied = true) (hnd : RowsNodup E.G) (hst : StableAfter E)
    (hprod : Productive E) (hpos : PosW E) (fuel : Nat) (g : Gen S) (ys ms : List Prog) (hh : Hist E fuel g ys ms)
    (hfin : g.finished = true) (q : Prog) (x : Rat) (hcl : clean (effFilter E ms) q = true)
    (hx : costOf E q E.G.start = some x) : q ∈ ys :=
  merge_complete E hfix hnd hst hprod hpos fuel g ys ms hh hfin q x hcl hx

/-- the same on every prefix of every history (finite and recursive grammars): when a program of cost `y` has been
    yielded, every program of strictly smaller cost that is clean for the effective filter has been yielded -/
theorem C12_Beap_merge_prefix_complete_partial (E : Env S) (hfix : E.fixEmptied = true) (hnd : RowsNodup E.G) (hst : StableAfter E)
    (hprod : Productive E) (hpos : PosW E) (fuel : Nat) (g : Gen S) (ys ms : List Prog) (hh : Hist E fuel g ys ms)
    (p q : Prog) (x y : Rat) (hp : p ∈ ys) (hy : costOf E p E.G.start = some y) (hcl : clean (effFilter E ms) q = true)
    (hx : costOf E q E.G.start = some x) (hlt : x < y) : q ∈ ys :=
  merge_prefix_complete E hfix hnd hst hprod hpos fuel g ys ms hh p q x y hp hy hcl hx hlt

/-- `merge_program` keeps the completeness invariants for the effective filter that also rejects `other` (the step
    lemma behind the two theorems above) -/
theorem C12_Beap_merge_step (E : Env S) (F F' : Prog → Bool) (g : Gen S) (other : Prog) (ok : NT S Unit → Bool) (ys : List Prog)
    (hF' : ∀ p, F' p = true → F p = true ∧ p ≠ other) (hg : GKm E F g ys) : GKm E F' (Beap.merge g other ok) ys :=
  merge_km E F F' g other ok ys hF' hg
end

/-! non-vacuity: the history of finding C12-F13 on the repaired code: `a`, `m(a,a)`, `merge_program(_, a)`, then the rest -/
def fixE : Env Nat := mE 2 (fun _ => true) true

theorem fix_ranked : Ranked fixE mRank := by
  intro nt P rl hr a ha
  exact m_ranked (fun _ => true) nt P rl hr a ha
theorem fix_productive : Productive fixE := by
  intro nt h
  by_cases h1 : nt = nX
  · subst h1; exact ⟨pa, 1, by decide +kernel⟩
  · by_cases h2 : nt = nY
    · subst h2; exact ⟨pa, 1, by decide +kernel⟩
    · simp [fixE, mE, mG, AList.lookup, Ne.symm h1, Ne.symm h2] at h
theorem fix_posW : PosW fixE := posW_of_check fixE (by decide +kernel)
theorem fix_stable : StableAfter fixE := stableAfter_of_ranked mRank fixE m_rowsNodup fix_ranked

/-- the hypotheses of C12_Beap_merge_complete_partial hold for the history "2 × next, merge_program(_, a), next until the
    end" on the repaired code, the generator stops, and `m(b,b)` — clean for the effective filter "not `a`" — is in the
    output (cf. the kernel-evaluated run C12_Beap_fix_F13_witness) -/
example : ∃ g ys, Hist fixE 100 g ys [pa] ∧ g.finished = true ∧ pm pb pb ∈ ys := by
  have hrun : (match take fixE 100 2 (Gen.new mG) [] with
     | some (g, ys, _) => (take fixE 100 10 (Beap.merge g pa fun _ => true) ys).map (fun r => (decide (ys ≠ []), r.2.2))
     | none => none) = some (true, true) := by decide +kernel
  cases h1 : take fixE 100 2 (Gen.new mG) [] with
  | none => simp [h1] at hrun
  | some r1 =>
    obtain ⟨g1, ys1, f1⟩ := r1
    simp only [h1] at hrun
    cases h2 : take fixE 100 10 (Beap.merge g1 pa fun _ => true) ys1 with
    | none => simp [h2] at hrun
    | some r2 =>
      obtain ⟨g2, ys2, f2⟩ := r2
      simp only [h2, Option.map_some, Option.some.injEq, Prod.mk.injEq, decide_eq_true_eq] at hrun
      obtain ⟨hne, hf2⟩ := hrun
      subst hf2
      have a1 := (hist_take fixE rfl m_rowsNodup fix_stable fix_productive fix_posW 100 [] 2 _ [] _ Hist.new h1).1
      have a2 : Hist fixE 100 (Beap.merge g1 pa fun _ => true) ys1 [pa] :=
        Hist.merge g1 ys1 [] pa _ a1 (hist_started fixE rfl m_rowsNodup fix_stable fix_productive fix_posW 100 g1 ys1 [] a1 hne)
      obtain ⟨a3, a4⟩ := hist_take fixE rfl m_rowsNodup fix_stable fix_productive fix_posW 100 [pa] 10 _ ys1 _ a2 h2
      exact ⟨g2, ys2, a3, a4 rfl, C12_Beap_merge_complete_partial fixE rfl m_rowsNodup fix_stable fix_productive fix_posW 100 g2 ys2 [pa]
        a3 (a4 rfl) (pm pb pb) 5 (by decide +kernel) (by decide +kernel)⟩

/-- non-vacuity of C12_Beap_merge_step: the side condition on the two effective filters holds for `effFilter` -/
example (g : Gen Nat) (ys : List Prog) (ok : NT Nat Unit → Bool) (hg : GKm fixE (effFilter fixE []) g ys) :
    GKm fixE (effFilter fixE [pa]) (Beap.merge g pa ok) ys :=
  C12_Beap_merge_step fixE _ _ g pa ok ys (effFilter_cons fixE [] pa) hg

/-- what the effective filter excludes: `m(a,b)` contains the merged `a` (that it can still be yielded is finding
    C12-F12), `m(b,b)` does not -/
example : clean (effFilter fixE [pa]) (pm pa pb) = false ∧ clean (effFilter fixE [pa]) (pm pb pb) = true := by decide +kernel

end PS.C12Beap
