/-
  C03, part hs — best-first order of heap search / bucket search.

  FULL STATEMENT (not proved for the whole machine): for every fuel, the probabilities of the
  yielded sequence are non-increasing (heap search), the bucket tuples non-decreasing (bucket
  search); every strictly more probable program was yielded before.

  Proved here (the ingredients of the blueprint DESIGN B.2 (I4)), for all inputs:
    * on an array satisfying the heap invariant of heapq the root — what `heappop` returns — is a
      minimum (C03_HS_root_min), for any order whose `not <` is transitive;
    * the two orders used have that property: reversed `<` on probabilities (C03_HS_prob_order)
      and `Bucket.__lt__` (irreflexive, asymmetric, transitive: C03_HS_bucket_*);
    * monotonicity: replacing an argument by a less probable one does not increase the product
      (C03_HS_prob_mono); `+=` of buckets is strictly monotone (C03_HS_bucket_add_mono).
  NOT proved: that `heappush`/`heappop` re-establish the heap invariant, and the composition into
  "the popped sequence is sorted"; both are checked on every generated case (exact Fractions).
-/
import PS.Model.Enum.HeapSearch
import PS.Proofs.Enum.Heapq
import PS.Proofs.Enum.HeapSearch
import PS.Proofs.Enum.HeapInv
import PS.Proofs.Enum.BucketOrder
import PS.Model.Prob
namespace PS.C03HS
open PS PS.G PS.HS

/-- on a heap-ordered array the root is a minimum -/
theorem C03_HS_root_min {α : Type} (lt : α → α → Bool)
    (htrans : ∀ a b c, lt b a = false → lt c b = false → lt c a = false) (hrefl : ∀ a, lt a a = false)
    (h : List α) (hh : Heapq.IsHeap lt h) (i : Nat) (hi : i < h.length) :
    lt h[i] (h[0]'(by omega)) = false := Heapq.root_min lt htrans hrefl h hh i hi

example : Heapq.IsHeap (fun a b : Nat => decide (a < b)) [1, 3, 2] := by
  intro i hi h0
  match i, hi, h0 with
  | 1, _, _ => rfl
  | 2, _, _ => rfl
  | n + 3, hi, _ => exact absurd hi (by simp)

/-- the order of heap search (`-p < -q`, i.e. `q < p`) satisfies the hypotheses of `C03_HS_root_min` -/
theorem C03_HS_prob_order :
    (∀ a b c : Rat, (probOps 0).lt b a = false → (probOps 0).lt c b = false → (probOps 0).lt c a = false) ∧
    (∀ a : Rat, (probOps 0).lt a a = false) := by
  constructor
  · intro a b c h1 h2
    simp only [probOps, decide_eq_false_iff_not, Rat.not_lt] at h1 h2 ⊢
    exact Rat.le_trans h2 h1
  · intro a
    simp [probOps, Rat.lt_irrefl]

theorem C03_HS_bucket_lt_irrefl (a : Bucket) : Bucket.lt a a = false := Bucket.lt_irrefl a
theorem C03_HS_bucket_lt_asymm (a b : Bucket) (h : Bucket.lt a b = true) : Bucket.lt b a = false :=
  Bucket.lt_asymm a b h
theorem C03_HS_bucket_lt_trans (a b c : Bucket) (h1 : Bucket.lt a b = true) (h2 : Bucket.lt b c = true) :
    Bucket.lt a c = true := Bucket.lt_trans a b c h1 h2

/-- `new_bucket += bucket_tuples[arg][S2]` is strictly monotone in the argument's bucket -/
theorem C03_HS_bucket_add_mono (a b c : Bucket) (h1 : a.length = b.length) (h2 : b.length = c.length)
    (h : Bucket.lt a b = true) : Bucket.lt (Bucket.add a c) (Bucket.add b c) = true :=
  Bucket.add_lt_add a b c h1 h2 h

example : Bucket.lt (Bucket.add [0, 1, 2] [1, 0, 0]) (Bucket.add [0, 2, 1] [1, 0, 0]) = true := by decide

/-- the successor of an argument (a less probable program) gives a program that is not more probable -/
theorem C03_HS_prob_mono (w a b rest : Rat) (hw : 0 ≤ w) (hr : 0 ≤ rest) (hab : b ≤ a) :
    w * b * rest ≤ w * a * rest := prob_mono w a b rest hw hr hab

example : (1 / 2 : Rat) * (1 / 4) * (1 / 8) ≤ (1 / 2) * (1 / 2) * (1 / 8) :=
  C03_HS_prob_mono _ _ _ _ (by decide +kernel) (by decide +kernel) (by decide +kernel)

/-- `Bucket(size).add_prob_uniform(p)` puts probability 1/2 of 3 buckets in the middle one -/
example : Bucket.ofProb 3 (1 / 2) = [0, 1, 0] := by decide +kernel

/-! ### heapq re-establishes its invariant (gap A) -/

/-- the two orders used are strict weak orders (`<` asymmetric, `not <` transitive) -/
theorem C03_HS_prob_weakOrder (t : Rat) : Heapq.WeakOrder (probOps t).lt := by
  constructor
  · intro a b h
    simp only [probOps, decide_eq_true_eq, decide_eq_false_iff_not, Rat.not_lt] at h ⊢
    exact Rat.le_of_lt h
  · intro a b c h1 h2
    simp only [probOps, decide_eq_false_iff_not, Rat.not_lt] at h1 h2 ⊢
    exact Rat.le_trans h2 h1

/-- `Bucket.__lt__` is a strict weak order on the tuples of one size (all the tuples of a run have
    length `size`); on tuples of different lengths `not <` is not transitive: `[1]`, `[]`, `[0]` -/
theorem C03_HS_bucket_weakOrder (n : Nat) :
    Heapq.WeakOrder (fun a b : { b : Bucket // b.length = n } => Bucket.lt a.1 b.1) := Bucket.weakOrder n

example : Bucket.lt [] [1] = false ∧ Bucket.lt [0] [] = false ∧ Bucket.lt [0] [1] = true := by decide

/-- the order of heap elements (`HeapElement.__lt__` compares the priorities only) inherits it -/
theorem C03_HS_ltE_weakOrder {π : Type} (ops : Prio π) (w : Heapq.WeakOrder ops.lt) :
    Heapq.WeakOrder (ltE ops) :=
  ⟨fun a b h => w.asymm a.1 b.1 h, fun a b c h1 h2 => w.ntrans a.1 b.1 c.1 h1 h2⟩

/-- **`heappush` re-establishes the heap invariant** (literal port of `_siftdown`), for every order
    whose `<` is asymmetric and whose `not <` is transitive -/
theorem C03_HS_heappush_inv {α : Type} (lt : α → α → Bool) (w : Heapq.WeakOrder lt) (h : List α) (x : α)
    (hh : Heapq.IsHeap lt h) : Heapq.IsHeap lt (Heapq.push lt h x) := Heapq.push_isHeap w h x hh

/-- **`heappop` re-establishes the heap invariant and returns a minimum** (literal port of
    `_siftup` = bubble the smaller child up to a leaf, then `_siftdown`) -/
theorem C03_HS_heappop_inv {α : Type} (lt : α → α → Bool) (w : Heapq.WeakOrder lt) (h : List α) (x : α)
    (h' : List α) (hh : Heapq.IsHeap lt h) (hp : Heapq.pop lt h = some (x, h')) :
    Heapq.IsHeap lt h' ∧ ∀ y ∈ h, lt y x = false := Heapq.pop_isHeap w h x h' hh hp

/-- **heapsort**: popping the heap built by successive pushes of `l` until it is empty yields a
    permutation of `l` in which no element is smaller than an earlier one -/
theorem C03_HS_heap_sorted {α : Type} (lt : α → α → Bool) (w : Heapq.WeakOrder lt) (l : List α) :
    (Heapq.drain lt l.length (Heapq.build lt l)).Perm l ∧
    (Heapq.drain lt l.length (Heapq.build lt l)).Pairwise (fun a b => lt b a = false) := by
  have hp := Heapq.build_perm lt l
  obtain ⟨h1, h2⟩ := Heapq.drain_sorted w l.length (Heapq.build lt l) (Heapq.build_isHeap w l)
    (by rw [hp.length_eq]; exact Nat.le_refl _)
  exact ⟨h1.trans hp, h2⟩

example : Heapq.drain (fun a b : Nat => decide (a < b)) 6 (Heapq.build (fun a b => decide (a < b)) [5, 1, 4, 1, 3, 2])
    = [1, 1, 2, 3, 4, 5] := by decide

example : Heapq.WeakOrder (fun a b : Nat => decide (a < b)) :=
  ⟨fun a b h => by simp only [decide_eq_true_eq, decide_eq_false_iff_not] at h ⊢; omega,
   fun a b c h1 h2 => by simp only [decide_eq_false_iff_not] at h1 h2 ⊢; omega⟩

example : Heapq.pop (fun a b : Nat => decide (a < b)) [1, 3, 2, 7, 4] = some (1, [2, 3, 4, 7]) := by decide

/-! ### finding: best-first order is violated on recursive grammars (re-entrant `query`) -/
section Reentrant
def rInt : Ty := .base "t"
def rF : Sym := Sym.prim "F" (.arrow rInt (.arrow rInt rInt))
def rg : Sym := Sym.prim "g" (.arrow rInt rInt)
def rb : Sym := Sym.prim "b" rInt
def rc : Sym := Sym.prim "c" rInt
/-- `CFG.infinite(DSL{F : t1 -> t1 -> t0, b : t0, g : t0 -> t1, c : t1}, t0, n_gram=1)`:
    `S0 → b | F S1 S1`, `S1 → c | g S0` -/
def rG : TT Nat Unit := ⟨(rInt, (0, ())), [((rInt, (0, ())), [(rb, ([], ())), (rF, ([(rInt, 1), (rInt, 1)], ()))]),
                                          ((rInt, (1, ())), [(rc, ([], ())), (rg, ([(rInt, 0)], ()))])]⟩
def rW : AList (NT Nat Unit) (AList Sym Rat) :=
  [((rInt, (0, ())), [(rb, 1/64), (rF, 63/64)]), ((rInt, (1, ())), [(rc, 1/2), (rg, 1/2)])]
def rE : Env Nat Unit Rat := { G := rG, W := rW, ops := probOps 0, filter := fun _ => true }
def rFcc : Prog := .node rF [.node rc [], .node rc []]

/-- heap search yields `(F c c)` (63/256), then `b` (1/64) **before** `(F (g (F c c)) c)` (3969/65536 > 1/64):
    while `__add_successors__((F c c), S0)` is still running (the successors of `(F c c)` are not pushed
    yet), the nested `query(S1, c)` pops `(g (F c c))`, whose `__add_successors__` calls
    `query(S0, (F c c))`, which pops the heap of `S0` too early.  Same output on the implementation. -/
theorem finding_C03_HS_reentrant :
    (take rE 200 3 (Gen.new rG) []).map (fun r => r.2.1.map (fun p => (p, G.prob rG rW p rG.start))) =
      some [(rFcc, 63/256), (.node rb [], 1/64), (.node rF [.node rg [rFcc], .node rc []], 3969/65536)] ∧
    ((1 : Rat)/64 < 3969/65536) := by
  decide +kernel
end Reentrant

end PS.C03HS
