/-
  C03, part hs — best-first order of heap search / bucket search.

  FULL STATEMENT (not proved for the whole machine): for every fuel, the probabilities of the
  yielded sequence are non-increasing (heap search), the bucket tuples non-decreasing (bucket
  search); every strictly more probable program was yielded before.
  It is FALSE on recursive grammars (finding_C03_HS_reentrant).

  Proved here, for all inputs:
    * heapq (literal port of `_siftdown` / `_siftup`) RE-ESTABLISHES the heap invariant on push and
      pop and pop returns a minimum, for every strict weak order (`<` asymmetric, `not <`
      transitive; both are needed: the sift loops swap on `<` only): C03_HS_heappush_inv,
      C03_HS_heappop_inv; heapsort corollary C03_HS_heap_sorted; on a valid heap the root is a
      minimum (C03_HS_root_min);
    * the two orders used are strict weak orders: reversed `<` on probabilities
      (C03_HS_prob_weakOrder), `Bucket.__lt__` on tuples of one size (C03_HS_bucket_weakOrder);
    * every heap of the machine is valid in every reachable state, so every pop returns a most
      probable element of its heap (C03_HS_heaps_valid, C03_HS_pop_max) — any grammar, any filter;
    * monotonicity: replacing an argument by a less probable one does not increase the probability
      (C03_HS_prob_mono; whole programs: HS.prob_set_le); `+=` of buckets is strictly monotone;
    * tie-breaking: `heappush` replaces the root only by a strictly smaller element
      (C03_HS_heappush_root), the same choice as the strict `<` of `__compute_max_prio__`;
    * BEST-FIRST ORDER on ACYCLIC context-free grammars (heap search, threshold 0, no filter, no
      empty row): the yielded probabilities are non-increasing, for every fuel and number of steps —
      C03_HS_sorted.  Ingredients: the max-priority phase leaves tables in sync and `__init_heap__`
      builds a state whose initial programs use the first pops of their arguments (C03_HS_base), the
      first queries and every later `query` keep the order invariant `HS.OInv` = DESIGN B.2 (I1), (I4),
      under precondition (I5) (C03_HS_order_step); C03_HS_sorted_partial is the same from a hypothesis
      on the state produced by the prologue (any threshold).
    * for complete runs (the generator has stopped; it does: C02_HS_full) every strictly more probable
      member was yielded before (C03_HS_more_probable_before).
    * GENERIC DEVELOPMENT (PS/Proofs/Enum/G*.lean: any priority type whose `combine` is monotone,
      threshold, filter; the code after fix 53c3acb, `dropDeleted = false`), acyclic context-free
      grammars, every fuel and every prefix of the run:
        - heap search with ANY threshold and any filter, from scratch: non-increasing probabilities,
          C03_HS_sorted_threshold (drops the prologue-state hypothesis of C03_HS_sorted_partial);
        - PREFIX COMPLETENESS: once a program `q` has been yielded, every member of strictly larger
          probability (above the threshold, all of whose sub-programs are accepted) was yielded
          before `q`: C03_HS_prefix_complete (no filter: C03_HS_prefix_complete_nofilter);
        - bucket search: the bucket tuples all have the size of the search and are non-decreasing for
          `Bucket.__lt__`, C03_HS_bucket_sorted; prefix completeness C03_HS_bucket_prefix_complete.
    * UNAMBIGUOUS-GRAMMAR MACHINE (u_heap_search.py after fix 7721229), section "unambiguous machine":
        - every heap (non-terminals and the start heap) valid in every reachable state: C03_HS_U_heaps_valid,
          C03_HS_U_query_heaps, C03_HS_U_pop_max;
        - acyclic unambiguous grammars with several start symbols and start weights: the order invariant
          (C03_HS_U_order_step), BEST-FIRST ORDER for every fuel and prefix (C03_HS_U_sorted,
          C03_HS_U_sorted_prob, C03_HS_U_sorted_probU in terms of `U.probU`; bucket search:
          C03_HS_U_bucket_sorted), PREFIX COMPLETENESS for every prefix (C03_HS_U_prefix_complete,
          C03_HS_U_prefix_complete_probU), complete runs: C03_HS_U_more_probable_before.
  NOT proved: recursive grammars (the statement is false there), TTCFGs that thread a state, thresholds
  of the unambiguous machine.
-/
import PS.Model.Enum.HeapSearch
import PS.Proofs.Enum.Heapq
import PS.Proofs.Enum.HeapSearch
import PS.Proofs.Enum.HeapInv
import PS.Proofs.Enum.BucketOrder
import PS.Model.Prob
import PS.Proofs.Enum.HSHeaps
import PS.Proofs.Enum.HSOrder
import PS.Proofs.Enum.HSOrderCheck
import PS.Proofs.Enum.HSSorted
import PS.Proofs.Enum.HSPrologueTotal
import PS.Proofs.Enum.GInst
import PS.Proofs.Enum.UHeaps
import PS.Proofs.Enum.UOrderCheck
import PS.Proofs.Enum.UProb
import PS.Proofs.Enum.UCompleteRun
import PS.Proofs.Enum.UPrefix
import PS.Proofs.Enum.UBucket
namespace PS.C03HS
open PS PS.G PS.HS

/-- on a heap-ordered array the root is a minimum -/
theorem C03_HS_root_min {α : Type} (lt : α → α → Bool)
    (htrans : ∀ a b c, lt b a = false → lt c b = false → lt c a = false) (hrefl : ∀ a, lt a a = false)
    (h : List α) (hh : Heapq.IsHeap lt h) (i : Nat) (hi : i < h.length) :
    lt h[i] (h[0]'(by omega)) = false := Heapq.root_min lt htrans hrefl h hh i hi

example : Heapq.IsHeap (fun a b : Nat => decide (a < b)) [1, 3, 2] := by
  intro i hi h0
  match i, hi, h0 with
  | 1, _, _ => rfl
  | 2, _, _ => rfl
  | n + 3, hi, _ => exact absurd hi (by simp)

/-- the order of heap search (`-p < -q`, i.e. `q < p`) satisfies the hypotheses of `C03_HS_root_min` -/
theorem C03_HS_prob_order :
    (∀ a b c : Rat, (probOps 0).lt b a = false → (probOps 0).lt c b = false → (probOps 0).lt c a = false) ∧
    (∀ a : Rat, (probOps 0).lt a a = false) := by
  constructor
  · intro a b c h1 h2
    simp only [probOps, decide_eq_false_iff_not, Rat.not_lt] at h1 h2 ⊢
    exact Rat.le_trans h2 h1
  · intro a
    simp [probOps, Rat.lt_irrefl]

theorem C03_HS_bucket_lt_irrefl (a : Bucket) : Bucket.lt a a = false := Bucket.lt_irrefl a
theorem C03_HS_bucket_lt_asymm (a b : Bucket) (h : Bucket.lt a b = true) : Bucket.lt b a = false :=
  Bucket.lt_asymm a b h
theorem C03_HS_bucket_lt_trans (a b c : Bucket) (h1 : Bucket.lt a b = true) (h2 : Bucket.lt b c = true) :
    Bucket.lt a c = true := Bucket.lt_trans a b c h1 h2

/-- `new_bucket += bucket_tuples[arg][S2]` is strictly monotone in the argument's bucket -/
theorem C03_HS_bucket_add_mono (a b c : Bucket) (h1 : a.length = b.length) (h2 : b.length = c.length)
    (h : Bucket.lt a b = true) : Bucket.lt (Bucket.add a c) (Bucket.add b c) = true :=
  Bucket.add_lt_add a b c h1 h2 h

example : Bucket.lt (Bucket.add [0, 1, 2] [1, 0, 0]) (Bucket.add [0, 2, 1] [1, 0, 0]) = true := by decide

/-- the successor of an argument (a less probable program) gives a program that is not more probable -/
theorem C03_HS_prob_mono (w a b rest : Rat) (hw : 0 ≤ w) (hr : 0 ≤ rest) (hab : b ≤ a) :
    w * b * rest ≤ w * a * rest := prob_mono w a b rest hw hr hab

example : (1 / 2 : Rat) * (1 / 4) * (1 / 8) ≤ (1 / 2) * (1 / 2) * (1 / 8) :=
  C03_HS_prob_mono _ _ _ _ (by decide +kernel) (by decide +kernel) (by decide +kernel)

/-- `Bucket(size).add_prob_uniform(p)` puts probability 1/2 of 3 buckets in the middle one -/
example : Bucket.ofProb 3 (1 / 2) = [0, 1, 0] := by decide +kernel

/-! ### heapq re-establishes its invariant (gap A) -/

/-- the two orders used are strict weak orders (`<` asymmetric, `not <` transitive) -/
theorem C03_HS_prob_weakOrder (t : Rat) : Heapq.WeakOrder (probOps t).lt := by
  constructor
  · intro a b h
    simp only [probOps, decide_eq_true_eq, decide_eq_false_iff_not, Rat.not_lt] at h ⊢
    exact Rat.le_of_lt h
  · intro a b c h1 h2
    simp only [probOps, decide_eq_false_iff_not, Rat.not_lt] at h1 h2 ⊢
    exact Rat.le_trans h2 h1

/-- `Bucket.__lt__` is a strict weak order on the tuples of one size (all the tuples of a run have
    length `size`); on tuples of different lengths `not <` is not transitive: `[1]`, `[]`, `[0]` -/
theorem C03_HS_bucket_weakOrder (n : Nat) :
    Heapq.WeakOrder (fun a b : { b : Bucket // b.length = n } => Bucket.lt a.1 b.1) := Bucket.weakOrder n

example : Bucket.lt [] [1] = false ∧ Bucket.lt [0] [] = false ∧ Bucket.lt [0] [1] = true := by decide

/-- the order of heap elements (`HeapElement.__lt__` compares the priorities only) inherits it -/
theorem C03_HS_ltE_weakOrder {π : Type} (ops : Prio π) (w : Heapq.WeakOrder ops.lt) :
    Heapq.WeakOrder (ltE ops) :=
  ⟨fun a b h => w.asymm a.1 b.1 h, fun a b c h1 h2 => w.ntrans a.1 b.1 c.1 h1 h2⟩

/-- **`heappush` re-establishes the heap invariant** (literal port of `_siftdown`), for every order
    whose `<` is asymmetric and whose `not <` is transitive -/
theorem C03_HS_heappush_inv {α : Type} (lt : α → α → Bool) (w : Heapq.WeakOrder lt) (h : List α) (x : α)
    (hh : Heapq.IsHeap lt h) : Heapq.IsHeap lt (Heapq.push lt h x) := Heapq.push_isHeap w h x hh

/-- **`heappop` re-establishes the heap invariant and returns a minimum** (literal port of
    `_siftup` = bubble the smaller child up to a leaf, then `_siftdown`) -/
theorem C03_HS_heappop_inv {α : Type} (lt : α → α → Bool) (w : Heapq.WeakOrder lt) (h : List α) (x : α)
    (h' : List α) (hh : Heapq.IsHeap lt h) (hp : Heapq.pop lt h = some (x, h')) :
    Heapq.IsHeap lt h' ∧ ∀ y ∈ h, lt y x = false := Heapq.pop_isHeap w h x h' hh hp

/-- **heapsort**: popping the heap built by successive pushes of `l` until it is empty yields a
    permutation of `l` in which no element is smaller than an earlier one -/
theorem C03_HS_heap_sorted {α : Type} (lt : α → α → Bool) (w : Heapq.WeakOrder lt) (l : List α) :
    (Heapq.drain lt l.length (Heapq.build lt l)).Perm l ∧
    (Heapq.drain lt l.length (Heapq.build lt l)).Pairwise (fun a b => lt b a = false) := by
  have hp := Heapq.build_perm lt l
  obtain ⟨h1, h2⟩ := Heapq.drain_sorted w l.length (Heapq.build lt l) (Heapq.build_isHeap w l)
    (by rw [hp.length_eq]; exact Nat.le_refl _)
  exact ⟨h1.trans hp, h2⟩

example : Heapq.drain (fun a b : Nat => decide (a < b)) 6 (Heapq.build (fun a b => decide (a < b)) [5, 1, 4, 1, 3, 2])
    = [1, 1, 2, 3, 4, 5] := by decide

example : Heapq.WeakOrder (fun a b : Nat => decide (a < b)) :=
  ⟨fun a b h => by simp only [decide_eq_true_eq, decide_eq_false_iff_not] at h ⊢; omega,
   fun a b c h1 h2 => by simp only [decide_eq_false_iff_not] at h1 h2 ⊢; omega⟩

example : Heapq.pop (fun a b : Nat => decide (a < b)) [1, 3, 2, 7, 4] = some (1, [2, 3, 4, 7]) := by decide

/-! ### the machine: every heap is valid in every reachable state (unconditional) -/
section Heaps
variable {S T π : Type} [DecidableEq S] [DecidableEq T]

/-- `HS.HInv E s`: every `heaps[nt]` satisfies heapq's invariant.  It holds initially and every
    `next(generator)` keeps it — any grammar, any filter, any strict weak order of priorities -/
theorem C03_HS_heaps_valid (E : Env S T π) (w : Heapq.WeakOrder E.ops.lt) (fuel : Nat) :
    HInv E (Gen.new E.G : Gen S T π).st ∧
    ∀ (g g' : Gen S T π) (r : Option Prog), HInv E g.st → HS.next E fuel g = some (g', r) → HInv E g'.st :=
  ⟨hinv_new E, fun g g' r hg h => next_hinv E w fuel g g' r hg h⟩

/-- hence every pop made by `query` returns an element of minimal priority (heap search: of maximal
    probability) of its heap, and leaves a valid heap -/
theorem C03_HS_pop_max (E : Env S T π) (w : Heapq.WeakOrder E.ops.lt) (s : St S T π) (hs : HInv E s)
    (nt : NT S T) (e : π × Prog) (h' : List (π × Prog))
    (hp : Heapq.pop (ltE E.ops) (s.heapOf nt) = some (e, h')) :
    (∀ y ∈ s.heapOf nt, E.ops.lt y.1 e.1 = false) ∧ HInv E (s.setHeap nt h') :=
  ⟨(Heapq.pop_isHeap (ltE_weakOrder E.ops w) _ _ _ (hs nt) hp).2, hs.pop w nt e h' hp⟩
end Heaps

/-! ### the order of the yielded sequence (acyclic context-free grammars, heap search, no filter) -/
section Order
variable {S : Type} [DecidableEq S]

/-- **the order invariant is preserved by `query`**: `HS.OInv E H0 s` says, for every non-terminal,
    (I4) no heap element is more probable than a program already popped, a recorded successor is not
    more probable than its predecessor, (I1) the arguments of every program ever pushed were popped
    for their non-terminals — or the enumeration of that non-terminal has not started and the
    argument is what its initial heap `H0` pops first.  Under `HS.OrdHyp` (priorities = probabilities,
    non-negative weights, the grammar is NOT recursive: `rank` decreases from a non-terminal to the
    non-terminals of its rules) and the precondition (I5) "the key was popped for the non-terminal
    (or is its first pop)", `query` keeps it.
    On recursive grammars this is false (`finding_C03_HS_reentrant`). -/
theorem C03_HS_order_step (E : Env S Unit Rat) (rank : NT S Unit → Nat) (H : OrdHyp E rank)
    (H0 : NT S Unit → List (Rat × Prog)) (n : Nat)
    (s s' : St S Unit Rat) (nt : NT S Unit) (p r : Option Prog)
    (hs : SInv E s) (hn : NInv s) (hh : HInv E s) (ho : OInv E H0 s)
    (hp : ∀ x, p = some x → (∃ k, AList.lookup k (s.succOf nt) = some x) ∨ (s.succOf nt = [] ∧ FP E H0 nt x))
    (h : query E n s nt p = some (s', r)) : OInv E H0 s' :=
  (big_order H (big_of_query E h) hs hn hh ho trivial trivial hp).1

/-- **tie-breaking of heapq**: `heappush` replaces the root only by a strictly smaller element, so
    the first pop of a heap built by pushes is the first minimum in push order -/
theorem C03_HS_heappush_root {α : Type} (lt : α → α → Bool) (w : Heapq.WeakOrder lt) (h : List α) (x : α)
    (hh : Heapq.IsHeap lt h) : (Heapq.push lt h x).head? = Heapq.bestStep lt h.head? x :=
  Heapq.push_head w h x hh

example : (Heapq.push (fun a b : Nat × Nat => decide (a.1 < b.1)) [(1, 0), (3, 0)] (1, 7)).head? = some (1, 0) := by
  decide

/-- **the max-priority phase leaves tables in sync** (`HS.MaxOK`: `max_priority[(S, P)]` is `P` applied
    to the current `max_priority[Si]`, `max_priority[S]` is the first best of them in rule order) and
    `__init_heap__` then builds a state in which every argument of an initial program is the first
    pop of its non-terminal (`HS.Base`) — acyclic grammar, no empty row, dict keys distinct -/
theorem C03_HS_base (E : Env S Unit Rat) (rank : NT S Unit → Nat) (HI : InitHyp E rank)
    (w : Heapq.WeakOrder E.ops.lt) (hthr : E.ops.thr = none) (hk : (AList.keys E.G.rules).Nodup) (fuel : Nat) :
    ∀ s3, preHeaps E fuel (St.empty E.G) = some s3 → Base E s3 :=
  preHeaps_base E rank HI w hthr hk fuel

/-- **BEST-FIRST ORDER** of heap search (`HeapSearch`, threshold 0, no filter) on an ACYCLIC
    context-free grammar: for every fuel and every number of steps the yielded probabilities
    are non-increasing.  Hypotheses (all decidable on a literal grammar, see the example):
    `OrdHyp` — priorities are the probabilities, weights non-negative, `rank` strictly decreases from
    a non-terminal to the non-terminals of its rules; `InitHyp` — dict rows have distinct keys, same
    acyclicity, no non-terminal with an empty row; the rule table has distinct keys.
    Without acyclicity the statement is false (`finding_C03_HS_reentrant`). -/
theorem C03_HS_sorted (E : Env S Unit Rat) (rank : NT S Unit → Nat) (H : OrdHyp E rank) (HI : InitHyp E rank)
    (hthr : E.ops.thr = none) (hk : (AList.keys E.G.rules).Nodup) (hf : ∀ p, E.filter p = true)
    (fuel k : Nat) (g' : Gen S Unit Rat) (out : List Prog) (b : Bool)
    (h : take E fuel k (Gen.new E.G) [] = some (g', out, b)) :
    out.Pairwise (fun p q => G.prob E.G E.W q E.G.start ≤ G.prob E.G E.W p E.G.start) :=
  take_sorted E rank H HI hthr hk hf fuel k g' out b h

/-- **every strictly more probable program was yielded before** (complete runs): when the generator
    has stopped, a member `p` of the grammar that is strictly more probable than a yielded `q` occurs
    before `q` in the output.  (For a proper prefix of the run the statement is not proved.) -/
theorem C03_HS_more_probable_before (E : Env S Unit Rat) (rank : NT S Unit → Nat) (C : CompHyp E rank)
    (fuel k : Nat) (g' : Gen S Unit Rat) (l1 l2 : List Prog) (q p : Prog)
    (h : take E fuel k (Gen.new E.G) [] = some (g', l1 ++ q :: l2, true))
    (hp : contains E.G p = true) (hlt : G.prob E.G E.W q E.G.start < G.prob E.G E.W p E.G.start) : p ∈ l1 := by
  have hsorted := C03_HS_sorted E rank C.ord C.init C.thr C.keys C.nofilter fuel k g' _ true h
  have hmem : p ∈ l1 ++ q :: l2 := by
    rw [contains_eq_gen] at hp
    exact take_complete E rank C fuel k g' _ h p hp
  rcases List.mem_append.mp hmem with h1 | h2
  · exact h1
  · exfalso
    have hpw := (List.pairwise_append.mp hsorted).2.1
    rcases List.mem_cons.mp h2 with rfl | h3
    · exact absurd hlt (Rat.lt_irrefl)
    · have := (List.pairwise_cons.mp hpw).1 p h3
      exact absurd hlt (Rat.not_lt.mpr this)

/-- the same from a hypothesis on the state produced by the prologue only (any threshold; kept for
    grammars outside `InitHyp`): the yielded probabilities are non-increasing PROVIDED the state produced
    by the prologue of `generator()` satisfies the order invariant for some reference heaps. -/
theorem C03_HS_sorted_partial (E : Env S Unit Rat) (rank : NT S Unit → Nat) (H : OrdHyp E rank)
    (hnd : RowsNodup E.G) (hf : ∀ p, E.filter p = true) (fuel k : Nat)
    (hpro : ∀ s0, prologue E fuel (St.empty E.G) = some s0 → ∃ H0, OInv E H0 s0)
    (g' : Gen S Unit Rat) (out : List Prog) (b : Bool)
    (h : take E fuel k (Gen.new E.G) [] = some (g', out, b)) :
    out.Pairwise (fun p q => G.prob E.G E.W q E.G.start ≤ G.prob E.G E.W p E.G.start) :=
  take_sorted_of_pro H hnd hf fuel k hpro g' out b h

/-! non-vacuity: `S0 → 1 | + S1 S1`, `S1 → 1 | x` -/
def oInt : Ty := .base "int"
def oOne : Sym := Sym.prim "1" oInt
def oX : Sym := Sym.var 0 oInt
def oPlus : Sym := Sym.prim "+" (.arrow oInt (.arrow oInt oInt))
def oG : TT Nat Unit := ⟨(oInt, (0, ())), [((oInt, (0, ())), [(oOne, ([], ())), (oPlus, ([(oInt, 1), (oInt, 1)], ()))]),
                                          ((oInt, (1, ())), [(oOne, ([], ())), (oX, ([], ()))])]⟩
def oW : AList (NT Nat Unit) (AList Sym Rat) :=
  [((oInt, (0, ())), [(oOne, 1/2), (oPlus, 1/2)]), ((oInt, (1, ())), [(oOne, 1/4), (oX, 3/4)])]
def oE : Env Nat Unit Rat := { G := oG, W := oW, ops := probOps 0, filter := fun _ => true }
def oRank (nt : NT Nat Unit) : Nat := 1 - nt.2.1

theorem oHyp : OrdHyp oE oRank :=
  ⟨⟨0, rfl⟩, wnonneg_of_all oW (by decide +kernel), acyclic_of_all oG oRank (by decide)⟩

theorem oInit : InitHyp oE oRank :=
  ⟨rowsNodup_of_all oG (by decide), acyclic_of_all oG oRank (by decide), by
    intro nt rs h
    have hm := AList.lookup_some_mem h
    simp only [oE, oG, List.mem_cons, Prod.mk.injEq, List.not_mem_nil, or_false] at hm
    rcases hm with ⟨_, rfl⟩ | ⟨_, rfl⟩ <;> simp⟩

/-- the state produced by the prologue satisfies the order invariant (kernel evaluation) -/
theorem oPro : ∀ s0, prologue oE 50 (St.empty oG) = some s0 → ∃ H0, OInv oE H0 s0 := by
  have h : (prologue oE 50 (St.empty oG)).all (oinvB oE) = true := by decide +kernel
  intro s0 hs0
  rw [hs0] at h
  exact ⟨s0.heapOf, oinv_of_oinvB oE s0 h⟩

example : ∀ g' out b, take oE 50 10 (Gen.new oG) [] = some (g', out, b) →
    out.Pairwise (fun p q => G.prob oG oW q oG.start ≤ G.prob oG oW p oG.start) :=
  fun g' out b h => C03_HS_sorted oE oRank oHyp oInit rfl (by decide) (fun _ => rfl) 50 10 g' out b h

example : ∀ g' out b, take oE 50 10 (Gen.new oG) [] = some (g', out, b) →
    out.Pairwise (fun p q => G.prob oG oW q oG.start ≤ G.prob oG oW p oG.start) :=
  fun g' out b h => C03_HS_sorted_partial oE oRank oHyp (rowsNodup_of_all oG (by decide)) (fun _ => rfl) 50 10
    oPro g' out b h

example : (take oE 50 10 (Gen.new oG) []).map (fun r => r.2.1.map (fun p => G.prob oG oW p oG.start)) =
    some [1/2, 9/32, 3/32, 3/32, 1/32] := by decide +kernel
end Order

/-! ### finding: best-first order is violated on recursive grammars (re-entrant `query`) -/
section Reentrant
def rInt : Ty := .base "t"
def rF : Sym := Sym.prim "F" (.arrow rInt (.arrow rInt rInt))
def rg : Sym := Sym.prim "g" (.arrow rInt rInt)
def rb : Sym := Sym.prim "b" rInt
def rc : Sym := Sym.prim "c" rInt
/-- `CFG.infinite(DSL{F : t1 -> t1 -> t0, b : t0, g : t0 -> t1, c : t1}, t0, n_gram=1)`:
    `S0 → b | F S1 S1`, `S1 → c | g S0` -/
def rG : TT Nat Unit := ⟨(rInt, (0, ())), [((rInt, (0, ())), [(rb, ([], ())), (rF, ([(rInt, 1), (rInt, 1)], ()))]),
                                          ((rInt, (1, ())), [(rc, ([], ())), (rg, ([(rInt, 0)], ()))])]⟩
def rW : AList (NT Nat Unit) (AList Sym Rat) :=
  [((rInt, (0, ())), [(rb, 1/64), (rF, 63/64)]), ((rInt, (1, ())), [(rc, 1/2), (rg, 1/2)])]
def rE : Env Nat Unit Rat := { G := rG, W := rW, ops := probOps 0, filter := fun _ => true }
def rFcc : Prog := .node rF [.node rc [], .node rc []]

/-- (finding C03-F3) heap search yields `(F c c)` (63/256), then `b` (1/64) **before** `(F (g (F c c)) c)` (3969/65536 > 1/64):
    while `__add_successors__((F c c), S0)` is still running (the successors of `(F c c)` are not pushed
    yet), the nested `query(S1, c)` pops `(g (F c c))`, whose `__add_successors__` calls
    `query(S0, (F c c))`, which pops the heap of `S0` too early.  Same output on the implementation. -/
theorem finding_C03_HS_reentrant :
    (take rE 200 3 (Gen.new rG) []).map (fun r => r.2.1.map (fun p => (p, G.prob rG rW p rG.start))) =
      some [(rFcc, 63/256), (.node rb [], 1/64), (.node rF [.node rg [rFcc], .node rc []], 3969/65536)] ∧
    ((1 : Rat)/64 < 3969/65536) := by
  decide +kernel
end Reentrant

/-! ### threshold, filter, prefix completeness, bucket search (generic development) -/
section Generic
open PS.HG
variable {S : Type} [DecidableEq S]

/-- **best-first order with any threshold and any filter, from scratch** (acyclic context-free
    grammar, every fuel, every prefix): the yielded probabilities are non-increasing.
    `HG.ProbHyp`: priorities `probOps t` with `0 ≤ t`, weights in `[0, 1]`, `rank` decreasing along
    the rules, distinct keys, no empty row, every rule has a weight, the code after fix 53c3acb. -/
theorem C03_HS_sorted_threshold (E : Env S Unit Rat) (rank : NT S Unit → Nat) (t : Rat) (P : ProbHyp E rank t)
    (fuel k : Nat) (g' : Gen S Unit Rat) (out : List Prog) (b : Bool)
    (h : take E fuel k (Gen.new E.G) [] = some (g', out, b)) :
    out.Pairwise (fun p q => G.prob E.G E.W q E.G.start ≤ G.prob E.G E.W p E.G.start) :=
  (prob_safe P fuel k g' out b h).2.2.2

/-- **PREFIX COMPLETENESS** (every fuel, every prefix `l1 ++ q :: l2` of the run, stopped or not):
    a member `p` of strictly larger probability than the yielded `q` — above the threshold, all of
    whose sub-programs are accepted by the filter — occurs before `q` -/
theorem C03_HS_prefix_complete (E : Env S Unit Rat) (rank : NT S Unit → Nat) (t : Rat) (P : ProbHyp E rank t)
    (fuel k : Nat) (g' : Gen S Unit Rat) (l1 l2 : List Prog) (q p : Prog) (b : Bool)
    (h : take E fuel k (Gen.new E.G) [] = some (g', l1 ++ q :: l2, b))
    (hp : contains E.G p = true) (hcl : clean E.filter p = true)
    (hthr : t < G.prob E.G E.W p E.G.start ∨ t = 0)
    (hlt : G.prob E.G E.W q E.G.start < G.prob E.G E.W p E.G.start) : p ∈ l1 :=
  prob_prefix_complete P fuel k g' l1 l2 q p b h (by rw [← contains_eq_gen]; exact hp) hcl hthr hlt

/-- the statement of C03 for heap search as it is used (threshold 0, no filter): once a program of
    probability `x` has been produced, every program of strictly larger probability has been produced -/
theorem C03_HS_prefix_complete_nofilter (E : Env S Unit Rat) (rank : NT S Unit → Nat) (P : ProbHyp E rank 0)
    (hf : ∀ p, E.filter p = true)
    (fuel k : Nat) (g' : Gen S Unit Rat) (l1 l2 : List Prog) (q p : Prog) (b : Bool)
    (h : take E fuel k (Gen.new E.G) [] = some (g', l1 ++ q :: l2, b))
    (hp : contains E.G p = true)
    (hlt : G.prob E.G E.W q E.G.start < G.prob E.G E.W p E.G.start) : p ∈ l1 :=
  C03_HS_prefix_complete E rank 0 P fuel k g' l1 l2 q p b h hp (clean_of_all _ hf p) (Or.inr rfl) hlt

/-- **bucket search: order by non-decreasing bucket tuple** (acyclic context-free grammar, any
    filter, every fuel, every prefix): every yielded program has a bucket tuple of the size of the
    search (`HG.bucketOf`: the sum of the buckets of its rules) and no later tuple is `<` an earlier one -/
theorem C03_HS_bucket_sorted (E : Env S Unit Bucket) (rank : NT S Unit → Nat) (size : Nat)
    (B : BucketHyp E rank size) (fuel k : Nat) (g' : Gen S Unit Bucket) (out : List Prog) (b : Bool)
    (h : take E fuel k (Gen.new E.G) [] = some (g', out, b)) :
    (∀ p ∈ out, (bucketOf E p).length = size) ∧
    out.Pairwise (fun p q => Bucket.lt (bucketOf E q) (bucketOf E p) = false) :=
  ⟨(bucket_safe B fuel k g' out b h).2.2.2.1, (bucket_safe B fuel k g' out b h).2.2.2.2⟩

/-- bucket search, prefix completeness: a member (all of whose sub-programs are accepted) whose
    bucket tuple is `<` the tuple of a yielded program has been yielded -/
theorem C03_HS_bucket_prefix_complete (E : Env S Unit Bucket) (rank : NT S Unit → Nat) (size : Nat)
    (B : BucketHyp E rank size) (fuel k : Nat) (g' : Gen S Unit Bucket) (out : List Prog) (b : Bool)
    (h : take E fuel k (Gen.new E.G) [] = some (g', out, b)) (p q : Prog) (hq : q ∈ out)
    (hp : contains E.G p = true) (hcl : clean E.filter p = true)
    (hlt : Bucket.lt (bucketOf E p) (bucketOf E q) = true) : p ∈ out :=
  bucket_prefix_complete B fuel k g' out b h p q hq (by rw [← contains_eq_gen]; exact hp) hcl hlt

/-! non-vacuity: the grammar of the section Order with threshold 1/16 (heap search) and with
    buckets of size 3 -/
def tE : Env Nat Unit Rat := { G := oG, W := oW, ops := probOps (1/16), filter := fun _ => true, dropDeleted := false }
def tE0 : Env Nat Unit Rat := { G := oG, W := oW, ops := probOps 0, filter := fun _ => true, dropDeleted := false }
def bE : Env Nat Unit Bucket := { G := oG, W := oW, ops := bucketOps 3, filter := fun _ => true, dropDeleted := false }

theorem tE_hyp : ProbHyp tE oRank (1/16) :=
  probHyp_of_checks tE oRank (1/16) rfl (by decide +kernel) (by decide +kernel) (by decide) (by decide) (by decide)
    (by decide) (by decide +kernel) rfl
theorem tE0_hyp : ProbHyp tE0 oRank 0 :=
  probHyp_of_checks tE0 oRank 0 rfl (by decide) (by decide +kernel) (by decide) (by decide) (by decide)
    (by decide) (by decide +kernel) rfl
theorem bE_hyp : BucketHyp bE oRank 3 :=
  bucketHyp_of_checks bE oRank 3 rfl (by decide) (by decide) (by decide) (by decide) (by decide +kernel) rfl

example : ∀ k g' out b, take tE 50 k (Gen.new oG) [] = some (g', out, b) →
    out.Pairwise (fun p q => G.prob oG oW q oG.start ≤ G.prob oG oW p oG.start) :=
  fun k g' out b h => C03_HS_sorted_threshold tE oRank (1/16) tE_hyp 50 k g' out b h

/-- with threshold 1/16 the program of probability 1/32 is not produced -/
example : (take tE 50 10 (Gen.new oG) []).map (fun r => (r.2.1.map (fun p => G.prob oG oW p oG.start), r.2.2)) =
    some ([1/2, 9/32, 3/32, 3/32], true) := by decide +kernel

/-- after 2 of the 5 programs (a proper prefix: the generator has not stopped) -/
example : (take tE0 50 2 (Gen.new oG) []).map (fun r => (r.2.1.map (fun p => G.prob oG oW p oG.start), r.2.2)) =
    some ([1/2, 9/32], false) := by decide +kernel
example : ∀ g' l1 l2 q p b, take tE0 50 2 (Gen.new oG) [] = some (g', l1 ++ q :: l2, b) → contains oG p = true →
    G.prob oG oW q oG.start < G.prob oG oW p oG.start → p ∈ l1 :=
  fun g' l1 l2 q p b h hp hlt =>
    C03_HS_prefix_complete_nofilter tE0 oRank tE0_hyp (fun _ => rfl) 50 2 g' l1 l2 q p b h hp hlt

example : ∀ k g' out b, take bE 50 k (Gen.new oG) [] = some (g', out, b) →
    (∀ p ∈ out, (bucketOf bE p).length = 3) ∧
    out.Pairwise (fun p q => Bucket.lt (bucketOf bE q) (bucketOf bE p) = false) :=
  fun k g' out b h => C03_HS_bucket_sorted bE oRank 3 bE_hyp 50 k g' out b h

example : (take bE 50 10 (Gen.new oG) []).map (fun r => (r.2.1.map (bucketOf bE), r.2.2)) =
    some ([[0, 1, 0], [0, 1, 2], [1, 1, 1], [1, 1, 1], [2, 1, 0]], true) := by decide +kernel
end Generic

/-! ## unambiguous machine -/
section UMachine
open PS.UHS
variable {U π : Type} [DecidableEq U]

/-- **every heap of the unambiguous-grammar machine is valid in every reachable state**:
    `UHS.HInv E s` — every `heaps[nt]` and the start heap `_start_heap` satisfy heapq's invariant.
    It holds for the fresh enumerator and every `next(generator)` keeps it: any grammar, any filter,
    any strict weak order of priorities (the code after fix 7721229, `kway = true`) -/
theorem C03_HS_U_heaps_valid (E : UHS.Env U π) (hk : E.kway = true) (w : Heapq.WeakOrder E.ops.lt) (fuel : Nat) :
    UHS.HInv E (UHS.St.empty E.G) ∧
    ∀ (k : Nat) (s s' : UHS.St U π) (r : Option Prog), UHS.HInv E s → UHS.next E fuel k s = some (s', r) → UHS.HInv E s' :=
  ⟨hinv_empty E, fun k _ _ _ hs h => hs.next hk w k h⟩

/-- `query(S, program)` keeps the heaps valid -/
theorem C03_HS_U_query_heaps (E : UHS.Env U π) (hk : E.kway = true) (w : Heapq.WeakOrder E.ops.lt) (n : Nat)
    (s s' : UHS.St U π) (nt : UHS.UNT U) (p r : Option Prog) (hs : UHS.HInv E s)
    (h : UHS.query E n s nt p = some (s', r)) : UHS.HInv E s' :=
  big_hinv E hk w (big_of_query E h) hs

/-- hence every pop made by `query` returns an element of minimal priority of its heap, and the pop
    of the start heap in `start_query` returns an entry of minimal adjusted priority (heap search: of
    maximal probability `start weight × probability from the start symbol`) -/
theorem C03_HS_U_pop_max (E : UHS.Env U π) (w : Heapq.WeakOrder E.ops.lt) (s : UHS.St U π) (hs : UHS.HInv E s) :
    (∀ (nt : UHS.UNT U) (e : π × Prog) (h' : List (π × Prog)),
      Heapq.pop (UHS.ltE E.ops) (s.heapOf nt) = some (e, h') → ∀ y ∈ s.heapOf nt, E.ops.lt y.1 e.1 = false) ∧
    (∀ (e : π × Prog × UHS.UNT U) (h' : List (π × Prog × UHS.UNT U)),
      Heapq.pop (UHS.ltS E.ops) s.startHeap = some (e, h') → ∀ y ∈ s.startHeap, E.ops.lt y.1 e.1 = false) :=
  ⟨fun nt _ _ hp => (Heapq.pop_isHeap (UHS.ltE_weakOrder E.ops w) _ _ _ (hs.1 nt) hp).2,
   fun _ _ hp => (Heapq.pop_isHeap (UHS.ltS_weakOrder E.ops w) _ _ _ hs.2 hp).2⟩

/-! non-vacuity: the three-start grammar of finding C02-F2, heap search and bucket search -/
def uT : Ty := .base "int"
def u0 : UHS.UNT Nat := (uT, 0)
def u1 : UHS.UNT Nat := (uT, 1)
def u2 : UHS.UNT Nat := (uT, 2)
def uPlus : Sym := Sym.prim "+" (.arrow uT (.arrow uT uT))
def uOne : Sym := Sym.prim "1" uT
def uV0 : Sym := Sym.var 0 uT
/-- `S0 → 1 | var0`, `S1 → + S0 S0`, `S2 → + S0 S1 | + S1 S0`; three start symbols; 22 programs -/
def uG : UG Nat :=
  { starts := [(u2, 1/2), (u0, 1/4), (u1, 1/4)],
    rules := [(u1, [(uPlus, [([u0, u0], 1)])]), (u0, [(uOne, [([], 1/4)]), (uV0, [([], 3/4)])]),
              (u2, [(uPlus, [([u0, u1], 3/5), ([u1, u0], 2/5)])])] }
def uE : UHS.Env Nat Rat := { G := uG, ops := UHS.probOps 0, filter := fun _ => true, kway := true }

theorem uE_weak : Heapq.WeakOrder uE.ops.lt := by
  constructor
  · intro a b h
    simp only [uE, UHS.probOps, decide_eq_true_eq, decide_eq_false_iff_not, Rat.not_lt] at h ⊢
    exact Rat.le_of_lt h
  · intro a b c h1 h2
    simp only [uE, UHS.probOps, decide_eq_false_iff_not, Rat.not_lt] at h1 h2 ⊢
    exact Rat.le_trans h2 h1

example : ∀ k s s' r, UHS.HInv uE s → UHS.next uE 60 k s = some (s', r) → UHS.HInv uE s' :=
  (C03_HS_U_heaps_valid uE rfl uE_weak 60).2
example : (UHS.take uE 60 30 (UHS.St.empty uG) []).map (fun r => (r.2.1.length, r.2.2)) = some (22, true) := by
  decide +kernel

/-- **the order invariant of a non-terminal is kept by every call** (acyclic unambiguous grammar, no
    threshold, no filter; `UHS.OHyp`: `rank` decreases along the alternatives, strict weak order,
    `combine` monotone on the priorities of derivations, alternatives unambiguous, dict keys distinct).
    `UHS.NTInv E s nt`: `succ[nt]` is one chain from the sentinel; its first element is
    `max_priority[nt]` (the root of the heap built in phase 2 of `__init_non_terminal__` is the first
    strict minimum of the scan of phase 1: tie-breaking of heapq); (I1) the arguments of every program
    ever pushed for `nt` were popped for the non-terminals of its alternative `_keys[nt][program]`;
    (I4) no heap element is better than a popped program, a recorded successor is not better than its
    predecessor.  Under the precondition "the key was popped for `nt`" (`UHS.OPre`), `query(nt, key)`
    keeps it for `nt` and for every non-terminal of smaller rank (`UHS.Below`), and returns a program
    that is not better than the key. -/
theorem C03_HS_U_order_step (E : UHS.Env U π) (rank : UHS.UNT U → Nat) (Good : π → Prop) (H : OHyp E rank Good)
    (n : Nat) (s s' : UHS.St U π) (nt : UHS.UNT U) (p r : Option Prog) (hb : Base E s)
    (hpre : OPre E rank (.query nt p) s) (h : UHS.query E n s nt p = some (s', r)) :
    Below E rank (rank nt) s' ∧ NTInv E s' nt ∧ ∀ q, r = some q → ∀ k, p = some k → UHS.LE E nt k q := by
  obtain ⟨a, b, d, _⟩ := big_order H (big_of_query E h) hb trivial trivial hpre
  exact ⟨a, b.1, d⟩

/-- **BEST-FIRST ORDER of the unambiguous-grammar machine** on ACYCLIC unambiguous grammars with SEVERAL
    START SYMBOLS and start weights (every fuel, every number of steps): the keys
    `adjust_priority_for_start(priority from the start symbol, start)` of the yielded programs
    (`UHS.StartKey`; heap search: `start weight × probability from the start symbol`) are
    non-decreasing for `<` — for heap search the probabilities are non-increasing.
    `UHS.RHyp` = `OHyp` + the start languages are disjoint, `G.starts` is a set, no filter,
    `adjust_priority_for_start` is monotone; all decidable on a literal grammar (`UHS.rhyp_prob`).
    This is where findings C02-F2 / C03-F1 lived: the theorem is about the code after fix 7721229
    (`kway = true`), the start heap being a k-way merge of the sorted enumerations of the start symbols. -/
theorem C03_HS_U_sorted (E : UHS.Env U π) (rank : UHS.UNT U → Nat) (Good : π → Prop) (R : RHyp E rank Good)
    (fuel k : Nat) (s' : UHS.St U π) (out : List Prog) (b : Bool)
    (h : UHS.take E fuel k (UHS.St.empty E.G) [] = some (s', out, b)) :
    out.Pairwise (fun p q => ∀ kp kq, StartKey E p kp → StartKey E q kq → E.ops.lt kq kp = false) :=
  take_sorted R fuel k s' out b h

/-- heap search (`UHeapSearch`, threshold 0): the yielded probabilities are non-increasing -/
theorem C03_HS_U_sorted_prob (E : UHS.Env U Rat) (rank : UHS.UNT U → Nat) (hops : E.ops = UHS.probOps 0)
    (R : RHyp E rank (fun v : Rat => 0 ≤ v)) (fuel k : Nat) (s' : UHS.St U Rat) (out : List Prog) (b : Bool)
    (h : UHS.take E fuel k (UHS.St.empty E.G) [] = some (s', out, b)) :
    out.Pairwise (fun p q => ∀ nt w pr nt' w' pr', UHS.startW E nt = some w → HasPrio E p nt pr →
      UHS.startW E nt' = some w' → HasPrio E q nt' pr' → pr' * w' ≤ pr * w) := by
  refine (C03_HS_U_sorted E rank _ R fuel k s' out b h).imp ?_
  intro p q hpq nt w pr nt' w' pr' hw hpr hw' hpr'
  have := hpq (E.ops.adjust pr w) (E.ops.adjust pr' w') ⟨nt, w, pr, hw, hpr, rfl⟩ ⟨nt', w', pr', hw', hpr', rfl⟩
  rw [hops] at this
  simpa [UHS.probOps, Rat.not_lt] using this

/-- **BEST-FIRST ORDER IN TERMS OF THE SPECIFICATION**: on an acyclic unambiguous grammar the probabilities
    `U.probU` (PS/Model/Prob.lean: weight of the start symbol × product of the rule weights of the unique
    derivation) of the programs yielded by `UHeapSearch` are non-increasing — every fuel, every prefix,
    several start symbols.  (`UHS.startKey_probU`: the key of the start heap is `U.probU`.) -/
theorem C03_HS_U_sorted_probU (E : UHS.Env U Rat) (rank : UHS.UNT U → Nat) (hops : E.ops = UHS.probOps 0)
    (R : RHyp E rank (fun v : Rat => 0 ≤ v)) (hkeys : ∀ nt F, ((UHS.altsOf E nt F).map (·.1)).Nodup) (d0 : UHS.UNT U)
    (hun : ∀ p, PS.U.unambiguousOn (E.G.toUCFG d0) p = true) (fuel k : Nat) (s' : UHS.St U Rat) (out : List Prog) (b : Bool)
    (h : UHS.take E fuel k (UHS.St.empty E.G) [] = some (s', out, b)) :
    out.Pairwise (fun p q => PS.U.probU (E.G.toUCFG d0) E.G.toTags q ≤ PS.U.probU (E.G.toUCFG d0) E.G.toTags p) := by
  have hsound := ((sinv_empty E).take R.ohyp.ghyp k (by intro q hq; cases hq) h).2
  refine (C03_HS_U_sorted_prob E rank hops R fuel k s' out b h).imp_of_mem ?_
  intro p q hp hq hpq
  obtain ⟨nt, w, hw, pr, hpr⟩ := hsound p hp
  obtain ⟨nt', w', hw', pr', hpr'⟩ := hsound q hq
  rw [startKey_probU E 0 hops hkeys d0 p (hun p) nt w pr hw hpr,
    startKey_probU E 0 hops hkeys d0 q (hun q) nt' w' pr' hw' hpr']
  exact hpq nt w pr nt' w' pr' hw hpr hw' hpr'

/-- **every strictly more probable program was yielded before** (complete runs): when the generator has
    stopped (it does: `C02_HS_U_full`), a member `p` that is strictly more probable than a yielded `q`
    occurs before `q` -/
theorem C03_HS_U_more_probable_before (E : UHS.Env U Rat) (rank : UHS.UNT U → Nat) (hops : E.ops = UHS.probOps 0)
    (R : RHyp E rank (fun v : Rat => 0 ≤ v)) (hnf : ∀ p, E.filter p = true) (hkeys : ∀ nt F, ((UHS.altsOf E nt F).map (·.1)).Nodup) (d0 : UHS.UNT U)
    (hun : ∀ p, PS.U.unambiguousOn (E.G.toUCFG d0) p = true) (fuel k : Nat) (s' : UHS.St U Rat) (l1 l2 : List Prog)
    (q p : Prog) (h : UHS.take E fuel k (UHS.St.empty E.G) [] = some (s', l1 ++ q :: l2, true))
    (hp : PS.U.genU (E.G.toUCFG d0) p = true)
    (hlt : PS.U.probU (E.G.toUCFG d0) E.G.toTags q < PS.U.probU (E.G.toUCFG d0) E.G.toTags p) : p ∈ l1 := by
  have hsorted := C03_HS_U_sorted_probU E rank hops R hkeys d0 hun fuel k s' _ true h
  obtain ⟨nt, w, hw, hd⟩ := (derStart_iff_genU E d0 p).mpr hp
  have hmem : p ∈ l1 ++ q :: l2 := take_complete R fuel k s' _ h p nt w hw hd (PS.HG.clean_of_all E.filter hnf p)
  rcases List.mem_append.mp hmem with h1 | h2
  · exact h1
  · exfalso
    have hpw := (List.pairwise_append.mp hsorted).2.1
    rcases List.mem_cons.mp h2 with rfl | h3
    · exact absurd hlt (Rat.lt_irrefl)
    · have := (List.pairwise_cons.mp hpw).1 p h3
      exact absurd hlt (Rat.not_lt.mpr this)

/-- **PREFIX COMPLETENESS** of the unambiguous-grammar machine (acyclic unambiguous grammars, several start
    symbols, no threshold, no filter; every fuel, every prefix of the run, stopped or not): once a program
    `q` has been yielded, every member whose key is strictly better than the key of `q` has been yielded.
    Proof: `UHS.dominated` — in every quiescent state every derivable program that was not popped for a
    non-terminal is not better than some element of its heap (induction on the rank; a walk along the
    successor chains of the argument positions, measured by the chain steps left), hence nothing better
    than a popped program is left (`UHS.prefixOK_all`); at the start heap, the entry of a start symbol is
    not worse than anything not yet taken from it and not better than anything taken (`UHS.OG.heap_ge`). -/
theorem C03_HS_U_prefix_complete (E : UHS.Env U π) (rank : UHS.UNT U → Nat) (Good : π → Prop) (R : RHyp E rank Good)
    (hnf : ∀ p, E.filter p = true) (fuel k : Nat) (s' : UHS.St U π) (out : List Prog) (b : Bool)
    (h : UHS.take E fuel k (UHS.St.empty E.G) [] = some (s', out, b)) (p q : Prog) (hq : q ∈ out) (kp kq : π)
    (hkp : StartKey E p kp) (hkq : StartKey E q kq) (hlt : E.ops.lt kp kq = true) : p ∈ out :=
  take_prefix_complete R fuel k s' out b h p q hq kp kq hkp hkq hlt (PS.HG.clean_of_all E.filter hnf p)

/-- the statement of C03 for `UHeapSearch` in terms of the specification: in a prefix `l1 ++ q :: l2` of the
    enumeration, every member of probability `U.probU` strictly larger than that of `q` is in `l1` — once a
    program of probability x has been produced, every program of strictly larger probability has been -/
theorem C03_HS_U_prefix_complete_probU (E : UHS.Env U Rat) (rank : UHS.UNT U → Nat) (hops : E.ops = UHS.probOps 0)
    (R : RHyp E rank (fun v : Rat => 0 ≤ v)) (hnf : ∀ p, E.filter p = true) (hkeys : ∀ nt F, ((UHS.altsOf E nt F).map (·.1)).Nodup) (d0 : UHS.UNT U)
    (hun : ∀ p, PS.U.unambiguousOn (E.G.toUCFG d0) p = true) (fuel k : Nat) (s' : UHS.St U Rat) (l1 l2 : List Prog)
    (q p : Prog) (b : Bool) (h : UHS.take E fuel k (UHS.St.empty E.G) [] = some (s', l1 ++ q :: l2, b))
    (hp : PS.U.genU (E.G.toUCFG d0) p = true)
    (hlt : PS.U.probU (E.G.toUCFG d0) E.G.toTags q < PS.U.probU (E.G.toUCFG d0) E.G.toTags p) : p ∈ l1 := by
  have hsound := ((sinv_empty E).take R.ohyp.ghyp k (by intro x hx; cases hx) h).2
  have hsorted := C03_HS_U_sorted_probU E rank hops R hkeys d0 hun fuel k s' _ b h
  obtain ⟨nt, w, hw, pr, hpr⟩ := (derStart_iff_genU E d0 p).mpr hp
  obtain ⟨nt', w', hw', pr', hpr'⟩ := hsound q (by simp)
  have e1 := startKey_probU E 0 hops hkeys d0 p (hun p) nt w pr hw hpr
  have e2 := startKey_probU E 0 hops hkeys d0 q (hun q) nt' w' pr' hw' hpr'
  have hmem : p ∈ l1 ++ q :: l2 := by
    apply C03_HS_U_prefix_complete E rank _ R hnf fuel k s' _ b h p q (by simp) (E.ops.adjust pr w) (E.ops.adjust pr' w')
      ⟨nt, w, pr, hw, hpr, rfl⟩ ⟨nt', w', pr', hw', hpr', rfl⟩
    rw [hops]
    show decide (pr' * w' < pr * w) = true
    rw [← e1, ← e2]
    exact decide_eq_true hlt
  rcases List.mem_append.mp hmem with h1 | h2
  · exact h1
  · exfalso
    have hpw := (List.pairwise_append.mp hsorted).2.1
    rcases List.mem_cons.mp h2 with rfl | h3
    · exact absurd hlt (Rat.lt_irrefl)
    · have := (List.pairwise_cons.mp hpw).1 p h3
      exact absurd hlt (Rat.not_lt.mpr this)

/-- **the unambiguous bucket search: order by non-decreasing bucket tuple** (acyclic unambiguous grammars,
    several start symbols, every fuel, every prefix): the tuples
    `bucket of the program from its start symbol + Bucket(size).add_prob_uniform(start weight)` of the yielded
    programs are non-decreasing for `Bucket.__lt__`; and (prefix completeness) a member whose tuple is `<`
    the tuple of a yielded program has been yielded -/
theorem C03_HS_U_bucket_sorted (E : UHS.Env U UHS.Bucket) (rank : UHS.UNT U → Nat) (size : Nat)
    (R : RHyp E rank (fun b : UHS.Bucket => b.length = size)) (hnf : ∀ p, E.filter p = true) (fuel k : Nat) (s' : UHS.St U UHS.Bucket) (out : List Prog)
    (b : Bool) (h : UHS.take E fuel k (UHS.St.empty E.G) [] = some (s', out, b)) :
    out.Pairwise (fun p q => ∀ kp kq, StartKey E p kp → StartKey E q kq → E.ops.lt kq kp = false) ∧
    (∀ p q, q ∈ out → ∀ kp kq, StartKey E p kp → StartKey E q kq → E.ops.lt kp kq = true → p ∈ out) :=
  ⟨C03_HS_U_sorted E rank _ R fuel k s' out b h,
   fun p q hq kp kq hkp hkq hlt => C03_HS_U_prefix_complete E rank _ R hnf fuel k s' out b h p q hq kp kq hkp hkq hlt⟩

def uRank (nt : UHS.UNT Nat) : Nat := nt.2

theorem uE_rhyp : RHyp uE uRank (fun v : Rat => 0 ≤ v) :=
  rhyp_prob uE uRank rfl rfl (by decide) (by decide) (by decide) (by decide) (by decide) (by decide) (by decide)
    (by decide +kernel) (by decide)

example : ∀ k s' out b, UHS.take uE 60 k (UHS.St.empty uG) [] = some (s', out, b) →
    out.Pairwise (fun p q => ∀ nt w pr nt' w' pr', UHS.startW uE nt = some w → HasPrio uE p nt pr →
      UHS.startW uE nt' = some w' → HasPrio uE q nt' pr' → pr' * w' ≤ pr * w) :=
  fun k s' out b h => C03_HS_U_sorted_prob uE uRank rfl uE_rhyp 60 k s' out b h

theorem uE_unamb : ∀ p, PS.U.unambiguousOn (uG.toUCFG u0) p = true := by
  intro p
  -- bottom-up determinism + distinct alternative keys + distinct start symbols
  exact unambiguous_of_budet uE u0 (budet_of_check uE (by decide)) (altKeys_of_check uE (by decide)) (by decide) p

example : ∀ k s' out b, UHS.take uE 60 k (UHS.St.empty uG) [] = some (s', out, b) →
    out.Pairwise (fun p q => PS.U.probU (uG.toUCFG u0) uG.toTags q ≤ PS.U.probU (uG.toUCFG u0) uG.toTags p) :=
  fun k s' out b h => C03_HS_U_sorted_probU uE uRank rfl uE_rhyp (altKeys_of_check uE (by decide)) u0 uE_unamb 60 k s' out b h

/-- after 6 of the 22 programs (a proper prefix: the generator has not stopped) -/
example : ∀ s' l1 l2 q p b, UHS.take uE 60 6 (UHS.St.empty uG) [] = some (s', l1 ++ q :: l2, b) →
    PS.U.genU (uG.toUCFG u0) p = true →
    PS.U.probU (uG.toUCFG u0) uG.toTags q < PS.U.probU (uG.toUCFG u0) uG.toTags p → p ∈ l1 :=
  fun s' l1 l2 q p b h hp hlt =>
    C03_HS_U_prefix_complete_probU uE uRank rfl uE_rhyp (fun _ => rfl) (altKeys_of_check uE (by decide)) u0 uE_unamb 60 6 s' l1 l2 q p b h hp hlt

/-- the probabilities of the 22 programs of the example in the order of the enumeration -/
example : (UHS.take uE 60 6 (UHS.St.empty uG) []).map (fun r => r.2.1.map (PS.U.probU (uG.toUCFG u0) uG.toTags)) =
    some [3/16, 9/64, 81/640, 27/320, 1/16, 3/64] := by decide +kernel

def uEb : UHS.Env Nat UHS.Bucket := { G := uG, ops := UHS.bucketOps 3 false, filter := fun _ => true, kway := true }

theorem uEb_rhyp : RHyp uEb uRank (fun b : UHS.Bucket => b.length = 3) :=
  rhyp_bucket uEb uRank 3 rfl rfl (by decide) (by decide) (by decide) (by decide) (by decide) (by decide) (by decide)
    (by decide)

example : ∀ k s' out b, UHS.take uEb 60 k (UHS.St.empty uG) [] = some (s', out, b) →
    out.Pairwise (fun p q => ∀ kp kq, StartKey uEb p kp → StartKey uEb q kq → uEb.ops.lt kq kp = false) :=
  fun k s' out b h => (C03_HS_U_bucket_sorted uEb uRank 3 uEb_rhyp (fun _ => rfl) 60 k s' out b h).1

example : (UHS.take uEb 60 30 (UHS.St.empty uG) []).map (fun r => (r.2.1.length, r.2.2)) = some (22, true) := by
  decide +kernel
end UMachine

end PS.C03HS
