import PS.Props.C12_HS
