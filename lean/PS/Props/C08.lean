/-
  C08 — splitting a probabilistic unambiguous grammar (grammar_splitter.py after the repairs
  C08-F1 and C08-F2).

  What is proved, for EVERY well-formed grammar (`WF`, a decidable check the driver evaluates on
  every case), every quantity, every number of groups and EVERY operation trace of the balancing
  loop (whatever the floating point comparisons decided):

  * the nodes are a prefix-free cover of the derivations of the grammar: initially
    (`C08_cover_start`), after `__split_nodes_until_quantity_reached__` (`C08_cover_nodes`),
    after grouping and after any sequence of swap / take / split operations
    (`C08_cover_invariant`, `C08_cover_pipeline`);
  * hence the cells of different groups are disjoint and their union is the language
    (`C08_partition`);
  * masses: the children of a node carry its probability times the weight of the rules
    (`C08_mass_split`), the derivations of a cell weigh `start weight × path weight × tail mass`
    (`C08_mass`), and the specification of a fragment (`cellSpec`: original probability / mass
    of the group) is a probability distribution (`C08_reweight`).

  * the fragment grammar of a group (`pcfgFrom`, the model of `__pcfg_from__`; helper lemmas in
    PS/Proofs/SplitterFrag1..11): for every group of valid, pairwise prefix-incomparable nodes
    the erasure of the renaming is a bijection between the derivations of the fragment and the
    derivations in the cells of the group's nodes (`C08_fragment_lang`: soundness, completeness,
    injectivity = unambiguity); every derivation of the fragment has its original probability
    divided by the mass of the group (`C08_fragment_prob`, hence the fragment realises `cellSpec`:
    `C08_fragment_cellSpec`, `C08_group_mass`); the weight rows and the start weights of the
    fragment sum to 1 (`C08_fragment_normalised`); `__pcfg_from__` does not fail on valid nodes
    and its loop `while to_fill` terminates, with an explicit bound (`C08_fragment_fuel`);
  * the hypotheses on the nodes are invariants of the node splitting and of every operation
    trace (`C08_node_invariants`: valid, prefix-incomparable, probability = probability of the
    derivation prefix, positive), so the fragment theorems hold for every group of the whole
    pipeline (`C08_fragment_pipeline`).
  Hypotheses on the grammar are decidable checks: `WF`, `tagsNorm` (every row of the weight table
  sums to 1), `posW` (positive weights), and for `C08_fragment_normalised` also `closedG` /
  `posRows` (every non-terminal that occurs has a non-empty row of positive weights).

  NOT proved: termination of the balancing loop, the number of fragments and the returned ratio
  (decided in floating point by the implementation; the operation trace is an input of the model),
  and that the model is the Python code (correspondence is tested on every case by the harness).
-/
import PS.Proofs.Splitter
import PS.Proofs.SplitterFrag9
import PS.Proofs.SplitterFrag10
import PS.Proofs.SplitterFrag11
import PS.Proofs.SplitterFrag12
namespace PS.Sp
open PS PS.G

variable {U : Type} [DecidableEq U]

/-- the start symbols are a cover -/
theorem C08_cover_start (pg : PUG U) (hw : WF pg = true) : IsCover pg.g (startNodes pg) :=
  cover_start (WF_sound hw)

/-- whatever `__split_nodes_until_quantity_reached__` returns is a cover -/
theorem C08_cover_nodes (pg : PUG U) (hw : WF pg = true) (quantity fuel : Nat) (nodes : List (Node U))
    (h : splitUntil pg quantity fuel (startNodes pg) = some nodes) : IsCover pg.g nodes :=
  splitUntil_cover (WF_sound hw) quantity fuel _ _ h (cover_start (WF_sound hw))

/-- every operation trace keeps the cover: swaps and takes move nodes, a split replaces a node
    by all its one-step extensions -/
theorem C08_cover_invariant (pg : PUG U) (hw : WF pg = true) (pgs pgs' : PG U) (trace : List Op)
    (hc : IsCover pg.g (flat pgs)) (h : applyTrace pg pgs trace = some pgs') :
    IsCover pg.g (flat pgs') :=
  applyTrace_cover (WF_sound hw) trace pgs pgs' h hc

/-- the whole of `__split_into_nodes__`, for whatever the balancing loop decided -/
theorem C08_cover_pipeline (pg : PUG U) (hw : WF pg = true) (splits fuel : Nat) (hs : 0 < splits)
    (nodes : List (Node U)) (trace : List Op) (pgs' : PG U)
    (h1 : splitUntil pg splits fuel (startNodes pg) = some nodes)
    (h2 : applyTrace pg (initGroups nodes splits) trace = some pgs') :
    IsCover pg.g (flat pgs') :=
  C08_cover_invariant pg hw _ _ trace
    (cover_of_perm (initGroups_perm nodes splits hs).symm (C08_cover_nodes pg hw splits fuel nodes h1)) h2

/-- **partition**: every derivation of the grammar lies in the cell of a node of exactly one
    group -/
theorem C08_partition (G : UG U) (pgs : PG U) (hc : IsCover G (flat pgs)) (s : UNT U) (w : List (Step U))
    (hd : Deriv G s w) :
    ∃ (i : Nat) (g : List (Node U) × Rat), pgs[i]? = some g ∧ (∃ n ∈ g.1, Matches n s w) ∧
      ∀ (j : Nat) (g' : List (Node U) × Rat), pgs[j]? = some g' → j ≠ i → ∀ n ∈ g'.1, ¬ Matches n s w := by
  obtain ⟨i, g, hg, h1, h2⟩ := unique_group (fun n => decide (Matches n s w)) pgs (hc.2 s w hd)
  refine ⟨i, g, hg, ?_, ?_⟩
  · have : 0 < g.1.countP (fun n => decide (Matches n s w)) := by omega
    obtain ⟨n, hn, hp⟩ := List.countP_pos_iff.mp this
    exact ⟨n, hn, of_decide_eq_true hp⟩
  · intro j g' hj hne n hn hm
    have := List.countP_eq_zero.mp (h2 j g' hj hne) n hn
    exact this (decide_eq_true hm)

/-- one split step conserves the mass (times the total weight of the rules, 1 when normalised) -/
theorem C08_mass_split (pg : PUG U) (hw : WF pg = true) (n : Node U) (kids : List (Node U))
    (h : nodeSplit pg n = (true, kids)) :
    (kids.map (·.prob)).sum = n.prob * ((alts pg.g n.S).map (fun pa => tagOf pg n.S pa.1 pa.2)).sum :=
  kids_mass (WF_sound hw) h

/-- **mass of a cell**: the derivations that start like the node and need at most `k` more steps
    weigh start weight × weight of the node's path × mass of the continuations -/
theorem C08_mass (pg : PUG U) (k : Nat) (n : Node U) :
    ((cell pg.g k n).map (fun d => derivProb pg d.1 d.2)).sum =
      (AList.lookup n.start pg.startTags).getD 0 * stepsProb pg n.steps * tailMass pg k n.config := by
  simp only [cell, List.map_map, Function.comp_def, derivProb, stepsProb_append, ← Rat.mul_assoc]
  rw [sum_map_mul_left, completions_mass]

/-- the weights required of a fragment (`cellSpec`) sum to 1 -/
theorem C08_reweight (pg : PUG U) (k : Nat) (group : List (Node U))
    (hm : ((group.flatMap (cell pg.g k)).map (fun d => derivProb pg d.1 d.2)).sum ≠ 0) :
    ((cellSpec pg k group).map (·.2)).sum = 1 := by
  simp only [cellSpec, List.map_map, Function.comp_def]
  generalize hmm : ((group.flatMap (cell pg.g k)).map (fun d => derivProb pg d.1 d.2)).sum = m at hm
  have : ∀ l : List (UNT U × List (Step U)),
      (l.map (fun d => derivProb pg d.1 d.2 / m)).sum = m⁻¹ * (l.map (fun d => derivProb pg d.1 d.2)).sum := by
    intro l
    rw [← sum_map_mul_left]
    congr 1
    apply List.map_congr_left
    intro d _
    rw [Rat.div_def, Rat.mul_comm]
  rw [this, hmm, Rat.inv_mul_cancel _ hm]

/-! ### non-vacuity: S → f(A, A) | c,  A → a | b  with dyadic weights -/

def exS : UNT Nat := (Ty.base "t", 0)
def exA : UNT Nat := (Ty.base "t", 1)
def sF : Sym := Sym.prim "f" Ty.unknown
def sC : Sym := Sym.prim "c" Ty.unknown
def sA : Sym := Sym.prim "a" Ty.unknown
def sB : Sym := Sym.prim "b" Ty.unknown

def exG : PUG Nat :=
  { g := { starts := [exS], someStart := exS,
           rules := [(exS, [(sF, [[exA, exA]]), (sC, [[]])]), (exA, [(sA, [[]]), (sB, [[]])])] },
    tags := [(exS, [(sF, [([exA, exA], 3/4)]), (sC, [([], 1/4)])]), (exA, [(sA, [([], 1/2)]), (sB, [([], 1/2)])])],
    startTags := [(exS, 1)] }

example : WF exG = true := by decide +kernel
example : normalised exG = true := by decide +kernel
/-- three nodes: `c`, `f a ·`, `f b ·` -/
example : ((splitUntil exG 3 10 (startNodes exG)).map (·.length)) = some 3 := by decide +kernel
/-- a trace with a take, a swap and a split is applicable and keeps the cover of the 5 derivations -/
example : ((splitUntil exG 3 10 (startNodes exG)).bind (fun ns =>
    applyTrace exG (initGroups ns 2) [.swap 0 1 none 0, .splitIn 1, .swap 0 1 (some 0) 1])).map
      (fun pgs => (coverUpTo exG.g 5 (flat pgs), (flat pgs).length, (derivations exG.g 5).length)) = some (true, 4, 5) := by
  decide +kernel
example : Deriv exG.g exS [(exS, sF, [exA, exA]), (exA, sA, []), (exA, sB, [])] := by
  refine ⟨by simp [exG], ?_⟩
  decide +kernel
example : ((cell exG.g 5 ⟨3/8, [], exA, [sF, sA], [exS, exA], [[exA, exA], []]⟩).length,
    tailMass exG 5 [exA]) = (2, 1) := by decide +kernel

/-! ### finding C08-F1 on the model: the unrepaired split step does not keep the cover -/

/-- `__try_split_node_in_group__` BEFORE the repair C08-F1 (grammar_splitter.py:102-123 of the
    unrepaired file, with the group read from `prob_groups[i][0]`): the i-th most probable node is
    split, but `group_a.pop(-i)` removes the node at position -i of the *unsorted* group. -/
def trySplitOld {U : Type} [DecidableEq U] (pg : PUG U) (pgs : PG U) (gi : Nat) : Option (PG U) :=
  match pgs[gi]? with
  | none => none
  | some ga =>
    match trySplitLoop pg ga.1 (orderOf ga.1) (ga.1.length + 1) 1 with
    | none => none
    | some (idx, kids) =>
      let i := (orderOf ga.1).length - (orderOf ga.1).idxOf idx
      if i ≥ ga.1.length then none else
      some (pgs.set gi (ga.1.eraseIdx (ga.1.length - i) ++ kids, ga.2))

def exNodeF : Node Nat := ⟨3/4, [exA], exA, [sF], [exS], [[exA, exA]]⟩
def exNodeC : Node Nat := ⟨1/4, [], (Ty.unknown, 0), [sC], [exS], [[]]⟩

/-- finding C08-F1 (witness on the model): the group `[f · ·, c]` is a cover; the unrepaired
    split step splits `f · ·` but removes `c`, so the result is no longer a cover. -/
theorem finding_C08_F1_old_split_step_loses_a_node :
    coverUpTo exG.g 5 (flat [([exNodeF, exNodeC], 1)]) = true ∧
    (trySplitOld exG [([exNodeF, exNodeC], 1)] 0).map (fun pgs => (coverUpTo exG.g 5 (flat pgs), (flat pgs).length))
      = some (false, 3) ∧
    (trySplit exG [([exNodeF, exNodeC], 1)] 0).map (fun pgs => (coverUpTo exG.g 5 (flat pgs), (flat pgs).length))
      = some (true, 3) := by
  decide +kernel

/-! ### the fragment grammar of a group (`__pcfg_from__`) -/

/-- **language of a fragment.**  `pcfgFrom` is the model of `__pcfg_from__`; its non-terminals are
    copies `(type, (u, k))` of the original `(type, u)`, `er` forgets the number `k` and `erStep`
    does so in a derivation step.  For every grammar, every group of valid, pairwise
    prefix-incomparable nodes (`PrefixFree`: what a part of a cover is) and every fuel with which the
    refilling loop `while to_fill` ran to completion (`fillDone`, see `C08_fragment_fuel`):
    the erasure is a bijection between the derivations of the fragment and the derivations of the
    original grammar that lie in the cell of a node of the group —
    (1) every derivation of the fragment erases to a derivation of the original grammar in the cell
        of some node of the group,
    (2) every derivation in the cell of a node of the group is the erasure of a derivation of the
        fragment,
    (3) two derivations of the fragment with the same erasure are equal (the fragment is
        unambiguous, given that its derivations are read as programs through the original ones). -/
theorem C08_fragment_lang (pg : PUG U) (group : List (Node U)) (hv : ∀ n ∈ group, Valid pg.g n)
    (hpf : PrefixFree group) (fuel : Nat) (frag : PUG (U × Nat))
    (h : pcfgFrom pg group fuel = some frag) (hfuel : fillDone pg group fuel = true) :
    (∀ X w', Deriv frag.g X w' →
      Deriv pg.g (er X) (w'.map erStep) ∧ ∃ n ∈ group, Matches n (er X) (w'.map erStep)) ∧
    (∀ n ∈ group, ∀ s w, Deriv pg.g s w → Matches n s w →
      ∃ X w', Deriv frag.g X w' ∧ er X = s ∧ w'.map erStep = w) ∧
    (∀ X1 w1 X2 w2, Deriv frag.g X1 w1 → Deriv frag.g X2 w2 → er X1 = er X2 →
      w1.map erStep = w2.map erStep → X1 = X2 ∧ w1 = w2) := by
  obtain ⟨st, hst, rfl, htf⟩ := pcfgFrom_some h hfuel
  obtain ⟨L, stG, hf, _⟩ := facts_of_pcfgFrom hpf hst htf
  refine ⟨?_, ?_, ?_⟩
  · intro X w' hd
    obtain ⟨n, hn, hm, hd'⟩ := frag_sound hf hv hd
    exact ⟨hd', n, hn, hm⟩
  · intro n hn s w hd hm
    exact frag_complete hf hv hpf hn hd hm
  · intro X1 w1 X2 w2 h1 h2 hX hw
    exact frag_inj hf hpf h1 h2 hX hw

/-- the nodes `f a ·` and `f b ·` of the example: same start symbol, same first rule, then they diverge -/
def exNodeFa : Node Nat := ⟨3/8, [], exA, [sF, sA], [exS, exA], [[exA, exA], []]⟩
def exNodeFb : Node Nat := ⟨3/8, [], exA, [sF, sB], [exS, exA], [[exA, exA], []]⟩

example : (∀ n ∈ [exNodeFa, exNodeFb], Valid exG.g n) ∧ PrefixFree [exNodeFa, exNodeFb] ∧
    (pcfgFrom exG [exNodeFa, exNodeFb] 10).isSome = true ∧ fillDone exG [exNodeFa, exNodeFb] 10 = true := by
  refine ⟨?_, ?_, by decide +kernel, by decide +kernel⟩
  · intro n hn
    simp only [List.mem_cons, List.not_mem_nil, or_false] at hn
    rcases hn with rfl | rfl <;> (unfold Valid; decide +kernel)
  · unfold PrefixFree; decide +kernel
/-- the fragment of `[f a ·, f b ·]` has the 4 derivations `f a a, f a b, f b a, f b b` -/
example : ((pcfgFrom exG [exNodeFa, exNodeFb] 10).map (fun fr => (derivations fr.g 6).length)) = some 4 := by
  decide +kernel

/-- **probabilities in a fragment.**  Under the hypotheses of `C08_fragment_lang`, if moreover every
    row of the weight table of the original grammar sums to 1 (`tagsNorm`: the grammar is
    normalised), the probability carried by every node of the group is the probability of its
    derivation prefix (`C08_node_prob`: an invariant of the node splitting) and is positive, then
    every derivation of the fragment has, in the fragment (start weight × rule weights after
    `normalise`), its original probability divided by the mass of the group (the sum of the
    probabilities of its nodes, i.e. the total original probability of the fragment's programs,
    `C08_mass`). -/
theorem C08_fragment_prob (pg : PUG U) (group : List (Node U)) (hpf : PrefixFree group) (hn : tagsNorm pg = true)
    (hprob : ∀ n ∈ group, n.prob = derivProb pg n.start n.steps) (hpos : ∀ n ∈ group, 0 < n.prob)
    (fuel : Nat) (frag : PUG (U × Nat))
    (h : pcfgFrom pg group fuel = some frag) (hfuel : fillDone pg group fuel = true)
    (X : UNT (U × Nat)) (w' : List (Step (U × Nat))) (hd : Deriv frag.g X w') :
    derivProb frag X w' = derivProb pg (er X) (w'.map erStep) / (group.map (·.prob)).sum := by
  obtain ⟨st, hst, rfl, htf⟩ := pcfgFrom_some h hfuel
  obtain ⟨L, stG, hf, hi, hsp, hpr⟩ := facts_of_pcfgFrom hpf hst htf
  exact frag_prob hf hi hsp hpr hpf hn hprob hpos hd

example : tagsNorm exG = true ∧ (∀ n ∈ [exNodeFa, exNodeFb], n.prob = derivProb exG n.start n.steps ∧ 0 < n.prob) := by
  decide +kernel
/-- the four derivations of the fragment of `[f a ·, f b ·]` (mass 3/4) have probability
    (3/4 · 1/2 · 1/2) / (3/4) = 1/4 each -/
example : ((pcfgFrom exG [exNodeFa, exNodeFb] 10).map (fun fr =>
    (derivations fr.g 6).map (fun d => derivProb fr d.1 d.2))) = some [1/4, 1/4, 1/4, 1/4] := by
  decide +kernel

/-- **`__pcfg_from__` returns, and `while to_fill` terminates**: on valid nodes the construction
    does not fail (no `assert`, no `IndexError`), and from some fuel on (explicitly: `fillBound`,
    at most `|to_fill| + (|to_fill| + R) · (R + 1)` iterations, `R` the number of non-terminal
    occurrences on right-hand sides) the refilling loop of the model runs to completion, so that the
    hypothesis `fillDone` of the theorems above is satisfiable for every input. -/
theorem C08_fragment_fuel (pg : PUG U) (group : List (Node U)) (hv : ∀ n ∈ group, Valid pg.g n) :
    ∃ fuel0, ∀ fuel, fuel0 ≤ fuel →
      (pcfgFrom pg group fuel).isSome = true ∧ fillDone pg group fuel = true :=
  pcfgFrom_total pg group hv

example : ∃ fuel0, ∀ fuel, fuel0 ≤ fuel → (pcfgFrom exG [exNodeFa, exNodeFb] fuel).isSome = true ∧
    fillDone exG [exNodeFa, exNodeFb] fuel = true := by
  apply C08_fragment_fuel
  intro n hn
  simp only [List.mem_cons, List.not_mem_nil, or_false] at hn
  rcases hn with rfl | rfl <;> (unfold Valid; decide +kernel)

/-- **the nodes of every group of the pipeline satisfy the hypotheses of the fragment theorems**
    (`NodesOK`): for every well-formed grammar with positive weights (`posW`), every quantity and
    every operation trace of the balancing loop, the nodes of every group are valid, pairwise
    prefix-incomparable, carry the probability of their derivation prefix, and it is positive. -/
theorem C08_node_invariants (pg : PUG U) (hw : WF pg = true) (hp : posW pg = true) (splits fuel : Nat)
    (hs : 0 < splits) (nodes : List (Node U)) (trace : List Op) (pgs' : PG U)
    (h1 : splitUntil pg splits fuel (startNodes pg) = some nodes)
    (h2 : applyTrace pg (initGroups nodes splits) trace = some pgs') :
    ∀ g ∈ pgs', (∀ n ∈ g.1, Valid pg.g n ∧ n.prob = derivProb pg n.start n.steps ∧ 0 < n.prob) ∧ PrefixFree g.1 :=
  groups_ok (WF_sound hw) hp splits fuel hs nodes trace pgs' h1 h2

example : posW exG = true := by decide +kernel

/-- **the fragments of the whole pipeline**: for every well-formed, normalised grammar with positive
    weights, every number of fragments and every operation trace of the balancing loop, the fragment
    built for any of the resulting groups generates (up to the renaming of the non-terminals)
    exactly the derivations of the cells of the group's nodes, each exactly once, with its
    original probability divided by the mass of the group. -/
theorem C08_fragment_pipeline (pg : PUG U) (hw : WF pg = true) (hn : tagsNorm pg = true) (hp : posW pg = true)
    (splits fuel : Nat) (hs : 0 < splits) (nodes : List (Node U)) (trace : List Op) (pgs' : PG U)
    (h1 : splitUntil pg splits fuel (startNodes pg) = some nodes)
    (h2 : applyTrace pg (initGroups nodes splits) trace = some pgs')
    (g : List (Node U) × Rat) (hg : g ∈ pgs') (fuel' : Nat) (frag : PUG (U × Nat))
    (h : pcfgFrom pg g.1 fuel' = some frag) (hfuel : fillDone pg g.1 fuel' = true) :
    (∀ X w', Deriv frag.g X w' →
      Deriv pg.g (er X) (w'.map erStep) ∧ (∃ n ∈ g.1, Matches n (er X) (w'.map erStep)) ∧
      derivProb frag X w' = derivProb pg (er X) (w'.map erStep) / (g.1.map (·.prob)).sum) ∧
    (∀ n ∈ g.1, ∀ s w, Deriv pg.g s w → Matches n s w →
      ∃ X w', Deriv frag.g X w' ∧ er X = s ∧ w'.map erStep = w) ∧
    (∀ X1 w1 X2 w2, Deriv frag.g X1 w1 → Deriv frag.g X2 w2 → er X1 = er X2 →
      w1.map erStep = w2.map erStep → X1 = X2 ∧ w1 = w2) := by
  obtain ⟨hok, hpf⟩ := C08_node_invariants pg hw hp splits fuel hs nodes trace pgs' h1 h2 g hg
  obtain ⟨l1, l2, l3⟩ := C08_fragment_lang pg g.1 (fun n hn => (hok n hn).1) hpf fuel' frag h hfuel
  refine ⟨?_, l2, l3⟩
  intro X w' hd
  obtain ⟨a, b⟩ := l1 X w' hd
  exact ⟨a, b, C08_fragment_prob pg g.1 hpf hn (fun n hn => (hok n hn).2.1) (fun n hn => (hok n hn).2.2)
    fuel' frag h hfuel X w' hd⟩

/-- the pipeline on the example: 3 nodes in 2 groups, both fragments are built and refilled -/
example : ((splitUntil exG 3 10 (startNodes exG)).bind (fun ns => applyTrace exG (initGroups ns 2) [])).map
    (fun pgs => pgs.map (fun g => (g.1.length, (pcfgFrom exG g.1 10).isSome, fillDone exG g.1 10)))
    = some [(1, true, true), (2, true, true)] := by
  decide +kernel

/-- when the bound `k` is large enough for the continuations of the nodes to have their full mass
    (`tailMass … = 1`: every continuation has at most `k` steps and the grammar is normalised),
    the mass of the cells of a group is the sum of the probabilities of its nodes -/
theorem C08_group_mass (pg : PUG U) (k : Nat) (group : List (Node U))
    (hprob : ∀ n ∈ group, n.prob = derivProb pg n.start n.steps)
    (hk : ∀ n ∈ group, tailMass pg k n.config = 1) :
    ((group.flatMap (cell pg.g k)).map (fun d => derivProb pg d.1 d.2)).sum = (group.map (·.prob)).sum := by
  induction group with
  | nil => rfl
  | cons n r ih =>
    simp only [List.flatMap_cons, List.map_append, List.sum_append, List.map_cons, List.sum_cons]
    rw [ih (fun m hm => hprob m (List.mem_cons_of_mem _ hm)) (fun m hm => hk m (List.mem_cons_of_mem _ hm)),
      C08_mass, hk n (by simp), hprob n (by simp), Rat.mul_one]
    rfl

/-- **the fragment realises `cellSpec`** (the specification the harness compares the fragments of
    the implementation with): a derivation of the fragment has the probability that `cellSpec`
    lists for its erasure -/
theorem C08_fragment_cellSpec (pg : PUG U) (group : List (Node U)) (hpf : PrefixFree group) (hn : tagsNorm pg = true)
    (hprob : ∀ n ∈ group, n.prob = derivProb pg n.start n.steps) (hpos : ∀ n ∈ group, 0 < n.prob)
    (fuel : Nat) (frag : PUG (U × Nat))
    (h : pcfgFrom pg group fuel = some frag) (hfuel : fillDone pg group fuel = true)
    (k : Nat) (hk : ∀ n ∈ group, tailMass pg k n.config = 1)
    (e : (UNT U × List (Step U)) × Rat) (he : e ∈ cellSpec pg k group)
    (X : UNT (U × Nat)) (w' : List (Step (U × Nat))) (hd : Deriv frag.g X w')
    (hX : e.1 = (er X, w'.map erStep)) : derivProb frag X w' = e.2 := by
  rw [C08_fragment_prob pg group hpf hn hprob hpos fuel frag h hfuel X w' hd]
  simp only [cellSpec, List.mem_map] at he
  obtain ⟨d, _, rfl⟩ := he
  simp only at hX ⊢
  rw [C08_group_mass pg k group hprob hk, hX]

example : ∀ n ∈ [exNodeFa, exNodeFb], tailMass exG 5 n.config = 1 := by decide +kernel
example : (cellSpec exG 5 [exNodeFa, exNodeFb]).map (·.2) = [1/4, 1/4, 1/4, 1/4] := by decide +kernel

/-- **the fragment is normalised**: if every non-terminal that occurs in the original grammar
    (start symbols, right-hand sides) has a non-empty row of positive weights (`closedG`,
    `posRows`: decidable), then every row of the weight table of the fragment sums to 1 (the
    fragment satisfies the hypothesis `tagsNorm` under which `C08_fragment_prob` was stated for the
    original grammar) and so do its start weights. -/
theorem C08_fragment_normalised (pg : PUG U) (hp : posRows pg = true) (hcl : closedG pg = true)
    (group : List (Node U)) (hne : group ≠ []) (hv : ∀ n ∈ group, Valid pg.g n) (hpf : PrefixFree group)
    (hpos : ∀ n ∈ group, 0 < n.prob) (fuel : Nat) (frag : PUG (U × Nat))
    (h : pcfgFrom pg group fuel = some frag) (hfuel : fillDone pg group fuel = true) :
    tagsNorm frag = true ∧ (frag.startTags.map (·.2)).sum = 1 := by
  obtain ⟨st, hst, rfl, htf⟩ := pcfgFrom_some h hfuel
  refine ⟨frag_tagsNorm hp hcl (fun n hn => ⟨hv n hn, hpos n hn⟩) hst, ?_⟩
  obtain ⟨L, stG, hf, hi, hsp, _⟩ := facts_of_pcfgFrom hpf hst htf
  apply frag_starts_sum
  rw [hsp, hi.spTot]
  have hmm : L.map (fun l => l.n.prob) = group.map (·.prob) := by rw [← hf.lays, List.map_map]; rfl
  rw [hmm]
  cases group with
  | nil => exact absurd rfl hne
  | cons n r =>
    have := sum_pos_of_mem (fun n : Node U => n.prob) (n :: r) hpos n (by simp)
    intro h0
    rw [h0] at this
    exact absurd this (by decide)

example : posRows exG = true ∧ closedG exG = true := by decide +kernel
/-- the fragment of `[f a ·, f b ·]` is normalised, also in the sense of `normalised` (sums over the
    alternatives of the rule table, what the driver evaluates on every case) -/
example : ((pcfgFrom exG [exNodeFa, exNodeFb] 10).map (fun fr => (tagsNorm fr, normalised fr, WF fr))) =
    some (true, true, true) := by decide +kernel

omit [DecidableEq U] in
/-- the erasure does not change the program of a derivation (its pre-order word of symbols with
    arities, what the driver's `wordOf` prints): the bijection of `C08_fragment_lang` is a bijection
    between the programs of the fragment and the programs of the cells of the group -/
theorem C08_fragment_program (w' : List (Step (U × Nat))) :
    (w'.map erStep).map (fun st => (st.2.1, st.2.2.length)) = w'.map (fun st => (st.2.1, st.2.2.length)) := by
  simp [erStep, Function.comp_def]

example : ((pcfgFrom exG [exNodeFa, exNodeFb] 10).map (fun fr =>
    (derivations fr.g 6).map (fun d => d.2.map (fun st => st.2.1.name)))) =
    some [["f", "a", "a"], ["f", "a", "b"], ["f", "b", "a"], ["f", "b", "b"]] := by decide +kernel

end PS.Sp
