/-
  C03, part beap — beap search yields programs by non-decreasing cost (non-increasing probability).
  (first version: see the header of the final file)
-/
import PS.Proofs.Enum.BeapSoundRun
namespace PS.C03Beap
open PS PS.G PS.Beap
variable {S : Type} [DecidableEq S]

/-- `_init_non_terminal_(start); _reevaluate_()` keep the soundness invariant -/
theorem C03_Beap_prologue_sound (E : Env S) (hnd : RowsNodup E.G) (fuel : Nat) (s' : St S)
    (h : prologue E fuel (St.empty E.G) = some s') : SInv E s' :=
  prologue_sound E hnd fuel _ _ (sinv_empty E) h

end PS.C03Beap
