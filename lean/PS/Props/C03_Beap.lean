/-
  C03, part beap — beap search (beap_search.py) yields programs by non-decreasing cost (non-increasing
  probability); when a program of cost c is produced, every strictly cheaper program was produced.

  FULL STATEMENT: for every fuel and every prefix of the run, the costs of the yielded programs are
  non-decreasing (PROVED: C03_Beap_order, positive rule costs) and every derivable program strictly cheaper
  than a yielded one was yielded before it (prefix completeness: PROVED, C03_Beap_prefix_complete, positive rule
  costs, finite and recursive grammars, any filter — "derivable" then reads "all sub-programs accepted").

  Proved here (every grammar with distinct dict keys, every cost table, every fuel):
  THE MINIMAL COSTS (beap_search.py:79-119, the part of the enumerator the order rests on):
    * C03_Beap_minCost         — after `_init_non_terminal_(start); _reevaluate_()` on a grammar flagged
        recursive (`cfg.is_recursive()`), for EVERY initialised non-terminal S the first cost
        `_cost_lists[S][0]` is the TRUE MINIMUM of the costs of the programs derivable from S: it is a lower
        bound of the cost of every derivable program (so it is finite — no 1e99 placeholder left — as soon as
        S derives a program) and it is the cost of a program derivable from S.  No hypothesis on the sign
        of the costs, on acyclicity or on the order of the rules: the statement holds whenever the prologue
        returns (the fixpoint loop has ended).
    * C03_Beap_minCost_stable  — the same for ANY state that is a fixpoint of `_reevaluate_` (`Stable`),
        whatever the flag: this is the form that applies to acyclic grammars, where `_reevaluate_` is
        skipped; `Stable` is a decidable check on the state (evaluated on every generated case by the driver
        op beap.init: `minCostOK`), the other hypotheses are proved for every run of the prologue:
    * C03_Beap_attained        — (upper half, any flag) every first cost that is not a placeholder is the cost
        of a derivable program — holds during the whole prologue (`MInv`), so also for the intermediate
        values that `_reevaluate_` improves;
    * C03_Beap_all_rules       — every initialised non-terminal has an element of every one of its rules in
        its queue (depth-first initialisation, ghost stack of the non-terminals in progress);
    * C03_Beap_head_min        — every queue is a heap for `HeapElement.__lt__` and `_cost_lists[S][0]` is a
        minimum of `_queues[S]`;
    * C03_Beap_reevaluate_fixpoint — when the `while changed` loop exits the state is a fixpoint.
  THE HEAP:
    * C03_Beap_lt_weak_order   — `HeapElement.__lt__` (lexicographic on (cost, combination)) is a strict weak order;
    * C03_Beap_heapify_isHeap  — the port of CPython `heapify` ESTABLISHES the heap invariant on any array
                                 (siftup = bubble the smaller child to a leaf, then siftdown with startpos);
    * C03_Beap_heappush_isHeap, C03_Beap_heappop_min — push keeps the invariant, pop returns a minimum.
  The seeded change seeded/C03-2 (re-evaluate only the derivations whose cost is still a placeholder)
  falsifies C03_Beap_reevaluate_fixpoint / C03_Beap_minCost on the demo grammar below: see
  `demo_minCost` (the model's values) — the patched implementation leaves `m(X,Z)` at cost 19/4
  instead of 7/2 and is caught by the correspondence on the queues and by the order oracle.
  THE ORDER OF THE YIELDED SEQUENCE.  Hypotheses: `StableAfter E` (the state returned by the prologue is a
  fixpoint of `_reevaluate_`: PROVED for every grammar flagged recursive, C03_Beap_stable_of_recursive, and for
  acyclic grammars without re-evaluation, C03_Beap_stable_of_acyclic) and `Productive E` (every non-terminal
  derives a program, so that no placeholder is left after the prologue):
    * C03_Beap_cost_inv        — COST SOUNDNESS as a state invariant of the query phase (`CInv`), for every
        history of next / merge_program calls (also before the first next): every queue element of rule P and
        combination c carries the cost  cost(P) + Σ_i _cost_lists[arg_i][c_i], every program of _bank[S][i] has
        cost _cost_lists[S][i], cost lists are only extended at their end;
    * C03_Beap_yield_cost      — the program yielded while the generator's counter is n has cost
        _cost_lists[start][n], and n never decreases;
    * C03_Beap_yield_index     — the programs produced by `take k` from the fresh generator are yielded at a
        NON-DECREASING sequence of indices of _cost_lists[start];
    * C03_Beap_order_partial   — hence the yielded costs are NON-DECREASING whenever the final
        _cost_lists[start] is non-decreasing: `sortedB`, a Boolean check on the final state that the driver
        evaluates on every generated case (certified checking).
  THE FULL ORDER STATEMENT under POSITIVE rule costs (`PosW`: every rule cost > 0, i.e. every probability < 1;
  with a zero-cost cycle query() does not terminate):
    * C03_Beap_order_inv       — the ORDER INVARIANTS hold for every history of next / merge_program calls: EVERY COST
        LIST IS STRICTLY INCREASING, every queue element is at least as expensive as every entry of the cost
        list of its non-terminal, every queue is a heap, every cost is finite and positive.  Key lemma
        (`order_all`, PS/Proofs/Enum/BeapOrderFull.lean): a query running for S at cost x only asks for cost
        indices of cost < x, and such nested queries never touch a non-terminal whose last cost is ≥ x
        (`Prot`), so the tables of S do not change while its own query is suspended in the argument loop
        (re-entrance on recursive grammars);
    * C03_Beap_costlists_increasing — the cost lists are strictly increasing (every history);
    * C03_Beap_order           — THE YIELDED COSTS ARE NON-DECREASING: for every fuel and every k, the costs
        of the programs produced by `take k` from the fresh generator are pairwise non-decreasing in the
        order of production (every prefix of the run, finite or recursive grammar), and every yielded
        program is derivable.
  PREFIX COMPLETENESS (round 2):
    * C03_Beap_prefix_complete — for every fuel and every k: when a program of cost y is among the programs produced
        by `take k`, every program of the start symbol of strictly smaller cost all of whose sub-programs are accepted
        by the filter is among them (C03_Beap_prefix_complete_nofilter: every priced derivation).  Proof:
        PS/Proofs/Enum/BeapCompl*.lean (completed region CR, frontier FR with the producer chain BelowArgs, frame
        invariant FrK, protection Keep4; mutual induction `compl_all`).
  Not proved: termination of one `next` call.  Still compared on every generated case: exact Fraction cost of
  every yielded program, brute-force expansion below a cost bound.
-/
import PS.Proofs.Enum.BeapHeadMin
import PS.Proofs.Enum.BeapOrderRun
import PS.Proofs.Enum.BeapOrderFinal
import PS.Proofs.Enum.BeapAcyclic
import PS.Proofs.Enum.BeapFreshRun
import PS.Proofs.Enum.BeapComplFinal
import PS.Props.C02_Beap
namespace PS.C03Beap
open PS PS.G PS.Beap PS.Heapq PS.C02Beap

section
variable {S : Type} [DecidableEq S]

/-- **minimal costs after the prologue, recursive grammars** -/
theorem C03_Beap_minCost (E : Env S) (hnd : RowsNodup E.G) (hrec : E.recursive = true) (fuel : Nat) (s' : St S)
    (h : prologue E fuel (St.empty E.G) = some s') (nt : NT S Unit) (c : Cost) (rest : List Cost)
    (hc : s'.clOf nt = c :: rest) :
    (∀ t k, costOf E t nt = some k → c.inf = 0 ∧ c.fin ≤ k) ∧
    (c.inf = 0 → ∃ t, gen E.G t nt = true ∧ costOf E t nt = some c.fin) :=
  prologue_minCost E hnd (stableAfter_of_rec E hrec) fuel s' h nt c rest hc

/-- **minimal costs at any fixpoint of `_reevaluate_`** (any flag; `Stable` is decidable) -/
theorem C03_Beap_minCost_stable (E : Env S) (hnd : RowsNodup E.G) (fuel : Nat) (s' : St S)
    (h : prologue E fuel (St.empty E.G) = some s') (hst : Stable E s') (nt : NT S Unit) (c : Cost) (rest : List Cost)
    (hc : s'.clOf nt = c :: rest) :
    (∀ t k, costOf E t nt = some k → c.inf = 0 ∧ c.fin ≤ k) ∧
    (c.inf = 0 → ∃ t, gen E.G t nt = true ∧ costOf E t nt = some c.fin) :=
  minCost_spec E s' (prologue_minv E hnd fuel _ _ (minv_empty E) h) (prologue_headMin E fuel s' h).1
    (prologue_allRules E fuel s' h) hst nt c rest hc

/-- a first cost that is not a placeholder is the cost of a derivable program (any flag) -/
theorem C03_Beap_attained (E : Env S) (hnd : RowsNodup E.G) (fuel : Nat) (s' : St S)
    (h : prologue E fuel (St.empty E.G) = some s') (nt : NT S Unit) (c : Cost) (rest : List Cost)
    (hc : s'.clOf nt = c :: rest) (hfin : c.inf = 0) : ∃ t, gen E.G t nt = true ∧ costOf E t nt = some c.fin :=
  ((prologue_minv E hnd fuel _ _ (minv_empty E) h).cl nt c rest hc).2 hfin

/-- every initialised non-terminal has all its rules in its queue -/
theorem C03_Beap_all_rules (E : Env S) (fuel : Nat) (s' : St S) (h : prologue E fuel (St.empty E.G) = some s')
    (nt : NT S Unit) (c : Cost) (rest : List Cost) (hc : s'.clOf nt = c :: rest) (P : Sym) (rl : List (Ty × S) × Unit)
    (hr : E.G.rule? nt P = some rl) : ∃ el ∈ s'.queueOf nt, el.P = P :=
  prologue_allRules E fuel s' h nt c rest hc P rl hr

/-- every queue is a heap and the first cost is a minimum of the queue -/
theorem C03_Beap_head_min (E : Env S) (fuel : Nat) (s' : St S) (h : prologue E fuel (St.empty E.G) = some s') :
    (∀ nt, IsHeap ltE (s'.queueOf nt)) ∧
    ∀ nt c rest, s'.clOf nt = c :: rest → ∀ el ∈ s'.queueOf nt, Cost.lt el.cost c = false :=
  ⟨(prologue_headMin E fuel s' h).2, (prologue_headMin E fuel s' h).1⟩

/-- when `_reevaluate_` returns on a grammar flagged recursive, recomputing any queued cost changes nothing -/
theorem C03_Beap_reevaluate_fixpoint (E : Env S) (hrec : E.recursive = true) (fuel : Nat) (s s' : St S)
    (h : reevaluate E fuel s = some s') (nt : NT S Unit) (el : HeapEl) (hel : el ∈ s'.queueOf nt) :
    ∃ el', recost E s' nt el = some el' ∧ el'.cost = el.cost :=
  reevaluate_stable E hrec fuel s s' h nt el hel
end

/-! ### cost soundness and the order of the yielded sequence -/
section
variable {S : Type} [DecidableEq S]

/-- the hypothesis `StableAfter` (the state returned by the prologue is a fixpoint of `_reevaluate_`) holds on
    every grammar flagged recursive -/
theorem C03_Beap_stable_of_recursive (E : Env S) (hrec : E.recursive = true) : StableAfter E := stableAfter_of_rec E hrec

/-- **on an ACYCLIC grammar** (a rank decreasing along the rules) `_init_non_terminal_` alone reaches the
    fixpoint: the hypothesis `StableAfter` holds whether or not `_reevaluate_` runs (whatever `is_recursive()`) -/
theorem C03_Beap_stable_of_acyclic (E : Env S) (hnd : RowsNodup E.G) (rank : NT S Unit → Nat) (hrk : Ranked E rank) :
    StableAfter E := stableAfter_of_ranked rank E hnd hrk

/-- **minimal costs on acyclic grammars, without re-evaluation**: after the prologue `_cost_lists[S][0]` is the
    true minimum of the costs of the programs derivable from `S`, for every initialised `S` -/
theorem C03_Beap_minCost_acyclic (E : Env S) (hnd : RowsNodup E.G) (rank : NT S Unit → Nat) (hrk : Ranked E rank)
    (fuel : Nat) (s' : St S) (h : prologue E fuel (St.empty E.G) = some s') (nt : NT S Unit) (c : Cost) (rest : List Cost)
    (hc : s'.clOf nt = c :: rest) :
    (∀ t k, costOf E t nt = some k → c.inf = 0 ∧ c.fin ≤ k) ∧
    (c.inf = 0 → ∃ t, gen E.G t nt = true ∧ costOf E t nt = some c.fin) :=
  prologue_minCost E hnd (stableAfter_of_ranked rank E hnd hrk) fuel s' h nt c rest hc

/-- `Ranked` from a Boolean check of the rule table -/
theorem ranked_of_check (E : Env S) (rank : NT S Unit → Nat)
    (h : E.G.rules.all (fun r => r.2.all (fun rule => rule.2.1.all (fun a => decide (rank (ntOf a) < rank r.1)))) = true) :
    Ranked E rank := by
  intro nt P rl hr a ha
  unfold TT.rule? at hr
  split at hr
  · cases hr
  · next rs hrs =>
    have h1 := AList.lookup_some_mem hrs
    have h2 := AList.lookup_some_mem hr
    rw [List.all_eq_true] at h
    have h3 := h _ h1
    rw [List.all_eq_true] at h3
    have h4 := h3 _ h2
    rw [List.all_eq_true] at h4
    simpa using h4 a ha

theorem gc_new (E : Env S) : GC E (Gen.new E.G) := by
  refine ⟨⟨fun nt c hc => ?_, fun nt el he => ?_, fun nt ci p hp => ?_⟩, fun fr he => by cases he⟩
  · have : (St.empty E.G).clOf nt = [] := lookup_map_nil E.G.rules nt
    rw [show (Gen.new E.G).st = St.empty E.G from rfl, this] at hc; cases hc
  · have : (St.empty E.G).queueOf nt = [] := lookup_map_nil E.G.rules nt
    rw [show (Gen.new E.G).st = St.empty E.G from rfl, this] at he; cases he
  · have : (St.empty E.G).bankOf nt = [] := lookup_map_nil E.G.rules nt
    simp [show (Gen.new E.G).st = St.empty E.G from rfl, St.bankAt, this] at hp

/-- **COST SOUNDNESS and the ORDER INVARIANTS as state invariants, for EVERY history** of `next` / `merge_program`
    calls from the fresh generator (`C02Beap.Reach`; `merge_program` may also be called before the first `next`) -/
theorem C03_Beap_inv (E : Env S) (hnd : RowsNodup E.G) (hst : StableAfter E) (hprod : Productive E) (hpos : PosW E) (fuel : Nat)
    (g : Gen S) (h : C02Beap.Reach E fuel g) :
    GC E g ∧ GO E g ∧ (g.started = false → Fresh E g.st ∧ g.frame = none) := by
  induction h with
  | new => exact ⟨gc_new E, go_new E, fun _ => ⟨fresh_empty E, rfl⟩⟩
  | @next g r _ hn ih =>
    obtain ⟨q1, q2, _, _, q5⟩ := next_co E hnd hst hprod hpos fuel g r ih.1 ih.2.1 ih.2.2 hn
    refine ⟨q1, q2, fun hs => ?_⟩
    rcases q5 with h1 | h1
    · rw [h1] at hs; cases hs
    · rw [h1] at hs ⊢; exact ih.2.2 hs
  | @merge g other ok _ ih =>
    refine ⟨merge_cost E g other ok ih.1, merge_order E g other ok ih.2.1, fun hs => ?_⟩
    have hs' : g.started = false := hs
    exact ⟨merge_fresh E g other ok (ih.2.2 hs').1, (ih.2.2 hs').2⟩

/-- **COST SOUNDNESS as a state invariant**, for every history (no positivity hypothesis) -/
theorem C03_Beap_cost_inv (E : Env S) (hnd : RowsNodup E.G) (hst : StableAfter E) (hprod : Productive E) (fuel : Nat)
    (g : Gen S) (h : C02Beap.Reach E fuel g) : GC E g ∧ (g.started = false → Fresh E g.st ∧ g.frame = none) := by
  induction h with
  | new => exact ⟨gc_new E, fun _ => ⟨fresh_empty E, rfl⟩⟩
  | @next g r _ hn ih =>
    obtain ⟨q1, _, _, q5⟩ := next_c E hnd hst hprod fuel g r ih.1 ih.2 hn
    refine ⟨q1, fun hs => ?_⟩
    rcases q5 with h1 | h1
    · rw [h1] at hs; cases hs
    · rw [h1] at hs ⊢; exact ih.2 hs
  | @merge g other ok _ ih =>
    refine ⟨merge_cost E g other ok ih.1, fun hs => ?_⟩
    have hs' : g.started = false := hs
    exact ⟨merge_fresh E g other ok (ih.2 hs').1, (ih.2 hs').2⟩

/-- every program of `_bank[S][i]` has cost `_cost_lists[S][i]`; every queue element is priced by its combination -/
theorem C03_Beap_bank_cost (E : Env S) (hnd : RowsNodup E.G) (hst : StableAfter E) (hprod : Productive E) (fuel : Nat)
    (g : Gen S) (h : C02Beap.Reach E fuel g) :
    (∀ nt ci p, p ∈ g.st.bankAt nt ci → ∃ c, (g.st.clOf nt)[ci]? = some c ∧ c.inf = 0 ∧ costOf E p nt = some c.fin) ∧
    (∀ nt el, el ∈ g.st.queueOf nt → ∃ rl w k, E.G.rule? nt el.P = some rl ∧ ruleW E nt el.P = some w ∧
      combCost g.st rl.1 el.comb = some k ∧ el.cost = Cost.ofRat (w + k)) := by
  have hc := (C03_Beap_cost_inv E hnd hst hprod fuel g h).1.1
  refine ⟨fun nt ci p hp => ?_, hc.queue⟩
  obtain ⟨c, h1, h2⟩ := hc.bank nt ci p hp
  exact ⟨c, h1, hc.fin nt c (List.mem_of_getElem? h1), h2⟩

/-- the program yielded while the generator's counter is `n` has cost `_cost_lists[start][n]`; `n` never decreases -/
theorem C03_Beap_yield_cost (E : Env S) (hnd : RowsNodup E.G) (hst : StableAfter E) (hprod : Productive E) (fuel : Nat)
    (g g' : Gen S) (p : Prog) (h : C02Beap.Reach E fuel g) (hn : Beap.next E fuel g = some (g', some p)) :
    (g.started = true → g.n ≤ g'.n) ∧ ∃ c, (g'.st.clOf E.G.start)[g'.n]? = some c ∧ costOf E p E.G.start = some c.fin := by
  obtain ⟨i1, i3⟩ := C03_Beap_cost_inv E hnd hst hprod fuel g h
  obtain ⟨_, q3, q4, _⟩ := next_c E hnd hst hprod fuel g _ i1 i3 hn
  exact ⟨q3, (q4 p rfl).2⟩

/-- the programs produced by `take k` from the fresh generator are yielded at non-decreasing indices of
    the (final) cost list of the start symbol -/
theorem C03_Beap_yield_index (E : Env S) (hnd : RowsNodup E.G) (hst : StableAfter E) (hprod : Productive E) (fuel k : Nat)
    (g : Gen S) (ys : List Prog) (fin : Bool) (h : take E fuel k (Gen.new E.G) [] = some (g, ys, fin)) :
    ∃ idx : List Nat, idx.Pairwise (· ≤ ·) ∧
      All2 (fun p i => ∃ c, (g.st.clOf E.G.start)[i]? = some c ∧ costOf E p E.G.start = some c.fin) ys idx := by
  obtain ⟨idx, h1, h2, _⟩ := take_index E hnd hst hprod fuel k (Gen.new E.G) [] [] _ (gc_new E) (fun _ => ⟨rfl, rfl, rfl⟩)
    All2.nil List.Pairwise.nil (fun i hi => by cases hi) h
  exact ⟨idx, h2, h1⟩

/-- **ORDER, relative to a Boolean check on the final state**: if the final `_cost_lists[start]` is
    non-decreasing (`sortedB`), the costs of the programs produced by `take k` are non-decreasing, and every
    one of them has a cost (is derivable) -/
theorem C03_Beap_order_partial (E : Env S) (hnd : RowsNodup E.G) (hst : StableAfter E) (hprod : Productive E) (fuel k : Nat)
    (g : Gen S) (ys : List Prog) (fin : Bool) (h : take E fuel k (Gen.new E.G) [] = some (g, ys, fin))
    (hsorted : sortedB (g.st.clOf E.G.start) = true) :
    ys.Pairwise (fun p q => ∀ a b, costOf E p E.G.start = some a → costOf E q E.G.start = some b → a ≤ b) ∧
    ∀ p ∈ ys, ∃ a, costOf E p E.G.start = some a := by
  obtain ⟨idx, h1, h2, _⟩ := take_index E hnd hst hprod fuel k (Gen.new E.G) [] [] _ (gc_new E) (fun _ => ⟨rfl, rfl, rfl⟩)
    All2.nil List.Pairwise.nil (fun i hi => by cases hi) h
  refine ⟨sorted_of_index E g.st (clSorted_of_check E g.st hsorted) ys idx h1 h2, fun p hp => ?_⟩
  obtain ⟨i, _, c, _, hc⟩ := sorted_of_index.mem_all2 h1 p hp
  exact ⟨c.fin, hc⟩

end

/-! ### the order under positive rule costs -/
section
variable {S : Type} [DecidableEq S]

/-- **the order invariants, for every history** -/
theorem C03_Beap_order_inv (E : Env S) (hnd : RowsNodup E.G) (hst : StableAfter E) (hprod : Productive E) (hpos : PosW E)
    (fuel : Nat) (g : Gen S) (h : C02Beap.Reach E fuel g) : GO E g := (C03_Beap_inv E hnd hst hprod hpos fuel g h).2.1

/-- every cost list is strictly increasing; every queue element is at least as expensive as every entry of
    the cost list of its non-terminal; every queue is a heap -/
theorem C03_Beap_costlists_increasing (E : Env S) (hnd : RowsNodup E.G) (hst : StableAfter E) (hprod : Productive E)
    (hpos : PosW E) (fuel : Nat) (g : Gen S) (h : C02Beap.Reach E fuel g) (nt : NT S Unit) :
    (g.st.clOf nt).Pairwise (fun a b => a.fin < b.fin) ∧
    (∀ el c, el ∈ g.st.queueOf nt → c ∈ g.st.clOf nt → c.fin ≤ el.cost.fin) ∧
    Heapq.IsHeap ltE (g.st.queueOf nt) := by
  have := (C03_Beap_order_inv E hnd hst hprod hpos fuel g h).1
  exact ⟨this.mono nt, this.low nt, this.heap nt⟩

/-- **a completed cost index is exhausted**: once `_cost_lists[S]` has an entry after index `i` (i.e. `query(S, i)`
    has returned), every element still in `_queues[S]` is strictly more expensive than `_cost_lists[S][i]` — no
    derivation of cost `_cost_lists[S][i]` is left behind -/
theorem C03_Beap_cost_exhausted (E : Env S) (hnd : RowsNodup E.G) (hst : StableAfter E) (hprod : Productive E)
    (hpos : PosW E) (fuel : Nat) (g : Gen S) (h : C02Beap.Reach E fuel g) (nt : NT S Unit) (i : Nat) (c : Cost)
    (hc : (g.st.clOf nt)[i]? = some c) (hi : i + 1 < (g.st.clOf nt).length) (el : HeapEl) (hel : el ∈ g.st.queueOf nt) :
    c.fin < el.cost.fin := by
  obtain ⟨hmono, hlow, _⟩ := C03_Beap_costlists_increasing E hnd hst hprod hpos fuel g h nt
  obtain ⟨hi0, rfl⟩ := List.getElem?_eq_some_iff.mp hc
  have h1 := List.pairwise_iff_getElem.mp hmono i (i + 1) hi0 hi (by omega)
  have h2 := hlow el _ hel (List.getElem_mem hi)
  grind

theorem clSorted_of_oi (E : Env S) (s : St S) (h : OI s) : ClSorted E s := by
  intro i j x y hij hx hy
  obtain ⟨hi, rfl⟩ := List.getElem?_eq_some_iff.mp hx
  obtain ⟨hj, rfl⟩ := List.getElem?_eq_some_iff.mp hy
  by_cases heq : i = j
  · subst heq; exact Rat.le_refl
  · have := List.pairwise_iff_getElem.mp (h.mono E.G.start) i j hi hj (by omega)
    grind

/-- **ORDER (full statement, positive rule costs)**: the costs of the programs produced by `take k` from the
    fresh generator are non-decreasing, for every fuel and every k; every yielded program has a cost
    (is derivable) -/
theorem C03_Beap_order (E : Env S) (hnd : RowsNodup E.G) (hst : StableAfter E) (hprod : Productive E) (hpos : PosW E)
    (fuel k : Nat) (g : Gen S) (ys : List Prog) (fin : Bool) (h : take E fuel k (Gen.new E.G) [] = some (g, ys, fin)) :
    ys.Pairwise (fun p q => ∀ a b, costOf E p E.G.start = some a → costOf E q E.G.start = some b → a ≤ b) ∧
    ∀ p ∈ ys, ∃ a, costOf E p E.G.start = some a := by
  obtain ⟨idx, h1, h2, _⟩ := take_index E hnd hst hprod fuel k (Gen.new E.G) [] [] _ (gc_new E) (fun _ => ⟨rfl, rfl, rfl⟩)
    All2.nil List.Pairwise.nil (fun i hi => by cases hi) h
  have hgo := take_order E hnd hst hprod hpos fuel k (Gen.new E.G) [] _ (gc_new E) (go_new E) (fun _ => ⟨rfl, rfl⟩) h
  refine ⟨sorted_of_index E g.st (clSorted_of_oi E g.st hgo.1) ys idx h1 h2, fun p hp => ?_⟩
  obtain ⟨i, _, c, _, hc⟩ := sorted_of_index.mem_all2 h1 p hp
  exact ⟨c.fin, hc⟩

/-- **PREFIX COMPLETENESS (full statement, positive rule costs, finite and recursive grammars)**: on every prefix
    of the run (every fuel, every k), when a program `p` of cost `y` has been yielded, EVERY program `q` of the
    start symbol of strictly smaller cost all of whose sub-programs are accepted by the filter (`clean`; every
    derivable program when no filter is installed) has been yielded.  Together with C03_Beap_order (`q` cannot
    not come after `p` when it is strictly cheaper: the costs are non-decreasing) this is the user-facing statement of C03. -/
theorem C03_Beap_prefix_complete (E : Env S) (hnd : RowsNodup E.G) (hst : StableAfter E) (hprod : Productive E) (hpos : PosW E)
    (fuel k : Nat) (g : Gen S) (ys : List Prog) (fin : Bool) (h : take E fuel k (Gen.new E.G) [] = some (g, ys, fin))
    (p q : Prog) (x y : Rat) (hp : p ∈ ys) (hy : costOf E p E.G.start = some y) (hcl : clean E.filter q = true)
    (hx : costOf E q E.G.start = some x) (hlt : x < y) : q ∈ ys :=
  prefix_complete E hnd hst hprod hpos fuel k (g, ys, fin) h p q x y hp hy hcl hx hlt

/-- prefix completeness without a filter: every derivable program strictly cheaper than a yielded one was yielded -/
theorem C03_Beap_prefix_complete_nofilter (E : Env S) (hf : ∀ t, E.filter t = true) (hnd : RowsNodup E.G) (hst : StableAfter E)
    (hprod : Productive E) (hpos : PosW E)
    (fuel k : Nat) (g : Gen S) (ys : List Prog) (fin : Bool) (h : take E fuel k (Gen.new E.G) [] = some (g, ys, fin))
    (p q : Prog) (x y : Rat) (hp : p ∈ ys) (hy : costOf E p E.G.start = some y)
    (hx : costOf E q E.G.start = some x) (hlt : x < y) : q ∈ ys :=
  C03_Beap_prefix_complete E hnd hst hprod hpos fuel k g ys fin h p q x y hp hy (clean_accept_all E.filter hf q) hx hlt
end

/-- `HeapElement.__lt__` is a strict weak order -/
theorem C03_Beap_lt_weak_order : WeakOrder ltE := ltE_weak

/-- `heapify` establishes the heap invariant -/
theorem C03_Beap_heapify_isHeap {α : Type} {lt : α → α → Bool} (w : WeakOrder lt) (h : List α) : IsHeap lt (heapify lt h) :=
  heapify_isHeap w h

theorem C03_Beap_heappush_isHeap (h : List HeapEl) (x : HeapEl) (hh : IsHeap ltE h) : IsHeap ltE (Heapq.push ltE h x) :=
  push_isHeap ltE_weak h x hh

theorem C03_Beap_heappop_min (h h' : List HeapEl) (x : HeapEl) (hh : IsHeap ltE h) (hp : Heapq.pop ltE h = some (x, h')) :
    IsHeap ltE h' ∧ ∀ y ∈ h, Cost.lt y.cost x.cost = false := by
  obtain ⟨h1, h2⟩ := pop_isHeap ltE_weak h x h' hh hp
  exact ⟨h1, fun y hy => cost_of_ltE_false _ _ (h2 y hy)⟩

/-! ### non-vacuity on the grammar of seeded/C03-2/demo.py (C02_Beap.demoE): the first costs after the
    prologue are X ↦ 1 (`a`), Y ↦ 3 (`q(r(a))`), Z ↦ 2 (`r(a)`): the cheapest programs of Y and Z go
    through the recursive rules, and the queue of X prices `m(X,Z)` at 5 + 1 + 2 = 8 -/
open PS.C02Beap in
theorem demo_minCost :
    (prologue demoE 100 (St.empty demoG)).map (fun s => (s.clOf ntX, s.clOf ntY, s.clOf ntZ,
        (s.queueOf ntX).map (fun e => (e.P.name, e.cost)))) =
      some ([Cost.ofRat 1], [Cost.ofRat 3], [Cost.ofRat 2],
        [("2", Cost.ofRat 1), ("1", Cost.ofRat 8), ("0", Cost.ofRat 5)]) := by
  decide +kernel

open PS.C02Beap in
/-- the hypotheses of C03_Beap_minCost hold on the demo grammar and its conclusion is not vacuous -/
example : ∃ s', prologue demoE 100 (St.empty demoG) = some s' ∧ s'.clOf ntY = [Cost.ofRat 3] := by
  have h : (prologue demoE 100 (St.empty demoG)).map (fun s => s.clOf ntY) = some [Cost.ofRat 3] := by decide +kernel
  cases hp : prologue demoE 100 (St.empty demoG) with
  | none => simp [hp] at h
  | some s => exact ⟨s, rfl, by simpa [hp] using h⟩

open PS.C02Beap in
/-- during the initialisation (before `_reevaluate_`) the first cost of Y is 5 (`q(c)`, not yet `q(r(a))` = 3)
    and the queue of X still holds a placeholder for `m(X,Z)`: re-evaluation is what makes the costs minimal -/
example : (initNT demoE 100 (St.empty demoG) ntX).map (fun s => (s.clOf ntY, (s.queueOf ntX).map (fun e => e.cost.inf))) =
    some ([Cost.ofRat 5], [0, 1, 0]) := by
  decide +kernel

open PS.C02Beap in
/-- non-vacuity of C03_Beap_order: all hypotheses hold on the demo grammar -/
example (fuel k : Nat) (g : Gen Nat) (ys : List Prog) (fin : Bool) (h : take demoE fuel k (Gen.new demoG) [] = some (g, ys, fin)) :
    ys.Pairwise (fun p q => ∀ a b, costOf demoE p demoG.start = some a → costOf demoE q demoG.start = some b → a ≤ b) :=
  (C03_Beap_order demoE demo_rowsNodup (stableAfter_of_rec demoE rfl) demo_productive demo_posW fuel k g ys fin h).1

open PS.C02Beap in
/-- non-vacuity of C03_Beap_order_partial: on the demo grammar the hypotheses hold for the first 12 programs
    (the Boolean check on the final cost list of the start symbol evaluates to true), and the costs are
    1, 5, 7, 8, 8, 9, 10, … -/
example : (take demoE 300 12 (Gen.new demoG) []).map (fun r => (sortedB (r.1.st.clOf demoG.start), r.2.1.map (fun p => costOf demoE p demoG.start))) =
    some (true, [some 1, some 5, some 7, some 8, some 8, some 9, some 10, some 11, some 12, some 12, some 12, some 12]) := by
  decide +kernel

open PS.C02Beap in
example : ∃ g ys fin, take demoE 300 12 (Gen.new demoG) [] = some (g, ys, fin) ∧ sortedB (g.st.clOf demoG.start) = true ∧ ys.length = 12 := by
  have h : (take demoE 300 12 (Gen.new demoG) []).map (fun r => (sortedB (r.1.st.clOf demoG.start), r.2.1.length)) = some (true, 12) := by
    decide +kernel
  cases hp : take demoE 300 12 (Gen.new demoG) [] with
  | none => simp [hp] at h
  | some r =>
    obtain ⟨g, ys, fin⟩ := r
    simp only [hp, Option.map_some, Option.some.injEq, Prod.mk.injEq] at h
    exact ⟨g, ys, fin, rfl, h.1, h.2⟩

open PS.C02Beap in
/-- non-vacuity of C03_Beap_prefix_complete: all hypotheses hold on the (recursive) demo grammar; by the run above
    the premises are satisfiable (a program of cost 12 is yielded, programs of cost 1, 5, 7, … exist) -/
example (fuel k : Nat) (g : Gen Nat) (ys : List Prog) (fin : Bool) (h : take demoE fuel k (Gen.new demoG) [] = some (g, ys, fin))
    (p q : Prog) (x y : Rat) (hp : p ∈ ys) (hy : costOf demoE p demoG.start = some y)
    (hx : costOf demoE q demoG.start = some x) (hlt : x < y) : q ∈ ys :=
  C03_Beap_prefix_complete_nofilter demoE (fun _ => rfl) demo_rowsNodup (stableAfter_of_rec demoE rfl) demo_productive demo_posW
    fuel k g ys fin h p q x y hp hy hx hlt

/-! ### non-vacuity on a finite grammar that `is_recursive()` does not flag: `X -> a | m(Y,Y)`, `Y -> a | b` (C12_Beap.mG) -/
def fX : NT Nat Unit := (Ty.base "int", (0, ()))
def fY : NT Nat Unit := (Ty.base "int", (1, ()))
def finG : TT Nat Unit :=
  { start := fX,
    rules := [ (fX, [(C02Beap.sy 0, ([], ())), (C02Beap.sy 1, ([(Ty.base "int", 1), (Ty.base "int", 1)], ()))]),
               (fY, [(C02Beap.sy 0, ([], ())), (C02Beap.sy 2, ([], ()))]) ] }
def finE : Env Nat :=
  { G := finG, W := [ (fX, [(C02Beap.sy 0, 1), (C02Beap.sy 1, 1)]), (fY, [(C02Beap.sy 0, 1), (C02Beap.sy 2, 2)]) ],
    filter := fun _ => true, recursive := false }
def finRank (nt : NT Nat Unit) : Nat := if nt = fX then 1 else 0

theorem fin_rowsNodup : RowsNodup finG := by
  intro nt rs h
  simp only [finG, AList.lookup] at h
  repeat (first | (split at h; (cases h; decide)) | (simp at h))

theorem fin_ranked : Ranked finE finRank := ranked_of_check finE finRank (by decide)

theorem fin_productive : Productive finE := by
  intro nt h
  by_cases h1 : nt = fX
  · subst h1; exact ⟨.node (C02Beap.sy 0) [], 1, by decide +kernel⟩
  · by_cases h2 : nt = fY
    · subst h2; exact ⟨.node (C02Beap.sy 0) [], 1, by decide +kernel⟩
    · simp [finE, finG, AList.lookup, Ne.symm h1, Ne.symm h2] at h

/-- the full order theorem applies to this finite grammar although `recursive = false` (no re-evaluation) -/
example (fuel k : Nat) (g : Gen Nat) (ys : List Prog) (fin : Bool) (h : take finE fuel k (Gen.new finG) [] = some (g, ys, fin)) :
    ys.Pairwise (fun p q => ∀ a b, costOf finE p finG.start = some a → costOf finE q finG.start = some b → a ≤ b) :=
  (C03_Beap_order finE fin_rowsNodup (C03_Beap_stable_of_acyclic finE fin_rowsNodup finRank fin_ranked) fin_productive
    (posW_of_check finE (by decide +kernel)) fuel k g ys fin h).1

/-- prefix completeness applies to the finite grammar as well -/
example (fuel k : Nat) (g : Gen Nat) (ys : List Prog) (fin : Bool) (h : take finE fuel k (Gen.new finG) [] = some (g, ys, fin))
    (p q : Prog) (x y : Rat) (hp : p ∈ ys) (hy : costOf finE p finG.start = some y)
    (hx : costOf finE q finG.start = some x) (hlt : x < y) : q ∈ ys :=
  C03_Beap_prefix_complete_nofilter finE (fun _ => rfl) fin_rowsNodup (C03_Beap_stable_of_acyclic finE fin_rowsNodup finRank fin_ranked)
    fin_productive (posW_of_check finE (by decide +kernel)) fuel k g ys fin h p q x y hp hy hx hlt

/-- and the run is not vacuous: the five programs come out by cost 1, 3, 4, 4, 5 and the generator stops -/
example : (take finE 100 10 (Gen.new finG) []).map (fun r => (r.2.1.map (fun p => costOf finE p finG.start), r.2.2)) =
    some ([some 1, some 3, some 4, some 4, some 5], true) := by
  decide +kernel

end PS.C03Beap
