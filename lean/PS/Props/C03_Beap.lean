/-
  C03, part beap — beap search (beap_search.py) yields programs by non-decreasing cost (non-increasing
  probability); when a program of cost c is produced, every strictly cheaper program was produced.

  FULL STATEMENT (not proved as a whole): for every fuel and every prefix of the run, the costs of the
  yielded programs are non-decreasing and every derivable program strictly cheaper than a yielded one was
  yielded before it.

  Proved here (every grammar with distinct dict keys, every cost table, every fuel):
  THE MINIMAL COSTS (beap_search.py:79-119, the part of the enumerator the order rests on):
    * C03_Beap_minCost         — after `_init_non_terminal_(start); _reevaluate_()` on a grammar flagged
        recursive (`cfg.is_recursive()`), for EVERY initialised non-terminal S the first cost
        `_cost_lists[S][0]` is the TRUE MINIMUM of the costs of the programs derivable from S: it is a lower
        bound of the cost of every derivable program (so it is finite — no 1e99 placeholder left — as soon as
        S derives a program) and it is the cost of a program derivable from S.  No hypothesis on the sign
        of the costs, on acyclicity or on the order of the rules: the statement holds whenever the prologue
        returns (the fixpoint loop has ended).
    * C03_Beap_minCost_stable  — the same for ANY state that is a fixpoint of `_reevaluate_` (`Stable`),
        whatever the flag: this is the form that applies to acyclic grammars, where `_reevaluate_` is
        skipped; `Stable` is a decidable check on the state (evaluated on every generated case by the driver
        op beap.init: `minCostOK`), the other hypotheses are proved for every run of the prologue:
    * C03_Beap_attained        — (upper half, any flag) every first cost that is not a placeholder is the cost
        of a derivable program — holds during the whole prologue (`MInv`), so also for the intermediate
        values that `_reevaluate_` improves;
    * C03_Beap_all_rules       — every initialised non-terminal has an element of every one of its rules in
        its queue (depth-first initialisation, ghost stack of the non-terminals in progress);
    * C03_Beap_head_min        — every queue is a heap for `HeapElement.__lt__` and `_cost_lists[S][0]` is a
        minimum of `_queues[S]`;
    * C03_Beap_reevaluate_fixpoint — when the `while changed` loop exits the state is a fixpoint.
  THE HEAP:
    * C03_Beap_lt_weak_order   — `HeapElement.__lt__` (lexicographic on (cost, combination)) is a strict weak order;
    * C03_Beap_heapify_isHeap  — the port of CPython `heapify` ESTABLISHES the heap invariant on any array
                                 (siftup = bubble the smaller child to a leaf, then siftdown with startpos);
    * C03_Beap_heappush_isHeap, C03_Beap_heappop_min — push keeps the invariant, pop returns a minimum.
  The seeded change seeded/C03-2 (re-evaluate only the derivations whose cost is still a placeholder)
  falsifies C03_Beap_reevaluate_fixpoint / C03_Beap_minCost on the demo grammar below: see
  `demo_minCost` (the model's values) — the patched implementation leaves `m(X,Z)` at cost 19/4
  instead of 7/2 and is caught by the correspondence on the queues and by the order oracle.
  Compared on every generated case, not proved: the order of the yielded sequence itself and prefix
  completeness (exact Fraction cost of every yielded program, brute-force expansion below a cost bound).
-/
import PS.Proofs.Enum.BeapHeadMin
import PS.Props.C02_Beap
namespace PS.C03Beap
open PS PS.G PS.Beap PS.Heapq

section
variable {S : Type} [DecidableEq S]

/-- **minimal costs after the prologue, recursive grammars** -/
theorem C03_Beap_minCost (E : Env S) (hnd : RowsNodup E.G) (hrec : E.recursive = true) (fuel : Nat) (s' : St S)
    (h : prologue E fuel (St.empty E.G) = some s') (nt : NT S Unit) (c : Cost) (rest : List Cost)
    (hc : s'.clOf nt = c :: rest) :
    (∀ t k, costOf E t nt = some k → c.inf = 0 ∧ c.fin ≤ k) ∧
    (c.inf = 0 → ∃ t, gen E.G t nt = true ∧ costOf E t nt = some c.fin) :=
  prologue_minCost E hnd hrec fuel s' h nt c rest hc

/-- **minimal costs at any fixpoint of `_reevaluate_`** (any flag; `Stable` is decidable) -/
theorem C03_Beap_minCost_stable (E : Env S) (hnd : RowsNodup E.G) (fuel : Nat) (s' : St S)
    (h : prologue E fuel (St.empty E.G) = some s') (hst : Stable E s') (nt : NT S Unit) (c : Cost) (rest : List Cost)
    (hc : s'.clOf nt = c :: rest) :
    (∀ t k, costOf E t nt = some k → c.inf = 0 ∧ c.fin ≤ k) ∧
    (c.inf = 0 → ∃ t, gen E.G t nt = true ∧ costOf E t nt = some c.fin) :=
  minCost_spec E s' (prologue_minv E hnd fuel _ _ (minv_empty E) h) (prologue_headMin E fuel s' h).1
    (prologue_allRules E fuel s' h) hst nt c rest hc

/-- a first cost that is not a placeholder is the cost of a derivable program (any flag) -/
theorem C03_Beap_attained (E : Env S) (hnd : RowsNodup E.G) (fuel : Nat) (s' : St S)
    (h : prologue E fuel (St.empty E.G) = some s') (nt : NT S Unit) (c : Cost) (rest : List Cost)
    (hc : s'.clOf nt = c :: rest) (hfin : c.inf = 0) : ∃ t, gen E.G t nt = true ∧ costOf E t nt = some c.fin :=
  ((prologue_minv E hnd fuel _ _ (minv_empty E) h).cl nt c rest hc).2 hfin

/-- every initialised non-terminal has all its rules in its queue -/
theorem C03_Beap_all_rules (E : Env S) (fuel : Nat) (s' : St S) (h : prologue E fuel (St.empty E.G) = some s')
    (nt : NT S Unit) (c : Cost) (rest : List Cost) (hc : s'.clOf nt = c :: rest) (P : Sym) (rl : List (Ty × S) × Unit)
    (hr : E.G.rule? nt P = some rl) : ∃ el ∈ s'.queueOf nt, el.P = P :=
  prologue_allRules E fuel s' h nt c rest hc P rl hr

/-- every queue is a heap and the first cost is a minimum of the queue -/
theorem C03_Beap_head_min (E : Env S) (fuel : Nat) (s' : St S) (h : prologue E fuel (St.empty E.G) = some s') :
    (∀ nt, IsHeap ltE (s'.queueOf nt)) ∧
    ∀ nt c rest, s'.clOf nt = c :: rest → ∀ el ∈ s'.queueOf nt, Cost.lt el.cost c = false :=
  ⟨(prologue_headMin E fuel s' h).2, (prologue_headMin E fuel s' h).1⟩

/-- when `_reevaluate_` returns on a grammar flagged recursive, recomputing any queued cost changes nothing -/
theorem C03_Beap_reevaluate_fixpoint (E : Env S) (hrec : E.recursive = true) (fuel : Nat) (s s' : St S)
    (h : reevaluate E fuel s = some s') (nt : NT S Unit) (el : HeapEl) (hel : el ∈ s'.queueOf nt) :
    ∃ el', recost E s' nt el = some el' ∧ el'.cost = el.cost :=
  reevaluate_stable E hrec fuel s s' h nt el hel
end

/-- `HeapElement.__lt__` is a strict weak order -/
theorem C03_Beap_lt_weak_order : WeakOrder ltE := ltE_weak

/-- `heapify` establishes the heap invariant -/
theorem C03_Beap_heapify_isHeap {α : Type} {lt : α → α → Bool} (w : WeakOrder lt) (h : List α) : IsHeap lt (heapify lt h) :=
  heapify_isHeap w h

theorem C03_Beap_heappush_isHeap (h : List HeapEl) (x : HeapEl) (hh : IsHeap ltE h) : IsHeap ltE (Heapq.push ltE h x) :=
  push_isHeap ltE_weak h x hh

theorem C03_Beap_heappop_min (h h' : List HeapEl) (x : HeapEl) (hh : IsHeap ltE h) (hp : Heapq.pop ltE h = some (x, h')) :
    IsHeap ltE h' ∧ ∀ y ∈ h, Cost.lt y.cost x.cost = false := by
  obtain ⟨h1, h2⟩ := pop_isHeap ltE_weak h x h' hh hp
  exact ⟨h1, fun y hy => cost_of_ltE_false _ _ (h2 y hy)⟩

/-! ### non-vacuity on the grammar of seeded/C03-2/demo.py (C02_Beap.demoE): the first costs after the
    prologue are X ↦ 1 (`a`), Y ↦ 3 (`q(r(a))`), Z ↦ 2 (`r(a)`): the cheapest programs of Y and Z go
    through the recursive rules, and the queue of X prices `m(X,Z)` at 5 + 1 + 2 = 8 -/
open PS.C02Beap in
theorem demo_minCost :
    (prologue demoE 100 (St.empty demoG)).map (fun s => (s.clOf ntX, s.clOf ntY, s.clOf ntZ,
        (s.queueOf ntX).map (fun e => (e.P.name, e.cost)))) =
      some ([Cost.ofRat 1], [Cost.ofRat 3], [Cost.ofRat 2],
        [("2", Cost.ofRat 1), ("1", Cost.ofRat 8), ("0", Cost.ofRat 5)]) := by
  decide +kernel

open PS.C02Beap in
/-- the hypotheses of C03_Beap_minCost hold on the demo grammar and its conclusion is not vacuous -/
example : ∃ s', prologue demoE 100 (St.empty demoG) = some s' ∧ s'.clOf ntY = [Cost.ofRat 3] := by
  have h : (prologue demoE 100 (St.empty demoG)).map (fun s => s.clOf ntY) = some [Cost.ofRat 3] := by decide +kernel
  cases hp : prologue demoE 100 (St.empty demoG) with
  | none => simp [hp] at h
  | some s => exact ⟨s, rfl, by simpa [hp] using h⟩

open PS.C02Beap in
/-- during the initialisation (before `_reevaluate_`) the first cost of Y is 5 (`q(c)`, not yet `q(r(a))` = 3)
    and the queue of X still holds a placeholder for `m(X,Z)`: re-evaluation is what makes the costs minimal -/
example : (initNT demoE 100 (St.empty demoG) ntX).map (fun s => (s.clOf ntY, (s.queueOf ntX).map (fun e => e.cost.inf))) =
    some ([Cost.ofRat 5], [0, 1, 0]) := by
  decide +kernel

end PS.C03Beap
