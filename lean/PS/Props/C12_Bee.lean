/- C12, part bee (bee search): theorems about the machine PS.Bee (lean/PS/Model/Enum/BeeSearch.lean) -/
import PS.Model.Enum.BeeSearch
namespace PS.C12Bee
open PS PS.G PS.Bee

/-- a finished generator stays finished (StopIteration is repeated) -/
theorem C12_Bee_done_stays {S : Type} [DecidableEq S] (E : Env S) (n : Nat) (g : Gen S) (h : g.phase.isDone = true) :
    next E (n + 1) g = some (g, none) := by
  simp [next, h]

end PS.C12Bee
