/- C12, part bee (bee search): a filter or merge declarations remove only what they should.
   Safety halves proved for every history; the liveness halves are compared (and are violated by the
   implementation: findings C12-F9, C12-F10, C12-F11). -/
import PS.Proofs.Enum.BeeOrderRun
import PS.Proofs.Enum.BeeDeleted
import PS.Proofs.Enum.BeeNodupRun
import PS.Props.C02_Bee
namespace PS.C12Bee
open PS PS.G PS.Bee PS.C02Bee

variable {S : Type} [DecidableEq S]

/-- **NO REJECTED PROGRAM IS YIELDED**, every history: whatever bee search yields along any interleaving of `next`
    calls and merge declarations is accepted by the filter (and is a member of the grammar) -/
theorem C12_Bee_accepted (E : Env S) (fuel : Nat) (acts : List Act) (g0 g : Gen S) (out : List Prog)
    (h0 : Gen.new E = some g0) (h : runActs E fuel acts g0 [] = some (g, out)) :
    ∀ p ∈ out, E.filter p = true ∧ gen E.G p E.G.start = true :=
  fun p hp => ⟨((runActs_sound E fuel acts g0 g [] out h (ginv_new E g0 h0).1 (by simp)).2 p hp).2,
               ((runActs_sound E fuel acts g0 g [] out h (ginv_new E g0 h0).1 (by simp)).2 p hp).1⟩

/-- a program is yielded only if it is not in `_deleted` at that moment (in particular a program declared merged
    is not yielded by the step that follows), it is accepted, and it costs the cost of the current round -/
theorem C12_Bee_yield_not_deleted (E : Env S) (g g' : Gen S) (p : Prog) (h : step E g = some (g', some p))
    (hi : GInv E g) : g.st.deleted.contains p = false ∧ E.filter p = true :=
  ⟨((step_sound E g g' (some p) h hi).2 p rfl).2.2.2, ((step_sound E g g' (some p) h hi).2 p rfl).2.2.1⟩

/-- `merge_program(_, other)` puts `other` in `_deleted`, sets `_has_merged`, erases `other` (first occurrence) from
    every list of every bank whose non-terminal is in the rule table and has the type of `other`, and leaves the
    queues, the delayed combinations and the cost list alone (so combinations already queued and programs that
    CONTAIN `other` stay: finding C12-F10) -/
theorem C12_Bee_merge_effect (E : Env S) (g : Gen S) (other : Prog) (ty : Ty) :
    (merge E g other ty).st.deleted.contains other = true ∧ (merge E g other ty).st.hasMerged = true ∧
    (merge E g other ty).st.queued = g.st.queued ∧ (merge E g other ty).st.delayed = g.st.delayed ∧
    (merge E g other ty).st.costList = g.st.costList ∧
    ∀ nt b, (nt, b) ∈ (merge E g other ty).st.bank → nt ∈ AList.keys E.G.rules → nt.1 = ty →
      ∃ b0, (nt, b0) ∈ g.st.bank ∧ b = b0.map fun e => (e.1, e.2.erase other) := by
  refine ⟨?_, rfl, rfl, rfl, rfl, ?_⟩
  · unfold merge
    by_cases hc : g.st.deleted.contains other = true
    · simp only [hc, if_true]
    · simp only [hc, if_false, Bool.false_eq_true]
      simp
  · intro nt b hm hk hty
    unfold merge at hm
    simp only [List.mem_map] at hm
    obtain ⟨r, hr, heq⟩ := hm
    have hrn : r.1 = nt := by
      split at heq <;> (cases heq; rfl)
    have hcond : ((AList.keys E.G.rules).contains r.1 && decide (r.1.1 = ty)) = true := by
      rw [hrn]; simp [hk, hty]
    rw [if_pos hcond] at heq
    cases heq
    exact ⟨r.2, hr, rfl⟩

example : (merge cE ((Gen.new cE).get (by decide +kernel)) (.node cOne []) cInt).st.deleted = [.node cOne []] := by
  decide +kernel

/-- **WITH A FILTER: EACH PROGRAM AT MOST ONCE** (any filter; partial: no merge declaration in the history; decidable
    hypotheses `dictOK`, `initFrontOK`: see C02_Bee_nodup_partial): yielded programs are pairwise distinct, accepted by the
    filter and members of the grammar -/
theorem C12_Bee_filter_nodup_partial (E : Env S) (hd : dictOK E = true) (hf : initFrontOK E = true) (fuel : Nat) (acts : List Act)
    (hacts : acts.all Act.isTake = true) (g0 g : Gen S) (out : List Prog) (h0 : Gen.new E = some g0)
    (h : runActs E fuel acts g0 [] = some (g, out)) :
    out.Nodup ∧ ∀ p ∈ out, E.filter p = true ∧ gen E.G p E.G.start = true :=
  ⟨(runActs_nodup E fuel acts g0 g [] out hacts h (gn_new E (dictOK_of_check E hd) hf g0 h0) ⟨by simp, by simp⟩).2.1,
   C12_Bee_accepted E fuel acts g0 g out h0 h⟩

/-- **A MERGED PROGRAM IS NEVER YIELDED AGAIN**, every history: after `merge_program(_, other)` — whatever the state
    `g` reached before (any earlier history), whatever the later interleaving of `next` calls and further merges —
    `other` itself is not among the programs yielded afterwards (`_deleted` only grows and a program is yielded only
    if it is not in `_deleted`).  Programs that CONTAIN `other` may still be yielded: finding C12-F10. -/
theorem C12_Bee_merged_never_yielded (E : Env S) (fuel : Nat) (g g' : Gen S) (other : Prog) (ty : Ty) (acts : List Act)
    (out : List Prog) (hi : GInv E g) (h : runActs E fuel acts (merge E g other ty) [] = some (g', out)) :
    other ∉ out :=
  runActs_deleted E other fuel acts _ g' [] out h (merge_sound E g other ty hi) (merge_deletes E g other ty) (by simp)

/-- the same from the fresh enumerator: history `acts1`, then the merge, then history `acts2` -/
theorem C12_Bee_merged_never_yielded_run (E : Env S) (fuel : Nat) (g0 g1 g2 : Gen S) (other : Prog) (ty : Ty)
    (acts1 acts2 : List Act) (out1 out2 : List Prog) (h0 : Gen.new E = some g0)
    (h1 : runActs E fuel acts1 g0 [] = some (g1, out1))
    (h2 : runActs E fuel acts2 (merge E g1 other ty) [] = some (g2, out2)) : other ∉ out2 :=
  C12_Bee_merged_never_yielded E fuel g1 g2 other ty acts2 out2
    (runActs_sound E fuel acts1 g0 g1 [] out1 h1 (ginv_new E g0 h0).1 (by simp)).1 h2

/-- non-vacuity: merging `(+ 1 var0)` after two programs: the three remaining yields skip it -/
example : ((Gen.new cE).bind fun g => runActs cE 400 [.take 2] g []).bind (fun r =>
      (runActs cE 400 [.take 2] (merge cE r.1 (.node cPlus [.node cOne [], .node cX []]) cInt) []).map fun r2 => r2.2.length) = some 2 := by
  decide +kernel

/-- the order is kept with a filter and through merges (every history): C03_Bee_sorted is about every `Env`
    (any filter) and every list of actions; restated here for the C12 reader -/
theorem C12_Bee_sorted_with_filter_and_merges (E : Env S) (hw : nonnegW E = true) (hd : dictOK E = true) (fuel : Nat)
    (acts : List Act) (g0 g : Gen S) (out : List Prog) (h0 : Gen.new E = some g0)
    (h : runActs E fuel acts g0 [] = some (g, out)) :
    (out.map fun p => pcost E p E.G.start).Pairwise (· ≤ ·) := by
  obtain ⟨b', _, hs⟩ := runActs_order E (nnw_of_check E hw) fuel acts g0 g [] out 0 h (ginv_new E g0 h0).1
    (gord_new E (nnw_of_check E hw) (dictOK_of_check E hd) g0 h0 0 (Int.le_refl _)) ⟨by simp, by simp⟩
  exact hs.1

/-! ### finding C12-F11: with a rejecting filter the generator never reaches its stop condition -/

/-- the example grammar with a filter that rejects `(+ 1 1)` -/
def rE : Env Nat := { cE with filter := fun p => !(p == Tree.node cPlus [.node cOne [], .node cOne []]) }

/-- without the filter the generator stops after its five programs; with the filter it yields the four accepted
    programs and then is still running after 400 more control points (the program count 5 is never reached and the
    queues never empty: the implementation's `list(enumerator)` hangs) -/
theorem finding_C12_F11 :
    ((Gen.new cE).bind fun g => take cE 400 6 g []).map (fun r => (r.2.1.length, r.2.2)) = some (5, true) ∧
    ((Gen.new rE).bind fun g => take rE 400 4 g []).map (fun r => (r.2.1.length, r.2.2)) = some (4, false) ∧
    ((Gen.new rE).bind fun g => take rE 400 5 g []) = none := by
  decide +kernel

end PS.C12Bee
