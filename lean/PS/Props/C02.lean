import PS.Props.C02_HS
