import PS.Model.Enum.HeapSearch
import PS.Model.Enum.UHeapSearch
