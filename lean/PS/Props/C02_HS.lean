/-
  C02, part hs — heap search / bucket search (deterministic and unambiguous grammars).

  FULL STATEMENT: for every finite grammar G with positive weights there is a number of `next`
    steps after which the machine has stopped and its output is a permutation of the language of G.
    PROVED for heap search (threshold 0, no filter) on acyclic context-free grammars: C02_HS_full.
    False on state-threading TTCFGs and on recursive grammars (findings below).

  Proved here, for all inputs (heap search and bucket search on deterministic grammars, model
  PS/Model/Enum/HeapSearch.lean; proofs by rule induction on the big-step relation `HS.Big` of
  the machine, PS/Proofs/Enum/HSBig.lean):
    * the heapq port keeps the multiset on push and pop, and pop fails exactly on the empty heap;
    * SOUNDNESS (item 4), context-free grammars: the state invariant `HS.SInv` (everything stored in
      `hash_table_program[S]`, `heaps[S]`, `succ[S]` is derivable from `S`; the stored priority is the
      priority function `prioSpec` applied to the program — for heap search its probability)
      holds initially, is kept by `query` and by `next`, and whatever is yielded is a member of the
      grammar: C02_HS_inv_init, C02_HS_query_sound, C02_HS_sound_step, C02_HS_sound,
      C02_HS_stored_priority, C02_HS_compute_priority;
    * NO DUPLICATES (item 5), any tree-traversing grammar, without filter: `HS.NInv` (heap programs
      pairwise distinct, popped programs never come back, `succ[S]` injective and only growing):
      C02_HS_query_nodup, C02_HS_nodup_step, C02_HS_nodup;
  and, on concrete witnesses evaluated by the kernel on the models:
    * finding_C02_F2 — the unambiguous heap search as it is yields 10 of the 14 programs of a
      three-start grammar, and (C02_HS_fix_F2_witness) all 14 after the proposed fix;
    * finding_C02_F3 — heap search on a state-threading TTCFG never yields a member;
    * finding_C02_HS_recursive (finding C03-F4) — on a recursive grammar (`CFG.infinite`) heap search stops after 5
      programs and never yields a member (`_reevaluate_` leaves the max-priority tables out of sync).
    * COMPLETENESS WHEN THE GENERATOR STOPS (item 6, partial correctness), acyclic context-free
      grammars, heap search with threshold 0 and no filter: C02_HS_complete, C02_HS_exactly_once
      (output duplicate-free and equal to the language), C02_HS_exhausted_complete;
    * TERMINATION: the prologue returns with enough fuel (C02_HS_prologue_total), the generator loop
      stops (C02_HS_stops_partial, C02_HS_total_partial), hence the FULL STATEMENT for heap search on
      acyclic context-free grammars: C02_HS_full — for every fuel ≥ HS.enoughFuel there is a number of
      `next` steps after which the generator has stopped and its output is a permutation of the
      language;
    * GENERIC DEVELOPMENT (PS/Proofs/Enum/G*.lean: any priority type whose `combine` is monotone,
      threshold, filter; the code after fix 53c3acb, `dropDeleted = false`), acyclic context-free grammars:
        - BUCKET SEARCH, the full statement: for every fuel ≥ HG.enoughFuelF the generator stops and
          its output is a permutation of the language, C02_HS_bucket_full;
        - HEAP SEARCH WITH A POSITIVE THRESHOLD: the generator stops, the output is duplicate-free,
          sound, and contains every member whose probability is above the threshold,
          C02_HS_threshold_full (completeness at stop for every fuel: C02_HS_threshold_complete);
        - no duplicates with a filter installed: C02_HS_filter_nodup, C02_HS_bucket_filter_nodup
          (the liveness half with a filter is in Props/C12_HS.lean).
    * UNAMBIGUOUS-GRAMMAR MACHINE (u_heap_search.py after fix 7721229: UHSEnumerator, UHeapSearch, BucketSearch;
      model PS/Model/Enum/UHeapSearch.lean with `kway = true`; proofs PS/Proofs/Enum/U*.lean), section
      "unambiguous machine" at the end of this file:
        - soundness as a state invariant, any grammar: C02_HS_U_sound (+ _inv_init, _query_sound, _sound_step,
          _stored_priority, _start_priority);
        - no duplicates on unambiguous grammars, every prefix and fuel: C02_HS_U_nodup, C02_HS_U_nodup_det,
          C02_HS_U_filter_nodup;
        - acyclic unambiguous grammars with several start symbols: completeness when the generator stops
          (C02_HS_U_complete, C02_HS_U_exactly_once, C02_HS_U_exhausted_complete), termination
          (C02_HS_U_query_total, C02_HS_U_stops) and the full statement C02_HS_U_full (heap search) /
          C02_HS_U_bucket_full (bucket search).
  NOT proved: recursive grammars and state-threading TTCFGs (the statement is false there), thresholds of
  the unambiguous machine; they are checked on every generated case against the independent language
  oracle and by exact correspondence of the model with the implementation.
-/
import PS.Model.Enum.HeapSearch
import PS.Model.Enum.UHeapSearch
import PS.Proofs.Enum.Heapq
import PS.Proofs.Enum.HeapSearch
import PS.Proofs.Enum.HSSoundInit
import PS.Proofs.Enum.HSPrio
import PS.Proofs.Enum.HSNodupRun
import PS.Proofs.Enum.HSCompleteCheck
import PS.Proofs.Enum.HSStops
import PS.Proofs.Enum.HSPrologueTotal
import PS.Proofs.Enum.GInst
import PS.Proofs.Enum.USoundRun
import PS.Proofs.Enum.UBridge
import PS.Proofs.Enum.UUnamb
import PS.Proofs.Enum.UCompleteRun
import PS.Proofs.Enum.UOrderCheck
import PS.Proofs.Enum.UTotalCheck
import PS.Proofs.Enum.UBucket
namespace PS.C02HS
open PS PS.G

/-- `heappush` keeps the multiset of the heap -/
theorem C02_HS_heappush_perm {α : Type} (lt : α → α → Bool) (h : List α) (x : α) :
    (Heapq.push lt h x).Perm (x :: h) := Heapq.push_perm lt h x

/-- `heappop` keeps the multiset of the heap -/
theorem C02_HS_heappop_perm {α : Type} (lt : α → α → Bool) (h : List α) (x : α) (h' : List α)
    (hp : Heapq.pop lt h = some (x, h')) : h.Perm (x :: h') := Heapq.pop_perm lt h x h' hp

/-- `heappop` raises exactly on the empty heap -/
theorem C02_HS_heappop_empty {α : Type} (lt : α → α → Bool) (h : List α) :
    Heapq.pop lt h = none ↔ h = [] := Heapq.pop_none_iff lt h

example : Heapq.pop (fun a b : Nat => decide (a < b)) (Heapq.push (fun a b => decide (a < b)) [1, 3, 2] 0) = some (0, [1, 3, 2]) := by
  decide

/-! ### finding C02-F2: several start symbols (u_heap_search.py start heap) -/
section F2
open PS.UHS
def iT : Ty := .base "int"
def s0 : UNT Nat := (iT, 0)
def s1 : UNT Nat := (iT, 1)
def s2 : UNT Nat := (iT, 2)
def plus : Sym := Sym.prim "+" (.arrow iT (.arrow iT iT))
def one : Sym := Sym.prim "1" iT
def v0 : Sym := Sym.var 0 iT
/-- `UCFG.from_DFTA(add_dfta_constraints(CFG.depth_constraint(DSL{+,1}, int -> int, 3), ["(+ ^+ _)"]))`
    with uniform probabilities: 2 + 4 + 8 = 14 programs -/
def G14 : UG Nat :=
  { starts := [(s2, 1/3), (s0, 1/3), (s1, 1/3)],
    rules := [(s1, [(plus, [([s0, s0], 1)])]), (s0, [(one, [([], 1/2)]), (v0, [([], 1/2)])]),
              (s2, [(plus, [([s0, s1], 1)])])] }
def E14 (kway : Bool) : Env Nat Rat := { G := G14, ops := probOps 0, filter := fun _ => true, kway := kway }

/-- the code as it is stops after 10 of the 14 programs -/
theorem finding_C02_F2 :
    (take (E14 false) 60 20 (St.empty G14) []).map (fun r => (r.2.1.length, r.2.2)) = some (10, true) := by
  decide +kernel

/-- with the proposed fix (k-way merge at the start heap) all 14 programs are produced -/
theorem C02_HS_fix_F2_witness :
    (take (E14 true) 60 20 (St.empty G14) []).map (fun r => (r.2.1.length, r.2.2)) = some (14, true) := by
  decide +kernel
end F2

/-! ### finding C02-F3: state-threading TTCFG -/
section F3
open PS.HS
def sy (k : Nat) : Sym := Sym.prim (toString k) Ty.unknown
/-- a size-bounded TTCFG over `+` (symbol 0), `2` (symbol 1), `1` (symbol 2): 22 programs -/
def w3G : TT Nat Nat :=
  { start := (Ty.base "int", (0, 2)),
    rules := [
    ((Ty.base "int", (0, 2)), [(sy 0, ([(Ty.base "int", 0), (Ty.base "int", 0)], 0)), (sy 1, ([], 1)), (sy 2, ([], 1))]),
    ((Ty.base "int", (0, 4)), [(sy 1, ([], 3)), (sy 2, ([], 3))]),
    ((Ty.base "int", (0, 6)), [(sy 1, ([], 5)), (sy 2, ([], 5))]),
    ((Ty.base "int", (0, 0)), [(sy 2, ([], 7)), (sy 1, ([], 7)), (sy 0, ([(Ty.base "int", 0), (Ty.base "int", 0)], 4))]),
    ((Ty.base "int", (0, 7)), [(sy 0, ([(Ty.base "int", 0), (Ty.base "int", 0)], 3)), (sy 2, ([], 8)), (sy 1, ([], 8))]),
    ((Ty.base "int", (0, 3)), [(sy 1, ([], 6)), (sy 2, ([], 6))])] }
def w3W : AList (NT Nat Nat) (AList Sym Rat) := [
    ((Ty.base "int", (0, 2)), [(sy 0, (1 : Rat) / 8), (sy 1, (15 : Rat) / 16), (sy 2, (9 : Rat) / 16)]),
    ((Ty.base "int", (0, 4)), [(sy 1, (7 : Rat) / 8), (sy 2, (11 : Rat) / 16)]),
    ((Ty.base "int", (0, 6)), [(sy 1, (15 : Rat) / 16), (sy 2, (15 : Rat) / 16)]),
    ((Ty.base "int", (0, 0)), [(sy 2, (9 : Rat) / 16), (sy 1, (3 : Rat) / 16), (sy 0, (9 : Rat) / 16)]),
    ((Ty.base "int", (0, 7)), [(sy 0, (15 : Rat) / 16), (sy 2, (1 : Rat) / 2), (sy 1, (3 : Rat) / 8)]),
    ((Ty.base "int", (0, 3)), [(sy 1, (3 : Rat) / 16), (sy 2, (3 : Rat) / 4)])]
def E3 : Env Nat Nat Rat := { G := w3G, W := w3W, ops := probOps 0, filter := fun _ => true }
/-- `(+ 2 (+ 1 1))`: symbol 0 is `+`, symbol 1 is `2`, symbol 2 is `1` -/
def lost : Prog := .node (sy 0) [.node (sy 1) [], .node (sy 0) [.node (sy 2) [], .node (sy 2) []]]

/-- heap search stops after 20 programs and never yields `lost`, which is a member of the grammar -/
theorem finding_C02_F3 :
    contains w3G lost = true ∧
    (take E3 200 40 (Gen.new w3G) []).map (fun r => (r.2.1.length, r.2.2, r.2.1.contains lost)) = some (20, true, false) := by
  decide +kernel
end F3

/-! ### soundness of the machine as a state invariant (item 4), context-free grammars -/
section Sound
open PS.HS
variable {S π : Type} [DecidableEq S]

/-- the invariant: `HS.SInv E s` says that for every non-terminal `nt`
    (1) every program of `hash_table_program[nt]` is derivable from `nt` (`gen`),
    (2) every element of `heaps[nt]` is in `hash_table_program[nt]`,
    (3) every value of `succ[nt]` is in `hash_table_program[nt]`;
    `HS.GInv E g` adds, before the prologue has run, that the max-priority tables hold derivable
    programs.  It holds for the fresh generator object … -/
theorem C02_HS_inv_init (E : Env S Unit π) : GInv E (Gen.new E.G) := ginv_new E

/-- … and every `next(generator)` keeps it and yields a program derivable from the start symbol
    (any priority type, any threshold, any filter, `dropDeleted` either way; `RowsNodup`: a Python
    dict has no repeated key) -/
theorem C02_HS_sound_step (E : Env S Unit π) (hnd : RowsNodup E.G) (fuel : Nat) (g g' : Gen S Unit π)
    (r : Option Prog) (hg : GInv E g) (h : HS.next E fuel g = some (g', r)) :
    GInv E g' ∧ ∀ p, r = some p → gen E.G p E.G.start = true := next_sound E hnd fuel g g' r hg h

/-- the inner step: `query(S, program)` keeps the table invariant and returns a program derivable from `S` -/
theorem C02_HS_query_sound (E : Env S Unit π) (n : Nat) (s s' : St S Unit π) (nt : NT S Unit)
    (p r : Option Prog) (hs : SInv E s) (h : query E n s nt p = some (s', r)) :
    SInv E s' ∧ ∀ q, r = some q → gen E.G q nt = true := query_sound E hs h

/-- **soundness**: whatever heap search / bucket search yields on a context-free grammar is a
    member of the grammar (`program in grammar` of the implementation, by `contains_eq_gen`) -/
theorem C02_HS_sound (E : Env S Unit π) (hnd : RowsNodup E.G) (fuel k : Nat) (g' : Gen S Unit π)
    (out : List Prog) (b : Bool) (h : take E fuel k (Gen.new E.G) [] = some (g', out, b)) :
    ∀ p ∈ out, contains E.G p = true := by
  intro p hp
  rw [contains_eq_gen]
  exact (take_sound E hnd fuel k _ _ _ _ _ (ginv_new E) (by intro q hq; cases hq) h).2 p hp

/-- the stored priority is the priority function applied to the program: `SInv` also says that
    the memo table of `compute_priority` agrees with the specification `prioSpec` and that every
    heap element `(priority, program)` of `nt` has `priority = prioSpec program nt`; for heap search
    (`probOps`) that is the probability of the program from `nt` (product of the rule weights) -/
theorem C02_HS_stored_priority (E : Env S Unit Rat) (t : Rat) (hops : E.ops = probOps t) (s : St S Unit Rat)
    (hs : SInv E s) (nt : NT S Unit) (e : Rat × Prog) (he : e ∈ s.heapOf nt) :
    gen E.G e.2 nt = true ∧ e.1 = prob E.G E.W e.2 nt := by
  have hg := hs.seen_gen nt e.2 (hs.heap_seen nt e he)
  exact ⟨hg, prioSpec_prob E t hops e.2 nt e.1 hg (hs.heap_prio nt e he)⟩

/-- `compute_priority(S, program)` returns the priority of the specification on derivable programs -/
theorem C02_HS_compute_priority (E : Env S Unit π) (c : AList (Prog × NT S Unit) π) (hc : CacheOK E c)
    (nt : NT S Unit) (prog : Prog) (hg : gen E.G prog nt = true) (c' : AList (Prog × NT S Unit) π) (v : π)
    (h : computePrio E c nt prog = some (c', v)) : prioSpec E prog nt = some v ∧ CacheOK E c' :=
  computePrio_spec E c hc nt prog hg c' v h

/-! non-vacuity: `S0 → 1 | + S1 S1`, `S1 → 1 | x` -/
def cInt : Ty := .base "int"
def cOne : Sym := Sym.prim "1" cInt
def cX : Sym := Sym.var 0 cInt
def cPlus : Sym := Sym.prim "+" (.arrow cInt (.arrow cInt cInt))
def cG : TT Nat Unit := ⟨(cInt, (0, ())), [((cInt, (0, ())), [(cOne, ([], ())), (cPlus, ([(cInt, 1), (cInt, 1)], ()))]),
                                          ((cInt, (1, ())), [(cOne, ([], ())), (cX, ([], ()))])]⟩
def cW : AList (NT Nat Unit) (AList Sym Rat) :=
  [((cInt, (0, ())), [(cOne, 1/2), (cPlus, 1/2)]), ((cInt, (1, ())), [(cOne, 1/4), (cX, 3/4)])]
def cE : Env Nat Unit Rat := { G := cG, W := cW, ops := probOps 0, filter := fun _ => true }

theorem cG_rows : RowsNodup cG := rowsNodup_of_all cG (by decide)

/-- the machine yields the 5 programs of the grammar and stops -/
example : (take cE 50 10 (Gen.new cG) []).map (fun r => (r.2.1.length, r.2.2)) = some (5, true) := by
  decide +kernel

example : ∀ g' out b, take cE 50 10 (Gen.new cG) [] = some (g', out, b) → ∀ p ∈ out, contains cG p = true :=
  fun g' out b h => C02_HS_sound cE cG_rows 50 10 g' out b h

/-- `(+ x 1)` from `S0`: 1/2 · 3/4 · 1/4 -/
example : prioSpec cE (.node cPlus [.node cX [], .node cOne []]) cG.start = some (3/32) := by decide +kernel
example : (computePrio cE [((.node cX [], (cInt, (1, ()))), 3/4), ((.node cOne [], (cInt, (1, ()))), 1/4)] cG.start
    (.node cPlus [.node cX [], .node cOne []])).map (·.2) = some (3/32) := by decide +kernel
end Sound

/-! ### no duplicates (item 5): heap search / bucket search without a filter -/
section Nodup
open PS.HS
variable {S T π : Type} [DecidableEq S] [DecidableEq T]

/-- the invariant `HS.NInv s` (any tree-traversing grammar, any priority type): for every `nt`
    the programs of `heaps[nt]` are pairwise distinct and belong to `hash_table_program[nt]`;
    every value of `succ[nt]` (= every program popped for `nt`) belongs to `hash_table_program[nt]`
    and is NOT in `heaps[nt]` any more; `succ[nt]` is injective; `deleted = ∅`.
    `query` keeps it, only adds entries to the `succ` tables (`Stable`) and returns the entry
    `succ[nt][program]` of the new state: a program enters `heaps[nt]` at most once (the push is
    guarded by `hash_table_program`), so what is popped for `nt` is pairwise distinct. -/
theorem C02_HS_query_nodup (E : Env S T π) (n : Nat) (s s' : St S T π) (nt : NT S T) (p r : Option Prog)
    (hs : NInv s) (h : query E n s nt p = some (s', r)) :
    NInv s' ∧ Stable s s' ∧ ∀ q, r = some q → AList.lookup p (s'.succOf nt) = some q :=
  query_nodup E hs h

/-- one `next(generator)`: the yielded sequence stays the chain of `succ[start]` from the sentinel -/
theorem C02_HS_nodup_step (E : Env S T π) (hf : ∀ p, E.filter p = true) (fuel : Nat) (g g' : Gen S T π)
    (out : List Prog) (r : Option Prog) (hg : NGInv E g out) (h : HS.next E fuel g = some (g', r)) :
    (∀ p, r = some p → NGInv E g' (out ++ [p])) ∧ (r = none → NGInv E g' out) :=
  next_nodup E hf fuel g g' out r hg h

/-- **no duplicates**: without a filter (`filter.accept` always true — the enumerators of C02; with a
    filter see C12) the sequence yielded by heap search / bucket search has no repeated program.
    Any tree-traversing grammar, any priority type, threshold, fuel and number of steps. -/
theorem C02_HS_nodup (E : Env S T π) (hf : ∀ p, E.filter p = true) (fuel k : Nat) (g' : Gen S T π)
    (out : List Prog) (b : Bool) (h : take E fuel k (Gen.new E.G) [] = some (g', out, b)) : out.Nodup :=
  (take_ngInv E hf fuel k _ _ _ _ _ (ngInv_new E) h).nodup

example : ∀ g' out b, take cE 50 10 (Gen.new cG) [] = some (g', out, b) → out.Nodup :=
  fun g' out b h => C02_HS_nodup cE (fun _ => rfl) 50 10 g' out b h
/-- also on the state-threading TTCFG of finding C02-F3 (which loses programs but repeats none) -/
example : ∀ g' out b, take E3 200 40 (Gen.new w3G) [] = some (g', out, b) → out.Nodup :=
  fun g' out b h => C02_HS_nodup E3 (fun _ => rfl) 200 40 g' out b h
end Nodup

/-! ### completeness (item 6, partial correctness): acyclic context-free grammars -/
section Complete
open PS.HS
variable {S : Type} [DecidableEq S]

/-- **COMPLETENESS when the generator stops** — heap search (`HeapSearch`, threshold 0, no filter) on an
    acyclic context-free grammar: if after `k` calls of `next` the generator has raised `StopIteration`
    (third component `true`), every member of the grammar was yielded.
    `HS.CompHyp` (all decidable on a literal grammar, see `HS.compHyp_of_checks`): priorities are the
    probabilities, weights non-negative and defined for every rule, `rank` strictly decreases from a
    non-terminal to the non-terminals of its rules, dict keys distinct, no empty row, every
    non-terminal used by a rule has a row, no filter.
    Proof: DESIGN B.2 — (I2) seen = heap ∪ popped (`HS.CInv`, uses that `compute_priority` never
    fails: `HS.computePrio_total`), (I3) every popped program has, at every argument position, either the
    successor program pushed or an exhausted argument (`HS.big_i3`), exhausted heaps stay exhausted
    (`HS.big_emptyStable`), the table structure (`HS.TInv`), then induction on the rank and on the
    distance of the argument tuple from the first pops (`HS.exhausted_complete`).
    That the generator does stop: `C02_HS_stops_partial`; on recursive grammars the statement is
    false (`finding_C02_HS_recursive`). -/
theorem C02_HS_complete (E : Env S Unit Rat) (rank : NT S Unit → Nat) (C : CompHyp E rank) (fuel k : Nat)
    (g' : Gen S Unit Rat) (out : List Prog) (h : take E fuel k (Gen.new E.G) [] = some (g', out, true)) :
    ∀ p, contains E.G p = true → p ∈ out := by
  intro p hp
  rw [contains_eq_gen] at hp
  exact take_complete E rank C fuel k g' out h p hp

/-- **exactly once**: when the generator stops, its output lists the language without repetition -/
theorem C02_HS_exactly_once (E : Env S Unit Rat) (rank : NT S Unit → Nat) (C : CompHyp E rank) (fuel k : Nat)
    (g' : Gen S Unit Rat) (out : List Prog) (h : take E fuel k (Gen.new E.G) [] = some (g', out, true)) :
    out.Nodup ∧ ∀ p, p ∈ out ↔ contains E.G p = true :=
  ⟨C02_HS_nodup E C.nofilter fuel k g' out true h,
   fun p => ⟨fun hp => C02_HS_sound E C.init.rows fuel k g' out true h p hp,
             fun hp => C02_HS_complete E rank C fuel k g' out h p hp⟩⟩

/-- the inner statement: in a quiescent state, a non-terminal whose heap is empty has popped
    every program derivable from it -/
theorem C02_HS_exhausted_complete (E : Env S Unit Rat) (rank : NT S Unit → Nat) (H : OrdHyp E rank)
    (hcl : Closed E.G) (H0 : NT S Unit → List (Rat × Prog)) (s : St S Unit Rat) (Q : Quiet E H0 s)
    (nt : NT S Unit) (hempty : s.heapOf nt = []) (p : Prog) (hg : gen E.G p nt = true) :
    ∃ k, AList.lookup k (s.succOf nt) = some p :=
  exhausted_complete H hcl Q _ nt rfl hempty p hg

/-- **TERMINATION of the generator loop, partial**: if the prologue of `generator()` (max-priority
    tables, initial heaps, first queries) returns for the given fuel, and the fuel is at least
    `(rank start + 1) * (max arity + 5)`, the generator raises `StopIteration` after finitely many `next`:
    every `next` returns (`HS.query_total`: the nesting of `query` / `__add_successors__` is bounded by the
    rank) and the yielded programs are distinct members of a finite language.
    FULL statement = the same without `hpro`; what is missing is that the prologue itself returns
    with enough fuel (termination of `__init_non_terminal__` / `_reevaluate_` / `__init_heap__`). -/
theorem C02_HS_stops_partial (E : Env S Unit Rat) (rank : NT S Unit → Nat) (C : CompHyp E rank) (fuel : Nat)
    (hfuel : (rank E.G.start + 1) * (maxArity E.G + 5) ≤ fuel)
    (hpro : prologue E fuel (St.empty E.G) ≠ none) :
    ∃ k g' out, take E fuel k (Gen.new E.G) [] = some (g', out, true) :=
  take_stops E rank C fuel hfuel hpro

/-- together: the generator stops and its output is the language, each program once -/
theorem C02_HS_total_partial (E : Env S Unit Rat) (rank : NT S Unit → Nat) (C : CompHyp E rank) (fuel : Nat)
    (hfuel : (rank E.G.start + 1) * (maxArity E.G + 5) ≤ fuel)
    (hpro : prologue E fuel (St.empty E.G) ≠ none) :
    ∃ k g' out, take E fuel k (Gen.new E.G) [] = some (g', out, true) ∧
      out.Nodup ∧ ∀ p, p ∈ out ↔ contains E.G p = true := by
  obtain ⟨k, g', out, h⟩ := take_stops E rank C fuel hfuel hpro
  exact ⟨k, g', out, h, C02_HS_exactly_once E rank C fuel k g' out h⟩

/-- **the prologue of `generator()` returns** with fuel `HS.enoughFuel` =
    (1 + max rank) * (max arity + max row length + 5) -/
theorem C02_HS_prologue_total (E : Env S Unit Rat) (rank : NT S Unit → Nat) (C : CompHyp E rank)
    (hstart : E.G.start ∈ AList.keys E.G.rules) (fuel : Nat) (hfuel : enoughFuel E.G rank ≤ fuel) :
    ∃ s0, prologue E fuel (St.empty E.G) = some s0 := prologue_total E rank C hstart fuel hfuel

/-- **C02 FOR HEAP SEARCH ON ACYCLIC CONTEXT-FREE GRAMMARS (full statement)**: for every fuel at least
    `HS.enoughFuel` there is a number `k` of `next` steps after which the generator has stopped, and its
    output is a permutation of the language of the grammar (`lang`: the duplicate-free list of the
    members, `C04_lang`): every program exactly once.
    Hypotheses `HS.CompHyp` (decidable on a literal grammar: `HS.compHyp_of_checks`) and "the start symbol
    has a row".  Heap search = `HeapSearch` with threshold 0 and no filter. -/
theorem C02_HS_full (E : Env S Unit Rat) (rank : NT S Unit → Nat) (C : CompHyp E rank)
    (hstart : E.G.start ∈ AList.keys E.G.rules) (fuel : Nat) (hfuel : enoughFuel E.G rank ≤ fuel) :
    ∃ k g' out, take E fuel k (Gen.new E.G) [] = some (g', out, true) ∧
      out.Perm (lang E.G (rank E.G.start + 1) E.G.start) := by
  obtain ⟨k, g', out, h⟩ := take_total E rank C hstart fuel hfuel
  refine ⟨k, g', out, h, ?_⟩
  obtain ⟨hnd, hmem⟩ := C02_HS_exactly_once E rank C fuel k g' out h
  apply (List.perm_ext_iff_of_nodup hnd (lang_nodup E.G C.init.rows _ _)).mpr
  intro p
  rw [hmem p, contains_eq_gen]
  constructor
  · intro hg; exact mem_members C p hg
  · intro hm; exact gen_of_mem_lang E.G C.init.rows _ p _ hm

def cRank (nt : NT Nat Unit) : Nat := 1 - nt.2.1

theorem cE_hyp : CompHyp cE cRank :=
  compHyp_of_checks cE cRank rfl (by decide +kernel) (by decide) (by decide) (by decide) (by decide)
    (by decide +kernel) (by decide) (fun _ => rfl)

example : ∃ k g' out, take cE 50 k (Gen.new cG) [] = some (g', out, true) ∧
    out.Nodup ∧ ∀ p, p ∈ out ↔ contains cG p = true :=
  C02_HS_total_partial cE cRank cE_hyp 50 (by decide) (by decide +kernel)

/-- the full statement on the example: enough fuel is 2 * (2 + 2 + 5) = 18 -/
example : ∃ k g' out, take cE 18 k (Gen.new cG) [] = some (g', out, true) ∧
    out.Perm (lang cG 2 cG.start) :=
  C02_HS_full cE cRank cE_hyp (by decide) 18 (by decide)

/-- on the example grammar the generator stops after its 5 programs, which are exactly the language -/
example : ∀ g' out, take cE 50 10 (Gen.new cG) [] = some (g', out, true) →
    out.Nodup ∧ ∀ p, p ∈ out ↔ contains cG p = true :=
  fun g' out h => C02_HS_exactly_once cE cRank cE_hyp 50 10 g' out h
end Complete

/-! ### finding: heap search stops early on a recursive grammar (max-priority tables out of sync) -/
section Reentrant
open PS.HS
def rInt : Ty := .base "t"
def rF : Sym := Sym.prim "F" (.arrow rInt (.arrow rInt rInt))
def rg : Sym := Sym.prim "g" (.arrow rInt rInt)
def rb : Sym := Sym.prim "b" rInt
def rc : Sym := Sym.prim "c" rInt
def rn (k : Nat) : NT Nat Unit := (rInt, (k, ()))
/-- `CFG.infinite(DSL{F : t1 -> t1 -> t0, b : t0, g : t0 -> t1, c : t1}, t0, n_gram=2)` -/
def rG2 : TT Nat Unit := ⟨rn 0, [(rn 0, [(rb, ([], ())), (rF, ([(rInt, 1), (rInt, 2)], ()))]),
  (rn 1, [(rc, ([], ())), (rg, ([(rInt, 3)], ()))]), (rn 2, [(rc, ([], ())), (rg, ([(rInt, 3)], ()))]),
  (rn 3, [(rb, ([], ())), (rF, ([(rInt, 1), (rInt, 2)], ()))])]⟩
def rW2 : AList (NT Nat Unit) (AList Sym Rat) := [(rn 0, [(rb, 1/64), (rF, 63/64)]), (rn 1, [(rc, 1/2), (rg, 1/2)]),
  (rn 2, [(rc, 1/2), (rg, 1/2)]), (rn 3, [(rb, 1/64), (rF, 63/64)])]
def rE2 : Env Nat Unit Rat := { G := rG2, W := rW2, ops := probOps 0, filter := fun _ => true }
def rLost : Prog := .node rF [.node rg [.node rF [.node rc [], .node rc []]], .node rc []]

/-- (finding C03-F4, recorded under C03 whose statement covers recursive grammars)
    the language is infinite, heap search stops after 5 programs and never yields the member
    `(F (g (F c c)) c)`: `_reevaluate_` leaves `max_priority[(S1, g)] = (g b)` although
    `max_priority[S3]` became `(F c c)` (the tables are out of sync on a recursive grammar), so the
    initial program `(g b)` of `S1` makes `__add_successors__` call `query(S3, b)` before `b` was
    generated from `S3` ((I5) fails at initialisation) and `(g (F c c))` is never pushed.
    Same output on the implementation. -/
theorem finding_C02_HS_recursive :
    contains rG2 rLost = true ∧
    (take rE2 300 8 (Gen.new rG2) []).map (fun r => (r.2.1.length, r.2.2, r.2.1.contains rLost)) = some (5, true, false) := by
  decide +kernel
end Reentrant

/-! ### bucket search, threshold, filter (generic development) -/
section Generic
open PS.HS PS.HG
variable {S : Type} [DecidableEq S]

/-- no duplicates with a filter installed (heap search, any threshold, every fuel, every prefix) -/
theorem C02_HS_filter_nodup (E : Env S Unit Rat) (rank : NT S Unit → Nat) (t : Rat) (P : ProbHyp E rank t)
    (fuel k : Nat) (g' : Gen S Unit Rat) (out : List Prog) (b : Bool)
    (h : take E fuel k (Gen.new E.G) [] = some (g', out, b)) : out.Nodup :=
  (prob_safe P fuel k g' out b h).2.1

/-- no duplicates with a filter installed (bucket search) -/
theorem C02_HS_bucket_filter_nodup (E : Env S Unit Bucket) (rank : NT S Unit → Nat) (size : Nat)
    (B : BucketHyp E rank size) (fuel k : Nat) (g' : Gen S Unit Bucket) (out : List Prog) (b : Bool)
    (h : take E fuel k (Gen.new E.G) [] = some (g', out, b)) : out.Nodup :=
  (bucket_safe B fuel k g' out b h).2.1

/-- **completeness above the threshold** (heap search with threshold `t`, no filter, every fuel):
    once the generator has stopped every member of probability `> t` was yielded -/
theorem C02_HS_threshold_complete (E : Env S Unit Rat) (rank : NT S Unit → Nat) (t : Rat) (P : ProbHyp E rank t)
    (hf : ∀ p, E.filter p = true) (fuel k : Nat) (g' : Gen S Unit Rat) (out : List Prog)
    (h : take E fuel k (Gen.new E.G) [] = some (g', out, true)) (p : Prog) (hp : contains E.G p = true)
    (hthr : t < G.prob E.G E.W p E.G.start ∨ t = 0) : p ∈ out :=
  prob_stop_complete P fuel k g' out h p (by rw [← contains_eq_gen]; exact hp) (clean_of_all _ hf p) hthr

/-- **heap search with a positive threshold, from scratch**: with enough fuel the generator stops; its
    output is duplicate-free, contains only members and contains every member of probability above
    the threshold -/
theorem C02_HS_threshold_full (E : Env S Unit Rat) (rank : NT S Unit → Nat) (t : Rat) (P : ProbHyp E rank t)
    (hf : ∀ p, E.filter p = true) (hclosed : HG.Closed E.G) (hstart : E.G.start ∈ AList.keys E.G.rules)
    (fuel : Nat) (hfuel : enoughFuelF E.G rank ≤ fuel) :
    ∃ k g' out, take E fuel k (Gen.new E.G) [] = some (g', out, true) ∧ out.Nodup ∧
      (∀ p ∈ out, contains E.G p = true) ∧
      (∀ p, contains E.G p = true → (t < G.prob E.G E.W p E.G.start ∨ t = 0) → p ∈ out) := by
  obtain ⟨k, g', out, h⟩ := prob_total P hclosed hstart fuel hfuel
  obtain ⟨a, b, _, _⟩ := prob_safe P fuel k g' out true h
  exact ⟨k, g', out, h, b, fun p hp => by rw [contains_eq_gen]; exact a p hp,
    fun p hp hthr => C02_HS_threshold_complete E rank t P hf fuel k g' out h p hp hthr⟩

/-- bucket search without a filter, every fuel: once the generator has stopped, the output is
    duplicate-free and is the language -/
theorem C02_HS_bucket_exactly_once (E : Env S Unit Bucket) (rank : NT S Unit → Nat) (size : Nat)
    (B : BucketHyp E rank size) (hf : ∀ p, E.filter p = true) (fuel k : Nat) (g' : Gen S Unit Bucket)
    (out : List Prog) (h : take E fuel k (Gen.new E.G) [] = some (g', out, true)) :
    out.Nodup ∧ ∀ p, p ∈ out ↔ contains E.G p = true := by
  obtain ⟨a, b, _, _⟩ := bucket_safe B fuel k g' out true h
  refine ⟨b, fun p => ⟨fun hp => by rw [contains_eq_gen]; exact a p hp, fun hp => ?_⟩⟩
  exact bucket_stop_complete B fuel k g' out h p (by rw [← contains_eq_gen]; exact hp) (clean_of_all _ hf p)

/-- **C02 FOR BUCKET SEARCH ON ACYCLIC CONTEXT-FREE GRAMMARS (full statement)**: for every fuel at
    least `HG.enoughFuelF` there is a number `k` of `next` steps after which the generator has stopped,
    and its output is a permutation of the language of the grammar -/
theorem C02_HS_bucket_full (E : Env S Unit Bucket) (rank : NT S Unit → Nat) (size : Nat)
    (B : BucketHyp E rank size) (hf : ∀ p, E.filter p = true) (hclosed : HG.Closed E.G)
    (hstart : E.G.start ∈ AList.keys E.G.rules) (fuel : Nat) (hfuel : enoughFuelF E.G rank ≤ fuel) :
    ∃ k g' out, take E fuel k (Gen.new E.G) [] = some (g', out, true) ∧
      out.Perm (lang E.G (rank E.G.start + 1) E.G.start) := by
  obtain ⟨k, g', out, h⟩ := bucket_total B hclosed hstart fuel hfuel
  refine ⟨k, g', out, h, ?_⟩
  obtain ⟨hnd, hmem⟩ := C02_HS_bucket_exactly_once E rank size B hf fuel k g' out h
  apply (List.perm_ext_iff_of_nodup hnd (lang_nodup E.G B.init.rows _ _)).mpr
  intro p
  rw [hmem p, contains_eq_gen]
  constructor
  · intro hg; exact mem_membersG E.G rank B.init.rows B.init.acyclic p hg
  · intro hm; exact gen_of_mem_lang E.G B.init.rows _ p _ hm

/-! non-vacuity on the grammar `cG` -/
def cEt : Env Nat Unit Rat := { G := cG, W := cW, ops := probOps (1/16), filter := fun _ => true, dropDeleted := false }
def cEb : Env Nat Unit Bucket := { G := cG, W := cW, ops := bucketOps 3, filter := fun _ => true, dropDeleted := false }

theorem cEt_hyp : ProbHyp cEt cRank (1/16) :=
  probHyp_of_checks cEt cRank (1/16) rfl (by decide +kernel) (by decide +kernel) (by decide) (by decide) (by decide)
    (by decide) (by decide +kernel) rfl
theorem cEb_hyp : BucketHyp cEb cRank 3 :=
  bucketHyp_of_checks cEb cRank 3 rfl (by decide) (by decide) (by decide) (by decide) (by decide +kernel) rfl
theorem cG_closed : HG.Closed cG := closed_of_allG cG (by decide)

/-- enough fuel is 2 * (2 + 2 + 5 + 5) = 28 -/
example : ∃ k g' out, take cEb 28 k (Gen.new cG) [] = some (g', out, true) ∧ out.Perm (lang cG 2 cG.start) :=
  C02_HS_bucket_full cEb cRank 3 cEb_hyp (fun _ => rfl) cG_closed (by decide) 28 (by decide +kernel)

example : ∃ k g' out, take cEt 28 k (Gen.new cG) [] = some (g', out, true) ∧ out.Nodup ∧
    (∀ p ∈ out, contains cG p = true) ∧
    (∀ p, contains cG p = true → ((1/16 : Rat) < G.prob cG cW p cG.start ∨ (1/16 : Rat) = 0) → p ∈ out) :=
  C02_HS_threshold_full cEt cRank (1/16) cEt_hyp (fun _ => rfl) cG_closed (by decide) 28 (by decide +kernel)

/-- with threshold 1/16 heap search yields 4 of the 5 programs (not `(+ 1 1)`, probability 1/32) and stops -/
example : (take cEt 28 10 (Gen.new cG) []).map (fun r => (r.2.1.length, r.2.2)) = some (4, true) := by decide +kernel
example : (take cEb 28 10 (Gen.new cG) []).map (fun r => (r.2.1.length, r.2.2)) = some (5, true) := by decide +kernel
end Generic

/-! ## unambiguous machine -/
section UMachine
open PS.UHS
variable {U π : Type} [DecidableEq U]

/-- SOUNDNESS of the heap search / bucket search on unambiguous grammars (`UHSEnumerator`,
    u_heap_search.py, the code after fix 7721229: `Env.kway = true`) as a state invariant.
    `UHS.SInv E s`: for every non-terminal `nt`
    (1) every element `(priority, program)` of `heaps[nt]` is in `hash_table_program[nt]` and `priority`
        is the priority of a derivation of `program` from `nt` (`UHS.HasPrio`: the rule priorities
        combined from left to right; heap search: the product of the rule weights),
    (2) every program of `hash_table_program[nt]`, every value of `succ[nt]`, `max_priority[nt]`,
        `max_priority[(nt, P, v)]` is derivable from `nt`,
    (3) `_keys[nt][program] = v` is an alternative of the head of `program` from whose non-terminals
        the arguments are derivable,
    (4) the memo table of `compute_priority` (`probabilities` / `bucket_tuples`) holds priorities of derivations,
    (5) every element `(priority, program, start)` of the start heap has `start` a start symbol and
        `priority = adjust_priority_for_start(priority of a derivation of program from start)`.
    It holds for the fresh enumerator … -/
theorem C02_HS_U_inv_init (E : UHS.Env U π) : UHS.SInv E (UHS.St.empty E.G) := sinv_empty E

/-- … `query(S, program)` keeps it and returns a program derivable from `S` (any priority type,
    threshold, filter, fuel; `UHS.GHyp`: dict keys distinct, the alternatives of one symbol have
    one arity, the code after fix 7721229) … -/
theorem C02_HS_U_query_sound (E : UHS.Env U π) (H : GHyp E) (n : Nat) (s s' : UHS.St U π) (nt : UHS.UNT U)
    (p r : Option Prog) (hs : UHS.SInv E s) (h : UHS.query E n s nt p = some (s', r)) :
    UHS.SInv E s' ∧ ∀ q, r = some q → Der E q nt :=
  big_sound E H (big_of_query E h) hs trivial

/-- … and so does every `next(generator)`, which yields a program derivable from a start symbol -/
theorem C02_HS_U_sound_step (E : UHS.Env U π) (H : GHyp E) (fuel k : Nat) (s s' : UHS.St U π) (r : Option Prog)
    (hs : UHS.SInv E s) (h : UHS.next E fuel k s = some (s', r)) :
    UHS.SInv E s' ∧ ∀ p, r = some p → ∃ nt w, startW E nt = some w ∧ Der E p nt :=
  hs.next H k h

/-- the stored priority is the priority of a derivation of the program -/
theorem C02_HS_U_stored_priority (E : UHS.Env U π) (s : UHS.St U π) (hs : UHS.SInv E s) (nt : UHS.UNT U)
    (e : π × Prog) (he : e ∈ s.heapOf nt) : HasPrio E e.2 nt e.1 ∧ e.2 ∈ s.seenOf nt :=
  ⟨hs.heap_prio nt e he, hs.heap_seen nt e he⟩

/-- on the start heap: the priority adjusted by the weight of the start symbol -/
theorem C02_HS_U_start_priority (E : UHS.Env U π) (s : UHS.St U π) (hs : UHS.SInv E s)
    (e : π × Prog × UHS.UNT U) (he : e ∈ s.startHeap) :
    ∃ w pr, startW E e.2.2 = some w ∧ HasPrio E e.2.1 e.2.2 pr ∧ e.1 = E.ops.adjust pr w :=
  hs.start_ok e he

/-- **SOUNDNESS**: whatever heap search / bucket search on an unambiguous grammar yields is a member
    of the grammar — `U.genU`, the specification of PS/Model/Ucfg.lean (a derivation from a start
    symbol exists), for the rule table stripped of its weights.  Every grammar (recursive or not,
    ambiguous or not), priority type, threshold, filter, fuel, number of steps. -/
theorem C02_HS_U_sound (E : UHS.Env U π) (H : GHyp E) (d : UHS.UNT U) (fuel k : Nat) (s' : UHS.St U π)
    (out : List Prog) (b : Bool) (h : UHS.take E fuel k (UHS.St.empty E.G) [] = some (s', out, b)) :
    ∀ p ∈ out, PS.U.genU (E.G.toUCFG d) p = true := by
  intro p hp
  rw [← derStart_iff_genU]
  exact ((sinv_empty E).take H k (by intro q hq; cases hq) h).2 p hp

/-! non-vacuity: three start symbols, two alternatives for `+` at `S2`:
    `S0 → 1 | var0`, `S1 → + S0 S0`, `S2 → + S0 S1 | + S1 S0`; 2 + 4 + 16 = 22 programs -/
def Gu : UG Nat :=
  { starts := [(s2, 1/2), (s0, 1/4), (s1, 1/4)],
    rules := [(s1, [(plus, [([s0, s0], 1)])]), (s0, [(one, [([], 1/4)]), (v0, [([], 3/4)])]),
              (s2, [(plus, [([s0, s1], 3/5), ([s1, s0], 2/5)])])] }
def Eu : UHS.Env Nat Rat := { G := Gu, ops := UHS.probOps 0, filter := fun _ => true, kway := true }
def Eub : UHS.Env Nat UHS.Bucket := { G := Gu, ops := UHS.bucketOps 3 false, filter := fun _ => true, kway := true }

theorem Eu_hyp : GHyp Eu := GHyp.of_checks Eu (by decide) (by decide) rfl
theorem Eub_hyp : GHyp Eub := GHyp.of_checks Eub (by decide) (by decide) rfl

/-- the machine yields the 22 programs and stops -/
example : (UHS.take Eu 60 30 (UHS.St.empty Gu) []).map (fun r => (r.2.1.length, r.2.2)) = some (22, true) := by
  decide +kernel
example : (UHS.take Eub 60 30 (UHS.St.empty Gu) []).map (fun r => (r.2.1.length, r.2.2)) = some (22, true) := by
  decide +kernel

example : ∀ s' out b, UHS.take Eu 60 30 (UHS.St.empty Gu) [] = some (s', out, b) →
    ∀ p ∈ out, PS.U.genU (Gu.toUCFG s0) p = true :=
  fun s' out b h => C02_HS_U_sound Eu Eu_hyp s0 60 30 s' out b h
example : ∀ s' out b, UHS.take Eub 60 30 (UHS.St.empty Gu) [] = some (s', out, b) →
    ∀ p ∈ out, PS.U.genU (Gu.toUCFG s0) p = true :=
  fun s' out b h => C02_HS_U_sound Eub Eub_hyp s0 60 30 s' out b h

/-- NO DUPLICATES, the inner step: `UHS.NInv E s` — for every non-terminal the programs of `heaps[nt]`
    are pairwise distinct and belong to `hash_table_program[nt]`; every value of `succ[nt]` belongs to
    `hash_table_program[nt]` and is not in `heaps[nt]` any more; `succ[nt]` is injective.  `query` keeps
    it, only adds entries to the `succ` tables (`UHS.Stable`) and returns the entry `succ[nt][program]`
    of the new state.  Any grammar, priority type, threshold; with a non-empty `deleted` set under
    `UHS.NoReent` (carried by `NInv.del_ok`). -/
theorem C02_HS_U_query_nodup (E : UHS.Env U π) (H : GHyp E) (n : Nat) (s s' : UHS.St U π) (nt : UHS.UNT U)
    (p r : Option Prog) (hs : NInv E s) (hss : UHS.SInv E s) (h : UHS.query E n s nt p = some (s', r)) :
    NInv E s' ∧ Stable s s' ∧ ∀ q, r = some q → AList.lookup p (s'.succOf nt) = some q :=
  big_nodup E H (big_of_query E h) hss trivial hs trivial

/-- **NO DUPLICATES** (every prefix, every fuel): the sequence yielded by heap search / bucket search
    on an UNAMBIGUOUS grammar has no repeated program.  `hunamb`: the specification `U.unambiguousOn`
    (at most one derivation from at most one start symbol) for every program — only the consequence
    "the languages of two start symbols are disjoint" is used; `hstarts`: `G.starts` is a set;
    `hf`: no filter (with a filter: `C02_HS_U_filter_nodup`).  Any grammar shape (recursive too),
    any priority type, threshold.
    Proof: the programs taken from one start symbol are the chain of `succ[start]` from the sentinel,
    which cannot repeat because `succ[start]` is injective (`UHS.chainR_nodup`); the start heap holds at
    most one entry per start symbol (`UHS.GInv`). -/
theorem C02_HS_U_nodup (E : UHS.Env U π) (H : GHyp E) (d : UHS.UNT U)
    (hunamb : ∀ p, PS.U.unambiguousOn (E.G.toUCFG d) p = true) (hstarts : (E.G.starts.map (·.1)).Nodup)
    (hf : ∀ p, E.filter p = true) (fuel k : Nat) (s' : UHS.St U π) (out : List Prog) (b : Bool)
    (h : UHS.take E fuel k (UHS.St.empty E.G) [] = some (s', out, b)) : out.Nodup :=
  (take_nodup E ⟨H, sdisj_of_unambiguous E d hunamb, hstarts, Or.inl hf⟩ fuel k s' out b h).1

/-- the same from the decidable criterion `UHS.BUDet` (a symbol and the non-terminals of its arguments
    determine the non-terminal: the shape produced by `UCFG.from_DFTA`), which implies unambiguity -/
theorem C02_HS_U_nodup_det (E : UHS.Env U π) (H : GHyp E) (hdet : BUDet E) (hstarts : (E.G.starts.map (·.1)).Nodup)
    (hf : ∀ p, E.filter p = true) (fuel k : Nat) (s' : UHS.St U π) (out : List Prog) (b : Bool)
    (h : UHS.take E fuel k (UHS.St.empty E.G) [] = some (s', out, b)) : out.Nodup :=
  (take_nodup E ⟨H, sdisj_of_budet E hdet, hstarts, Or.inl hf⟩ fuel k s' out b h).1

/-- with a filter installed, when `__add_successors__(p, S)` does not re-enter `query(S, ·)`
    (`UHS.NoReent`; true on acyclic grammars): no duplicates, and only accepted programs are yielded -/
theorem C02_HS_U_filter_nodup (E : UHS.Env U π) (H : GHyp E) (hdisj : SDisj E)
    (hstarts : (E.G.starts.map (·.1)).Nodup) (hre : NoReent E) (fuel k : Nat) (s' : UHS.St U π) (out : List Prog)
    (b : Bool) (h : UHS.take E fuel k (UHS.St.empty E.G) [] = some (s', out, b)) :
    out.Nodup ∧ ∀ p ∈ out, E.filter p = true :=
  take_nodup E ⟨H, hdisj, hstarts, Or.inr hre⟩ fuel k s' out b h

theorem Eu_det : BUDet Eu := budet_of_check Eu (by decide)
theorem Eub_det : BUDet Eub := budet_of_check Eub (by decide)

example : ∀ s' out b, UHS.take Eu 60 30 (UHS.St.empty Gu) [] = some (s', out, b) → out.Nodup :=
  fun s' out b h => C02_HS_U_nodup_det Eu Eu_hyp Eu_det (by decide) (fun _ => rfl) 60 30 s' out b h
example : ∀ s' out b, UHS.take Eub 60 30 (UHS.St.empty Gu) [] = some (s', out, b) → out.Nodup :=
  fun s' out b h => C02_HS_U_nodup_det Eub Eub_hyp Eub_det (by decide) (fun _ => rfl) 60 30 s' out b h

/-- **COMPLETENESS WHEN THE GENERATOR STOPS** — unambiguous-grammar machine (heap search
    `UHeapSearch` or any priority type with a monotone `combine`; no threshold, no filter) on an ACYCLIC
    UNAMBIGUOUS grammar with several start symbols: if after `k` calls of `next` the generator has raised
    `StopIteration`, every member of the grammar (`U.genU`) was yielded.
    `UHS.RHyp` (decidable on a literal grammar: `UHS.rhyp_prob`): dict keys distinct, `rank` decreases
    along the alternatives, alternatives unambiguous, start languages disjoint, weights non-negative.
    Proof: the invariant `UHS.CInv` — (I2) `hash_table_program[S]` = heap ∪ popped, (I3) every argument
    position of every popped program has its successor program pushed or an exhausted argument
    non-terminal, the initial program of every alternative was pushed — is kept by every call
    (`UHS.big_order`); an exhausted non-terminal stays exhausted (`UHS.big_emptyKeep`); an exhausted
    non-terminal has popped its whole language (`UHS.exhausted_complete`: induction on the rank, then a
    sweep over the argument positions along the successor chains); when the start heap is empty every
    start symbol answered `None` and everything it popped was handed over (`UHS.OC`). -/
theorem C02_HS_U_complete (E : UHS.Env U π) (rank : UHS.UNT U → Nat) (Good : π → Prop) (R : RHyp E rank Good)
    (hf : ∀ p, E.filter p = true) (d : UHS.UNT U) (fuel k : Nat) (s' : UHS.St U π) (out : List Prog)
    (h : UHS.take E fuel k (UHS.St.empty E.G) [] = some (s', out, true)) :
    ∀ p, PS.U.genU (E.G.toUCFG d) p = true → p ∈ out := by
  intro p hp
  obtain ⟨nt, w, hw, hd⟩ := (derStart_iff_genU E d p).mpr hp
  exact take_complete R fuel k s' out h p nt w hw hd (PS.HG.clean_of_all E.filter hf p)

/-- **exactly once**: when the generator stops, its output lists the language without repetition -/
theorem C02_HS_U_exactly_once (E : UHS.Env U π) (rank : UHS.UNT U → Nat) (Good : π → Prop) (R : RHyp E rank Good)
    (hf : ∀ p, E.filter p = true) (d : UHS.UNT U) (fuel k : Nat) (s' : UHS.St U π) (out : List Prog)
    (h : UHS.take E fuel k (UHS.St.empty E.G) [] = some (s', out, true)) :
    out.Nodup ∧ ∀ p, p ∈ out ↔ PS.U.genU (E.G.toUCFG d) p = true :=
  ⟨(take_nodup E R.nhyp fuel k s' out true h).1,
   fun p => ⟨fun hp => C02_HS_U_sound E R.ohyp.ghyp d fuel k s' out true h p hp,
             fun hp => C02_HS_U_complete E rank Good R hf d fuel k s' out h p hp⟩⟩

/-- the inner statement: in a quiescent state, an exhausted non-terminal has popped every program
    derivable from it all of whose sub-programs are accepted by the filter (`HG.clean`; no filter: every
    derivable program, `HG.clean_of_all`) -/
theorem C02_HS_U_exhausted_complete (E : UHS.Env U π) (rank : UHS.UNT U → Nat) (Good : π → Prop) (H : OHyp E rank Good)
    (s : UHS.St U π) (hb : Base E s) (hall : All E rank s) (nt : UHS.UNT U) (hf : Full E rank s nt)
    (hempty : s.heapOf nt = []) (p : Prog) (hg : Der E p nt) (hcl : PS.HG.clean E.filter p = true) :
    ∃ k, AList.lookup k (s.succOf nt) = some p :=
  exhausted_complete H hb hall (rank nt) nt rfl hf hempty p hg hcl

def uRank2 (nt : UHS.UNT Nat) : Nat := nt.2

theorem Eu_rhyp : RHyp Eu uRank2 (fun v : Rat => 0 ≤ v) :=
  rhyp_prob Eu uRank2 rfl rfl (by decide) (by decide) (by decide) (by decide) (by decide) (by decide) (by decide)
    (by decide +kernel) (by decide)

/-- on the three-start grammar the generator stops after its 22 programs, which are exactly the language -/
example : ∀ s' out, UHS.take Eu 60 30 (UHS.St.empty Gu) [] = some (s', out, true) →
    out.Nodup ∧ ∀ p, p ∈ out ↔ PS.U.genU (Gu.toUCFG s0) p = true :=
  fun s' out h => C02_HS_U_exactly_once Eu uRank2 _ Eu_rhyp (fun _ => rfl) s0 60 30 s' out h

/-- **every `query(S, program)` returns** (no KeyError, no failed assertion, fuel not exhausted) with fuel
    `(rank S + 1) · (L + Al + A + 6 + D)` in a state that satisfies the invariants, `L` / `Al` / `A` bounding
    the number of rules of a non-terminal, of alternatives of a rule and of arguments (`UHS.THyp`: also
    every non-terminal used has a row and no row is empty), `D` bounding the number of rejected programs
    (the pop loop skips each of them at most once per non-terminal: `UHS.addSucc_proc`, `UHS.undone_lt`) -/
theorem C02_HS_U_query_total (E : UHS.Env U π) (rank : UHS.UNT U → Nat) (Good : π → Prop) (H : OHyp E rank Good)
    (L Al A D : Nat) (T : THyp E L Al A) (nt : UHS.UNT U) (hrow : ∃ rs, AList.lookup nt E.G.rules = some rs)
    (n : Nat) (s : UHS.St U π) (p : Option Prog) (hn : (rank nt + 1) * (L + Al + A + 6 + D) ≤ n)
    (hb : Base E s) (hc : CacheC s) (hD : s.deleted.length ≤ D) (hpre : OPre E rank (.query nt p) s) :
    ∃ res, UHS.query E n s nt p = some res :=
  (low_all H T D (rank nt + 1)).query nt (Nat.lt_succ_self _) hrow n s p hn hb hc hD hpre

/-- **TERMINATION** (with or without filter): with fuel at least `(rank start + 1) · (L + Al + A + 6 + N)` for every
    start symbol and at least `N + 1`, `N` the length of the finite list `UHS.langList` that contains the
    language, the generator raises `StopIteration` after finitely many `next` (every `next` returns:
    `UHS.next_total`; the programs taken from the start heap are distinct members of a finite language) -/
theorem C02_HS_U_stops (E : UHS.Env U π) (rank : UHS.UNT U → Nat) (Good : π → Prop) (R : RHyp E rank Good)
    (L Al A : Nat) (T : THyp E L Al A) (fuel : Nat)
    (hf : FuelOK E rank (L + Al + A + 6 + (langList E rank).length) fuel) (hN : (langList E rank).length + 1 ≤ fuel) :
    ∃ k s' out, UHS.take E fuel k (UHS.St.empty E.G) [] = some (s', out, true) :=
  take_stops R T hf hN

/-- **C02 FOR THE UNAMBIGUOUS-GRAMMAR MACHINE ON ACYCLIC UNAMBIGUOUS GRAMMARS (full statement)**: for every
    sufficient fuel there is a number `k` of `next` steps after which the generator has stopped, and its
    output lists the language `U.genU` (several start symbols) without repetition: every program exactly once.
    Heap search = `UHeapSearch` with threshold 0 and no filter (`UHS.rhyp_prob`); the theorem holds for
    every priority type with a strict weak order on the priorities of derivations and a monotone `combine`. -/
theorem C02_HS_U_full (E : UHS.Env U π) (rank : UHS.UNT U → Nat) (Good : π → Prop) (R : RHyp E rank Good)
    (hnf : ∀ p, E.filter p = true) (L Al A : Nat) (T : THyp E L Al A) (d : UHS.UNT U) (fuel : Nat)
    (hf : FuelOK E rank (L + Al + A + 6 + (langList E rank).length) fuel) (hN : (langList E rank).length + 1 ≤ fuel) :
    ∃ k s' out, UHS.take E fuel k (UHS.St.empty E.G) [] = some (s', out, true) ∧
      out.Nodup ∧ ∀ p, p ∈ out ↔ PS.U.genU (E.G.toUCFG d) p = true := by
  obtain ⟨k, s', out, h⟩ := take_stops R T hf hN
  exact ⟨k, s', out, h, C02_HS_U_exactly_once E rank Good R hnf d fuel k s' out h⟩

/-- the example grammar: at most 2 rules per non-terminal, 2 alternatives, 2 arguments; max rank 2; the list
    `langList` has 22 entries: enough fuel is 3 · (2 + 2 + 2 + 6 + 22) = 102 -/
theorem Eu_thyp : THyp Eu 2 2 2 := thyp_of_check Eu 2 2 2 (by decide)

theorem Eu_langList : (langList Eu uRank2).length = 22 := by decide +kernel

example : ∃ k s' out, UHS.take Eu 102 k (UHS.St.empty Gu) [] = some (s', out, true) ∧
    out.Nodup ∧ ∀ p, p ∈ out ↔ PS.U.genU (Gu.toUCFG s0) p = true :=
  C02_HS_U_full Eu uRank2 _ Eu_rhyp (fun _ => rfl) 2 2 2 Eu_thyp s0 102
    (by rw [Eu_langList]; exact fuelOK_of_check Eu uRank2 34 102 (by decide)) (by rw [Eu_langList]; decide)

/-- with that fuel the machine does stop after its 22 programs (kernel evaluation) -/
example : (UHS.take Eu 102 30 (UHS.St.empty Gu) []).map (fun r => (r.2.1.length, r.2.2)) = some (22, true) := by
  decide +kernel

/-- **C02 FOR THE UNAMBIGUOUS BUCKET SEARCH** (`BucketSearch` of u_heap_search.py, no filter) on acyclic
    unambiguous grammars with several start symbols: the instance of `C02_HS_U_full` for bucket tuples
    (`UHS.rhyp_bucket`: `Bucket.__lt__` is a strict weak order on the tuples of one size, `+=` and
    `add_prob_uniform` are monotone) — the generator stops and yields every program exactly once -/
theorem C02_HS_U_bucket_full (E : UHS.Env U UHS.Bucket) (rank : UHS.UNT U → Nat) (size : Nat)
    (R : RHyp E rank (fun b : UHS.Bucket => b.length = size)) (hnf : ∀ p, E.filter p = true) (L Al A : Nat)
    (T : THyp E L Al A) (d : UHS.UNT U) (fuel : Nat)
    (hf : FuelOK E rank (L + Al + A + 6 + (langList E rank).length) fuel) (hN : (langList E rank).length + 1 ≤ fuel) :
    ∃ k s' out, UHS.take E fuel k (UHS.St.empty E.G) [] = some (s', out, true) ∧
      out.Nodup ∧ ∀ p, p ∈ out ↔ PS.U.genU (E.G.toUCFG d) p = true :=
  C02_HS_U_full E rank _ R hnf L Al A T d fuel hf hN

theorem Eub_rhyp : RHyp Eub uRank2 (fun b : UHS.Bucket => b.length = 3) :=
  rhyp_bucket Eub uRank2 3 rfl rfl (by decide) (by decide) (by decide) (by decide) (by decide) (by decide) (by decide)
    (by decide)

theorem Eub_langList : (langList Eub uRank2).length = 22 := by decide +kernel

example : ∃ k s' out, UHS.take Eub 102 k (UHS.St.empty Gu) [] = some (s', out, true) ∧
    out.Nodup ∧ ∀ p, p ∈ out ↔ PS.U.genU (Gu.toUCFG s0) p = true :=
  C02_HS_U_bucket_full Eub uRank2 3 Eub_rhyp (fun _ => rfl) 2 2 2 (thyp_of_check Eub 2 2 2 (by decide)) s0 102
    (by rw [Eub_langList]; exact fuelOK_of_check Eub uRank2 34 102 (by decide)) (by rw [Eub_langList]; decide)
end UMachine

end PS.C02HS
