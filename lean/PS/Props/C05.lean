/-
  C05 — Sharpening keeps exactly the programs that satisfy the written constraints.
  Property theorems only (model: PS/Model/Constraints.lean, ConstraintsParse.lean; specification:
  PS/Spec/Constraints.lean; lemmas: PS/Proofs/Constraints*.lean, and the C07 theorems about
  product / reduce / minimise).
  Every statement is for an arbitrary deterministic base automaton over any alphabet and base
  state type, every token tree (any nesting, any combination of tokens — including nested
  patterns that repeat the head symbol of an enclosing pattern: no `NoRepeatedHead` hypothesis is
  needed for what the code computes), every list of rules, and every tree — no bound on sizes.
-/
import PS.Proofs.ConstraintsCfg
import PS.Model.ConstraintsParse
import PS.Proofs.ConstraintsParse
import PS.Proofs.ConstraintsGrammar
set_option synthInstance.maxSize 1024
namespace PS.C05
open PS DFTA

variable {σ Q : Type} [DecidableEq σ] [DecidableEq Q]

/-! ### construction steps: each adds a bottom-up attribute of the sub-tree -/

/-- **`__count__`.** The counting automaton reads a tree into the state the base automaton reads
    it into, with one more component: the number of occurrences of the counted symbols in the
    tree, saturated at `n` (at least) / `n + 1` (at most). -/
theorem C05_count_attribute (B : DFTA σ (St Q)) (hd : B.Det) (n : Nat) (S : List σ) (most : Bool)
    (t : Tree σ) :
    run (count B n S most) t = (run B t).map (fun d => ext d (min (cnt S t) (cmaxi n most))) := by
  rw [(count_refines B n S most hd).run t]
  cases hr : run B t with
  | none => rfl
  | some d => simp only [Option.map_some, topVal_count B hd n S most t d hr]; rfl

/-- **`__tag__`.** The tagging automaton adds one component: the value of `check` on the rule the
    base automaton takes at the root (evaluated, as the code does, on the states of the children
    and the target, each with a fresh 0 on top). -/
theorem C05_tag_attribute (B : DFTA σ (St Q)) (hd : B.Det) (check : Check σ Q) (l : σ) (ks : List (Tree σ)) :
    run (tag B check) (.node l ks) =
      (runList B ks).bind (fun qs => (B.read l qs).map (fun d => ext d (bit (check l (qs.map aug) (aug d))))) := by
  rw [(tag_refines B check hd).run]
  cases hr : run B (.node l ks) with
  | none =>
    rw [run_node] at hr
    cases hqs : runList B ks with
    | none => rfl
    | some qs => rw [hqs] at hr; simp only [Option.bind_some] at hr ⊢; rw [hr]; rfl
  | some d =>
    obtain ⟨qs, h1, h2, h3⟩ := (tag_sim B check hd).2.2 l ks d hr
    rw [h1]; simp only [Option.bind_some, Option.map_some, h2, h3]; rfl

/-- **`__process__` below the top level** adds `width tok` components which are functions of the
    sub-tree alone (`attrs tok t`), the newest one being the bit "the sub-tree matches `tok`"
    in the documented sense (`matchesTok`).  `Uniform`: the final states of the input carry the
    same number of components (true of every automaton the pipeline builds; `__tuple_len__`
    looks at one of them). -/
theorem C05_process_attributes (tok : Tok σ) (B A : DFTA σ (St Q)) (L : Nat) (hd : B.Det)
    (hu : Uniform B L) (h : processInner B tok = some A) (t : Tree σ) :
    run A t = (run B t).map (fun d => extL d (attrs tok t)) ∧
    (width tok ≠ 0 → (attrs tok t).head? = some (bit (matchesTok tok t))) ∧
    A.accepts t = B.accepts t := by
  have r := processInner_refines tok B A L hd hu h
  exact ⟨r.run t, attrs_head tok t, r.accepts t⟩

/-- **sketch.**  `__process__(B, tok, local=False)` accepts exactly the trees of `B` whose root
    matches the pattern. -/
theorem C05_process_sketch (B A : DFTA σ (St Q)) (L : Nat) (hd : B.Det) (hu : Uniform B L) (tok : Tok σ)
    (h : processTop B tok false = some A) (t : Tree σ) :
    A.accepts t = (B.accepts t && satSketch tok t) :=
  (processTop_sketch B A L hd hu tok h).2 t

/-- **local rule.**  `__process__(B, (H a₁ … a_k), local=True)` accepts exactly the trees of `B`
    in which every occurrence of a symbol of `H` has arguments matching `a₁ … a_k`. -/
theorem C05_process_local (B A : DFTA σ (St Q)) (L : Nat) (hd : B.Det) (hu : Uniform B L) (H : List σ)
    (args : List (Tok σ)) (h : processTop B (.func H args) true = some A) (t : Tree σ) :
    A.accepts t = (B.accepts t && satLocal H args t) :=
  (processTop_local B A L hd hu H args h).2 t

/-- **`add_dfta_constraints`** (on parsed tokens, any base automaton): the returned automaton is
    deterministic and accepts a tree iff the base automaton accepts it, every local rule holds at
    every occurrence of its head symbols, and the root satisfies the sketch.  Uses the C07
    theorems for `read_product`, `reduce`, `minimise` between the rules. -/
theorem C05_sharpen_tokens (base : DFTA σ (St Q)) (L : Nat) (hd : base.Det) (hu : Uniform base L)
    (cs : List (Tok σ)) (sketch : Option (Tok σ)) (D : DFTA σ (UState Q))
    (h : addDftaConstraints base cs sketch = some D) (t : Tree σ) :
    D.accepts t = sharpenSpec base.accepts cs sketch t :=
  (addDftaConstraints_lang base L hd hu cs sketch D h).2 t

theorem C05_sharpen_det (base : DFTA σ (St Q)) (L : Nat) (hd : base.Det) (hu : Uniform base L)
    (cs : List (Tok σ)) (sketch : Option (Tok σ)) (D : DFTA σ (UState Q))
    (h : addDftaConstraints base cs sketch = some D) : D.Det :=
  (addDftaConstraints_lang base L hd hu cs sketch D h).1

/-- sharpening never adds a program to the base automaton … -/
theorem C05_never_adds_base (base : DFTA σ (St Q)) (L : Nat) (hd : base.Det) (hu : Uniform base L)
    (cs : List (Tok σ)) (sketch : Option (Tok σ)) (D : DFTA σ (UState Q))
    (h : addDftaConstraints base cs sketch = some D) (t : Tree σ) (ht : D.accepts t = true) :
    base.accepts t = true := by
  rw [C05_sharpen_tokens base L hd hu cs sketch D h t] at ht
  unfold sharpenSpec at ht
  cases hb : base.accepts t with
  | true => rfl
  | false => simp [hb] at ht

/-- … and never removes one that satisfies every rule and the sketch. -/
theorem C05_never_removes_base (base : DFTA σ (St Q)) (L : Nat) (hd : base.Det) (hu : Uniform base L)
    (cs : List (Tok σ)) (sketch : Option (Tok σ)) (D : DFTA σ (UState Q))
    (h : addDftaConstraints base cs sketch = some D) (t : Tree σ) (hb : base.accepts t = true)
    (hc : ∀ c ∈ cs, satConstraint c t = true) (hs : ∀ sk, sketch = some sk → satSketch sk t = true) :
    D.accepts t = true := by
  rw [C05_sharpen_tokens base L hd hu cs sketch D h t]
  unfold sharpenSpec
  have h1 : cs.all (fun c => satConstraint c t) = true := List.all_eq_true.mpr hc
  cases sketch with
  | none => simp [hb, h1]
  | some sk => simp [hb, h1, hs sk rfl]

/-! ### non-vacuity: terms over the constants 1, 0 and the binary symbols +, - (all in the base language) -/
namespace Example
def one : Tree String := .node "1" []
def zero : Tree String := .node "0" []
def plus (a b : Tree String) : Tree String := .node "+" [a, b]
def minus (a b : Tree String) : Tree String := .node "-" [a, b]
def base0 : DFTA String Nat :=
  { rules := [(("1", []), 0), (("0", []), 0), (("+", [0, 0]), 0), (("-", [0, 0]), 0)], finals := [0] }
def base : DFTA String (St Nat) := liftBase base0
/-- `(+ 1 _)`: every `+` has `1` as its first argument -/
def rule1 : Tok String := .func ["+"] [.allow ["1"], .any]
/-- `(- #(1)<=1 (+ _ ^0))` -/
def rule2 : Tok String := .func ["-"] [.atMost ["1"] 1, .func ["+"] [.any, .allow ["1", "+", "-"]]]
example : base.Det ∧ Uniform base 0 := ⟨liftBase_det _, liftBase_uniform _⟩
example : (run (count base 1 ["1"] true) (plus one (plus one one))).map (·.2) = some [2] := by decide
example : (processTop base rule1 true).map (fun A => (A.accepts (plus one (minus zero one)), A.accepts (plus zero one),
    A.accepts (minus (plus zero one) one))) = some (true, false, false) := by decide
example : (processTop base rule1 false).map (fun A => (A.accepts (plus one (plus zero one)), A.accepts (minus one one))) =
    some (true, false) := by decide
example : satLocal ["+"] [.allow ["1"], .any] (plus one (minus zero one)) = true ∧
    satLocal ["+"] [.allow ["1"], .any] (minus (plus zero one) one) = false := by decide
example : (processInner base rule1).map (fun A => (run A (plus one zero)).map (·.2)) =
    some (some (attrs rule1 (plus one zero))) ∧ attrs rule1 (plus one zero) = [1, 0, 1] := by decide
example : (attrs rule2 (minus one (plus zero one))).head? = some 1 ∧ width rule2 = 7 ∧
    matchesTok rule2 (minus one (plus zero one)) = true := by decide
end Example

/-! ### on a grammar: `__cfg2dfta__` -/
open PS.G

namespace Finding
def tInt : Ty := .base "int"
def tII : Ty := .arrow tInt (.arrow tInt tInt)
def sPlus : Sym := Sym.prim "+" tII
def sOne : Sym := Sym.prim "1" tInt
def sVar : Sym := Sym.var 0 tInt
def ctx (i : Nat) : CFGState := ([(sPlus, i)], 1)
/-- `CFG.depth_constraint(+,1 ; int -> int, max_depth = 2, min_variable_depth = 1)`: the variable is
    only allowed below the root -/
def g : CFG :=
  { start := (tInt, (([], 0), ())),
    rules := [((tInt, (([], 0), ())), [(sOne, ([], ())), (sPlus, ([(tInt, ctx 0), (tInt, ctx 1)], ()))]),
              ((tInt, (ctx 0, ())), [(sVar, ([], ())), (sOne, ([], ()))]),
              ((tInt, (ctx 1, ())), [(sVar, ([], ())), (sOne, ([], ()))])] }
/-- the same grammar with `min_variable_depth = 0` -/
def g0 : CFG :=
  { start := (tInt, (([], 0), ())),
    rules := [((tInt, (([], 0), ())), [(sVar, ([], ())), (sOne, ([], ())), (sPlus, ([(tInt, ctx 0), (tInt, ctx 1)], ()))]),
              ((tInt, (ctx 0, ())), [(sVar, ([], ())), (sOne, ([], ()))]),
              ((tInt, (ctx 1, ())), [(sVar, ([], ())), (sOne, ([], ()))])] }
end Finding

/-- **sharpening a grammar**, in terms of the (type, height) automaton `__cfg2dfta__` builds. -/
theorem C05_sharpen (G : CFG) (cs : List (Tok Sym)) (sketch : Option (Tok Sym)) (D : DFTA Sym (UState BaseSt))
    (h : addDftaConstraints (liftBase (cfg2dfta G)) cs sketch = some D) (t : Prog) :
    D.accepts t = sharpenSpec (cfg2dfta G).accepts cs sketch t := by
  rw [C05_sharpen_tokens _ 0 (liftBase_det _) (liftBase_uniform _) cs sketch D h t]
  unfold sharpenSpec
  rw [liftBase_accepts _ (cfg2dfta_det G) t]

/-- **`__cfg2dfta__` never loses a program of the grammar** (for tables of the shape
    `CFG.depth_constraint` builds: `wfCFG`, and `sigFunctional`: a symbol with given argument
    types is used at one type). -/
theorem C05_cfg2dfta_complete (G : CFG) (hwf : wfCFG G = true) (hsig : sigFunctional G = true) (t : Prog)
    (ht : gen G t G.start = true) : (cfg2dfta G).accepts t = true :=
  cfg2dfta_complete G hwf hsig t ht

/-- **`__cfg2dfta__` is exact under Hyp_C05** (`cfg2dftaExact G`: every rule of the automaton can be
    taken at every non-terminal of its type that leaves enough depth). -/
theorem C05_cfg2dfta_partial (G : CFG) (hwf : wfCFG G = true) (hsig : sigFunctional G = true)
    (hex : cfg2dftaExact G = true) (t : Prog) : (cfg2dfta G).accepts t = gen G t G.start :=
  cfg2dfta_exact G hwf hsig hex t

/-- non-vacuity: the depth-2 grammar of `+, 1` with `min_variable_depth = 0` satisfies all three
    hypotheses, and the automaton accepts `(+ 1 var0)` and `var0`, as the grammar does -/
example : wfCFG Finding.g0 = true ∧ sigFunctional Finding.g0 = true ∧ cfg2dftaExact Finding.g0 = true ∧
    gen Finding.g0 (.node Finding.sVar []) Finding.g0.start = true ∧
    (cfg2dfta Finding.g0).accepts (.node Finding.sPlus [.node Finding.sOne [], .node Finding.sVar []]) = true := by decide

/-  FULL STATEMENT (false on the code as it is, finding C05-F1):
      theorem C05_cfg2dfta (G : CFG) (hwf : wfCFG G) (t : Prog) : (cfg2dfta G).accepts t = gen G t G.start  -/

/-- **C05** for grammars on which `__cfg2dfta__` is exact: the sharpened automaton accepts a program
    iff it is in the grammar, every rule holds at every occurrence, and the root satisfies the
    sketch. -/
theorem C05_sharpen_partial (G : CFG) (hwf : wfCFG G = true) (hsig : sigFunctional G = true)
    (hex : cfg2dftaExact G = true) (cs : List (Tok Sym)) (sketch : Option (Tok Sym))
    (D : DFTA Sym (UState BaseSt)) (h : addDftaConstraints (liftBase (cfg2dfta G)) cs sketch = some D) (t : Prog) :
    D.accepts t = sharpenSpec (fun t => gen G t G.start) cs sketch t := by
  rw [C05_sharpen G cs sketch D h t]
  unfold sharpenSpec
  rw [C05_cfg2dfta_partial G hwf hsig hex t]

/-- without `cfg2dftaExact`, sharpening still **never removes** a program of the grammar that
    satisfies every rule and the sketch. -/
theorem C05_never_removes (G : CFG) (hwf : wfCFG G = true) (hsig : sigFunctional G = true)
    (cs : List (Tok Sym)) (sketch : Option (Tok Sym)) (D : DFTA Sym (UState BaseSt))
    (h : addDftaConstraints (liftBase (cfg2dfta G)) cs sketch = some D) (t : Prog)
    (hg : gen G t G.start = true) (hc : ∀ c ∈ cs, satConstraint c t = true)
    (hs : ∀ sk, sketch = some sk → satSketch sk t = true) : D.accepts t = true := by
  apply C05_never_removes_base _ 0 (liftBase_det _) (liftBase_uniform _) cs sketch D h t _ hc hs
  rw [liftBase_accepts _ (cfg2dfta_det G) t]
  exact C05_cfg2dfta_complete G hwf hsig t hg

/-- … and under `cfg2dftaExact` it **never adds** one. -/
theorem C05_never_adds_partial (G : CFG) (hwf : wfCFG G = true) (hsig : sigFunctional G = true)
    (hex : cfg2dftaExact G = true) (cs : List (Tok Sym)) (sketch : Option (Tok Sym))
    (D : DFTA Sym (UState BaseSt)) (h : addDftaConstraints (liftBase (cfg2dfta G)) cs sketch = some D) (t : Prog)
    (ht : D.accepts t = true) : gen G t G.start = true := by
  have := C05_never_adds_base _ 0 (liftBase_det _) (liftBase_uniform _) cs sketch D h t ht
  rw [liftBase_accepts _ (cfg2dfta_det G) t, C05_cfg2dfta_partial G hwf hsig hex t] at this
  exact this

/-! ### findings (witnesses on the model; each is replayed on /repo by harness/c05.py corpus()) -/

/-- **Finding C05-F1.** `__cfg2dfta__` keeps only (type, height): with `min_variable_depth = 1` the
    program `var0` is not in the grammar, but the automaton — hence every sharpened automaton, here
    with no rule at all — accepts it: sharpening ADDS a program.  The grammar is well formed and
    `cfg2dftaExact` (the hypothesis of `C05_sharpen_partial`) is false on it. -/
theorem finding_C05_F1 :
    wfCFG Finding.g = true ∧ sigFunctional Finding.g = true ∧ cfg2dftaExact Finding.g = false ∧
    gen Finding.g (.node Finding.sVar []) Finding.g.start = false ∧
    (cfg2dfta Finding.g).accepts (.node Finding.sVar []) = true ∧
    (addDftaConstraints (liftBase (cfg2dfta Finding.g)) [] none).map (fun D => D.accepts (.node Finding.sVar [])) = some true := by
  decide

/-! ### the parser (character level)
  `RTok`: a token tree as it is WRITTEN (names and numbers are character strings); `render`: its
  canonical text — one blank between the elements of a pattern, none elsewhere, sets after `#` and `>`
  in parentheses; `sem Sy`: its meaning — every name resolved to ALL the symbols of the grammar with
  that name (one name may be used at several types), complements taken in the grammar's symbols,
  `none` where the parser raises.  `renderOK` (decidable): names are plain (non-empty, none of
  ` \t\n\r(){},^>#<=`, not `_` alone), name lists are not empty, numbers are digit strings, a
  complemented head set excludes some symbol. -/

/-- **parser, exact.**  For every written rule (a function pattern of any nesting, or a single word
    `_` / `#…<=N` / `#…>=N` / `>…` / `>^…`), whatever the switches `fixF2 / fixF3 / fixF4` of the
    model: parsing the canonical text yields `sem Sy t`, which with `fixF2` is the documented meaning
    and without it collapses all-wildcard patterns (finding C05-F2). -/
theorem C05_parse (Sy : Syms) (t : RTok) (hok : renderOK Sy t = true) (hk : isFunc t = true ∨ isRuleWord t = true) :
    parse Sy (render t) = sem Sy t := by
  rcases hk with h | h
  · exact parse_render_func Sy t hok h
  · exact parse_render_word Sy t hok h

/-- **parser, repaired code** (fixes C05-F3, C05-F4 applied, C05-F2 proposed): no constraint of the
    documented syntax is dropped or mis-read — the parse is the documented meaning. -/
theorem C05_parse_fixed (Sy : Syms) (h2 : Sy.fixF2 = true) (t : RTok) (hok : renderOK Sy t = true)
    (hk : isFunc t = true ∨ isRuleWord t = true) : parse Sy (render t) = sem (withF2 Sy) t := by
  have : withF2 Sy = Sy := by cases Sy; simp [withF2] at h2 ⊢; exact h2
  rw [this]; exact C05_parse Sy t hok hk

/-- **parser, code as it is** (`fixF2 = false`): outside the decidable region of finding C05-F2 (no
    pattern of the tree has only wildcard arguments) the parse is the documented meaning. -/
theorem C05_parse_partial (Sy : Syms) (t : RTok) (hok : renderOK Sy t = true)
    (hk : isFunc t = true ∨ isRuleWord t = true) (hF2 : noCollapse Sy t = true) :
    parse Sy (render t) = sem (withF2 Sy) t := by
  rw [sem_withF2 Sy t hF2]; exact C05_parse Sy t hok hk

/-  FULL STATEMENT (false on the code as it is, finding C05-F2 — and for other spacings, finding C05-F5):
      theorem C05_parse_full (Sy) (t) (hok : renderOK Sy t) : parse Sy (render t) = sem (withF2 Sy) t  -/

namespace Finding
def sy : Syms := { prims := [sPlus, Sym.prim "-" tII, sOne], vars := [sVar] }
/-- symbols of a grammar whose request is `int -> str -> int -> int` with the `str` unused -/
def sy2 : Syms := { prims := [sPlus, sOne], vars := [sVar, Sym.var 2 tInt] }
end Finding

namespace Finding
/-- `(+ 1 (- _ #(1,0)<=2))` -/
def rule : RTok := .func (.names ["+".toList]) [.set (.names ["1".toList]),
  .func (.names ["-".toList]) [.any, .cnt true ["1".toList, "0".toList] "2".toList]]
/-- `(+ (- _ _) _)` -/
def ruleW : RTok := .func (.names ["+".toList]) [.func (.names ["-".toList]) [.any, .any], .any]
end Finding

/-- non-vacuity of the three parser theorems, and the text they speak about -/
example : render Finding.rule = "(+ 1 (- _ #(1,0)<=2))".toList ∧ renderOK Finding.sy Finding.rule = true ∧
    noCollapse Finding.sy Finding.rule = true ∧ isFunc Finding.rule = true ∧
    (sem Finding.sy Finding.rule).isSome = true := by decide
/-- in the region of C05-F2 the parse (`_`) is not the documented meaning -/
example : render Finding.ruleW = "(+ (- _ _) _)".toList ∧ renderOK Finding.sy Finding.ruleW = true ∧
    noCollapse Finding.sy Finding.ruleW = false ∧ (sem Finding.sy Finding.ruleW).map isAny = some true ∧
    (sem (withF2 Finding.sy) Finding.ruleW).map isAny = some false := by decide

/-- **Finding C05-F2.** A pattern all of whose arguments are `_` is parsed as `_`: the sketch
    `(+ _ _)` ("the program starts with +") and the nested pattern in `(+ (- _ _) _)` ("the first
    argument of every + is a -") are silently dropped. -/
theorem finding_C05_F2 :
    (parse Finding.sy "(+ _ _)".toList).map isAny = some true ∧
    (parse Finding.sy "(+ (- _ _) _)".toList).map isAny = some true ∧
    (parse Finding.sy "(+ - _)".toList).map isAny = some false := by decide

/-- **Finding C05-F3.** `varN` is resolved by position among the variables the grammar uses: with
    variables 0 and 2 in use, `var1` denotes variable 2 and `var2` raises. -/
theorem finding_C05_F3 :
    (str2dp Finding.sy2 "var1".toList).map (fun l => l.map (·.idx)) = some [2] ∧
    str2dp Finding.sy2 "var2".toList = none := by decide

/-- **Finding C05-F4.** A set in parentheses is not always unwrapped: `#(_)<=1` counts nothing
    (while `#_<=1` counts every symbol) and `^(1)` excludes nothing (it is parsed as `_`). -/
theorem finding_C05_F4 :
    (interpretWord Finding.sy "#(_)<=1".toList).map (fun t => match t with | .atMost S n => (S.length, n) | _ => (99, 99)) = some (0, 1) ∧
    (interpretWord Finding.sy "#_<=1".toList).map (fun t => match t with | .atMost S n => (S.length, n) | _ => (99, 99)) = some (4, 1) ∧
    (interpretWord Finding.sy "^(1)".toList).map isAny = some true ∧
    (interpretWord Finding.sy "^1".toList).map isAny = some false := by decide

/-- **Finding C05-F5.** Blanks other than single separating blanks silently change a rule: a leading
    blank makes the head set empty (`add_dfta_constraints` then skips the rule as "primitive not
    recognised"), two consecutive blanks insert an empty — unsatisfiable — argument pattern.  With
    fixes_proposed/C05-F5.diff (`fixF5`) the same strings are read as `(+ 1 _)`. -/
theorem finding_C05_F5 :
    (parse Finding.sy " (+ 1 _)".toList).map (fun t => match t with | .func H _ => H.length | _ => 99) = some 0 ∧
    (parse Finding.sy "(+ 1  _)".toList).map (fun t => match t with | .func H a => (H.length, a.length) | _ => (99, 99)) = some (1, 3) ∧
    (parse { Finding.sy with fixF5 := true } " (+ 1  _ )".toList).map
      (fun t => match t with | .func H [.allow S, .any] => (H.length, S.length) | _ => (99, 99)) = some (1, 1) ∧
    (parse Finding.sy "(+ 1 _)".toList).map
      (fun t => match t with | .func H [.allow S, .any] => (H.length, S.length) | _ => (99, 99)) = some (1, 1) := by decide

end PS.C05
