/-
  C03, part cd — order of constant-delay search: "by non-increasing probability within the relative
  slack implied by the requested precision".

  The search orders programs by INTEGER costs (sums of `-int(log p / precision)`); its derivation
  queues are `CDQueue`s.  What the code guarantees, and what is proved here:
    * C03_Cd_merge_slack (every arithmetic) / C03_Cd_merge_slack_rat (exact rationals) — `push` either
      stores the CostTuple as it is, or appends its index tuples to ONE stored CostTuple whose cost
      differs by at most 1 (`abs(val.cost - element.cost) > 1` is false) and whose cost is kept: this
      tolerance of one cost unit (= `precision` in log-probability) per merge is the only place where the
      queue gives up exactness;
    * C03_Cd_pop_first — `pop` returns the FIRST CostTuple, in cell order (index order of the cells from
      `translation`'s cell inwards, nested cells in index order), of the cell at `translation`, and leaves
      the others in place; `peek` returns the same CostTuple (C03_Cd_peek_pop);
    * C03_Cd_bucket_mono, C03_Cd_bucket_width (exact rationals) — the bucket index
      `int(cost / maxi * k)` is monotone in the cost, and two costs with the same index differ by less
      than the bucket width `maxi / k`: cell order is cost order up to the width of a cell, and nested
      cells refine it;
    * C03_Cd_misplaced_merge — for EVERY arithmetic: when `int(cost / maxi * k)` evaluates to the index of
      a cell that holds a CostTuple within 1 of the element, the element is merged into it.  With exact
      rationals `int(4 / 49 * 49) = 4` (C03_Cd_index_rat); with IEEE doubles the same expression is 3
      (`#eval` below, and the corpus case of harness/c03_cd.py), so the element of cost 4 is merged into the
      CostTuple of cost 3 and popped with it: finding C03-F5.
    * THE ORDER CONTRACT OF THE QUEUE (exact rationals, both forms of the bucket index): the placement
      invariant `QOrd` (every stored CostTuple sits in the cell and nested sub-cell its cost maps to,
      relative to `mini` / `translation`; `mini = start + maxi*n/k`) holds initially (C03_Cd_queue_init), is
      kept by `push` for every cost in the window `[mini, mini + maxi)` (C03_Cd_push_placed), by `update`
      (which succeeds, keeps the content and leaves `translation` on a non-empty cell: C03_Cd_update) and by
      `pop`, and `pop` returns the stored CostTuple of STRICTLY SMALLEST cost, inside the first bucket
      `[mini, mini + maxi/k)` (C03_Cd_pop_near_min).  Together with C03_Cd_merge_slack_rat: a popped
      CostTuple is the cheapest stored one, and every index tuple it carries was pushed with a cost at
      most 1 away from its cost — the slack the queue guarantees is exactly the merge tolerance.  ONE STATEMENT
      (C03_Cd_queue_slack, with C03_Cd_queue_slack_push): tracking every push `(cost, index tuple)` through the
      merges, `pop` hands out the pushes of the cheapest CostTuple, each within 1 of its cost, and every
      popped push is cheaper than every push still stored up to 2 cost units.
    * C03_Cd_queue_sorted (with the Boolean check C03_Cd_monotone_check) — the queue is a MONOTONE PRIORITY QUEUE: along
      every protocol run whose pushes cost at least the last popped cost and lie inside the window, the popped
      costs are non-decreasing (this is the step that makes `_cost_lists_derivation[args]` sorted);
      C03_Cd_successors_cost — the successor loop of the machine respects that discipline when the cost lists of the
      argument non-terminals are non-decreasing (every pushed successor costs at least the popped CostTuple).
  GLOBAL THEOREMS (section "global theorems" at the end of the file; exact rationals, acyclic grammars):
    * C03_Cd_cost_lists_grow — the cost lists `_cost_lists_derivation[args]` only grow by appending, in every function
      of the query block (every arithmetic), so a property of the final lists holds for all earlier ones;
    * C03_Cd_order_machine — the heap layer of the order argument: every function of the query block keeps the order
      invariant `OInv` (every heap `_queue_nt[S]` is a valid heap, all its elements cost at least every entry of
      `_cost_lists_nt[S]`, every pending `Derivation` of a rule with arguments costs exactly
      `w + _cost_lists_derivation[args][comb]`, every list `_cost_lists_nt[S]` is non-decreasing) PROVIDED the lists
      `_cost_lists_derivation[args]` of the state it reaches are non-decreasing;
    * C03_Cd_yield_index — a program yielded by `next` is stored in `_bank_nt[start][n]` for the current cost index
      `n` of `generator()`, and `n` never decreases;
    * C03_Cd_sorted_partial — THE CLAIMED COSTS NEVER DECREASE: from a new enumerator on an acyclic grammar, along `next`
      calls, if the state the prologue produced satisfies the order invariant (Boolean `oinvB`) and the lists
      `_cost_lists_derivation[args]` of the final state are non-decreasing (Boolean `derSortedB` — what C03_Cd_queue_sorted
      and C03_Cd_successors_cost guarantee as long as every push stays inside the window of its queue, i.e. outside finding
      C02-F5), then every list `_cost_lists_nt[S]` is non-decreasing and the programs are yielded in non-decreasing
      order of the cost `_cost_lists_nt[start][n]` they are stored under.
  NOT proved (compared on every case against the integer costs and exact probabilities computed by
  the harness, with the slack 16 of the pinned tests): that the search keeps its pushes inside the
  window (false: finding C02-F5); that on the machine the window discipline makes `_cost_lists_derivation` sorted
  (the queue layer is proved for protocol runs only); the distance between the claimed cost of a program and its
  true cost (the merges accumulate along successor chains); recursive grammars; prefix completeness.
-/
import PS.Model.Enum.ConstantDelay
import PS.Proofs.Enum.CDQueue
import PS.Proofs.Enum.CDOrder
import PS.Proofs.Enum.CDSlack
import PS.Proofs.Enum.CDSorted
import PS.Proofs.Enum.CDGOrderCheck
namespace PS.C03Cd
open PS PS.CD

variable {α : Type}

/-- **merge tolerance**: a push that does not add a CostTuple appends its index tuples to one stored
    CostTuple whose cost is not more than 1 away (as computed by the arithmetic) and is kept -/
theorem C03_Cd_merge_slack (A : Arith α) (q q' : Q α) (e : CT α) (asserts : Bool) (hq : QWF q)
    (h : q.push A e asserts = some q') :
    q'.tuples.Perm (e :: q.tuples) ∨
    ∃ X Y val, q.tuples = X ++ val :: Y ∧ q'.tuples = X ++ { val with combs := val.combs ++ e.combs } :: Y ∧
      A.lt (A.ofInt 1) (A.abs (A.sub val.cost e.cost)) = false := by
  obtain ⟨_, ⟨added, h2⟩, _⟩ := qwf_push A q q' e asserts hq h
  cases added with
  | true => exact Or.inl h2
  | false => exact Or.inr h2

/-- with exact rationals: `|val.cost - e.cost| ≤ 1` -/
theorem C03_Cd_merge_slack_rat (q q' : Q Rat) (e : CT Rat) (asserts : Bool) (hq : QWF q)
    (h : q.push ratArith e asserts = some q') :
    q'.tuples.Perm (e :: q.tuples) ∨
    ∃ X Y val, q.tuples = X ++ val :: Y ∧ q'.tuples = X ++ { val with combs := val.combs ++ e.combs } :: Y ∧
      val.cost - e.cost ≤ 1 ∧ e.cost - val.cost ≤ 1 := by
  rcases C03_Cd_merge_slack ratArith q q' e asserts hq h with h1 | ⟨X, Y, val, h1, h2, h3⟩
  · exact Or.inl h1
  · refine Or.inr ⟨X, Y, val, h1, h2, ?_⟩
    simp only [ratArith, decide_eq_false_iff_not, Rat.not_lt] at h3
    split at h3
    · constructor
      · simpa using h3
      · grind
    · constructor
      · grind
      · grind

example : (((Q.new ratArith 2000 4).bind (·.push ratArith ⟨100, [[0, 0]]⟩)).bind (·.push ratArith ⟨101, [[1, 0]]⟩)).map
    (fun q => q.tuples.map (fun t => (t.cost, t.combs))) = some [(100, [[0, 0], [1, 0]])] := by decide +kernel

/-- **pop returns the first CostTuple in cell order** of the cell at `translation` -/
theorem C03_Cd_pop_first (q q' : Q α) (p : CT α) (hq : QWF q) (h : q.pop = some (p, q')) :
    ∃ c c', q.cells[q.translation]? = some c ∧ q'.cells = q.cells.set q.translation c' ∧
      c.tuples = p :: c'.tuples := by
  unfold Q.pop at h
  split at h
  · simp at h
  · rename_i c hget
    split at h
    · simp at h
    · rename_i p1 c' hp
      split at h
      · simp at h
      · simp only [Option.some.injEq, Prod.mk.injEq] at h
        obtain ⟨h1, h2⟩ := h
        subst h1; subst h2
        exact ⟨c, c', hget, rfl, (popCell_spec c p1 c' (hq.cells c (List.mem_of_getElem? hget)) hp).2⟩

theorem C03_Cd_peek_pop (q q' : Q α) (p : CT α) (hq : QWF q) (h : q.pop = some (p, q')) : q.peek = some p :=
  (qwf_pop q q' p hq h).2.2.2.2.1

/-- the bucket index of the code with exact rationals (non-negative relative costs) -/
def bucket (cost maxi : Rat) (k : Nat) : Int := ratArith.trunc (ratArith.mul (ratArith.div cost maxi) (ratArith.ofNat k))

theorem bucket_eq (cost maxi : Rat) (k : Nat) (h0 : 0 ≤ cost) (hm : 0 < maxi) :
    bucket cost maxi k = (cost / maxi * (k : Rat)).floor := by
  have h1 : 0 ≤ cost / maxi * (k : Rat) := by
    apply Rat.mul_nonneg
    · rw [Rat.div_def]
      exact Rat.mul_nonneg h0 (Rat.le_of_lt (Rat.inv_pos.mpr hm))
    · exact_mod_cast Nat.zero_le k
  show ratTrunc (cost / maxi * (((k : Nat) : Int) : Rat)) = _
  have h2 : (((k : Nat) : Int) : Rat) = (k : Rat) := rfl
  rw [h2, ratTrunc, if_pos h1]

/-- **cell order is cost order**: the bucket index is monotone in the cost -/
theorem C03_Cd_bucket_mono (c1 c2 maxi : Rat) (k : Nat) (h0 : 0 ≤ c1) (h12 : c1 ≤ c2) (hm : 0 < maxi) :
    bucket c1 maxi k ≤ bucket c2 maxi k := by
  rw [bucket_eq c1 maxi k h0 hm, bucket_eq c2 maxi k (Rat.le_trans h0 h12) hm]
  apply Rat.floor_monotone
  apply Rat.mul_le_mul_of_nonneg_right
  · rw [Rat.div_def, Rat.div_def]
    exact Rat.mul_le_mul_of_nonneg_right h12 (Rat.le_of_lt (Rat.inv_pos.mpr hm))
  · exact_mod_cast Nat.zero_le k

theorem floor_eq_lt (x y : Rat) (h : x.floor = y.floor) : x - y < 1 := by
  have h1 := Rat.floor_le y
  have h2 := Rat.lt_floor_add_one x
  rw [h] at h2
  have : ((y.floor + 1 : Int) : Rat) = (y.floor : Rat) + 1 := by simp [Rat.intCast_add]
  rw [this] at h2
  grind

/-- **a cell is narrower than `maxi / k`**: two costs with the same bucket index differ by less than the
    bucket width (stated without division: `(c1 - c2) * k < maxi`, for both orders of `c1`, `c2`) -/
theorem C03_Cd_bucket_width (c1 c2 maxi : Rat) (k : Nat) (h1 : 0 ≤ c1) (h2 : 0 ≤ c2) (hm : 0 < maxi)
    (h : bucket c1 maxi k = bucket c2 maxi k) : (c1 - c2) * (k : Rat) < maxi ∧ (c2 - c1) * (k : Rat) < maxi := by
  have key : ∀ a b : Rat, 0 ≤ a → 0 ≤ b → bucket a maxi k = bucket b maxi k → (a - b) * (k : Rat) < maxi := by
    intro a b ha hb hab
    rw [bucket_eq a maxi k ha hm, bucket_eq b maxi k hb hm] at hab
    have := floor_eq_lt _ _ hab
    have e : a / maxi * (k : Rat) - b / maxi * (k : Rat) = ((a - b) * (k : Rat)) / maxi := by
      simp only [Rat.div_def]; grind
    rw [e] at this
    have := (Rat.div_lt_iff hm).mp this
    simpa using this
  exact ⟨key c1 c2 h1 h2 h, key c2 c1 h2 h1 h.symm⟩

example : bucket 29 50 50 = 29 ∧ bucket 4 49 49 = 4 := by decide +kernel

/-- `int(4 / 49 * 49)` with exact rationals -/
theorem C03_Cd_index_rat : ratArith.trunc (ratArith.mul (ratArith.div 4 49) (ratArith.ofNat 49)) = 4 := by
  decide +kernel

-- the same expression with IEEE doubles (Lean `Float` = C double = CPython float): 3
#eval floatArith.trunc (floatArith.mul (floatArith.div (floatArith.ofInt 4) (floatArith.ofInt 49)) (floatArith.ofNat 49))

/-- **finding C03-F5, arithmetic-independent half**: if the arithmetic computes the index `i` for the
    element and cell `i` holds a CostTuple `val` that is not more than 1 away, the element is merged into
    `val` (it will be popped with `val`, at `val`'s cost) — whatever the true bucket of the element is -/
theorem C03_Cd_misplaced_merge (A : Arith α) (k f : Nat) (e val : CT α) (cost maxi : α) (cells : List (Cell α)) (tr i : Nat)
    (hz : A.isZero maxi = false) (hmf : A.mulFirst = false)
    (hi : ((A.trunc (A.mul (A.div cost maxi) (A.ofNat k)) + (tr : Int)) % (k : Int)).toNat = i)
    (hc : cells[i]? = some (.leaf val))
    (hclose : A.lt (A.ofInt 1) (A.abs (A.sub val.cost e.cost)) = false) :
    pushCells A k (f + 1) e cost maxi cells tr =
      some (cells.set i (.leaf { val with combs := val.combs ++ e.combs }), false) := by
  simp only [pushCells, hz, hmf, Bool.false_eq_true, if_false, hi, hc, hclose]

/-! ### the order contract of the queue (exact rationals, both forms of the bucket index) -/

/-- `QOrd q`: counters in sync, every stored CostTuple in the cell and nested sub-cell its cost maps to
    relative to `mini` / `translation`, `mini = start + maxi * n / k`.  It holds for `CDQueue(maxi, k)` with
    `maxi > 0` and after `clear()` -/
theorem C03_Cd_queue_init (b : Bool) (maxi0 : Int) (k0 : Nat) (q : Q Rat) (hm : 0 < maxi0)
    (h : Q.new (ratA b) maxi0 k0 = some q) : QOrd q ∧ QOrd q.clear :=
  ⟨qord_new b maxi0 k0 q hm h, qord_clear q (qord_new b maxi0 k0 q hm h)⟩

/-- **placement is kept by `push`** for every cost in the window `[mini, mini + maxi)` (any cost when the
    queue is fresh); `maxi` is `maxi0 * (k + 1) / k`, so a spread of `maxi0` always fits -/
theorem C03_Cd_push_placed (b asserts : Bool) (q q' : Q Rat) (e : CT Rat) (hq : QOrd q)
    (hwin : ∀ mini, q.mini = some mini → mini ≤ e.cost ∧ e.cost < mini + q.maxi)
    (h : q.push (ratA b) e asserts = some q') : QOrd q' :=
  qord_push b asserts q q' e hq hwin h

/-- **`update`** succeeds on a non-empty queue, keeps the invariant and the content, and leaves
    `translation` on a non-empty cell (so the next `pop` succeeds: C02_Cd_queue_pop_total) -/
theorem C03_Cd_update (b : Bool) (q : Q Rat) (hq : QOrd q) :
    ∃ q', q.update (ratA b) = some q' ∧ QOrd q' ∧ q'.cells = q.cells ∧ q'.nelements = q.nelements ∧
      (q.nelements ≠ 0 → ∃ c, q'.cells[q'.translation]? = some c ∧ c.tuples ≠ []) := by
  obtain ⟨q', h⟩ := qord_update_total b q hq
  exact ⟨q', h, qord_update b q q' hq h⟩

/-- **ORDER CONTRACT** (`pop` near the minimum — in fact AT the minimum): with exact rationals `pop` returns
    the stored CostTuple of strictly smallest cost; it lies in the first bucket `[mini, mini + maxi/k)`, so
    in particular within one bucket width `maxi / k` of every stored cost; nested cells (width
    `maxi / k^j` at depth `j`) are what makes the order exact inside a bucket.  The invariant is kept. -/
theorem C03_Cd_pop_near_min (q q' : Q Rat) (p : CT Rat) (hq : QOrd q) (h : q.pop = some (p, q')) :
    QOrd q' ∧ (∀ t ∈ q'.tuples, p.cost < t.cost) ∧
    ∃ mini, q.mini = some mini ∧ mini ≤ p.cost ∧ p.cost < mini + q.maxi / (q.k : Rat) :=
  qord_pop q q' p hq h

/-- non-vacuity and the whole protocol on a literal: unit 500, costs 100, 101 (merged), 150 (split into a nested
    cell), 1700 (another bucket): pops come out as 100 (with the merged tuple), 150, 1700 -/
example : (do
    let q ← Q.new (ratA true) 2000 4
    let q ← q.push (ratA true) ⟨100, [[0, 0]]⟩
    let q ← q.push (ratA true) ⟨1700, [[2, 2]]⟩
    let q ← q.push (ratA true) ⟨101, [[1, 0]]⟩
    let q ← q.push (ratA true) ⟨150, [[0, 1]]⟩
    let q ← q.update (ratA true)
    let (p1, q) ← q.pop
    let q ← q.update (ratA true)
    let (p2, q) ← q.pop
    let q ← q.update (ratA true)
    let (p3, _) ← q.pop
    pure [(p1.cost, p1.combs), (p2.cost, p2.combs), (p3.cost, p3.combs)]) =
    some [(100, [[0, 0], [1, 0]]), (150, [[0, 1]]), (1700, [[2, 2]])] := by decide +kernel

/-! ### the slack the queue guarantees, in one statement -/

/-- tracking (`Tracked q G`): `G` lists every stored CostTuple with the pushes `(cost, index tuple)` merged into
    it; a group carries exactly the index tuples of its CostTuple and each member was pushed with a cost at most
    1 away from the cost of the CostTuple.  A fresh queue is tracked by `[]`; `push` extends the tracking by
    the pushes of the element, as a new group or inside ONE existing group -/
theorem C03_Cd_queue_slack_push (b asserts : Bool) (q q' : Q Rat) (e : CT Rat) (G : List (CT Rat × List Push))
    (hq : QWF q) (ht : Tracked q G) (h : q.push (ratA b) e asserts = some q') :
    ∃ G', Tracked q' G' ∧ (G'.flatMap (·.2)).Perm (G.flatMap (·.2) ++ ghostOf e) :=
  tracked_push b asserts q q' e G hq ht h

/-- **THE SLACK OF THE QUEUE** (exact rationals): under the placement invariant, `pop` returns the CostTuple `p`
    of strictly smallest cost together with its group `grp`: `p` carries exactly the index tuples of `grp`, each
    of them was pushed with a cost within 1 of `p.cost`, and EVERY POPPED PUSH IS CHEAPER THAN EVERY PUSH THAT
    STAYS IN THE QUEUE UP TO 2 COST UNITS (`m.1 < m'.1 + 2`; one unit = `precision` in log-probability).
    Invariant and tracking are kept, so the statement holds along every run of pushes (inside the window),
    updates and pops. -/
theorem C03_Cd_queue_slack (q q' : Q Rat) (p : CT Rat) (G : List (CT Rat × List Push)) (hq : QOrd q)
    (ht : Tracked q G) (h : q.pop = some (p, q')) :
    ∃ grp G', G.Perm ((p, grp) :: G') ∧ Tracked q' G' ∧ QOrd q' ∧ p.combs = grp.map (·.2) ∧
      (∀ m ∈ grp, m.1 - p.cost ≤ 1 ∧ p.cost - m.1 ≤ 1) ∧
      ∀ m ∈ grp, ∀ pr' ∈ G', ∀ m' ∈ pr'.2, m.1 < m'.1 + 2 :=
  tracked_pop q q' p G hq ht h

example (q : Q Rat) (h : q.tuples = []) : Tracked q [] := tracked_empty q h

/-! ### the queue as a monotone priority queue -/

/-- **THE POPPED COSTS ARE NON-DECREASING** (exact rationals): run any script of `push` / `update` / `pop` on a queue
    satisfying the placement invariant such that every pushed cost is at least the cost of the last popped
    CostTuple (initially any lower bound `lo` of the content) and lies inside the window of the queue at that moment
    (`Monotone`, decidable on a script: `monotoneB`) — this is how `query_derivation` uses the queue when the cost lists
    of the argument non-terminals are non-decreasing: it pops `ct`, pushes successors of cost
    `ct.cost - cl[i] + cl[i+1] ≥ ct.cost`, updates.  Then the sequence of popped costs is non-decreasing, i.e. the
    derivation cost list `_cost_lists_derivation[args]` it produces is sorted; the invariant is kept. -/
theorem C03_Cd_queue_sorted (b : Bool) (ops : List QOp) (q q' : Q Rat) (lo : Rat) (out : List (CT Rat))
    (h : runOps b ops q [] = some (q', out)) (hq : QOrd q) (hl : LowerBound q lo) (hm : Monotone b ops q lo) :
    QOrd q' ∧ (out.map (·.cost)).Pairwise (· ≤ ·) :=
  runOps_sorted b ops q [] lo q' out h hq hl hm (by simp) (by simp)

theorem C03_Cd_monotone_check (b : Bool) (ops : List QOp) (q : Q Rat) (lo : Rat) (h : monotoneB b ops q lo = true) :
    Monotone b ops q lo := monotoneB_sound b ops q lo h

/-- **the machine respects the discipline**: when the cost lists `_cost_lists_nt` of the argument non-terminals are
    non-decreasing, every successor the model's `succLoop` pushes costs `ct.cost - cl[i] + cl[i+1] ≥ ct.cost`: every
    lower bound `lo ≤ ct.cost` of the derivation queue of `args` is kept (exact rationals, with or without assert) -/
theorem C03_Cd_successors_cost (b asserts : Bool) (args : List NT) (c lo : Rat) (comb : List Nat) (hlo : lo ≤ c)
    (s s' : St Rat) (h : succLoop (ratA b) asserts args c comb comb.length 0 s = some s')
    (hsorted : ∀ a cl, AList.lookup a s.costNt = some cl → cl.Pairwise (· ≤ ·))
    (q : Q Rat) (hq : AList.lookup args s.queueDer = some q) (hwf : QWF q) (hl : LowerBound q lo) :
    ∃ q', AList.lookup args s'.queueDer = some q' ∧ QWF q' ∧ LowerBound q' lo :=
  succLoop_lowerBound b asserts args c lo comb hlo _ _ s s' h hsorted q hq hwf hl

/-- a script in the style of `query_derivation`: pop, push successors, update -/
def opsEx : List QOp :=
  [.push ⟨100, [[0, 0]]⟩, .update, .pop, .push ⟨101, [[1, 0]]⟩, .push ⟨1700, [[0, 1]]⟩, .update, .pop,
   .push ⟨102, [[2, 0]]⟩, .push ⟨1701, [[1, 1]]⟩, .update, .pop, .update, .pop]

example : ((Q.new (ratA true) 2000 4).bind fun q => (runOps true opsEx q []).map fun r => r.2.map (·.cost)) =
      some [100, 101, 102, 1700] ∧
    ((Q.new (ratA true) 2000 4).map fun q => monotoneB true opsEx q 0) = some true := by
  constructor <;> decide +kernel

/-! ## global theorems -/

/-- the cost lists of the derivation queues only grow by appending (`CMono`), in every function of the query block -/
theorem C03_Cd_cost_lists_grow {α : Type} (E : Env α) (f : Nat) : COk E f := cok_all E f

/-- **the heap layer of the order argument on the machine** (exact rationals, acyclic grammar with rank function
    `rank`).  `OInv E s L` (PS/Proofs/Enum/CDGOrderInv.lean): every heap `_queue_nt[S]` satisfies the heap invariant of
    `heapq` for `Derivation.__lt__`, each of its elements costs at least every entry of `_cost_lists_nt[S]` and, for a
    rule with arguments, exactly `w + _cost_lists_derivation[args][comb]`; every list `_cost_lists_nt[S]` is
    non-decreasing; the popped elements `L` of suspended frames satisfy the same.  Every function of the query block
    keeps it, provided the lists `_cost_lists_derivation[args]` of the state it reaches are non-decreasing. -/
theorem C03_Cd_order_machine (E : Env Rat) (b : Bool) (hA : E.A = ratA b) (rank : NT → Nat) (hAcy : Acy E rank) (f : Nat) :
    OOk E rank f := ook_all E b hA rank hAcy f

/-- a yielded program is stored under the current cost index of `generator()`, which never decreases; the tables only
    grow -/
theorem C03_Cd_yield_index {α : Type} (E : Env α) (fuel : Nat) (g g' : Gen α) (out : Option Prog)
    (h : next E fuel g = some (g', out)) (hY : YG E g) :
    YG E g' ∧ g'.phase ≠ .fresh ∧ BMono g.st g'.st ∧ (g.phase ≠ .fresh → CMono g.st g'.st) ∧
    (∀ p, out = some p → pidx g ≤ pidx g' ∧ InBankAt g'.st E.G.start (pidx g') p) := next_tables E fuel g g' out h hY

theorem gen_new_fresh {α : Type} (E : Env α) (g : Gen α) (h : Gen.new E = some g) : g.phase = .fresh := by
  unfold Gen.new at h
  cases hi : St.init E with
  | none => simp [hi] at h
  | some s => simp only [hi, Option.map_some, Option.some.injEq] at h; subst h; rfl

/-- **THE CLAIMED COSTS NEVER DECREASE** (partial: acyclic grammars, exact rationals, two Boolean hypotheses on states
    of the run).  From a new enumerator, `k` calls of `next`: if the state the prologue produced satisfies the order
    invariant (`oinvB`) and the cost lists `_cost_lists_derivation[args]` of the final state are non-decreasing
    (`derSortedB`), then in the final state every cost list `_cost_lists_nt[S]` is non-decreasing, and the yielded
    programs `ys` are in non-decreasing order of claimed cost: for `p` yielded before `q` there are cost indices
    `ci ≤ cj` with `p ∈ _bank_nt[start][ci]`, `q ∈ _bank_nt[start][cj]` and
    `_cost_lists_nt[start][ci] ≤ _cost_lists_nt[start][cj]`. -/
theorem C03_Cd_sorted_partial (E : Env Rat) (b : Bool) (hA : E.A = ratA b) (rank : NT → Nat) (hacy : acyB E.G rank = true)
    (fuel k : Nat) (g g' : Gen Rat) (ys : List Prog) (fin : Bool) (hnew : Gen.new E = some g)
    (hstart : (prologue E fuel g.st).all (oinvB E) = true)
    (h : take E fuel k g [] = some (g', ys, fin)) (hfin : derSortedB g'.st = true) (hk : g'.phase ≠ .fresh) :
    (∀ S cl, AList.lookup S g'.st.costNt = some cl → cl.Pairwise (· ≤ ·)) ∧
    (∀ cl, AList.lookup E.G.start g'.st.costNt = some cl →
      ys.Pairwise fun p q => ∃ ci cj, InBankAt g'.st E.G.start ci p ∧ InBankAt g'.st E.G.start cj q ∧ ci ≤ cj ∧
        ∀ a c, cl[ci]? = some a → cl[cj]? = some c → a ≤ c) := by
  have hfresh := gen_new_fresh E g hnew
  have hY : YG E g := by intro n fr he; rw [hfresh] at he; simp at he
  have hAc : YAcc E g [] := ⟨by simp, by simp⟩
  have hgo : GO E fuel g := by
    refine ⟨fun _ s hs => oinvB_sound E s ?_, fun hne => absurd hfresh hne⟩
    rw [hs] at hstart; simpa using hstart
  have hO := (take_go E b hA rank (acyB_sound E rank hacy) fuel k g [] g' ys fin h hY hAc hgo (derSortedB_sound _ hfin)).2 hk
  refine ⟨hO.sorted, ?_⟩
  intro cl hcl
  have hs := hO.sorted _ cl hcl
  refine (take_tables E fuel k g [] g' ys fin h hY hAc).2.2.imp ?_
  rintro p q ⟨ci, cj, h1, h2, h3⟩
  refine ⟨ci, cj, h2, h3, h1, ?_⟩
  intro a c ha hc
  rcases Nat.lt_or_eq_of_le h1 with h4 | h4
  · obtain ⟨hi, rfl⟩ := List.getElem?_eq_some_iff.mp ha
    obtain ⟨hj, rfl⟩ := List.getElem?_eq_some_iff.mp hc
    exact (List.pairwise_iff_getElem.mp hs) ci cj hi hj h4
  · subst h4
    rw [ha] at hc
    simp only [Option.some.injEq] at hc
    rw [hc]; exact Rat.le_refl

/-- non-vacuity: S → f(A, A) (3) | a (1) | g(A) (2), A → x (1) | y (3) | h(B) (2), B → c (0) | d (2) (acyclic with
    rank 2, 1, 0): the post-prologue state satisfies `oinvB`, the generator stops after the 21 programs of the language,
    the final derivation cost lists are sorted, and the final cost list of the start symbol is
    [1, 3, 4, 5, 6, 7, 8, 9, 10, 11] -/
def gAcy : Gram :=
  { start := 0,
    rules := [(0, [(0, ([1, 1], 3)), (1, ([], 1)), (2, ([1], 2))]), (1, [(3, ([], 1)), (4, ([], 3)), (5, ([2], 2))]),
              (2, [(6, ([], 0)), (7, ([], 2))])],
    ty := [(0, 0), (1, 0), (2, 0)] }
def envAcy : Env Rat := { A := ratArith, G := gAcy, k := 1, filter := fun _ => true }

example : envAcy.A = ratA false := rfl

example : ((Gen.new envAcy).map fun g => acyB gAcy (fun S => 2 - S) && (prologue envAcy 1000 g.st).all (oinvB envAcy) &&
    ((take envAcy 1000 40 g []).map fun r => derSortedB r.1.st && r.2.1.length == 21 && r.2.2 &&
      (AList.lookup 0 r.1.st.costNt == some [1, 3, 4, 5, 6, 7, 8, 9, 10, 11])).getD false) = some true := by decide +kernel

end PS.C03Cd
