/-
  C12, part cd — filter and merges during constant-delay search.

  FULL STATEMENT: with a filter, each program at most once, every program all of whose sub-programs
  are accepted is yielded, none rejected; after `merge_program(rep, other)` exactly the not-yet-yielded
  programs not containing `other`; termination.

  Proved here, for every arithmetic, grammar, filter, fuel, state and history (safety at the yield site):
    * C12_Cd_yield_accepted — whatever `next(generator)` yields was accepted by the filter and is not in
      `_deleted` at that moment (so a program merged away or rejected earlier, which stays in `_deleted`,
      is not yielded by that step);
    * C12_Cd_take_accepted — every program of every prefix of the output was accepted;
    * C12_Cd_query_yield — the same for every `yield` of every (inner or top-level) `query(S, ci)`;
    * C12_Cd_rejected_deleted — `_deleted.add` keeps what was there;
    * C12_Cd_merge — `merge_program(rep, other)` puts `other` in `_deleted`, keeps `_deleted`, only removes
      programs from the banks and removes one occurrence of `other` where it was.
  The liveness half is FALSE on the code as it is (kernel-evaluated on the model, exact rationals):
    * finding_C12_F6 — S → c1 (cost 4) | f0(A) (cost 0), A → var0 (1) | var1 (3) | c1 (1), filter
      rejecting every application of f0: the generator stops WITHOUT yielding `c1`, a program of the
      language all of whose sub-programs are accepted: the cost level 1 of S produces nothing but pushes
      a successor (allowed empty), the cost level 3 produces nothing and pushes no successor, which
      `generator()` takes for exhaustion although the heap of S still holds `c1`.
  The merge half is also false (finding C12-F5, witnessed on the implementation, see
  proposed_findings/cd.json): removing `other` from a bank can leave an empty cost level, which
  `query_derivation` takes for an exhausted argument and stops generating successors.
  GLOBAL THEOREM (section "global theorems"): C12_Cd_filter_nodup — NO DUPLICATES WITH A FILTER: for every
  filter (and arithmetic, grammar with dict rows — recursive ones included —, `k`, fuel), `k` calls of `next` on a
  new enumerator yield pairwise distinct programs, all accepted by the filter; C12_Cd_hist_nodup — EACH PROGRAM AT MOST
  ONCE ALONG EVERY HISTORY of `next` and `merge_program` calls (every merged program only derivable from non-terminals
  of its declared type): `merge_program` keeps the bank invariant, a deleted program never re-enters a bank, and no
  program is yielded twice, before or after a merge.
  NOT proved: the liveness half (false), the merge half (false).
-/
import PS.Model.Enum.ConstantDelay
import PS.Proofs.Enum.CDFilter
import PS.Proofs.Enum.CDGRun
import PS.Proofs.Enum.CDGPrologue
import PS.Proofs.Enum.CDGMerge
namespace PS.C12Cd
open PS PS.CD

variable {α : Type}

/-- **`next(generator)` only yields programs accepted by the filter and not in `_deleted`** -/
theorem C12_Cd_yield_accepted (E : Env α) (fuel : Nat) (g g' : Gen α) (p : Prog)
    (h : next E fuel g = some (g', some p)) : E.filter p = true ∧ p ∉ g'.st.deleted := by
  obtain ⟨h1, h2⟩ := next_yield E fuel g g' p h
  exact ⟨h1, by simpa using h2⟩

/-- every `yield` of `query(S, cost_index)`, inner or top-level -/
theorem C12_Cd_query_yield (E : Env α) (f : Nat) (s : St α) (fr : Frame α) (s' : St α) (fr' : Frame α) (p : Prog)
    (h : resume E f s fr = some (.yield s' fr' p)) : E.filter p = true ∧ p ∉ s'.deleted := by
  obtain ⟨h1, h2⟩ := resume_yield E f s fr s' fr' p h
  exact ⟨h1, by simpa using h2⟩

/-- every prefix of the output consists of accepted programs -/
theorem C12_Cd_take_accepted (E : Env α) (fuel k : Nat) (g g' : Gen α) (ys : List Prog) (fin : Bool)
    (h : take E fuel k g [] = some (g', ys, fin)) : ∀ p ∈ ys, E.filter p = true :=
  take_accepted E fuel k g [] g' ys fin h (by simp)

theorem C12_Cd_rejected_deleted (s : St α) (p q : Prog) :
    p ∈ (s.addDeleted p).deleted ∧ (q ∈ s.deleted → q ∈ (s.addDeleted p).deleted) :=
  ⟨mem_addDeleted s p, addDeleted_mono s p q⟩

/-- `merge_program(representative, other)`: `other` is in `_deleted`, nothing leaves `_deleted`; a bank list
    only loses elements, and loses exactly one occurrence of `other` when it had one -/
theorem C12_Cd_merge (E : Env α) (g : Gen α) (other : Prog) (ty : Nat) :
    other ∈ (merge E g other ty).st.deleted ∧ (∀ q ∈ g.st.deleted, q ∈ (merge E g other ty).st.deleted) ∧
    (∀ (l : List Prog) (x : Prog), x ∈ removeFirst other l → x ∈ l) ∧
    (∀ (l : List Prog), other ∈ l → (removeFirst other l).length + 1 = l.length) :=
  ⟨(merge_deleted E g other ty).1, (merge_deleted E g other ty).2, removeFirst_sub other, removeFirst_count other⟩

/-! ### finding C12-F6 -/

/-- symbols: 0 = c1, 1 = f0, 2 = var0, 3 = var1 -/
def gF6 : Gram :=
  { start := 0,
    rules := [(0, [(0, ([], 4)), (1, ([1], 0))]), (1, [(2, ([], 1)), (3, ([], 3)), (0, ([], 1))])],
    ty := [(0, 0), (1, 0)] }

/-- the filter rejects every application of `f0` -/
def envF6 : Env Rat := { A := ratArith, G := gF6, k := 1, filter := fun p => p.label != 1 }

/-- the generator stops after yielding nothing, although `c1` is in the language and accepted -/
theorem finding_C12_F6 :
    ((Gen.new envF6).bind fun g => take envF6 1000 10 g []).map (fun r => (r.2.1, r.2.2)) = some ([], true) ∧
    envF6.filter (.node 0 []) = true ∧ gF6.rule? 0 0 = some ([], 4) := by
  refine ⟨?_, ?_, ?_⟩ <;> decide +kernel

/-- non-vacuity of C12_Cd_yield_accepted: without the filter the same grammar yields (the run is defined
    and produces programs) -/
example : ((Gen.new { envF6 with filter := fun _ => true }).bind fun g =>
    take { envF6 with filter := fun _ => true } 1000 10 g []).map (fun r => (r.2.1.length, r.2.2)) = some (4, true) := by
  decide +kernel

/-! ## global theorems -/

/-- **NO DUPLICATES WITH A FILTER, NONE REJECTED.**  For every filter, arithmetic, grammar whose rows have distinct keys,
    `k`, fuel: the programs yielded by `k` calls of `next` on a new enumerator are pairwise distinct and each of them was
    accepted by the filter; the filter only makes `query` skip programs (`_deleted`), which never re-enter a bank.
    (Scope: no `merge_program` in the history.) -/
theorem C12_Cd_filter_nodup (E : Env α) (hG : RowsNodup E.G) (fuel k : Nat) (g g' : Gen α) (ys : List Prog) (fin : Bool)
    (hnew : Gen.new E = some g) (h : take E fuel k g [] = some (g', ys, fin)) :
    ys.Nodup ∧ (∀ p ∈ ys, E.filter p = true) ∧ BInv g'.st := by
  obtain ⟨a, b, _, _⟩ := take_gi E hG fuel k g [] g' ys fin h
    (gen_new_gi E fuel g hnew (fun s hp hS hE => prologue_tinv2 E fuel g hnew s hp hS hE)) (by simp) (by simp)
  refine ⟨b, C12_Cd_take_accepted E fuel k g g' ys fin h, ?_⟩
  by_cases hph : g'.phase = .fresh
  · exact (ninv_of_empty (E := E) (a.1 hph).2.2.1).binv
  · exact (a.2 hph).2.2.1.binv

/-- non-vacuity: the grammar of finding C12-F6 with the filter rejecting every application of `f0`: the run is defined
    -/
example : ((Gen.new envF6).map fun g => (take envF6 1000 10 g []).isSome) = some true := by decide +kernel

/-- **EACH PROGRAM AT MOST ONCE, WITH A FILTER AND MERGES.**  For every filter, arithmetic, grammar whose rows have distinct
    keys, `k`, fuel and every history of `next` / `merge_program(rep, other)` calls on a new enumerator in which every
    merged program is only derivable from non-terminals of its declared type: no program is yielded twice, and the
    banks stay duplicate-free and pairwise disjoint (a program removed by a merge is in `_deleted` and never re-enters
    a bank). -/
theorem C12_Cd_hist_nodup (E : Env α) (hG : RowsNodup E.G) (fuel : Nat) (acts : List Act) (g g' : Gen α) (ys : List Prog)
    (hnew : Gen.new E = some g) (hacts : ActsOK E acts) (h : runHist E fuel acts g [] = some (g', ys)) :
    ys.Nodup ∧ (∀ q ∈ ys, InBank g'.st E.G.start q ∨ q ∈ g'.st.deleted) := by
  obtain ⟨_, b⟩ := runHist_gi2 E hG fuel acts g [] g' ys h hacts (gen_new_gi2 E fuel g hnew) ⟨by simp, by simp⟩
  exact b

end PS.C12Cd
