/-
  C15 — Textual types and programs parse to the objects they denote.
  Property theorems only (model: PS/Model/Parse.lean, notation and ⟦·⟧: PS/Model/TyExpr.lean,
  helper lemmas: PS/Proofs/ParseType.lean, PS/Proofs/ParseProg.lean, and for the character
  level PS/Proofs/ParseTypeChars.lean, PS/Proofs/ParseProgChars.lean).
  The type theorems hold for the code with and without the repair of C15-F4 (flag `s`); the
  `C15_reject_*` theorems are about the repaired code, `finding_C15_F4` about the other.
-/
import PS.Proofs.ParseType
import PS.Proofs.ParseProg
import PS.Proofs.ParseTypeChars
import PS.Proofs.ParseProgChars
namespace PS.C15
open PS TyExpr

/-! ## types -/

/-- **Token level.**  For every expression `e` of the documented notation (any nesting; names are
    words, `optional` is not a generic's name), the stack / infix-stack / or_flag machine of
    `auto_type`, run on the token stream of `e`, returns exactly the object `⟦e⟧`. -/
theorem C15_type_tokens (s : Bool) (e : TyExpr) (hwf : e.wf = true) :
    autoTypeToks s e.toks = .ok e.denote :=
  top_of_I (parse_all e hwf).2.1

/-- n-ary function types are right-nested arrows: `a -> b -> c` denotes `Arrow(a, Arrow(b, c))`,
    and this is what the parser returns. -/
theorem C15_type_arrows_right (s : Bool) (a b c : TyExpr) (h : (arrow a (arrow b c)).wf = true) :
    autoTypeToks s (arrow a (arrow b c)).toks
      = .ok (TyO.arrow a.denote (TyO.arrow b.denote c.denote)) := by
  rw [C15_type_tokens s _ h]; rfl

/-- a parenthesised arrow on the left is an argument of function type -/
theorem C15_type_arrows_left (s : Bool) (a b c : TyExpr) (h : (arrow (arrow a b) c).wf = true) :
    autoTypeToks s (arrow (arrow a b) c).toks
      = .ok (TyO.arrow (TyO.arrow a.denote b.denote) c.denote) := by
  rw [C15_type_tokens s _ h]; rfl

/-- the alternatives of `a | b` are those of `a` and those of `b` (in the order chosen by the
    library's `__or__`; equality of Sum objects ignores the order) -/
theorem C15_union_members (a b : TyO) : (members (tyOr a b)).Perm (members a ++ members b) := by
  obtain ⟨la, ka⟩ := a
  obtain ⟨lb, kb⟩ := b
  cases la <;> cases lb <;> simp [tyOr, members] <;>
    first
    | exact List.perm_append_comm
    | exact (List.perm_append_singleton _ _).symm

-- non-vacuity: `'a list -> ('a -> 'b[int | bool]) -> 'b[int | bool] optional`
def exFb : TyExpr := .fvar "b".toList (.union (.prim "int".toList) (.prim "bool".toList))
def exE : TyExpr :=
  arrow (.generic "list".toList (.var "a".toList)) (arrow (arrow (.var "a".toList) exFb) (.optional exFb))
example : exE.wf = true ∧ autoTypeToks true exE.toks = .ok exE.denote ∧
    render (fun k => if k % 3 = 0 then 1 else 0) exE
      = " 'a list-> ('a-> 'b[int |bool] )->'b [int| bool]optional ".toList :=
  ⟨by decide, C15_type_tokens true _ (by decide), by decide +kernel⟩

/-- **Character level, tokenizer.**  For every well-formed expression `e` of the notation and
    EVERY spacing `sp : Nat → Nat` (any number of blanks, including none, before and after every
    token, after `(` and `[`, before `)` and `]`, at both ends of the text; `render` itself adds
    the one blank the notation requires between two adjacent words, e.g. `int list`), the
    character-level tokenizer of `auto_type` (`strip`, `__matching__`, `__next_token__`, the
    recursive calls on the text enclosed by parentheses / brackets) cuts the text `render sp e`
    into exactly the token tree of `e`.  No spacing is excluded: an operator is always followed
    by the start of an operand (a letter, `'` or `(`, where the infix token stops), never by
    `|`, `[` or another operator. -/
theorem C15_type_tokenize (s : Bool) (sp : Spacing) (e : TyExpr) (hwf : e.wf = true) :
    tokenize s ((render sp e).length + 1) (render sp e) = .ok e.toks :=
  tokenize_render sp e hwf

/-- **Character level, end to end.**  `auto_type` (the model `autoTypeText`, with the fuel the
    driver runs it with) applied to the text of `e` under any spacing returns exactly `⟦e⟧`. -/
theorem C15_type (s : Bool) (sp : Spacing) (e : TyExpr) (hwf : e.wf = true) :
    autoTypeText s (render sp e) = .ok e.denote := by
  unfold autoTypeText
  rw [autoType_of_tokenize _ _ _ (C15_type_tokenize s sp e hwf)]
  exact C15_type_tokens s e hwf

/-- the character-level machine agrees with the token-level machine on every text that the
    tokenizer accepts (also outside the notation) -/
theorem C15_type_machine (s : Bool) (d : Nat) (el : Str) (ts : List Tok) (h : tokenize s d el = .ok ts) :
    autoType s d el = autoTypeToks s ts :=
  autoType_of_tokenize d el ts h

-- non-vacuity: the nested type above written with odd spacing (no blank around `->`, blanks
-- inside the parentheses and brackets, between `'b` and `[`, at both ends)
example : autoTypeText true " 'a list-> ('a-> 'b[int |bool] )->'b [int| bool]optional ".toList
    = .ok exE.denote := by
  have h := C15_type true (fun k => if k % 3 = 0 then 1 else 0) exE (by decide)
  have e : render (fun k => if k % 3 = 0 then 1 else 0) exE
      = " 'a list-> ('a-> 'b[int |bool] )->'b [int| bool]optional ".toList := by decide +kernel
  rw [e] at h; exact h
-- the same text is really cut into the token tree of `exE` (8 top-level tokens), and no
-- blank at all is needed where no two words meet: `('a->'b)->'a`
example : tokenize true 99 " 'a list-> ('a-> 'b[int |bool] )->'b [int| bool]optional ".toList
    = .ok exE.toks ∧ exE.toks.length = 8 := by decide +kernel
example : render (fun _ => 0) (arrow (arrow (.var "a".toList) (.var "b".toList)) (.var "a".toList))
      = "('a->'b)->'a".toList ∧
    autoTypeText true "('a->'b)->'a".toList
      = .ok (TyO.arrow (TyO.arrow (TyO.poly "a".toList) (TyO.poly "b".toList)) (TyO.poly "a".toList)) := by
  refine ⟨by decide +kernel, ?_⟩
  have h := C15_type true (fun _ => 0) (arrow (arrow (.var "a".toList) (.var "b".toList)) (.var "a".toList)) (by decide)
  have e : render (fun _ => 0) (arrow (arrow (.var "a".toList) (.var "b".toList)) (.var "a".toList))
      = "('a->'b)->'a".toList := by decide +kernel
  rw [e] at h; exact h

/-! ## malformed type texts (finding C15-F4 and its repair)

  The type parser of the model takes a flag `s`: `false` = the code as it was (a closing bracket
  where a token must start is read as an infix operator; infix operators and `|` that miss an
  operand are silently dropped), `true` = the code with fixes_proposed/C15-F4.diff (three
  assertions).  All theorems above hold for both values of `s`: the assertions of the repair never
  fire on a text of the notation.  With the repair the malformed texts of the finding are
  rejected, for every expression and every spacing: -/

/-- **an infix operator that misses its right operand** (`int ->`, `'a list -> int *`):
    `AssertionError`, for every well-formed `e`, every operator symbol and every spacing -/
theorem C15_reject_dangling_after (sp : Spacing) (e : TyExpr) (hwf : e.wf = true) (w : Str)
    (hw : goodOp w = true) :
    autoTypeText true (renderToks sp (e.toks ++ [.node (.op w) []]) none 0).1 = .error .assertion := by
  obtain ⟨h1, h2⟩ := readable_snoc e hwf (.node (.op w) []) (by simp [tokOK, labelOK, hw])
  rw [autoTypeText_renderToks sp _ h1 h2]
  exact reject_op_after e hwf w

/-- **an infix operator that misses its left operand** (`-> int`, `-> int list`) -/
theorem C15_reject_dangling_before (sp : Spacing) (e : TyExpr) (hwf : e.wf = true) (w : Str)
    (hw : goodOp w = true) :
    autoTypeText true (renderToks sp (.node (.op w) [] :: e.toks) none 0).1 = .error .assertion := by
  obtain ⟨h1, h2⟩ := readable_cons e hwf w hw
  rw [autoTypeText_renderToks sp _ h1 h2]
  exact reject_op_before w e.toks

/-- **a `|` that misses its right alternative** (`int |`) -/
theorem C15_reject_dangling_bar (sp : Spacing) (e : TyExpr) (hwf : e.wf = true) :
    autoTypeText true (renderToks sp (e.toks ++ [.node .bar []]) none 0).1 = .error .assertion := by
  obtain ⟨h1, h2⟩ := readable_snoc e hwf (.node .bar []) (by simp [tokOK, labelOK])
  rw [autoTypeText_renderToks sp _ h1 h2]
  exact reject_bar_after e hwf

/-- token level: two infix operators in a row (`int -> -> int`) are rejected whatever follows -/
theorem C15_reject_double_operator (e : TyExpr) (hwf : e.wf = true) (w1 w2 : Str) (ts : List Tok) :
    autoTypeToks true (e.toks ++ .node (.op w1) [] :: .node (.op w2) [] :: ts) = .error .assertion :=
  reject_op_op e hwf w1 w2 ts

/-- **an unmatched closing bracket**: wherever the parser is about to read a token (at the start
    of the text or after any number of tokens) and finds `)` or `]`, it raises — for every rest of
    the text, every state of the machine and inside every nesting of parentheses -/
theorem C15_reject_unmatched_close (rec : Str → Res TyO) (fuel : Nat) (c : Char) (rest : Str)
    (st : St) (hc : c = ')' ∨ c = ']') :
    nextToken true (c :: rest) = .error .assertion ∧
    loopC true rec (fuel + 1) (c :: rest) st = .error .assertion :=
  ⟨nextToken_close c rest hc, loopC_close rec fuel c rest st hc⟩

-- non-vacuity: the texts of the finding and a few more, with odd spacing
example : render (fun _ => 0) exE = "'a list->('a->'b[int|bool])->'b[int|bool]optional".toList ∧
    (renderToks (fun k => k % 2) (exE.toks ++ [.node (.op "->".toList) []]) none 0).1
      = "'a  list-> ('a ->'b [int |bool ]) ->'b [int |bool ]optional ->".toList ∧
    (renderToks (fun k => k % 2) (.node (.op "*".toList) [] :: exE.toks) none 0).1
      = "* 'a list ->( 'a-> 'b[ int| bool] )-> 'b[ int| bool] optional".toList := by
  decide +kernel
example : autoTypeText true "int)".toList = .error .assertion ∧
    autoTypeText true "int ->".toList = .error .assertion ∧
    autoTypeText true "-> int".toList = .error .assertion ∧
    autoTypeText true "-> int list".toList = .error .assertion ∧
    autoTypeText true "int |".toList = .error .assertion ∧
    autoTypeText true "int -> -> int".toList = .error .assertion ∧
    autoTypeText true "(int ->) -> int".toList = .error .assertion ∧
    autoTypeText true "'a[int]] -> int".toList = .error .assertion ∧
    autoTypeText true "(int -> int)) list".toList = .error .assertion := by decide +kernel

/-- **Finding C15-F4** (the code without the repair): the same texts are accepted — the closing
    bracket is read as an infix operator and dropped like the other dangling operators; when the
    text has other operators the dropped one is not even the dangling one (`int -> bool *` is
    read as the generic `*` applied to int and bool: the arrow is lost). -/
theorem finding_C15_F4 :
    autoTypeText false "int)".toList = .ok (TyO.prim "int".toList) ∧
    autoTypeText false "int ->".toList = .ok (TyO.prim "int".toList) ∧
    autoTypeText false "-> int".toList = .ok (TyO.prim "int".toList) ∧
    autoTypeText false "int |".toList = .ok (TyO.prim "int".toList) ∧
    autoTypeText false "-> int list".toList
      = .ok (TyO.arrow (TyO.prim "int".toList) (TyO.prim "list".toList)) ∧
    autoTypeText false "int -> bool *".toList
      = .ok (.node (.generic "*".toList true) [TyO.prim "int".toList, TyO.prim "bool".toList]) := by
  decide +kernel

/-! ## programs

  `goodProg dsl tr consts t` (PS/Model/Parse.lean, decidable, evaluated by the driver on every
  generated program) is the explicit guard: applicative term whose heads are leaves with at
  least one and at most arity-many arguments; names and printed constants are non-empty words
  without blank or parenthesis; a primitive is the first primitive of the DSL with its name; no
  primitive is called `var<n>`; a constant has a value that is a key of the table, is not a
  primitive's name and does not start with `var`; a variable has the type given by the request.

  Full statement (holds on the model only under the guard, see `finding_duplicate_names`):
    ∀ t, parseProgram dsl tr consts true (printProg t) = .ok t        (`C15_program`).
  Its parts: the word level on characters (`C15_program_word`, `C15_program_leaf`), the
  structure level (`C15_program_stack`: `parse_stack` rebuilds `t` from its words and the call
  counts), and — in PS/Proofs/ParseProgChars.lean — that `split(" ")` cuts `printProg t` into
  the words of `t`, that the word parser maps them to `leaves t`, that the bookkeeping loop
  computes `calls t`, and that the final re-print check succeeds when the constants table maps
  printed forms to themselves (`goodConsts`). -/

/-- **Word level (characters).**  A leaf satisfying the guard, printed and surrounded by any
    parentheses, is parsed back to itself, with its type, by `parse_program`'s word branch
    (`strip("()")`, primitive table, `var<n>` with the type taken from the request, constants
    table). -/
theorem C15_program_word (dsl : Dsl) (tr : TyO) (consts : Consts) (l : PL) (o c : Str)
    (ho : ∀ x ∈ o, isParen x = true) (hc : ∀ x ∈ c, isParen x = true)
    (h : goodLeaf dsl tr consts l = true) :
    parseAtom dsl tr consts (o ++ leafWord l ++ c) = .ok (.node l []) :=
  parseAtom_leaf dsl tr consts l o c ho hc h

/-- **Round trip for one-word programs (characters).** -/
theorem C15_program_leaf (dsl : Dsl) (tr : TyO) (consts : Consts) (chk : Bool) (l : PL)
    (h : goodProg dsl tr consts (.node l []) = true) :
    parseProgram dsl tr consts chk (printProg (.node l [])) = .ok (.node l []) ∧
    progType (.node l []) = (match l with | .prim _ ty => ty | .var _ ty => ty | .const ty _ _ => ty | .app => progType (.node l [])) := by
  have hl : goodLeaf dsl tr consts l = true := by
    cases l <;> simp_all [goodProg]
  have hp : printProg (.node l []) = leafWord l := by
    cases l <;> simp_all [printProg, leafWord, goodLeaf]
  have hw := leafWord_good hl
  have hb : ' ' ∉ leafWord l := by
    intro hmem
    simp only [goodWord, Bool.and_eq_true, List.all_eq_true] at hw
    have := hw.2 _ hmem
    simp at this
  refine ⟨?_, by cases l <;> simp [progType]⟩
  unfold parseProgram
  rw [hp]
  simp only [hb, if_false]
  have := parseAtom_leaf dsl tr consts l [] [] (by simp) (by simp) hl
  simpa using this

/-- **Structure level.**  For every applicative term `t` satisfying the guard, `parse_stack`,
    given the words of `str(t)` (as parsed leaves, in order) and the call counts of the
    bookkeeping loop, rebuilds exactly `t` — any arity, partial applications (fewer arguments
    than the head's type takes), function-typed variables as heads, functions as arguments. -/
theorem C15_program_stack (dsl : Dsl) (tr : TyO) (consts : Consts) (t : Prog)
    (h : goodProg dsl tr consts t = true) (fuel : Nat) (hf : Tree.depth t ≤ fuel) :
    ∃ L' C', parseStack fuel (leaves t) (calls t) = .ok (t, L', C') := by
  obtain ⟨L', C', h1, _⟩ := stack_ok dsl tr consts t h fuel [] [] hf
  exact ⟨L', C', by simpa using h1⟩

/-- the type of the rebuilt program is the type of the original (it *is* the original) -/
theorem C15_program_type (dsl : Dsl) (tr : TyO) (consts : Consts) (t : Prog)
    (h : goodProg dsl tr consts t = true) (fuel : Nat) (hf : Tree.depth t ≤ fuel) :
    ∃ q L' C', parseStack fuel (leaves t) (calls t) = .ok (q, L', C') ∧ progType q = progType t := by
  obtain ⟨L', C', h1⟩ := C15_program_stack dsl tr consts t h fuel hf
  exact ⟨t, L', C', h1, rfl⟩

/-- **Round trip, characters, end to end.**  For every DSL, type request, constants table and
    every term `t` satisfying the decidable guard `goodProg` (any arity, partial applications,
    function-typed variables as heads, calls as arguments, valued constants), parsing the
    printed form of `t` returns `t` itself — hence with the same type: `split(" ")`, the word
    parser, the call-count bookkeeping loop, `parse_stack` and (when `check` is set and the
    constants table maps every printed value to itself, `goodConsts`) the final re-print
    comparison all succeed.  Excluded by the guards: duplicated primitive names (C15-F5),
    names / printed constants containing blanks or parentheses, primitives called `var<n>`,
    constants without value. -/
theorem C15_program (dsl : Dsl) (tr : TyO) (consts : Consts) (chk : Bool) (t : Prog)
    (h : goodProg dsl tr consts t = true) (hc : chk = true → goodConsts consts = true) :
    parseProgram dsl tr consts chk (printProg t) = .ok t := by
  obtain ⟨l, ks⟩ := t
  by_cases hl : l = .app
  · subst hl
    exact parseProgram_print_app dsl tr consts chk ks h hc
  · have hks : ks = [] := by
      cases l <;> first | exact absurd rfl hl | (simp [goodProg] at h; exact h.1)
    subst hks
    exact (C15_program_leaf dsl tr consts chk l h).1

/-- the parsed program has the type of the original -/
theorem C15_program_same_type (dsl : Dsl) (tr : TyO) (consts : Consts) (chk : Bool) (t : Prog)
    (h : goodProg dsl tr consts t = true) (hc : chk = true → goodConsts consts = true) :
    ∃ q, parseProgram dsl tr consts chk (printProg t) = .ok q ∧ progType q = progType t :=
  ⟨t, C15_program dsl tr consts chk t h hc, rfl⟩

/-! ### non-vacuity and the finding -/

def tInt : TyO := TyO.prim "int".toList
def tBool : TyO := TyO.prim "bool".toList
def exDsl : Dsl := [("+".toList, TyO.arrow tInt (TyO.arrow tInt tInt)), ("1".toList, tInt),
                    ("app".toList, TyO.arrow (TyO.arrow tInt tInt) (TyO.arrow tInt tInt))]
def exTr : TyO := TyO.arrow (TyO.arrow tInt tInt) (TyO.arrow tInt tInt)
def exConsts : Consts := [("5".toList, (tInt, "5".toList))]
def pPlus : Prog := .node (.prim "+".toList (TyO.arrow tInt (TyO.arrow tInt tInt))) []
def pApp : Prog := .node (.prim "app".toList (TyO.arrow (TyO.arrow tInt tInt) (TyO.arrow tInt tInt))) []
/-- `(app (+ 5) (var0 var1))`: a partial application as argument, a function-typed variable as
    head, a valued constant -/
def exProg : Prog :=
  mkFunction pApp [mkFunction pPlus [.node (.const tInt "5".toList true) []],
                   mkFunction (.node (.var 0 (TyO.arrow tInt tInt)) []) [.node (.var 1 tInt) []]]

example : goodProg exDsl exTr exConsts exProg = true ∧ goodConsts exConsts = true ∧
    printProg exProg = "(app (+ 5) (var0 var1))".toList ∧ calls exProg = [2, 1, 0, 1, 0] ∧
    (leaves exProg).map printProg = ["app", "+", "5", "var0", "var1"].map String.toList := by
  decide +kernel
example : ∃ L' C', parseStack 3 (leaves exProg) (calls exProg) = .ok (exProg, L', C') :=
  C15_program_stack exDsl exTr exConsts exProg (by decide +kernel) 3 (by decide +kernel)

-- the end-to-end round trip on the concrete text, with the re-print check
example : parseProgram exDsl exTr exConsts true "(app (+ 5) (var0 var1))".toList = .ok exProg := by
  have h := C15_program exDsl exTr exConsts true exProg (by decide +kernel) (fun _ => by decide +kernel)
  have e : printProg exProg = "(app (+ 5) (var0 var1))".toList := by decide +kernel
  rw [e] at h; exact h

/-- **Finding C15-F5** (open).  With two primitives of the same name (what
    `instantiate_polymorphic_types` produces for `id : 'a -> 'a`), the parser resolves the name
    to the first one: the printed form of `(id t)` with `id : bool -> bool` is read back as
    another program (of type `int`), so the round trip fails without the guard. -/
def dupDsl : Dsl := [("1".toList, tInt), ("t".toList, tBool),
                     ("id".toList, TyO.arrow tInt tInt), ("id".toList, TyO.arrow tBool tBool)]
def dupProg : Prog :=
  mkFunction (.node (.prim "id".toList (TyO.arrow tBool tBool)) []) [.node (.prim "t".toList tBool) []]

theorem finding_duplicate_names :
    goodProg dupDsl tInt [] dupProg = false ∧
    printProg dupProg = "(id t)".toList ∧
    parseAtom dupDsl tInt [] "(id".toList = .ok (.node (.prim "id".toList (TyO.arrow tInt tInt)) []) ∧
    (.node (.prim "id".toList (TyO.arrow tInt tInt)) [] : Prog) ≠ .node (.prim "id".toList (TyO.arrow tBool tBool)) [] := by
  decide +kernel

end PS.C15
