/-
  C15 — Textual types and programs parse to the objects they denote.
  Property theorems only (model: PS/Model/Parse.lean, notation and ⟦·⟧: PS/Model/TyExpr.lean,
  helper lemmas: PS/Proofs/ParseType.lean, PS/Proofs/ParseProg.lean).
-/
import PS.Proofs.ParseType
namespace PS.C15
open PS TyExpr

/-! ## types -/

/-- **Token level.**  For every expression `e` of the documented notation (any nesting; names are
    words, `optional` is not a generic's name), the stack / infix-stack / or_flag machine of
    `auto_type`, run on the token stream of `e`, returns exactly the object `⟦e⟧`. -/
theorem C15_type_tokens (e : TyExpr) (hwf : e.wf = true) :
    autoTypeToks e.toks = .ok e.denote :=
  top_of_I (parse_all e hwf).2.1

/-- n-ary function types are right-nested arrows: `a -> b -> c` denotes `Arrow(a, Arrow(b, c))`,
    and this is what the parser returns. -/
theorem C15_type_arrows_right (a b c : TyExpr) (h : (arrow a (arrow b c)).wf = true) :
    autoTypeToks (arrow a (arrow b c)).toks
      = .ok (TyO.arrow a.denote (TyO.arrow b.denote c.denote)) := by
  rw [C15_type_tokens _ h]; rfl

/-- a parenthesised arrow on the left is an argument of function type -/
theorem C15_type_arrows_left (a b c : TyExpr) (h : (arrow (arrow a b) c).wf = true) :
    autoTypeToks (arrow (arrow a b) c).toks
      = .ok (TyO.arrow (TyO.arrow a.denote b.denote) c.denote) := by
  rw [C15_type_tokens _ h]; rfl

/-- the alternatives of `a | b` are those of `a` and those of `b` (in the order chosen by the
    library's `__or__`; equality of Sum objects ignores the order) -/
theorem C15_union_members (a b : TyO) : (members (tyOr a b)).Perm (members a ++ members b) := by
  obtain ⟨la, ka⟩ := a
  obtain ⟨lb, kb⟩ := b
  cases la <;> cases lb <;> simp [tyOr, members] <;>
    first
    | exact List.perm_append_comm
    | exact (List.perm_append_singleton _ _).symm

-- non-vacuity: `'a list -> ('a -> 'b[int | bool]) -> 'b[int | bool] optional`
def exFb : TyExpr := .fvar "b".toList (.union (.prim "int".toList) (.prim "bool".toList))
def exE : TyExpr :=
  arrow (.generic "list".toList (.var "a".toList)) (arrow (arrow (.var "a".toList) exFb) (.optional exFb))
example : exE.wf = true ∧ autoTypeToks exE.toks = .ok exE.denote ∧
    render (fun k => if k % 3 = 0 then 1 else 0) exE
      = " 'a list-> ('a-> 'b[int |bool] )->'b [int| bool]optional ".toList :=
  ⟨by decide, C15_type_tokens _ (by decide), by decide +kernel⟩

end PS.C15
