/- C15 (placeholder while the correspondence is brought up) -/
import PS.Model.Parse
namespace PS.C15
theorem C15_placeholder : True := trivial
end PS.C15
