/-
  C20 — Filters compose as predicates; obs-equivalence keeps one representative.
  Property theorems only (model: PS/Model/Filter.lean).
-/
import PS.Model.Filter
namespace PS.C20

/-! ## helper lemmas (local, about `acceptAll`/`acceptAny`) -/

theorem acceptAll_append (env : Nat → Bool) (a b : List Flt) :
    acceptAll env (a ++ b) = (acceptAll env a && acceptAll env b) := by
  induction a with
  | nil => simp [acceptAll]
  | cons x xs ih => simp [acceptAll, ih, Bool.and_assoc]

theorem acceptAny_append (env : Nat → Bool) (a b : List Flt) :
    acceptAny env (a ++ b) = (acceptAny env a || acceptAny env b) := by
  induction a with
  | nil => simp [acceptAny]
  | cons x xs ih => simp [acceptAny, ih, Bool.or_assoc]

/-! ## combinators -/

/-- `(f & g).accept(x) == (f.accept(x) and g.accept(x))` for all filters, whatever their
    nesting (both operands may already be intersections). -/
theorem C20_and (env : Nat → Bool) (f g : Flt) :
    accept env (mkInter f g) = (accept env f && accept env g) := by
  cases f <;> cases g <;>
    simp [mkInter, accept, acceptAll, acceptAll_append, Bool.and_comm]

/-- `(f | g).accept(x) == (f.accept(x) or g.accept(x))`. -/
theorem C20_or (env : Nat → Bool) (f g : Flt) :
    accept env (mkUnion f g) = (accept env f || accept env g) := by
  cases f <;> cases g <;>
    simp [mkUnion, accept, acceptAny, acceptAny_append, Bool.or_comm]

/-- `(-f).accept(x) == not f.accept(x)` (including the shortcut `-(-f) is f`). -/
theorem C20_neg (env : Nat → Bool) (f : Flt) :
    accept env (mkNeg f) = !(accept env f) := by
  cases f <;> simp [mkNeg, accept]

/-- `reject` is always the negation of `accept`. -/
theorem C20_reject (env : Nat → Bool) (f : Flt) : reject env f = !(accept env f) := rfl

/-- Every expression written with `&`, `|`, `-` accepts exactly the conjunction /
    disjunction / negation of what its atoms accept. -/
theorem C20_expr (env : Nat → Bool) (e : Expr) : accept env (build e) = sem env e := by
  induction e with
  | atom i => simp [build, accept, sem]
  | and a b iha ihb => simp [build, sem, C20_and, iha, ihb]
  | or a b iha ihb => simp [build, sem, C20_or, iha, ihb]
  | neg a ih => simp [build, sem, C20_neg, ih]

-- non-vacuity: the doubly nested case that used to recurse forever
example : accept (fun i => i % 2 == 0)
    (build (.and (.and (.atom 0) (.atom 2)) (.and (.atom 4) (.atom 1)))) = false := by decide
example : accept (fun i => i % 2 == 0)
    (build (.or (.or (.atom 1) (.atom 3)) (.or (.atom 5) (.atom 0)))) = true := by decide

/-! ## observational equivalence -/

/-- hashes of the accepted earlier presentations with key `k = (type, outputs)` -/
def accs (hist : List (Item × Bool)) (k : String × List String) : List Nat :=
  (hist.filter (fun jb => jb.2 && jb.1.ty == k.1 && jb.1.outs == some k.2)).map (·.1.h)

/-- cache ↔ history invariant: a key is in the cache iff an accepted presentation had it,
    and then every accepted presentation with that key has the cached hash. -/
def Inv (c : Cache) (hist : List (Item × Bool)) : Prop :=
  ∀ k, (AList.lookup k c = none → accs hist k = []) ∧
       (∀ h, AList.lookup k c = some h → accs hist k ≠ [] ∧ ∀ x ∈ accs hist k, x = h)

theorem accs_append (hist : List (Item × Bool)) (x : Item × Bool) (k) :
    accs (hist ++ [x]) k =
      accs hist k ++ (if (x.2 && x.1.ty == k.1 && x.1.outs == some k.2) = true then [x.1.h] else []) := by
  unfold accs
  rw [List.filter_append, List.map_append]
  congr 1
  by_cases h : (x.2 && x.1.ty == k.1 && x.1.outs == some k.2) = true
  · simp [h]
  · simp [h]

theorem accs_append_other (hist : List (Item × Bool)) (it : Item) (b : Bool) (o : List String)
    (ho : it.outs = some o) (k : String × List String) (hk : k ≠ (it.ty, o)) :
    accs (hist ++ [(it, b)]) k = accs hist k := by
  rw [accs_append]
  have : ¬ ((b && it.ty == k.1 && it.outs == some k.2) = true) := by
    intro h
    simp only [Bool.and_eq_true, beq_iff_eq, ho, Option.some.injEq] at h
    apply hk
    obtain ⟨k1, k2⟩ := k
    simp only [Prod.mk.injEq]
    exact ⟨h.1.2.symm, h.2.symm⟩
  simp [this]

theorem accs_append_rej (hist : List (Item × Bool)) (it : Item) (k) :
    accs (hist ++ [(it, false)]) k = accs hist k := by
  rw [accs_append]; simp

theorem accs_append_acc (hist : List (Item × Bool)) (it : Item) (o : List String)
    (ho : it.outs = some o) :
    accs (hist ++ [(it, true)]) (it.ty, o) = accs hist (it.ty, o) ++ [it.h] := by
  rw [accs_append]; simp [ho]

theorem specAccept_eq (hist : List (Item × Bool)) (it : Item) (o : List String)
    (ho : it.outs = some o) :
    specAccept hist it = (accs hist (it.ty, o)).all (fun x => x == it.h) := by
  unfold specAccept accs
  rw [ho]
  simp only [Option.isSome_some, Bool.true_and, List.all_map, List.all_filter]
  congr 1
  funext jb
  cases jb.2 <;> cases (jb.1.ty == it.ty) <;> cases (jb.1.outs == some o) <;>
    cases hh : (jb.1.h == it.h) <;> simp [hh, bne]

theorem Inv_rej (c : Cache) (hist : List (Item × Bool)) (it : Item) (hinv : Inv c hist) :
    Inv c (hist ++ [(it, false)]) := by
  intro k
  rw [accs_append_rej]
  exact hinv k

theorem Inv_acc (c : Cache) (hist : List (Item × Bool)) (it : Item) (o : List String)
    (ho : it.outs = some o) (hinv : Inv c hist)
    (hall : ∀ x ∈ accs hist (it.ty, o), x = it.h) :
    Inv (AList.insert (it.ty, o) it.h c) (hist ++ [(it, true)]) := by
  intro k
  by_cases hk : k = (it.ty, o)
  · subst hk
    rw [AList.lookup_insert_self, accs_append_acc hist it o ho]
    refine ⟨fun h => (nomatch h), ?_⟩
    intro h hh
    cases hh
    refine ⟨by simp, ?_⟩
    intro x hx
    rw [List.mem_append] at hx
    rcases hx with hx | hx
    · exact hall x hx
    · simpa using hx
  · rw [AList.lookup_insert_ne _ _ hk, accs_append_other hist it true o ho k hk]
    exact hinv k

theorem step_spec (c : Cache) (hist : List (Item × Bool)) (it : Item) (hinv : Inv c hist) :
    (step c it).2 = specAccept hist it ∧ Inv (step c it).1 (hist ++ [(it, (step c it).2)]) := by
  cases ho : it.outs with
  | none =>
    have hs : step c it = (c, false) := by simp [step, ho]
    rw [hs]
    exact ⟨by simp [specAccept, ho], Inv_rej c hist it hinv⟩
  | some o =>
    obtain ⟨hk1, hk2⟩ := hinv (it.ty, o)
    cases hl : AList.lookup (it.ty, o) c with
    | none =>
      have hs : step c it = (AList.insert (it.ty, o) it.h c, true) := by simp [step, ho, hl]
      have hnil := hk1 hl
      rw [hs]
      refine ⟨by rw [specAccept_eq hist it o ho, hnil]; rfl, ?_⟩
      exact Inv_acc c hist it o ho hinv (by rw [hnil]; intro x hx; cases hx)
    | some h' =>
      obtain ⟨hne, hall⟩ := hk2 h' hl
      by_cases hh : h' = it.h
      · have hs : step c it = (AList.insert (it.ty, o) it.h c, true) := by
          simp [step, ho, hl, hh]
        rw [hs]
        have hall' : ∀ x ∈ accs hist (it.ty, o), x = it.h := fun x hx => (hall x hx).trans hh
        refine ⟨?_, Inv_acc c hist it o ho hinv hall'⟩
        rw [specAccept_eq hist it o ho]
        symm
        rw [List.all_eq_true]
        intro x hx
        simp [hall' x hx]
      · have hs : step c it = (c, false) := by simp [step, ho, hl, hh]
        rw [hs]
        refine ⟨?_, Inv_rej c hist it hinv⟩
        rw [specAccept_eq hist it o ho]
        symm
        cases hacc : accs hist (it.ty, o) with
        | nil => exact absurd hacc hne
        | cons x rest =>
          have := hall x (by simp [hacc])
          simp [this, hh]

theorem runFrom_spec (c : Cache) (hist : List (Item × Bool)) (items : List Item)
    (hinv : Inv c hist) : runFrom c items = specRunFrom hist items := by
  induction items generalizing c hist with
  | nil => rfl
  | cons it rest ih =>
    obtain ⟨h1, h2⟩ := step_spec c hist it hinv
    simp only [runFrom, specRunFrom]
    rw [h1] at h2 ⊢
    rw [ih _ _ h2]

/-- **C20 (obs-equivalence).**  For every sequence of presentations (with repetitions),
    the filter's verdicts are exactly: "evaluates on all reference inputs and no previously
    accepted program of the same type with the same outputs is a different program". -/
theorem C20_obseq (items : List Item) : run items = specRun items := by
  apply runFrom_spec
  intro k
  simp [accs, AList.lookup]

/-- Re-presenting an accepted program accepts it again: if `it` is accepted after history
    `hist` (as specified), it is accepted again right after. -/
theorem C20_represent (hist : List (Item × Bool)) (it : Item)
    (h : specAccept hist it = true) :
    specAccept (hist ++ [(it, true)]) it = true := by
  unfold specAccept at *
  simp only [Bool.and_eq_true, List.all_append, List.all_cons, List.all_nil] at *
  refine ⟨h.1, h.2, ?_⟩
  simp

/-- Accepted presentations are pairwise distinguishable: two accepted presentations of
    different programs (different hashes) never have the same type and the same outputs. -/
theorem C20_distinguishable (hist : List (Item × Bool)) (it : Item)
    (h : specAccept hist it = true) :
    ∀ jb ∈ hist, jb.2 = true → jb.1.h ≠ it.h → ¬ (jb.1.ty = it.ty ∧ jb.1.outs = it.outs) := by
  intro jb hjb hacc hne ⟨h1, h2⟩
  unfold specAccept at h
  simp only [Bool.and_eq_true, List.all_eq_true] at h
  have := h.2 jb hjb
  simp [hacc, h1, h2, hne] at this

/-- Every behaviour seen has a representative: a presentation that evaluates and is rejected
    is rejected *because* an accepted one with the same type and outputs exists. -/
theorem C20_representative (hist : List (Item × Bool)) (it : Item)
    (hev : it.outs.isSome = true) (h : specAccept hist it = false) :
    ∃ jb ∈ hist, jb.2 = true ∧ jb.1.ty = it.ty ∧ jb.1.outs = it.outs := by
  unfold specAccept at h
  simp only [hev, Bool.true_and] at h
  rw [List.all_eq_false] at h
  obtain ⟨jb, hjb, hx⟩ := h
  refine ⟨jb, hjb, ?_⟩
  simp only [Bool.not_eq_true, Bool.not_eq_false', Bool.and_eq_true, beq_iff_eq] at hx
  exact ⟨hx.1.1.1, hx.1.1.2, hx.1.2⟩

-- non-vacuity: a history with a failure, a duplicate behaviour and a re-presentation
example : run [⟨0, "int", 10, some ["1"]⟩, ⟨1, "int", 11, some ["1"]⟩, ⟨2, "int", 12, none⟩,
               ⟨0, "int", 10, some ["1"]⟩, ⟨3, "bool", 13, some ["1"]⟩]
    = [true, false, false, true, true] := by decide

end PS.C20
