/- C02, part bee (bee search): theorems about the machine PS.Bee (lean/PS/Model/Enum/BeeSearch.lean), the
   small-step transcription of synth/syntax/grammars/enumeration/bee_search.py.  Every theorem is about every
   grammar, cost table, rule order, filter, fuel and HISTORY (interleaving of `take k` and `merge_program`). -/
import PS.Proofs.Enum.BeeSoundRun
import PS.Proofs.Enum.BeeNodupRun
import PS.Proofs.Enum.BeeCover
import PS.Proofs.Enum.BeeOffer
import Mathlib.Data.List.Perm.Subperm
namespace PS.C02Bee
open PS PS.G PS.Bee

variable {S : Type} [DecidableEq S]

/-! ### example grammars -/
def cInt : Ty := .base "int"
def cOne : Sym := Sym.prim "1" cInt
def cX : Sym := Sym.var 0 cInt
def cPlus : Sym := Sym.prim "+" (.arrow cInt (.arrow cInt cInt))
def cn (k : Nat) : NT Nat Unit := (cInt, (k, ()))
/-- `int0 -> 1 | (+ int1 int1)`, `int1 -> 1 | var0`: five programs -/
def cG : TT Nat Unit := ⟨cn 0, [(cn 0, [(cOne, ([], ())), (cPlus, ([(cInt, 1), (cInt, 1)], ()))]),
                               (cn 1, [(cOne, ([], ())), (cX, ([], ()))])]⟩
def cW : AList (NT Nat Unit) (AList Sym Int) := [(cn 0, [(cOne, 1), (cPlus, 2)]), (cn 1, [(cOne, 1), (cX, 2)])]
def cE : Env Nat := { G := cG, W := cW, progs0 := 5 }

/-- the chain grammar of finding C02-F6: `b -> g a`, `a -> h c`, `c -> k`, every rule of probability 1 = cost 0 -/
def fT (n : String) : Ty := .base n
def fG : TT Nat Unit := ⟨(fT "b", (0, ())), [((fT "b", (0, ())), [(Sym.prim "g" .unknown, ([(fT "a", 1)], ()))]),
                                             ((fT "a", (1, ())), [(Sym.prim "h" .unknown, ([(fT "c", 2)], ()))]),
                                             ((fT "c", (2, ())), [(Sym.prim "k" .unknown, ([], ()))])]⟩
def fW : AList (NT Nat Unit) (AList Sym Int) :=
  [((fT "b", (0, ())), [(Sym.prim "g" .unknown, 0)]), ((fT "a", (1, ())), [(Sym.prim "h" .unknown, 0)]),
   ((fT "c", (2, ())), [(Sym.prim "k" .unknown, 0)])]
def fE : Env Nat := { G := fG, W := fW, progs0 := 1 }
def fProg : Prog := .node (Sym.prim "g" .unknown) [.node (Sym.prim "h" .unknown) [.node (Sym.prim "k" .unknown) []]]

/-! ### 1. SOUNDNESS as a state invariant

`GInv E g` = `SInv` on the tables (every program of `_bank[S][i]` is derivable from `S` — specification
`PS.G.gen` — and `_cost_list[i]` is its true cost `pcost`, the sum of the costs of the rules of its derivation;
every queued `HeapElement` carries the real cost of its combination) + the data of the suspended loops
(`cost_index` points at the cost of the round; the pending candidate programs are members of that cost). -/

/-- the enumerator built by `__init__` satisfies the invariant -/
theorem C02_Bee_inv_init (E : Env S) (g0 : Gen S) (h : Gen.new E = some g0) : GInv E g0 := (ginv_new E g0 h).1

/-- one control point to the next keeps the invariant; a yielded program is derivable from the start symbol,
    its cost is the cost of the round, the filter accepts it and it was not deleted -/
theorem C02_Bee_sound_step (E : Env S) (g g' : Gen S) (out : Option Prog) (h : step E g = some (g', out))
    (hi : GInv E g) :
    GInv E g' ∧ ∀ p, out = some p → gen E.G p E.G.start = true ∧ g.phase.cost? = some (pcost E p E.G.start) ∧
      E.filter p = true ∧ g.st.deleted.contains p = false := step_sound E g g' out h hi

/-- `merge_program` keeps the invariant -/
theorem C02_Bee_merge_inv (E : Env S) (g : Gen S) (other : Prog) (ty : Ty) (hi : GInv E g) :
    GInv E (merge E g other ty) := merge_sound E g other ty hi

/-- **NOTHING OUTSIDE THE LANGUAGE**, every history: whatever bee search yields, along any interleaving of
    `next` calls and merge declarations, with any filter, cost table and fuel, is derivable from the start symbol -/
theorem C02_Bee_sound (E : Env S) (fuel : Nat) (acts : List Act) (g0 g : Gen S) (out : List Prog)
    (h0 : Gen.new E = some g0) (h : runActs E fuel acts g0 [] = some (g, out)) :
    ∀ p ∈ out, gen E.G p E.G.start = true :=
  fun p hp => ((runActs_sound E fuel acts g0 g [] out h (ginv_new E g0 h0).1 (by simp)).2 p hp).1

/-- the state invariant after any history: every program of a bank is derivable from the bank's non-terminal
    and is stored under the index of its true cost -/
theorem C02_Bee_bank_sound (E : Env S) (fuel : Nat) (acts : List Act) (g0 g : Gen S) (out : List Prog)
    (h0 : Gen.new E = some g0) (h : runActs E fuel acts g0 [] = some (g, out)) :
    ∀ nt b, (nt, b) ∈ g.st.bank → ∀ ci ps, (ci, ps) ∈ b → ∀ p ∈ ps,
      gen E.G p nt = true ∧ g.st.costList[ci]? = some (pcost E p nt) :=
  (runActs_sound E fuel acts g0 g [] out h (ginv_new E g0 h0).1 (by simp)).1.st.bank

/-- every queued element carries the real cost of its combination, after any history -/
theorem C02_Bee_queue_sound (E : Env S) (fuel : Nat) (acts : List Act) (g0 g : Gen S) (out : List Prog)
    (h0 : Gen.new E = some g0) (h : runActs E fuel acts g0 [] = some (g, out)) :
    ∀ nt q, (nt, q) ∈ g.st.queued → ∀ e ∈ q, realCost E g.st.costList nt e.P e.combo = some e.cost :=
  (runActs_sound E fuel acts g0 g [] out h (ginv_new E g0 h0).1 (by simp)).1.st.queue

/-- non-vacuity: on the example the machine runs, yields the five programs and stops -/
example : ((Gen.new cE).bind fun g => runActs cE 1000 [.take 10] g []).map (fun r => r.2.length) = some 5 := by
  decide +kernel
example : ((Gen.new cE).bind fun g => runActs cE 1000 [.take 3, .merge (.node cOne []) cInt, .take 1] g []).map
    (fun r => r.2.length) = some 4 := by
  decide +kernel

/-! ### 2. NO DUPLICATES (any filter, no merge declaration)

The frontier rule "increment index i until the first index > 1" (bee_search.py:210-218) is `PS.CD.succs` (shared with
constant-delay search, `C02_Cd_successor_bijection`: every non-zero index tuple has exactly one predecessor).  The state
invariant `GN` (PS/Proofs/Enum/BeeNodup*.lean): for every rule the PENDING combinations (queued or delayed, all rows)
form a frontier of the successor forest (no tuple twice, none an ancestor of another); every banked program has a SOURCE,
an expanded combination (strict ancestor of a pending one) of its rule whose i-th index is the bank index of the i-th
argument; a program occurs in at most one index of the bank of a non-terminal, once.  A popped combination is still
pending, so no banked program can have it as source: every candidate program is new.
Hypotheses (decidable on the case, evaluated by the driver): `dictOK` (looking a listed rule up finds it) and
`initFrontOK` (the fresh enumerator queues no (rule, combination) pair twice — true iff the rule table has no duplicate
keys).  Full statement incl. merge declarations: NOT proved (after a merge, `other` leaves the banks, the source of its
parents is gone; the implementation still yields each program at most once in every compared case). -/

/-- one step keeps the no-duplicates invariant; banks only grow; a yielded program was in no index of the start symbol's
    bank before the step and is in it afterwards -/
theorem C02_Bee_nodup_step (E : Env S) (g g' : Gen S) (out : Option Prog) (h : step E g = some (g', out)) (hi : GN E g) :
    GN E g' ∧ (∀ nt ci p, inBank g.st nt ci p → inBank g'.st nt ci p) ∧
      ∀ p, out = some p → (∀ cj, ¬ inBank g.st E.G.start cj p) ∧ ∃ ci, inBank g'.st E.G.start ci p :=
  step_nodup E g g' out h hi

/-- **EACH PROGRAM AT MOST ONCE** (partial: no merge declaration in the history; any filter, grammar — finite or
    recursive —, cost table, rule order, fuel): the yielded sequence is duplicate-free -/
theorem C02_Bee_nodup_partial (E : Env S) (hd : dictOK E = true) (hf : initFrontOK E = true) (fuel : Nat) (acts : List Act)
    (hacts : acts.all Act.isTake = true) (g0 g : Gen S) (out : List Prog) (h0 : Gen.new E = some g0)
    (h : runActs E fuel acts g0 [] = some (g, out)) : out.Nodup :=
  (runActs_nodup E fuel acts g0 g [] out hacts h (gn_new E (dictOK_of_check E hd) hf g0 h0) ⟨by simp, by simp⟩).2.1

/-- **A PROGRAM ENTERS `_bank[S]` AT MOST ONCE**: after any such history every list of every bank is duplicate-free and a
    program sits in at most one cost index of a non-terminal's bank -/
theorem C02_Bee_bank_nodup_partial (E : Env S) (hd : dictOK E = true) (hf : initFrontOK E = true) (fuel : Nat) (acts : List Act)
    (hacts : acts.all Act.isTake = true) (g0 g : Gen S) (out : List Prog) (h0 : Gen.new E = some g0)
    (h : runActs E fuel acts g0 [] = some (g, out)) :
    (∀ nt ci ps, AList.lookup ci (g.st.bankOf nt) = some ps → ps.Nodup) ∧
    (∀ nt ci cj p, inBank g.st nt ci p → inBank g.st nt cj p → ci = cj) ∧
    ∀ nt P, Frontier (pend g.st nt P) := by
  have := (runActs_nodup E fuel acts g0 g [] out hacts h (gn_new E (dictOK_of_check E hd) hf g0 h0) ⟨by simp, by simp⟩).1.st
  exact ⟨this.bankNd, this.bankU, this.front⟩

/-- **THE FRONTIER RULE REACHES EVERY INDEX COMBINATION, EACH ONCE**: after any history without merge declarations, for
    every rule `(S, P)` of the table and every index combination `c` of the rule's arity, `c` is expanded (popped: a strict
    ancestor of a pending combination), or pending (queued or delayed), or a descendant of a pending combination — and the
    pending combinations are pairwise distinct and none is an ancestor of another, so `c` is in exactly one of the three
    cases and is (or will be) pushed exactly once.  Decidable hypotheses: `dictOK`, `initFrontOK`, `initCoverOK` (the
    fresh enumerator holds the root `(0,…,0)` of every listed rule). -/
theorem C02_Bee_frontier_cover_partial (E : Env S) (hd : dictOK E = true) (hf : initFrontOK E = true)
    (hc : initCoverOK E = true) (fuel : Nat) (acts : List Act) (hacts : acts.all Act.isTake = true) (g0 g : Gen S)
    (out : List Prog) (h0 : Gen.new E = some g0) (h : runActs E fuel acts g0 [] = some (g, out)) :
    ∀ nt P args, ruleArgs E nt P = some args → ∀ c : List Nat, c.length = args.length →
      Frontier (pend g.st nt P) ∧ Cov (pend g.st nt P) c ∧ (Done (pend g.st nt P) c → c ∉ pend g.st nt P) := by
  intro nt P args ha c hcl
  have hgn := gn_new E (dictOK_of_check E hd) hf g0 h0
  have h1 := (runActs_nodup E fuel acts g0 g [] out hacts h hgn ⟨by simp, by simp⟩).1.st.front nt P
  have h2 := runActs_cover E fuel acts g0 g [] out hacts h hgn ⟨by simp, by simp⟩ (cov_new E hc g0 h0) nt P args ha c hcl
  exact ⟨h1, h2, fun hd' => Done.not_mem h1 hd'⟩

/-- **COMPLETE WHEN THE COUNT IS REACHED** (partial correctness of the stop condition of the code as it is): bee search's
    loop stops on the program count `G.programs()`.  If `L` lists the members of the grammar and the enumerator has yielded
    at least `L.length` programs (no merge declaration; any filter), then it has yielded EXACTLY the language, each program
    once: soundness + no duplicates + counting.  (That the count IS reached — termination — is not proved: it is false when
    a rule with arguments costs 0, finding C02-F6, and with a rejecting filter, finding C12-F11.) -/
theorem C02_Bee_count_complete_partial (E : Env S) (hd : dictOK E = true) (hf : initFrontOK E = true) (fuel : Nat)
    (acts : List Act) (hacts : acts.all Act.isTake = true) (g0 g : Gen S) (out : List Prog) (h0 : Gen.new E = some g0)
    (h : runActs E fuel acts g0 [] = some (g, out)) (L : List Prog) (hL : ∀ p, gen E.G p E.G.start = true → p ∈ L)
    (hcount : L.length ≤ out.length) : out.Perm L := by
  have hnd := C02_Bee_nodup_partial E hd hf fuel acts hacts g0 g out h0 h
  have hsub : out ⊆ L := fun p hp => hL p (C02_Bee_sound E fuel acts g0 g out h0 h p hp)
  exact (List.subperm_of_subset hnd hsub).perm_of_length_le hcount

example : dictOK cE = true ∧ initFrontOK cE = true ∧ initCoverOK cE = true := by decide +kernel
example : ((Gen.new cE).bind fun g => runActs cE 1000 [.take 3, .take 10] g []).map (fun r => decide r.2.Nodup && decide (r.2.length = 5)) = some true := by
  decide +kernel

/-! ### 3. the local steps of completeness (the global statement is NOT proved: compared only)

Blueprint (DESIGN B.1): (i) the frontier rule reaches every index combination exactly once — `C02_Bee_frontier_cover_partial`;
(ii) an expansion offers EVERY program that can be built from the argument banks at its indices, and takes the "failed"
branch only when there is none — below; (iii) each offered program is banked unless rejected or deleted — below;
(iv) no program arrives in an argument bank AFTER a combination using its index was expanded: true only when rules with
arguments cost > 0 (`posArgCosts`), false otherwise (finding C02-F6); NOT proved. -/

/-- (ii) "Generate programs" (bee_search.py:220-239): if every argument bank at the popped combination's index is non-empty,
    every tuple of argument programs from those banks is in the product that is offered to `_add_program_` -/
theorem C02_Bee_expansion_offers_all (s : St S) (combo : List Nat) (args : List (Ty × S)) (aps : List (List Prog))
    (h : argsPossibles s combo args 0 = some (some aps)) (kids : List Prog) (hlen : kids.length = args.length)
    (hk : ∀ (j : Nat) (a : Ty × S) (k : Prog) (v : Nat), args[j]? = some a → kids[j]? = some k → combo[j]? = some v →
      inBank s (a.1, (a.2, ())) v k)
    (hcombo : args.length ≤ combo.length) : kids ∈ product aps := offers_all s combo args aps h kids hlen hk hcombo

/-- (ii) the "failed" branch (bee_search.py:224-229) is taken only when NO program can be built from the banks -/
theorem C02_Bee_failed_branch_empty (s : St S) (combo : List Nat) (args : List (Ty × S))
    (h : argsPossibles s combo args 0 = some none) :
    ¬ ∃ kids : List Prog, kids.length = args.length ∧
      ∀ (j : Nat) (a : Ty × S) (k : Prog) (v : Nat), args[j]? = some a → kids[j]? = some k → combo[j]? = some v →
        inBank s (a.1, (a.2, ())) v k := by
  have := no_offer s combo args 0 h
  simpa using this

/-- (iii) `_add_program_`: an offered program is banked at the cost index, or the filter rejects it (and it is recorded in
    `_deleted`), or it was already in `_deleted` -/
theorem C02_Bee_add_program_cases (E : Env S) (s : St S) (nt : NT S Unit) (p : Prog) (ci : Nat) :
    ((addProgram E s nt p ci).2 = true ∧ inBank (addProgram E s nt p ci).1 nt ci p) ∨
    ((addProgram E s nt p ci).2 = false ∧ E.filter p = false ∧ (addProgram E s nt p ci).1.deleted.contains p = true) ∨
    ((addProgram E s nt p ci).2 = false ∧ s.deleted.contains p = true) := by
  unfold addProgram
  by_cases hd : s.deleted.contains p = true
  · rw [if_pos hd]; exact Or.inr (Or.inr ⟨rfl, hd⟩)
  · rw [if_neg hd]
    by_cases hf : E.filter p = true
    · have hnf : ¬ ((!E.filter p) = true) := by simp [hf]
      rw [if_neg hnf]
      refine Or.inl ⟨rfl, ?_⟩
      unfold inBank
      simp only [St.bankOf, AList.lookup_insert_self, Option.getD_some]
      exact (inBank_append _ ci ci p p).mpr (Or.inr ⟨rfl, rfl⟩)
    · have hnf : (!E.filter p) = true := by simpa using hf
      rw [if_pos hnf]
      refine Or.inr (Or.inl ⟨rfl, by simpa using hf, ?_⟩)
      simp

/-! ### finding C02-F6: a rule with arguments of cost 0 loses programs -/

/-- on the chain grammar `b -> g a, a -> h c, c -> k` with every rule of probability 1 (integer cost 0) the
    machine — like `list(enumerate_prob_grammar(ProbDetGrammar.uniform(cfg)))` — stops without yielding the
    only program `(g (h k))` of the language -/
theorem finding_C02_F6 :
    ((Gen.new fE).bind fun g => take fE 1000 5 g []).map (fun r => (r.2.1, r.2.2)) = some ([], true) ∧
    gen fG fProg fG.start = true ∧ posArgCosts fE = false := by
  decide +kernel

end PS.C02Bee
