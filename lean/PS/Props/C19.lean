/-
  Property C19 — prediction layers turn any tensor into a normalised, consistent grammar.

  The theorems are about the model PS/Model/Predictor.lean instantiated with the real numbers
  (`Real.exp`, `Real.log`); they hold for EVERY layer (any grammars, any abstraction function,
  any iteration order of the sets), every tensor `x : List ℝ`, every `0 < v < 1`, `0 ≤ ε`.
  What they do not cover: IEEE rounding and overflow (the compiled driver runs the same
  definitions on `Float`; the correspondence run states its tolerances).

  Hypotheses that appear:
    * `wfRules rules` — the keys of every rule table are distinct (true of every Python dict);
    * `hypEps …` — the ordering trick keeps its arguments of `log` positive: `m·ε < p` where
      `p = (v or 1)/(m+c)` (decidable on the numbers; with ε = 1e-7 it holds whenever a
      non-terminal has fewer than about 700 variables for v = 0.05);
    * the model returned a grammar (`= some tags`): no KeyError/IndexError, i.e. the layer was
      built from grammars containing the one asked for and the tensor is long enough.
-/
import PS.Proofs.Predictor
import PS.Proofs.PredictorIndex
import PS.Proofs.PredictorSoftmax
namespace PS.Predictor
open PS

/-! ## Deterministic layer -/

/-- **C19_norm (det).** At every non-terminal `S` that has at least one rule, the weights
    `exp(tag)` of the grammar built from ANY tensor sum to `1 - ε·(m(m-1)/2 + c·m)`
    (`specNorm`; exactly 1 when `total_variable_order = False`), where `m`, `c` are the numbers
    of variable and constant rules of `S`. -/
theorem C19_norm_det (L : Layer) (v ε : ℝ) (tvo : Bool) (rules : AList NT (AList DP (List NT)))
    (x : List ℝ) (tags : AList NT (AList DP ℝ))
    (h : tensor2logProbDet L v ε tvo rules x = some tags)
    (hv0 : 0 < v) (hv1 : v < 1) (hε : 0 ≤ ε) (hwf : wfRules rules = true) :
    List.Forall₂ (fun e t => t.1 = e.1 ∧
        (e.2 ≠ [] →
         hypEps v ε tvo (decide (0 < countKind .prim e.2)) (countKind .var e.2) (countKind .const e.2) = true →
         expSum t.2 = specNorm ε tvo (countKind .var e.2) (countKind .const e.2))) rules tags := by
  have hf := allSomeL_forall₂_of _ (fun e => (AList.keys e.2).Nodup) rules tags h (wfRules_mem hwf)
  refine hf.imp ?_
  intro e t ⟨hnd, het⟩
  obtain ⟨h1, h2, h3⟩ := tagEntryDet_mass L v ε tvo _ e t het hv0 hv1 hε hnd (fun _ => true) true true
    (fun _ _ => rfl) (fun _ _ => rfl)
  refine ⟨h1, ?_⟩
  intro hne hhyp
  rw [expSum_eq_mass]
  by_cases hmc : 0 < countKind .var e.2 + countKind .const e.2
  · rw [h2 hmc hhyp]; simp only [if_true, specNorm, ofNat_real]; push_cast; ring
  · have hmc0 : countKind .var e.2 + countKind .const e.2 = 0 := by omega
    have hnp : 0 < countKind .prim e.2 := by
      -- a non-empty rule table without variables and constants has a primitive
      unfold countKind at hmc0 ⊢
      have hk : AList.keys e.2 ≠ [] := by
        intro hk; apply hne; cases he : e.2 with
        | nil => rfl
        | cons p r => rw [he] at hk; simp [AList.keys] at hk
      obtain ⟨P, hP⟩ := List.exists_mem_of_ne_nil _ hk
      have hv : P ∉ (AList.keys e.2).filter (kindIs .var) := by
        rw [List.eq_nil_of_length_eq_zero (by omega : ((AList.keys e.2).filter (kindIs .var)).length = 0)]; simp
      have hc : P ∉ (AList.keys e.2).filter (kindIs .const) := by
        rw [List.eq_nil_of_length_eq_zero (by omega : ((AList.keys e.2).filter (kindIs .const)).length = 0)]; simp
      have hp : P ∈ (AList.keys e.2).filter (kindIs .prim) := by
        simp only [List.mem_filter, kindIs, decide_eq_true_eq] at hv hc ⊢
        refine ⟨hP, ?_⟩
        cases hk : P.kind with
        | prim => rfl
        | var => exact absurd ⟨hP, hk⟩ hv
        | const => exact absurd ⟨hP, hk⟩ hc
      exact List.length_pos_of_mem hp
    rw [h3 hmc0 hnp]
    have h0 : countKind .var e.2 = 0 := by omega
    have h0' : countKind .const e.2 = 0 := by omega
    simp [specNorm, epsTerm_real, h0, h0', tri]

/-- **C19_varmass (det).** Whenever `S` has a variable or a constant, variables and constants
    together receive exactly `variable_probability` if other rules exist (and everything
    otherwise), minus the ε-term of the ordering trick (`specVarMass`); the primitive rules
    receive the rest, `1 - variable_probability`. -/
theorem C19_varmass_det (L : Layer) (v ε : ℝ) (tvo : Bool) (rules : AList NT (AList DP (List NT)))
    (x : List ℝ) (tags : AList NT (AList DP ℝ))
    (h : tensor2logProbDet L v ε tvo rules x = some tags)
    (hv0 : 0 < v) (hv1 : v < 1) (hε : 0 ≤ ε) (hwf : wfRules rules = true) :
    List.Forall₂ (fun e t => t.1 = e.1 ∧
        (0 < countKind .var e.2 + countKind .const e.2 →
         hypEps v ε tvo (decide (0 < countKind .prim e.2)) (countKind .var e.2) (countKind .const e.2) = true →
         expSum (t.2.filter (fun z => z.1.kind ≠ .prim))
            = specVarMass v ε tvo (decide (0 < countKind .prim e.2)) (countKind .var e.2) (countKind .const e.2)
         ∧ expSum (t.2.filter (fun z => z.1.kind = .prim))
            = 1 - (if 0 < countKind .prim e.2 then v else 1))) rules tags := by
  have hf := allSomeL_forall₂_of _ (fun e => (AList.keys e.2).Nodup) rules tags h (wfRules_mem hwf)
  refine hf.imp ?_
  intro e t ⟨hnd, het⟩
  obtain ⟨h1, h2, _⟩ := tagEntryDet_mass L v ε tvo _ e t het hv0 hv1 hε hnd selVar false true
    (fun P hP => by simp [selVar, kindIs, hP]) (fun P hP => by simp [selVar, kindIs, hP])
  obtain ⟨_, h2', _⟩ := tagEntryDet_mass L v ε tvo _ e t het hv0 hv1 hε hnd selPrim true false
    (fun P hP => by simp [selPrim, kindIs, hP]) (fun P hP => by simp [selPrim, kindIs, hP])
  refine ⟨h1, ?_⟩
  intro hmc hhyp
  constructor
  · have : (fun z : DP × ℝ => decide (z.1.kind ≠ Kind.prim)) = (fun z => selVar z.1) := by
      funext z; simp [selVar, kindIs]
    rw [this, expSum_filter_eq_mass, h2 hmc hhyp]
    simp only [specVarMass]
    by_cases hnp : 0 < countKind .prim e.2 <;> simp [hnp]
  · have : (fun z : DP × ℝ => decide (z.1.kind = Kind.prim)) = (fun z => selPrim z.1) := by
      funext z; simp [selPrim, kindIs]
    rw [this, expSum_filter_eq_mass, h2' hmc hhyp]
    simp

/-- **C19_positive (det).** Every rule weight `exp(tag)` is positive.  (Over ℝ this is a property
    of `exp`; its content is that every tag is a real number, which on floats means: finite —
    the arguments of `log` in the computation are positive under `hypEps`, see `next_nvl`,
    `tagNT_mass_vars`.) -/
theorem C19_positive_det (tags : AList NT (AList DP ℝ)) :
    ∀ e ∈ toProbDet tags, ∀ z ∈ e.2, 0 < z.2 := by
  intro e he z hz
  simp only [toProbDet, List.mem_map] at he
  obtain ⟨e0, _, rfl⟩ := he
  simp only [List.mem_map] at hz
  obtain ⟨z0, _, rfl⟩ := hz
  exact Real.exp_pos _

/-- **C19_prim_weight (det).** Which entry of the tensor feeds which rule: for every non-terminal `S`
    and every primitive rule `P` of `S`, the tag is read at the position `posOf L S P` — the one
    `encode` marks for `(S, P)` (`C19_encode_det`) — of the slice-wise normalised tensor, and
    `exp(tag) = c · exp(y_P) / Σ_{Q primitive rule of S} exp(y_Q)`: the softmax re-normalised over the
    rules derivable from `S`, with `c = 1 - variable_probability` when `S` has variables or
    constants and `c = 1` otherwise.  (`prim` is the table `P ↦ y_P`, `y_P = (x[start:start+length])[index P]`.) -/
theorem C19_prim_weight_det (L : Layer) (v ε : ℝ) (tvo : Bool) (rules : AList NT (AList DP (List NT)))
    (x : List ℝ) (tags : AList NT (AList DP ℝ))
    (h : tensor2logProbDet L v ε tvo rules x = some tags) (hwf : wfRules rules = true) :
    List.Forall₂ (fun e t => t.1 = e.1 ∧
      ∃ prim : AList DP ℝ, AList.keys prim = (AList.keys e.2).filter (kindIs .prim) ∧
        ∀ P ∈ AList.keys e.2, P.kind = .prim →
          ∃ pos y, posOf L e.1 P = some pos ∧ AList.lookup P prim = some y
            ∧ (∃ key start length sym i, AList.lookup e.1 L.real2abs = some key
                ∧ AList.lookup key L.abs2index = some (start, length, sym) ∧ AList.lookup P sym = some i
                ∧ pos = start + i ∧ (slice (normalize L.abs2index x) start length)[i]? = some y)
            ∧ AList.lookup P t.2 = some (y + Real.log
                ((if countKind .var e.2 + countKind .const e.2 = 0 then 1 else 1 - v) / expSum prim))) rules tags := by
  have hf := allSomeL_forall₂_of _ (fun e => (AList.keys e.2).Nodup) rules tags h (wfRules_mem hwf)
  refine hf.imp ?_
  intro e t ⟨hnd, het⟩
  have h1 : t.1 = e.1 := by
    unfold tagEntryDet at het
    cases h1 : AList.lookup e.1 L.real2abs with
    | none => simp [h1] at het
    | some key =>
      cases h2 : AList.lookup key L.abs2index with
      | none => simp [h1, h2] at het
      | some idx =>
        obtain ⟨start, length, sym⟩ := idx
        simp only [h1, h2] at het
        cases h3 : primTags sym (slice (normalize L.abs2index x) start length) (AList.keys e.2) [] with
        | none => simp [h3] at het
        | some prim => simp only [h3, Option.some.injEq] at het; rw [← het]
  refine ⟨h1, ?_⟩
  obtain ⟨prim, hk, hP⟩ := tagEntryDet_prim L v ε tvo _ e t het hnd
  refine ⟨prim, hk, ?_⟩
  intro P hPm hkP
  obtain ⟨pos, y, a1, a2, a3, a4⟩ := hP P hPm hkP
  exact ⟨pos, y, a1, a2, a3, by rw [expSum_eq_mass]; exact a4⟩

/-- **C19_consistent (det).** If `log_probability t` returns `lp` then the program has a
    derivation from the start symbol and `exp lp` is the product of the converted weights
    (`to_prob_det_grammar`) along that derivation — `derivWeightDet`, the probability the
    converted grammar gives to the derivation. -/
theorem C19_consistent_det (rules : AList NT (AList DP (List NT))) (start : NT)
    (tags : AList NT (AList DP ℝ)) (t : Prog) (lp : ℝ)
    (h : logProbabilityDet rules start tags t = some lp) :
    derivWeightDet rules start (toProbDet tags) t = some (Real.exp lp) :=
  consistent_det rules start tags t lp h

/-- **C19_encode (det).** If `encode t` returns a vector, then `t` has a derivation `d` from the
    start symbol and the vector is the indicator of exactly the positions
    `start(abs S) + index(P)` of the primitive rules `(S, P)` of `d` (all inside the tensor). -/
theorem C19_encode_det (L : Layer) (rules : AList NT (AList DP (List NT))) (start : NT) (t : Prog)
    (out : List ℕ) (h : encodeDet L rules start t = some out) :
    ∃ d i n, derivDet rules t start [] = some (d, i, n)
      ∧ out = indicator L.outputSize (positionsOf L d)
      ∧ ∀ p ∈ positionsOf L d, p < L.outputSize :=
  encode_det L rules start t out h

/-- `reduce_derivations` of a deterministic grammar is the fold of the reducer over the
    left-most derivation (used by both theorems above; stated for every reducer). -/
theorem C19_reduce_is_fold {β : Type} (rules : AList NT (AList DP (List NT)))
    (f : β → NT → DP → Option β) (t : Prog) (v : β) (start : NT) (info : List NT) :
    reduceDet rules f t v start info = viaDeriv f v (derivDet rules t start info) :=
  reduceDet_eq rules f t v start info

/-! ## Unambiguous layer (code as it is: fix C19-F2 applied, start factor omitted as in C04-F1) -/

/-- **C19_norm (U).** At every non-terminal with at least one tagged alternative, the weights of
    all (rule, alternative) pairs sum to `1 - ε·(M(M-1)/2 + C·M)`, where `M`, `C` are the numbers
    of alternatives of variable and constant rules.  (`wfAlts`: the alternatives of a rule are
    distinct — they are dict keys.)  The case "variables without any alternative" (division by
    zero in the code) is excluded by `0 < M + C` resp. `0 < Np`. -/
theorem C19_norm_u (L : Layer) (v ε : ℝ) (tvo : Bool) (rules : AList NT (AList DP (List Alt)))
    (starts : List NT) (x : List ℝ) (tags : AList NT TagsU) (st : AList NT ℝ)
    (h : tensor2logProbU L v ε tvo rules starts x = some (tags, st))
    (hv0 : 0 < v) (hv1 : v < 1) (hε : 0 ≤ ε) (hwf : wfRules rules = true) (hwa : wfAlts rules = true) :
    List.Forall₂ (fun e t => t.1 = e.1 ∧
        ((0 < countAlts .var e.2 + countAlts .const e.2 ∨
            (countKind .var e.2 + countKind .const e.2 = 0 ∧ 0 < countAlts .prim e.2)) →
         hypEps v ε tvo (decide (0 < countAlts .prim e.2)) (countAlts .var e.2) (countAlts .const e.2) = true →
         massU t.2 = specNorm ε tvo (countAlts .var e.2) (countAlts .const e.2))) rules tags := by
  unfold tensor2logProbU at h
  simp only [] at h
  split at h
  · rename_i t s ht _
    simp only [Option.some.injEq, Prod.mk.injEq] at h
    obtain ⟨rfl, rfl⟩ := h
    have hf := allSomeL_forall₂_of _ (fun e => (AList.keys e.2).Nodup ∧ ∀ r ∈ e.2, r.2.Nodup) rules t ht
      (fun e he => ⟨wfRules_mem hwf e he, wfAlts_mem hwa e he⟩)
    refine hf.imp ?_
    intro e t' ⟨⟨hnd, halts⟩, het⟩
    obtain ⟨h1, h2, h3⟩ := tagEntryU_mass L v ε tvo _ e t' het hv0 hv1 hε hnd halts (fun _ => true) true true
      (fun _ _ => rfl) (fun _ _ => rfl)
    refine ⟨h1, ?_⟩
    intro hcase hhyp
    rw [massU_eq]
    rcases hcase with hmc | ⟨hmc0, hnp⟩
    · rw [h2 hmc hhyp]; simp only [if_true, specNorm, ofNat_real]; push_cast; ring
    · rw [h3 hmc0 hnp]
      have hv : countAlts .var e.2 = 0 := by
        by_contra hne
        obtain ⟨r, hr, hk, _⟩ := (countAlts_pos_iff .var e.2).mp (Nat.pos_of_ne_zero hne)
        have : 0 < countKind .var e.2 := by
          unfold countKind
          apply List.length_pos_of_mem (a := r.1)
          simp only [List.mem_filter, kindIs, AList.keys, List.mem_map, decide_eq_true_eq]
          exact ⟨⟨r, hr, rfl⟩, hk⟩
        omega
      have hc : countAlts .const e.2 = 0 := by
        by_contra hne
        obtain ⟨r, hr, hk, _⟩ := (countAlts_pos_iff .const e.2).mp (Nat.pos_of_ne_zero hne)
        have : 0 < countKind .const e.2 := by
          unfold countKind
          apply List.length_pos_of_mem (a := r.1)
          simp only [List.mem_filter, kindIs, AList.keys, List.mem_map, decide_eq_true_eq]
          exact ⟨⟨r, hr, rfl⟩, hk⟩
        omega
      simp [specNorm, epsTerm_real, hv, hc, tri]
  · simp at h

/-- **C19_varmass (U).** Whenever a variable or constant alternative exists, the variable and
    constant alternatives together receive `variable_probability` (if a primitive alternative
    exists, else everything) minus the ε-term; the primitive alternatives receive the rest. -/
theorem C19_varmass_u (L : Layer) (v ε : ℝ) (tvo : Bool) (rules : AList NT (AList DP (List Alt)))
    (starts : List NT) (x : List ℝ) (tags : AList NT TagsU) (st : AList NT ℝ)
    (h : tensor2logProbU L v ε tvo rules starts x = some (tags, st))
    (hv0 : 0 < v) (hv1 : v < 1) (hε : 0 ≤ ε) (hwf : wfRules rules = true) (hwa : wfAlts rules = true) :
    List.Forall₂ (fun e t => t.1 = e.1 ∧
        (0 < countAlts .var e.2 + countAlts .const e.2 →
         hypEps v ε tvo (decide (0 < countAlts .prim e.2)) (countAlts .var e.2) (countAlts .const e.2) = true →
         massU (t.2.filter (fun z => z.1.kind ≠ .prim))
            = specVarMass v ε tvo (decide (0 < countAlts .prim e.2)) (countAlts .var e.2) (countAlts .const e.2)
         ∧ massU (t.2.filter (fun z => z.1.kind = .prim))
            = 1 - (if 0 < countAlts .prim e.2 then v else 1))) rules tags := by
  unfold tensor2logProbU at h
  simp only [] at h
  split at h
  · rename_i t s ht _
    simp only [Option.some.injEq, Prod.mk.injEq] at h
    obtain ⟨rfl, rfl⟩ := h
    have hf := allSomeL_forall₂_of _ (fun e => (AList.keys e.2).Nodup ∧ ∀ r ∈ e.2, r.2.Nodup) rules t ht
      (fun e he => ⟨wfRules_mem hwf e he, wfAlts_mem hwa e he⟩)
    refine hf.imp ?_
    intro e t' ⟨⟨hnd, halts⟩, het⟩
    obtain ⟨h1, h2, _⟩ := tagEntryU_mass L v ε tvo _ e t' het hv0 hv1 hε hnd halts selVar false true
      (fun P hP => by simp [selVar, kindIs, hP]) (fun P hP => by simp [selVar, kindIs, hP])
    obtain ⟨_, h2', _⟩ := tagEntryU_mass L v ε tvo _ e t' het hv0 hv1 hε hnd halts selPrim true false
      (fun P hP => by simp [selPrim, kindIs, hP]) (fun P hP => by simp [selPrim, kindIs, hP])
    refine ⟨h1, ?_⟩
    intro hmc hhyp
    constructor
    · have : (fun z : DP × AList Alt ℝ => decide (z.1.kind ≠ Kind.prim)) = (fun z => selVar z.1) := by
        funext z; simp [selVar, kindIs]
      rw [this, massU_filter_eq, h2 hmc hhyp]
      simp only [specVarMass]
      by_cases hnp : 0 < countAlts .prim e.2 <;> simp [hnp]
    · have : (fun z : DP × AList Alt ℝ => decide (z.1.kind = Kind.prim)) = (fun z => selPrim z.1) := by
        funext z; simp [selPrim, kindIs]
      rw [this, massU_filter_eq, h2' hmc hhyp]
      simp
  · simp at h

/-- **C19_start_norm.** The start tags of the U-layer are normalised: `Σ_S exp(start_tag S) = 1`
    (for every tensor; `st ≠ []`: the grammar has a start symbol). -/
theorem C19_start_norm (L : Layer) (v ε : ℝ) (tvo : Bool) (rules : AList NT (AList DP (List Alt)))
    (starts : List NT) (x : List ℝ) (tags : AList NT TagsU) (st : AList NT ℝ)
    (h : tensor2logProbU L v ε tvo rules starts x = some (tags, st)) (hne : st ≠ []) :
    sumL (st.map (fun e => (ExpLog.exp e.2 : ℝ))) = 1 := by
  unfold tensor2logProbU at h
  simp only [] at h
  split at h
  · rename_i t s _ hs
    simp only [Option.some.injEq, Prod.mk.injEq] at h
    obtain ⟨rfl, rfl⟩ := h
    exact startTags_norm L starts _ _ hs hne
  · simp at h

/-- **C19_positive (U).** Every converted weight and start weight is positive (see the remark at
    `C19_positive_det`); `s` and `s'` are the positive normalisers used by `normalise`. -/
theorem C19_positive_u (tags : AList NT TagsU) (st : AList NT ℝ) :
    (∀ e ∈ expTagsU tags, ∀ d ∈ e.2, ∀ z ∈ d.2, 0 < z.2) ∧ (∀ e ∈ expStartU st, 0 < e.2) := by
  constructor
  · intro e he d hd z hz
    simp only [expTagsU, List.mem_map] at he
    obtain ⟨e0, _, rfl⟩ := he
    simp only [List.mem_map] at hd
    obtain ⟨d0, _, rfl⟩ := hd
    simp only [List.mem_map] at hz
    obtain ⟨z0, _, rfl⟩ := hz
    exact Real.exp_pos _
  · intro e he
    simp only [expStartU, List.mem_map] at he
    obtain ⟨e0, _, rfl⟩ := he
    exact Real.exp_pos _

/-- **C19_toProb (U).** `to_prob_u_grammar` = `exp` of every tag followed by `normalise`: every
    weight of `S` is divided by `Σ exp(tags of S)` (which is `specNorm`, i.e. 1 without the ordering
    trick, by `C19_norm_u`) and every start weight by `Σ exp(start tags)` (= 1 by `C19_start_norm`). -/
theorem C19_toProb_u (tags : AList NT TagsU) (st : AList NT ℝ) :
    toProbU tags st =
      (tags.map (fun e => (e.1, e.2.map (fun d => (d.1, d.2.map (fun z => (z.1, Real.exp z.2 / massU e.2)))))),
       st.map (fun e => (e.1, Real.exp e.2 / sumL (st.map (fun e => (ExpLog.exp e.2 : ℝ)))))) := by
  unfold toProbU normaliseU expTagsU expStartU massU
  simp [List.map_map, Function.comp_def]

/-- `to_prob_u_grammar` keeps `exp(tag)` unchanged at the non-terminals whose weights already sum
    to 1 (by `C19_norm_u`: every non-terminal when `total_variable_order = False`). -/
theorem C19_toProb_u_exact (tags : AList NT TagsU) (st : AList NT ℝ)
    (h : ∀ e ∈ tags, massU e.2 = 1) : (toProbU tags st).1 = expTagsU tags := by
  rw [C19_toProb_u]
  unfold expTagsU
  apply List.map_congr_left
  intro e he
  rw [h e he]
  simp

/-- **C19_consistent (U).** If `log_probability t` returns `lp`, then `exp lp` is what
    `ProbUGrammar.probability` — as implemented: the product of the RULE weights along the
    derivation, the start weight is not a factor (C04-F1) — returns on the weights `exp(tag)`.
    By `C19_toProb_u(_exact)` and `C19_norm_u` these are the weights of `to_prob_u_grammar()`
    exactly when `total_variable_order = False` (second statement), and up to the factor
    `specNorm` per step otherwise. -/
theorem C19_consistent_u (rules : AList NT (AList DP (List Alt))) (starts : List NT)
    (tags : AList NT TagsU) (st : AList NT ℝ) (t : Prog) (lp : ℝ)
    (h : logProbabilityU rules starts tags t = some lp) :
    probabilityU rules starts (expTagsU tags) t = Real.exp lp
    ∧ ((∀ e ∈ tags, massU e.2 = 1) → probabilityU rules starts (toProbU tags st).1 t = Real.exp lp) := by
  refine ⟨consistent_u rules starts tags t lp h, ?_⟩
  intro hm
  rw [C19_toProb_u_exact tags st hm]
  exact consistent_u rules starts tags t lp h

/-- The exact relation to the distribution that includes the start symbols, for ANY number of
    start symbols: the derivation found begins at a start symbol `S0`, and its probability
    (start weight × rule weights) is `exp(start tag of S0) · exp(log_probability t)`.
    The full statement of the property ("= probability of the derivation") therefore fails by
    exactly the start weight: known finding C04-F1 (= C19-F1), witness `finding_C19_F1`. -/
theorem C19_consistent_u_start (rules : AList NT (AList DP (List Alt))) (starts : List NT)
    (tags : AList NT TagsU) (st : AList NT ℝ) (t : Prog) (lp : ℝ)
    (h : logProbabilityU rules starts tags t = some lp) :
    ∃ S0 ∈ starts, ∃ d ∈ altsU rules t S0 [], ∀ s, AList.lookup S0 st = some s →
      derivWeightU (expTagsU tags) (expStartU st) S0 d = some (Real.exp s * Real.exp lp) :=
  consistent_u_start rules starts tags st t lp h

/-- **C19_consistent_u_partial.** Under the decidable hypothesis "single start symbol"
    (`starts = [S0]`, start table `st = [(S0, s)]`, normalised as `C19_start_norm` proves),
    `exp(log_probability t)` IS the probability of the derivation in the distribution including
    the start weight.
    Full statement (false, C04-F1): the same for every `starts`. -/
theorem C19_consistent_u_partial (rules : AList NT (AList DP (List Alt))) (S0 : NT)
    (tags : AList NT TagsU) (s : ℝ) (t : Prog) (lp : ℝ)
    (hnorm : sumL ([(S0, s)].map (fun e : NT × ℝ => (ExpLog.exp e.2 : ℝ))) = 1)
    (h : logProbabilityU rules [S0] tags t = some lp) :
    ∃ d ∈ altsU rules t S0 [], derivWeightU (expTagsU tags) (expStartU [(S0, s)]) S0 d = some (Real.exp lp) := by
  obtain ⟨S, hS, d, hd, hw⟩ := consistent_u_start rules [S0] tags [(S0, s)] t lp h
  have hSS : S = S0 := by simpa using hS
  subst hSS
  have hs1 : Real.exp s = 1 := by
    rw [sumL_eq] at hnorm; simpa using hnorm
  refine ⟨d, hd, ?_⟩
  rw [hw s (by simp [AList.lookup]), hs1, one_mul]

/-- **C19_encode (U).** `encode t` is the indicator of the positions of the primitive rules of the
    derivations of `t` (from every start symbol; exactly one derivation for an unambiguous grammar). -/
theorem C19_encode_u (L : Layer) (rules : AList NT (AList DP (List Alt))) (starts : List NT) (t : Prog)
    (out : List ℕ) (h : encodeU L rules starts t = some out) :
    out = indicator L.outputSize (positionsOf L (allStepsU rules starts t))
      ∧ ∀ p ∈ positionsOf L (allStepsU rules starts t), p < L.outputSize :=
  encode_u L rules starts t out h

/-! ## Non-vacuity: a literal layer on which every hypothesis holds -/
section Examples

def plus : DP := ⟨.prim, "+"⟩
def one : DP := ⟨.prim, "1"⟩
def x0 : DP := ⟨.var, "var0"⟩
def cst : DP := ⟨.const, "cst"⟩
/-- `S1 -> + S2 S3 | 1`, `S2 -> var0 | cst | 1`, `S3 -> var0 | 1` -/
def exRules : AList NT (AList DP (List NT)) :=
  [(1, [(plus, [2, 3]), (one, [])]), (2, [(x0, []), (cst, []), (one, [])]), (3, [(x0, []), (one, [])])]
def exAbs : NT → Abs := fun S => if S = 2 then some (plus, 0) else if S = 3 then some (plus, 1) else none
def exL : Layer := mkLayerDet exAbs (fun _ s => s) [exRules]
def exLlit : Layer :=
  ⟨[(1, none), (2, some (plus, 0)), (3, some (plus, 1))],
   [(none, [1]), (some (plus, 0), [2]), (some (plus, 1), [3])],
   [(none, [plus, one]), (some (plus, 0), [one]), (some (plus, 1), [one])],
   [],
   [(none, (0, 2, [(plus, 0), (one, 1)])), (some (plus, 0), (2, 1, [(one, 0)])), (some (plus, 1), (3, 1, [(one, 0)]))],
   4⟩
theorem exL_eq : exL = exLlit := by decide
/-- `(+ var0 1)` -/
def exProg : Prog := .node plus [.node x0 [], .node one []]

example : wfRules exRules = true := by decide
/-- the model returns a grammar on the literal layer (hypothesis `h` of C19_norm_det, C19_varmass_det) -/
example : ∃ tags, tensor2logProbDet exL (1/5 : ℝ) (1/10^7) true exRules [0, 3, -2, 80] = some tags := by
  rw [exL_eq]
  simp [tensor2logProbDet, allSomeL, tagEntryDet, exRules, exLlit, AList.lookup, primTags, slice, normalize,
    AList.keys, plus, one, x0, cst, setSlice, logSoftmax]
/-- the hypothesis of the ordering trick at `S2` (one variable, one constant, a primitive) -/
example : hypEps (1/5 : ℝ) (1/10^7) true (decide (0 < countKind .prim (exRules.lookup 2 |>.getD [])))
    (countKind .var (exRules.lookup 2 |>.getD [])) (countKind .const (exRules.lookup 2 |>.getD [])) = true := by
  have h1 : countKind .prim (exRules.lookup 2 |>.getD []) = 1 := by decide
  have h2 : countKind .var (exRules.lookup 2 |>.getD []) = 1 := by decide
  have h3 : countKind .const (exRules.lookup 2 |>.getD []) = 1 := by decide
  rw [h1, h2, h3]
  simp [hypEps]; norm_num
/-- `log_probability (+ var0 1)` is defined (hypothesis of C19_consistent_det) -/
example : ∃ lp, logProbabilityDet exRules 1
    ([(1, [(plus, (-1 : ℝ)), (one, -2)]), (2, [(one, -1), (x0, -2), (cst, -3)]), (3, [(one, -1), (x0, -2)])]) exProg = some lp := by
  simp [logProbabilityDet, exProg, reduceDet, reduceDetArgs, deriveDet, exRules, AList.lookup, addTagDet, tagDet,
    plus, one, x0, cst]
/-- `encode (+ var0 1)` marks `(None, +)` and `((+,1), 1)` (hypothesis of C19_encode_det) -/
example : encodeDet exL exRules 1 exProg = some [1, 0, 0, 1] := by decide

/-- the same grammar as an unambiguous grammar with the single start symbol `S1` -/
def exRulesU : AList NT (AList DP (List Alt)) :=
  [(1, [(plus, [[2, 3]]), (one, [[]])]), (2, [(x0, [[]]), (cst, [[]]), (one, [[]])]), (3, [(x0, [[]]), (one, [[]])])]
def exLU : Layer := mkLayerU exAbs (fun _ s => s) [(exRulesU, [1])]
def exLUlit : Layer :=
  ⟨[(1, none), (2, some (plus, 0)), (3, some (plus, 1))],
   [(none, [1]), (some (plus, 0), [2]), (some (plus, 1), [3])],
   [(none, [plus, one]), (some (plus, 0), [one]), (some (plus, 1), [one])],
   [none],
   [(none, (0, 2, [(plus, 0), (one, 1)])), (some (plus, 0), (2, 1, [(one, 0)])), (some (plus, 1), (3, 1, [(one, 0)]))],
   5⟩
theorem exLU_eq : exLU = exLUlit := by decide

example : wfRules exRulesU = true ∧ wfAlts exRulesU = true := by decide
/-- hypothesis `h` of C19_norm_u, C19_varmass_u, C19_start_norm, with a non-empty start table -/
example : ∃ tags st, tensor2logProbU exLU (1/5 : ℝ) (1/10^7) true exRulesU [1] [0, 3, -2, 80, 7] = some (tags, st)
    ∧ st ≠ [] := by
  rw [exLU_eq]
  simp [tensor2logProbU, allSomeL, tagEntryU, exRulesU, exLUlit, AList.lookup, primTagsU, slice, normalize,
    plus, one, x0, cst, setSlice, logSoftmax, startTagsU, AList.insert, setInner]
/-- hypothesis of C19_consistent_u / _start / _partial (single start symbol `S1`, start tag 0) -/
example : (∃ lp, logProbabilityU exRulesU [1]
    ([(1, [(plus, [([2, 3], (-1 : ℝ))]), (one, [([], -2)])]), (2, [(x0, [([], -2)]), (cst, [([], -3)]), (one, [([], -1)])]),
      (3, [(x0, [([], -2)]), (one, [([], -1)])])]) exProg = some lp)
    ∧ sumL ([((1 : NT), (0 : ℝ))].map (fun e : NT × ℝ => (ExpLog.exp e.2 : ℝ))) = 1 := by
  constructor
  · simp [logProbabilityU, exProg, reduceU, altsU, altsUArgs, deriveU, exRulesU, AList.lookup, addTagU, tagU,
      plus, one, x0, cst, allSomeL, foldlO]
  · simp [sumL]
/-- hypothesis of C19_encode_u -/
example : encodeU exLU exRulesU [1] exProg = some [1, 0, 0, 1, 0] := by decide

end Examples

/-! ## Closed forms in the RAW tensor, and the slice table `abs2index`

  The theorems above speak about the tags as computed from the slice-wise normalised tensor.  The
  ones below are about the caller's RAW tensor `x` and about layers built by the constructors
  (`mkLayerDet`, `mkLayerU` = `__init__`), for ANY grammars, abstraction function and iteration
  order of the sets.  `rawAt L x S P` (PS/Proofs/PredictorSoftmax.lean) is `x[posOf L S P]`: the raw
  entry at the position that `encode` marks for the rule `(S, P)` (`C19_encode_det/_u`). -/

/-- **C19_prim_weight_raw (det).** The slice-wide log-softmax cancels: for every non-terminal `S`
    of the grammar asked for and every primitive rule `P` of `S`, the position `posOf L S P` is
    inside the tensor and

      `exp(tag(S,P)) = c · exp(x_P) / Σ_{Q primitive rule derivable from S} exp(x_Q)`

    where `x_Q = x[posOf L S Q]` are RAW tensor entries, `c = 1 - variable_probability` when `S`
    has variables or constants and `c = 1` otherwise. -/
theorem C19_prim_weight_raw_det {ρ : Type} (abstraction : NT → Abs) (iter : Abs → List DP → List DP)
    (grammars : List (AList NT (AList DP ρ))) (v ε : ℝ) (tvo : Bool)
    (rules : AList NT (AList DP (List NT))) (x : List ℝ) (tags : AList NT (AList DP ℝ))
    (h : tensor2logProbDet (mkLayerDet abstraction iter grammars) v ε tvo rules x = some tags)
    (hv1 : v < 1) (hwf : wfRules rules = true) :
    List.Forall₂ (fun e t => t.1 = e.1 ∧
      ∀ P ∈ AList.keys e.2, P.kind = .prim →
        ∃ pos tag, posOf (mkLayerDet abstraction iter grammars) e.1 P = some pos ∧ pos < x.length
          ∧ AList.lookup P t.2 = some tag
          ∧ Real.exp tag = (if countKind .var e.2 + countKind .const e.2 = 0 then 1 else 1 - v)
              * Real.exp (rawAt (mkLayerDet abstraction iter grammars) x e.1 P)
              / (((AList.keys e.2).filter (kindIs .prim)).map
                  (fun Q => Real.exp (rawAt (mkLayerDet abstraction iter grammars) x e.1 Q))).sum) rules tags := by
  have hc : Consec 0 (mkLayerDet abstraction iter grammars).abs2index := by
    rw [mkLayerDet_eq]; exact (mkLayerU_consec abstraction iter _).1
  have hf := allSomeL_forall₂_of _ (fun e => (AList.keys e.2).Nodup) rules tags h (wfRules_mem hwf)
  refine hf.imp ?_
  intro e t ⟨hnd, het⟩
  exact ⟨tagEntryDet_fst _ v ε tvo _ e t het, tagEntryDet_raw _ hc v ε tvo x e t het hnd hv1⟩

/-- non-vacuity of `C19_prim_weight_raw_det`: its hypotheses hold on the literal layer of the
    examples above (`exL = mkLayerDet exAbs (fun _ s => s) [exRules]`) with the tensor `[0, 3, -2, 80]` -/
example : (∃ tags, tensor2logProbDet (mkLayerDet exAbs (fun _ s => s) [exRules]) (1/5 : ℝ) (1/10^7) true exRules
      [0, 3, -2, 80] = some tags) ∧ (1/5 : ℝ) < 1 ∧ wfRules exRules = true := by
  refine ⟨?_, by norm_num, by decide⟩
  show ∃ tags, tensor2logProbDet exL (1/5 : ℝ) (1/10^7) true exRules [0, 3, -2, 80] = some tags
  rw [exL_eq]
  simp [tensor2logProbDet, allSomeL, tagEntryDet, exRules, exLlit, AList.lookup, primTags, slice, normalize,
    AList.keys, plus, one, x0, cst, setSlice, logSoftmax]

theorem exL_rawAt (x : List ℝ) : rawAt exL x 1 plus = x.getD 0 0 ∧ rawAt exL x 1 one = x.getD 1 0 := by
  rw [exL_eq]
  constructor <;> simp [rawAt, posOf, exLlit, AList.lookup, plus, one]

/-- … and what the theorem says there: at `S1 -> + S2 S3 | 1` (raw entries 0 and 3, no variable) the
    weight of `+` is `e^0 / (e^0 + e^3)` -/
example (tags : AList NT (AList DP ℝ))
    (h : tensor2logProbDet exL (1/5 : ℝ) (1/10^7) true exRules [0, 3, -2, 80] = some tags) :
    ∃ t ∈ tags, t.1 = 1 ∧ ∃ tag, AList.lookup plus t.2 = some tag
      ∧ Real.exp tag = Real.exp 0 / (Real.exp 0 + Real.exp 3) := by
  have := C19_prim_weight_raw_det exAbs (fun _ s => s) [exRules] _ _ _ _ _ _ h (by norm_num) (by decide)
  change List.Forall₂ _ ((1, [(plus, [2, 3]), (one, [])]) :: _) _ at this
  obtain ⟨t, ts, h1, _, rfl⟩ := List.forall₂_cons_left_iff.mp this
  refine ⟨t, by simp, h1.1, ?_⟩
  obtain ⟨pos, tag, _, _, a3, a4⟩ := h1.2 plus (by simp [AList.keys]) rfl
  refine ⟨tag, a3, ?_⟩
  rw [a4]
  have e1 := exL_rawAt [0, 3, -2, 80]
  have hck : countKind Kind.var [(plus, [2, 3]), (one, ([] : List NT))]
      + countKind Kind.const [(plus, [2, 3]), (one, ([] : List NT))] = 0 := by decide
  have hf : List.filter (kindIs Kind.prim) (AList.keys [(plus, [2, 3]), (one, ([] : List NT))]) = [plus, one] := by
    decide
  simp only [hck, if_true, hf, List.map_cons, List.map_nil, List.sum_cons, List.sum_nil]
  change _ * Real.exp (rawAt exL _ 1 plus) / (Real.exp (rawAt exL _ 1 plus) + (Real.exp (rawAt exL _ 1 one) + 0)) = _
  rw [e1.1, e1.2]
  simp

/-- **C19_prim_weight_raw (U).** The same closed form for the unambiguous layer, per alternative:
    every alternative `k` of a primitive rule `P` of `S` has

      `exp(tag(S,P,k)) = c · exp(x_P) / Σ_{Q primitive rule of S} (number of alternatives of Q) · exp(x_Q)`

    (raw entries `x_Q = x[posOf L S Q]`); and — after fix 97880ac — the alternatives of the
    variables, numbered `j = 0, 1, …` in the order of the loops (`pairsOf`), have weight
    `vp/(M+C) - j·ε'` and every alternative of a constant `vp/(M+C) - M·ε'`, where `M`, `C` are
    the numbers of variable and constant alternatives, `vp = variable_probability` if a primitive
    alternative exists and 1 otherwise, `ε' = ε` with the ordering trick and 0 without. -/
theorem C19_prim_weight_raw_u {ρ : Type} (abstraction : NT → Abs) (iter : Abs → List DP → List DP)
    (grammars : List (AList NT (AList DP ρ) × List NT)) (v ε : ℝ) (tvo : Bool)
    (rules : AList NT (AList DP (List Alt))) (starts : List NT) (x : List ℝ)
    (tags : AList NT TagsU) (st : AList NT ℝ)
    (h : tensor2logProbU (mkLayerU abstraction iter grammars) v ε tvo rules starts x = some (tags, st))
    (hv0 : 0 < v) (hv1 : v < 1) (hε : 0 ≤ ε) (hwf : wfRules rules = true) (hwa : wfAlts rules = true) :
    List.Forall₂ (fun e t => t.1 = e.1 ∧
      (∀ r ∈ e.2, r.1.kind = .prim → ∀ k ∈ r.2,
        ∃ pos d tag, posOf (mkLayerU abstraction iter grammars) e.1 r.1 = some pos ∧ pos < x.length
          ∧ AList.lookup r.1 t.2 = some d ∧ AList.lookup k d = some tag
          ∧ Real.exp tag = (if countKind .var e.2 + countKind .const e.2 = 0 then 1 else 1 - v)
              * Real.exp (rawAt (mkLayerU abstraction iter grammars) x e.1 r.1)
              / ((e.2.filter (fun r => kindIs .prim r.1)).map
                  (fun r => (r.2.length : ℝ) * Real.exp (rawAt (mkLayerU abstraction iter grammars) x e.1 r.1))).sum)
      ∧ (0 < countAlts .var e.2 + countAlts .const e.2 →
          hypEps v ε tvo (decide (0 < countAlts .prim e.2)) (countAlts .var e.2) (countAlts .const e.2) = true →
          (∀ j (hj : j < (pairsOf (e.2.filter (fun p => kindIs .var p.1))).length), ∃ d tag,
              AList.lookup (pairsOf (e.2.filter (fun p => kindIs .var p.1)))[j].1 t.2 = some d
              ∧ AList.lookup (pairsOf (e.2.filter (fun p => kindIs .var p.1)))[j].2 d = some tag
              ∧ Real.exp tag = (if 0 < countAlts .prim e.2 then v else 1)
                    / ((countAlts .var e.2 : ℝ) + countAlts .const e.2) - j * (if tvo then ε else 0))
          ∧ (∀ q ∈ pairsOf (e.2.filter (fun p => kindIs .const p.1)), ∃ d tag,
              AList.lookup q.1 t.2 = some d ∧ AList.lookup q.2 d = some tag
              ∧ Real.exp tag = (if 0 < countAlts .prim e.2 then v else 1)
                    / ((countAlts .var e.2 : ℝ) + countAlts .const e.2)
                    - (countAlts .var e.2 : ℝ) * (if tvo then ε else 0)))) rules tags := by
  have hc := (mkLayerU_consec abstraction iter grammars).1
  unfold tensor2logProbU at h
  simp only [] at h
  split at h
  · rename_i t s ht _
    simp only [Option.some.injEq, Prod.mk.injEq] at h
    obtain ⟨rfl, rfl⟩ := h
    have hf := allSomeL_forall₂_of _ (fun e => (AList.keys e.2).Nodup ∧ ∀ r ∈ e.2, r.2.Nodup) rules t ht
      (fun e he => ⟨wfRules_mem hwf e he, wfAlts_mem hwa e he⟩)
    refine hf.imp ?_
    intro e t' ⟨⟨hnd, halts⟩, het⟩
    obtain ⟨a1, a2⟩ := tagEntryU_raw _ hc v ε tvo x e t' het hv0 hv1 hε hnd halts
    refine ⟨tagEntryU_fst _ v ε tvo _ e t' het, ?_, ?_⟩
    · intro r hr hk k hkm
      obtain ⟨pos, tag, b1, b2, b3, b4⟩ := a1 r hr hk k hkm
      obtain ⟨d, d1, d2⟩ := innerLookup_some b3
      exact ⟨pos, d, tag, b1, b2, d1, d2, b4⟩
    · intro hMC hhyp
      obtain ⟨c1, c2⟩ := a2 hMC hhyp
      refine ⟨?_, ?_⟩
      · intro j hj
        obtain ⟨tag, b1, b2⟩ := c1 j hj
        obtain ⟨d, d1, d2⟩ := innerLookup_some b1
        exact ⟨d, tag, d1, d2, b2⟩
      · intro q hq
        obtain ⟨tag, b1, b2⟩ := c2 q hq
        obtain ⟨d, d1, d2⟩ := innerLookup_some b1
        exact ⟨d, tag, d1, d2, b2⟩
  · simp at h

/-- non-vacuity of `C19_prim_weight_raw_u` (and of `C19_start_weight_raw_u`, whose only hypothesis is the
    first conjunct): the hypotheses hold on `exLU = mkLayerU exAbs (fun _ s => s) [(exRulesU, [1])]` -/
example : (∃ tags st, tensor2logProbU (mkLayerU exAbs (fun _ s => s) [(exRulesU, [1])]) (1/5 : ℝ) (1/10^7) true
      exRulesU [1] [0, 3, -2, 80, 7] = some (tags, st))
    ∧ (0 : ℝ) < 1/5 ∧ (1/5 : ℝ) < 1 ∧ (0 : ℝ) ≤ 1/10^7 ∧ wfRules exRulesU = true ∧ wfAlts exRulesU = true := by
  refine ⟨?_, by norm_num, by norm_num, by norm_num, by decide, by decide⟩
  show ∃ tags st, tensor2logProbU exLU (1/5 : ℝ) (1/10^7) true exRulesU [1] [0, 3, -2, 80, 7] = some (tags, st)
  rw [exLU_eq]
  simp [tensor2logProbU, allSomeL, tagEntryU, exRulesU, exLUlit, AList.lookup, primTagsU, slice, normalize,
    plus, one, x0, cst, setSlice, logSoftmax, startTagsU, AList.insert, setInner]

/-- … and what the theorem says at `S2 -> var0 | cst | 1` (one variable alternative, one constant
    alternative, `hypEps` holds): `var0` has weight `(1/5)/2`, `cst` has `(1/5)/2 - 1e-7` -/
example (tags : AList NT TagsU) (st : AList NT ℝ)
    (h : tensor2logProbU exLU (1/5 : ℝ) (1/10^7) true exRulesU [1] [0, 3, -2, 80, 7] = some (tags, st)) :
    ∃ t ∈ tags, t.1 = 2 ∧ (∃ d tag, AList.lookup x0 t.2 = some d ∧ AList.lookup [] d = some tag
        ∧ Real.exp tag = (1/5 : ℝ) / 2)
      ∧ (∃ d tag, AList.lookup cst t.2 = some d ∧ AList.lookup [] d = some tag
        ∧ Real.exp tag = (1/5 : ℝ) / 2 - 1/10^7) := by
  have := C19_prim_weight_raw_u exAbs (fun _ s => s) [(exRulesU, [1])] _ _ _ _ _ _ _ _ h
    (by norm_num) (by norm_num) (by norm_num) (by decide) (by decide)
  change List.Forall₂ _ (_ :: (2, [(x0, [[]]), (cst, [[]]), (one, [[]])]) :: _) _ at this
  obtain ⟨t1, ts1, _, hrest, rfl⟩ := List.forall₂_cons_left_iff.mp this
  obtain ⟨t, ts2, h2, _, rfl⟩ := List.forall₂_cons_left_iff.mp hrest
  refine ⟨t, by simp, h2.1, ?_⟩
  have hV : countAlts .var [(x0, [[]]), (cst, [[]]), (one, ([[]] : List Alt))] = 1 := by decide
  have hC : countAlts .const [(x0, [[]]), (cst, [[]]), (one, ([[]] : List Alt))] = 1 := by decide
  have hP : countAlts .prim [(x0, [[]]), (cst, [[]]), (one, ([[]] : List Alt))] = 1 := by decide
  have hpv : pairsOf (List.filter (fun p => kindIs .var p.1) [(x0, [[]]), (cst, [[]]), (one, ([[]] : List Alt))])
      = [(x0, [])] := by decide
  have hpc : pairsOf (List.filter (fun p => kindIs .const p.1) [(x0, [[]]), (cst, [[]]), (one, ([[]] : List Alt))])
      = [(cst, [])] := by decide
  obtain ⟨b1, b2⟩ := h2.2.2 (by decide) (by
    show hypEps (1/5 : ℝ) (1/10^7) true
      (decide (0 < countAlts .prim [(x0, [[]]), (cst, [[]]), (one, ([[]] : List Alt))]))
      (countAlts .var [(x0, [[]]), (cst, [[]]), (one, ([[]] : List Alt))])
      (countAlts .const [(x0, [[]]), (cst, [[]]), (one, ([[]] : List Alt))]) = true
    rw [hV, hC, hP]; simp [hypEps]; norm_num)
  constructor
  · obtain ⟨d, tag, c1, c2, c3⟩ := b1 0 (by decide)
    change ∃ d tag, AList.lookup (x0, ([] : Alt)).1 t.2 = some d ∧ AList.lookup (x0, ([] : Alt)).2 d = some tag ∧ _
    refine ⟨d, tag, ?_, ?_, ?_⟩
    · convert c1 using 2; simp [hpv]
    · convert c2 using 2; simp [hpv]
    · rw [c3]
      show (if 0 < countAlts Kind.prim [(x0, [[]]), (cst, [[]]), (one, ([[]] : List Alt))] then (1/5 : ℝ) else 1) /
        ((countAlts Kind.var [(x0, [[]]), (cst, [[]]), (one, ([[]] : List Alt))] : ℝ)
          + countAlts Kind.const [(x0, [[]]), (cst, [[]]), (one, ([[]] : List Alt))]) - _ = _
      rw [hV, hC, hP]; norm_num
  · obtain ⟨d, tag, c1, c2, c3⟩ := b2 (cst, []) (by
      show (cst, ([] : Alt)) ∈ pairsOf (List.filter (fun p => kindIs .const p.1)
        [(x0, [[]]), (cst, [[]]), (one, ([[]] : List Alt))])
      rw [hpc]; simp)
    refine ⟨d, tag, c1, c2, ?_⟩
    rw [c3]
    show (if 0 < countAlts Kind.prim [(x0, [[]]), (cst, [[]]), (one, ([[]] : List Alt))] then (1/5 : ℝ) else 1) /
        ((countAlts Kind.var [(x0, [[]]), (cst, [[]]), (one, ([[]] : List Alt))] : ℝ)
          + countAlts Kind.const [(x0, [[]]), (cst, [[]]), (one, ([[]] : List Alt))])
        - (countAlts Kind.var [(x0, [[]]), (cst, [[]]), (one, ([[]] : List Alt))] : ℝ) * _ = _
    rw [hV, hC, hP]; norm_num

/-- **C19_start_weight_raw (U).** The start tags are the softmax of RAW tensor entries: there is a
    table `d` (`start_tags` before its normalisation) whose entry for a start symbol `S` of the
    grammar asked for is the raw entry `x[output_size - len(all_starts_abs) + j]`, `j` the index of
    the abstraction of `S` in `all_starts_abs` — `__normalize__` does not touch that part — and
    `exp(start_tag S) = exp(d[S]) / Σ_{S'} exp(d[S'])`. -/
theorem C19_start_weight_raw_u {ρ : Type} (abstraction : NT → Abs) (iter : Abs → List DP → List DP)
    (grammars : List (AList NT (AList DP ρ) × List NT)) (v ε : ℝ) (tvo : Bool)
    (rules : AList NT (AList DP (List Alt))) (starts : List NT) (x : List ℝ)
    (tags : AList NT TagsU) (st : AList NT ℝ)
    (h : tensor2logProbU (mkLayerU abstraction iter grammars) v ε tvo rules starts x = some (tags, st)) :
    ∃ d : AList NT ℝ, AList.keys st = AList.keys d
      ∧ (∀ S t, AList.lookup S d = some t → S ∈ starts ∧ ∃ (j : ℕ) (a : Abs),
          (mkLayerU abstraction iter grammars).allStartsAbs[j]? = some a
          ∧ S ∈ ((mkLayerU abstraction iter grammars).abs2real.lookup a).getD []
          ∧ x[(mkLayerU abstraction iter grammars).outputSize
                - (mkLayerU abstraction iter grammars).allStartsAbs.length + j]? = some t)
      ∧ (∀ S t, AList.lookup S d = some t → ∃ tag, AList.lookup S st = some tag
          ∧ Real.exp tag = Real.exp t / (d.map (fun e => Real.exp e.2)).sum) := by
  obtain ⟨hc, hn⟩ := mkLayerU_consec abstraction iter grammars
  unfold tensor2logProbU at h
  simp only [] at h
  split at h
  · rename_i t s _ hs
    simp only [Option.some.injEq, Prod.mk.injEq] at h
    obtain ⟨rfl, rfl⟩ := h
    rw [startTagsU_normalize _ starts x hc hn] at hs
    obtain ⟨d, hd, hk, hcl⟩ := startTagsU_closed _ starts x _ hs
    refine ⟨d, hk, ?_, hcl⟩
    intro S t hl
    obtain ⟨b1, j, a, b2, b3, b4⟩ := startRawU_from _ starts _ d hd S t hl
    refine ⟨b1, j, a, b2, b3, ?_⟩
    rw [List.getElem?_drop] at b4
    exact b4
  · simp at h

/-- **C19_index_bijection.** The slice table of a constructed layer (`iter k s` is the iteration
    order of the Python set `all_pairs[k]`: a permutation of it).  With `L = mkLayerU …`:
    1. distinct (abstraction key, primitive) pairs are read at distinct tensor positions
       `start + index`;
    2. an index lies inside its slice `[start, start+length)`, every slice lies before the start
       part of the tensor (`… + len(all_starts_abs) ≤ output_size`), only primitives are indexed;
    3. every position `p < output_size - len(all_starts_abs)` is the position of a pair (so the
       positions of the pairs are exactly `[0, output_size - len(all_starts_abs))`, the remaining
       `len(all_starts_abs)` positions are the start part, item 6);
    4. for every rule table `(S, r)` of every grammar given to the constructor: `real2abs[S]` is the
       abstraction of `S`, it has a slice, and every primitive rule of `S` has an index in that one
       slice (`posOf` is defined: no KeyError);
    5. the primitive rules of one non-terminal are read at pairwise distinct positions;
    6. `all_starts_abs` is duplicate free, contains the abstraction of every start symbol, and
       `output_size = Σ_k len(all_pairs[k]) + len(all_starts_abs)`. -/
theorem C19_index_bijection {ρ : Type} (abstraction : NT → Abs) (iter : Abs → List DP → List DP)
    (hiter : ∀ k s, (iter k s).Perm s) (grammars : List (AList NT (AList DP ρ) × List NT)) :
    (∀ (k1 k2 : Abs) (s1 l1 s2 l2 : ℕ) (sym1 sym2 : AList DP ℕ) (P1 P2 : DP) (i1 i2 : ℕ),
        AList.lookup k1 (mkLayerU abstraction iter grammars).abs2index = some (s1, l1, sym1) →
        AList.lookup k2 (mkLayerU abstraction iter grammars).abs2index = some (s2, l2, sym2) →
        AList.lookup P1 sym1 = some i1 → AList.lookup P2 sym2 = some i2 →
        s1 + i1 = s2 + i2 → k1 = k2 ∧ P1 = P2)
    ∧ (∀ (k : Abs) (s l : ℕ) (sym : AList DP ℕ) (P : DP) (i : ℕ),
        AList.lookup k (mkLayerU abstraction iter grammars).abs2index = some (s, l, sym) →
        AList.lookup P sym = some i →
        i < l ∧ s + l + (mkLayerU abstraction iter grammars).allStartsAbs.length
                  ≤ (mkLayerU abstraction iter grammars).outputSize ∧ P.kind = .prim)
    ∧ (∀ p, p + (mkLayerU abstraction iter grammars).allStartsAbs.length
              < (mkLayerU abstraction iter grammars).outputSize →
        ∃ k s l sym P i, AList.lookup k (mkLayerU abstraction iter grammars).abs2index = some (s, l, sym)
          ∧ AList.lookup P sym = some i ∧ p = s + i)
    ∧ (∀ g ∈ grammars, ∀ e ∈ g.1, ∃ s l sym,
        AList.lookup e.1 (mkLayerU abstraction iter grammars).real2abs = some (abstraction e.1)
        ∧ AList.lookup (abstraction e.1) (mkLayerU abstraction iter grammars).abs2index = some (s, l, sym)
        ∧ ∀ P ∈ AList.keys e.2, P.kind = .prim →
            ∃ i, AList.lookup P sym = some i ∧ i < l
              ∧ posOf (mkLayerU abstraction iter grammars) e.1 P = some (s + i))
    ∧ (∀ g ∈ grammars, ∀ e ∈ g.1, ∀ P ∈ AList.keys e.2, ∀ Q ∈ AList.keys e.2,
        P.kind = .prim → Q.kind = .prim →
        posOf (mkLayerU abstraction iter grammars) e.1 P = posOf (mkLayerU abstraction iter grammars) e.1 Q →
        P = Q)
    ∧ ((mkLayerU abstraction iter grammars).allStartsAbs.Nodup
        ∧ (∀ g ∈ grammars, ∀ S ∈ g.2, abstraction S ∈ (mkLayerU abstraction iter grammars).allStartsAbs)
        ∧ (mkLayerU abstraction iter grammars).outputSize
            = sumLens (mkLayerU abstraction iter grammars).allPairs
              + (mkLayerU abstraction iter grammars).allStartsAbs.length) := by
  refine ⟨?_, ?_, ?_, ?_, ?_, starts_spec abstraction iter grammars⟩
  · intro k1 k2 s1 l1 s2 l2 sym1 sym2 P1 P2 i1 i2 h1 h2 hp1 hp2 heq
    exact index_inj abstraction iter grammars hiter k1 k2 s1 l1 s2 l2 sym1 sym2 P1 P2 i1 i2 h1 h2 hp1 hp2 heq
  · intro k s l sym P i h hp
    exact index_range abstraction iter grammars hiter k s l sym P i h hp
  · intro p hp
    apply index_cover abstraction iter grammars hiter p
    have := (starts_spec abstraction iter grammars).2.2
    omega
  · intro g hg e he
    obtain ⟨s, l, sym, a1, a2, _, a4⟩ := index_rules abstraction iter grammars hiter g hg e he
    exact ⟨s, l, sym, a1, a2, a4⟩
  · intro g hg e he P hP Q hQ hkP hkQ heq
    obtain ⟨s, l, sym, a1, a2, _, a4⟩ := index_rules abstraction iter grammars hiter g hg e he
    obtain ⟨i, b1, _, b3⟩ := a4 P hP hkP
    obtain ⟨i', c1, _, c3⟩ := a4 Q hQ hkQ
    rw [b3, c3] at heq
    exact (index_inj abstraction iter grammars hiter _ _ s l s l sym sym P Q i i' a2 a2 b1 c1
      (Option.some.inj heq)).2

/-- the deterministic constructor builds the same table (it is the unambiguous constructor
    without start symbols), so `C19_index_bijection` applies to it verbatim -/
theorem C19_index_bijection_det {ρ : Type} (abstraction : NT → Abs) (iter : Abs → List DP → List DP)
    (grammars : List (AList NT (AList DP ρ))) :
    mkLayerDet abstraction iter grammars = mkLayerU abstraction iter (grammars.map (fun g => (g, [])))
    ∧ (mkLayerDet abstraction iter grammars).allStartsAbs = [] := by
  refine ⟨mkLayerDet_eq abstraction iter grammars, ?_⟩
  rw [mkLayerDet_eq]
  -- no start symbol is ever added
  have : ∀ (gs : List (AList NT (AList DP ρ))) (L : Layer), L.allStartsAbs = [] →
      (gs.foldl (fun L g => initStarts abstraction (initRules abstraction L g) []) L).allStartsAbs = [] := by
    intro gs
    induction gs with
    | nil => intro L hL; exact hL
    | cons g r ih =>
      intro L hL
      simp only [List.foldl_cons]
      apply ih
      have e1 : (initStarts abstraction (initRules abstraction L g) []).allStartsAbs
          = (initRules abstraction L g).allStartsAbs := rfl
      rw [e1]
      have : ∀ (rs : AList NT (AList DP ρ)) (L : Layer), (initRules abstraction L rs).allStartsAbs = L.allStartsAbs := by
        intro rs
        induction rs with
        | nil => intro L; rfl
        | cons p q ih2 => intro L; simp only [initRules, List.foldl_cons] at ih2 ⊢; rw [ih2]; rfl
      rw [this, hL]
  have e2 : (mkLayerU abstraction iter (grammars.map (fun g => (g, ([] : List NT))))).allStartsAbs
      = (grammars.foldl (fun L g => initStarts abstraction (initRules abstraction L g) []) {}).allStartsAbs := by
    unfold mkLayerU
    rw [List.foldl_map]
    rfl
  rw [e2]
  exact this grammars {} rfl

/-- non-vacuity of `C19_index_bijection` on `exLU` (identity iteration order): every position
    `p < 4 = output_size - len(all_starts_abs)` is the position of a pair, and the two primitive
    rules of `S1` are read at different positions -/
example : (∀ p, p < 4 → ∃ k s l sym P i, AList.lookup k exLU.abs2index = some (s, l, sym)
      ∧ AList.lookup P sym = some i ∧ p = s + i)
    ∧ posOf exLU 1 plus ≠ posOf exLU 1 one := by
  have hb := C19_index_bijection exAbs (fun _ s => s) (fun _ s => List.Perm.refl s) [(exRulesU, [1])]
  constructor
  · intro p hp
    refine hb.2.2.1 p ?_
    show p + exLU.allStartsAbs.length < exLU.outputSize
    rw [exLU_eq]; simp [exLUlit]; omega
  · intro h
    have := hb.2.2.2.2.1 (exRulesU, [1]) (by simp) (1, [(plus, [[2, 3]]), (one, [[]])]) (by simp [exRulesU])
      plus (by simp [AList.keys]) one (by simp [AList.keys]) rfl rfl h
    exact absurd this (by decide)

/-! ## Findings (witnesses on the model): C19-F1 = C04-F1 is open in the code; C19-F2 was repaired (97880ac) -/

/-- **finding C19-F1 (= C04-F1)**: with several start symbols `exp(log_probability t)` (equivalently
    `ProbUGrammar.probability t`) differs from the probability of the derivation in the distribution
    that includes the start symbols by exactly the start weight.  Two start symbols `S1 -> a`,
    `S2 -> b`, all rule tags 0 (weight 1), start tags `log(1/2)` each (what the zero tensor gives):
    `log_probability a = 0`, `probability a = 1`, whereas the derivation `S1 -> a` has probability
    `1/2 = (start weight 1/2) × exp(log_probability a)`. -/
theorem finding_C19_F1 :
    let a : DP := ⟨.prim, "a"⟩
    let b : DP := ⟨.prim, "b"⟩
    let rules : AList NT (AList DP (List Alt)) := [(1, [(a, [[]])]), (2, [(b, [[]])])]
    let tags : AList NT TagsU := [(1, [(a, [([], 0)])]), (2, [(b, [([], 0)])])]
    let st : AList NT ℝ := [(1, Real.log (1/2)), (2, Real.log (1/2))]
    let d : List StepU := [⟨dummyNT, 1, a, [], []⟩]
    logProbabilityU rules [1, 2] tags (.node a []) = some (0 : ℝ)
    ∧ probabilityU rules [1, 2] (expTagsU tags) (.node a []) = (1 : ℝ)
    ∧ altsU rules (.node a []) 1 [] = [d] ∧ altsU rules (.node a []) 2 [] = []
    ∧ derivWeightU (expTagsU tags) (expStartU st) 1 d = some ((1/2 : ℝ) * Real.exp 0)
    ∧ Real.exp 0 ≠ (1/2 : ℝ) * Real.exp 0 := by
  refine ⟨?_, ?_, ?_, ?_, ?_, ?_⟩
  · simp [logProbabilityU, reduceU, altsU, deriveU, AList.lookup, allSomeL, foldlO, addTagU, tagU]
  · simp [probabilityU, reduceU, altsU, deriveU, AList.lookup, allSomeL, foldlO, mulTagU, tagU, expTagsU]
  · simp [altsU, deriveU, AList.lookup, dummyNT]
  · simp [altsU, deriveU, AList.lookup]
  · simp [derivWeightU, expTagsU, expStartU, AList.lookup, foldlO, mulTagU, tagU]
    rw [Real.exp_neg, Real.exp_log (by norm_num : (0 : ℝ) < 2)]
  · simp

/-- **finding C19-F2** (U-layer before the fix).  A non-terminal whose only rule is a variable with
    two alternatives (a variable used as a function): the old code gives each alternative the whole
    share `1/len(variables)`, so the weights sum to 2 instead of 1; the fixed code gives 1. -/
theorem finding_C19_F2 :
    let f : DP := ⟨.var, "var0"⟩
    massU (tagNTUOld (1/5 : ℝ) 0 false [(f, [])] [(f, [[1], [2]])] []) = 2
    ∧ massU (tagNTU (1/5 : ℝ) 0 false [(f, [])] [(f, [[1], [2]])] []) = 1 := by
  constructor
  · simp [tagNTUOld, massU, sumL, assignVarsU, assignAltsU, assignConstsU, setInner, AList.lookup, AList.insert]
    norm_num
  · simp [tagNTU, massU, sumL, assignVarsU, assignAltsU, assignConstsU, setInner, AList.lookup, AList.insert, nAlts]
    rw [Real.exp_neg, Real.exp_log (by norm_num : (0 : ℝ) < 2)]
    norm_num

end PS.Predictor
