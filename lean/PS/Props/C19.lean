/-
  Property C19 — prediction layers turn any tensor into a normalised, consistent grammar.

  The theorems are about the model PS/Model/Predictor.lean instantiated with the real numbers
  (`Real.exp`, `Real.log`); they hold for EVERY layer (any grammars, any abstraction function,
  any iteration order of the sets), every tensor `x : List ℝ`, every `0 < v < 1`, `0 ≤ ε`.
  What they do not cover: IEEE rounding and overflow (the compiled driver runs the same
  definitions on `Float`; the correspondence run states its tolerances).

  Hypotheses that appear:
    * `wfRules rules` — the keys of every rule table are distinct (true of every Python dict);
    * `hypEps …` — the ordering trick keeps its arguments of `log` positive: `m·ε < p` where
      `p = (v or 1)/(m+c)` (decidable on the numbers; with ε = 1e-7 it holds whenever a
      non-terminal has fewer than about 700 variables for v = 0.05);
    * the model returned a grammar (`= some tags`): no KeyError/IndexError, i.e. the layer was
      built from grammars containing the one asked for and the tensor is long enough.
-/
import PS.Proofs.Predictor
namespace PS.Predictor
open PS

/-! ## Deterministic layer -/

/-- **C19_norm (det).** At every non-terminal `S` that has at least one rule, the weights
    `exp(tag)` of the grammar built from ANY tensor sum to `1 - ε·(m(m-1)/2 + c·m)`
    (`specNorm`; exactly 1 when `total_variable_order = False`), where `m`, `c` are the numbers
    of variable and constant rules of `S`. -/
theorem C19_norm_det (L : Layer) (v ε : ℝ) (tvo : Bool) (rules : AList NT (AList DP (List NT)))
    (x : List ℝ) (tags : AList NT (AList DP ℝ))
    (h : tensor2logProbDet L v ε tvo rules x = some tags)
    (hv0 : 0 < v) (hv1 : v < 1) (hε : 0 ≤ ε) (hwf : wfRules rules = true) :
    List.Forall₂ (fun e t => t.1 = e.1 ∧
        (e.2 ≠ [] →
         hypEps v ε tvo (decide (0 < countKind .prim e.2)) (countKind .var e.2) (countKind .const e.2) = true →
         expSum t.2 = specNorm ε tvo (countKind .var e.2) (countKind .const e.2))) rules tags := by
  have hf := allSomeL_forall₂_of _ (fun e => (AList.keys e.2).Nodup) rules tags h (wfRules_mem hwf)
  refine hf.imp ?_
  intro e t ⟨hnd, het⟩
  obtain ⟨h1, h2, h3⟩ := tagEntryDet_mass L v ε tvo _ e t het hv0 hv1 hε hnd (fun _ => true) true true
    (fun _ _ => rfl) (fun _ _ => rfl)
  refine ⟨h1, ?_⟩
  intro hne hhyp
  rw [expSum_eq_mass]
  by_cases hmc : 0 < countKind .var e.2 + countKind .const e.2
  · rw [h2 hmc hhyp]; simp only [if_true, specNorm, ofNat_real]; push_cast; ring
  · have hmc0 : countKind .var e.2 + countKind .const e.2 = 0 := by omega
    have hnp : 0 < countKind .prim e.2 := by
      -- a non-empty rule table without variables and constants has a primitive
      unfold countKind at hmc0 ⊢
      have hk : AList.keys e.2 ≠ [] := by
        intro hk; apply hne; cases he : e.2 with
        | nil => rfl
        | cons p r => rw [he] at hk; simp [AList.keys] at hk
      obtain ⟨P, hP⟩ := List.exists_mem_of_ne_nil _ hk
      have hv : P ∉ (AList.keys e.2).filter (kindIs .var) := by
        rw [List.eq_nil_of_length_eq_zero (by omega : ((AList.keys e.2).filter (kindIs .var)).length = 0)]; simp
      have hc : P ∉ (AList.keys e.2).filter (kindIs .const) := by
        rw [List.eq_nil_of_length_eq_zero (by omega : ((AList.keys e.2).filter (kindIs .const)).length = 0)]; simp
      have hp : P ∈ (AList.keys e.2).filter (kindIs .prim) := by
        simp only [List.mem_filter, kindIs, decide_eq_true_eq] at hv hc ⊢
        refine ⟨hP, ?_⟩
        cases hk : P.kind with
        | prim => rfl
        | var => exact absurd ⟨hP, hk⟩ hv
        | const => exact absurd ⟨hP, hk⟩ hc
      exact List.length_pos_of_mem hp
    rw [h3 hmc0 hnp]
    have h0 : countKind .var e.2 = 0 := by omega
    have h0' : countKind .const e.2 = 0 := by omega
    simp [specNorm, epsTerm_real, h0, h0', tri]

/-- **C19_varmass (det).** Whenever `S` has a variable or a constant, variables and constants
    together receive exactly `variable_probability` if other rules exist (and everything
    otherwise), minus the ε-term of the ordering trick (`specVarMass`); the primitive rules
    receive the rest, `1 - variable_probability`. -/
theorem C19_varmass_det (L : Layer) (v ε : ℝ) (tvo : Bool) (rules : AList NT (AList DP (List NT)))
    (x : List ℝ) (tags : AList NT (AList DP ℝ))
    (h : tensor2logProbDet L v ε tvo rules x = some tags)
    (hv0 : 0 < v) (hv1 : v < 1) (hε : 0 ≤ ε) (hwf : wfRules rules = true) :
    List.Forall₂ (fun e t => t.1 = e.1 ∧
        (0 < countKind .var e.2 + countKind .const e.2 →
         hypEps v ε tvo (decide (0 < countKind .prim e.2)) (countKind .var e.2) (countKind .const e.2) = true →
         expSum (t.2.filter (fun z => z.1.kind ≠ .prim))
            = specVarMass v ε tvo (decide (0 < countKind .prim e.2)) (countKind .var e.2) (countKind .const e.2)
         ∧ expSum (t.2.filter (fun z => z.1.kind = .prim))
            = 1 - (if 0 < countKind .prim e.2 then v else 1))) rules tags := by
  have hf := allSomeL_forall₂_of _ (fun e => (AList.keys e.2).Nodup) rules tags h (wfRules_mem hwf)
  refine hf.imp ?_
  intro e t ⟨hnd, het⟩
  obtain ⟨h1, h2, _⟩ := tagEntryDet_mass L v ε tvo _ e t het hv0 hv1 hε hnd selVar false true
    (fun P hP => by simp [selVar, kindIs, hP]) (fun P hP => by simp [selVar, kindIs, hP])
  obtain ⟨_, h2', _⟩ := tagEntryDet_mass L v ε tvo _ e t het hv0 hv1 hε hnd selPrim true false
    (fun P hP => by simp [selPrim, kindIs, hP]) (fun P hP => by simp [selPrim, kindIs, hP])
  refine ⟨h1, ?_⟩
  intro hmc hhyp
  constructor
  · have : (fun z : DP × ℝ => decide (z.1.kind ≠ Kind.prim)) = (fun z => selVar z.1) := by
      funext z; simp [selVar, kindIs]
    rw [this, expSum_filter_eq_mass, h2 hmc hhyp]
    simp only [specVarMass]
    by_cases hnp : 0 < countKind .prim e.2 <;> simp [hnp]
  · have : (fun z : DP × ℝ => decide (z.1.kind = Kind.prim)) = (fun z => selPrim z.1) := by
      funext z; simp [selPrim, kindIs]
    rw [this, expSum_filter_eq_mass, h2' hmc hhyp]
    simp

/-- **C19_positive (det).** Every rule weight `exp(tag)` is positive.  (Over ℝ this is a property
    of `exp`; its content is that every tag is a real number, which on floats means: finite —
    the arguments of `log` in the computation are positive under `hypEps`, see `next_nvl`,
    `tagNT_mass_vars`.) -/
theorem C19_positive_det (tags : AList NT (AList DP ℝ)) :
    ∀ e ∈ toProbDet tags, ∀ z ∈ e.2, 0 < z.2 := by
  intro e he z hz
  simp only [toProbDet, List.mem_map] at he
  obtain ⟨e0, _, rfl⟩ := he
  simp only [List.mem_map] at hz
  obtain ⟨z0, _, rfl⟩ := hz
  exact Real.exp_pos _

/-- **C19_consistent (det).** If `log_probability t` returns `lp` then the program has a
    derivation from the start symbol and `exp lp` is the product of the converted weights
    (`to_prob_det_grammar`) along that derivation — `derivWeightDet`, the probability the
    converted grammar gives to the derivation. -/
theorem C19_consistent_det (rules : AList NT (AList DP (List NT))) (start : NT)
    (tags : AList NT (AList DP ℝ)) (t : Prog) (lp : ℝ)
    (h : logProbabilityDet rules start tags t = some lp) :
    derivWeightDet rules start (toProbDet tags) t = some (Real.exp lp) :=
  consistent_det rules start tags t lp h

/-- **C19_encode (det).** If `encode t` returns a vector, then `t` has a derivation `d` from the
    start symbol and the vector is the indicator of exactly the positions
    `start(abs S) + index(P)` of the primitive rules `(S, P)` of `d` (all inside the tensor). -/
theorem C19_encode_det (L : Layer) (rules : AList NT (AList DP (List NT))) (start : NT) (t : Prog)
    (out : List ℕ) (h : encodeDet L rules start t = some out) :
    ∃ d i n, derivDet rules t start [] = some (d, i, n)
      ∧ out = indicator L.outputSize (positionsOf L d)
      ∧ ∀ p ∈ positionsOf L d, p < L.outputSize :=
  encode_det L rules start t out h

/-- `reduce_derivations` of a deterministic grammar is the fold of the reducer over the
    left-most derivation (used by both theorems above; stated for every reducer). -/
theorem C19_reduce_is_fold {β : Type} (rules : AList NT (AList DP (List NT)))
    (f : β → NT → DP → Option β) (t : Prog) (v : β) (start : NT) (info : List NT) :
    reduceDet rules f t v start info = viaDeriv f v (derivDet rules t start info) :=
  reduceDet_eq rules f t v start info

end PS.Predictor
