/-
  C13 — size/occurrence-bounded grammars and products denote the stated languages.
  (under construction: theorems are added below as they are proved)
-/
import PS.Model.Ttcfg
namespace PS.T
open PS PS.G

/-- **type request**: the grammar object returned by the model of `size_constraint` carries the
    type request it was compiled for -/
theorem C13_type_request_size (dsl : Dsl) (request : Ty) (k : Nat) (n : Int) (a : Bool) (fuel : Nat)
    (g : TTG Ctx (Nat × Nat)) (h : sizeConstraint dsl request k n a fuel = .ok g) : g.typeRequest = request := by
  unfold sizeConstraint at h
  split at h
  · cases h
  · split at h <;> cases h
    rfl

end PS.T
