/-
  C13 — size/occurrence-bounded grammars and products denote the stated languages.
  Model: PS/Model/Ttcfg.lean (on PS/Model/Grammar.lean, Cfg.lean); lemmas: PS/Proofs/Ttcfg*.lean.

  Statement.  A size-bounded grammar contains exactly the well-typed programs with at most the
  given number of nodes, an occurrence-bounded grammar (when that language is finite) exactly
  those with at most k occurrences of the named primitive, both honouring the DSL's forbidden
  patterns and reporting the type request they were compiled for, and the product of two
  grammars with the same type request contains exactly the programs common to both.  After
  cleaning, every derivation that can be started can be completed, so the reported number of
  programs equals the size of the language.

  How the pieces fit.
  * `contains` (the stack-based `__contains_rec__` + `TTCFG.derive`) = `inLang` (stack-free
    `run`): C13_contains_run, for every table.
  * rule creation of `size_constraint` / `at_most_k` = the statement's languages: C13_size_rules,
    C13_atmost_rules - real proofs about the transition functions, for every DSL, request,
    bound and program (preorder invariant on `(size, future)` / occurrences left).
  * the worklist `__saturation_build__` creates exactly those rows and only removes by
    `clean`: C13_saturation, C13_size_sound / C13_atmost_sound - the model's grammar NEVER
    contains a program outside the statement's language (unconditional).
  * what the worklist does not guarantee is that it creates every non-terminal a derivation
    reaches (finding C13-F2).  The decidable hypothesis `subOK` (a verified checker, evaluated
    in every generated case on the implementation's ACTUAL table and on the model's) is exactly
    that: C13_certified, C13_size_partial, C13_atmost_partial.
  * product: C13_product (table of `__mul_ttcfg__` = intersection, outright),
    C13_product_sound (after `clean`, outright), C13_product_certified (after `clean`, equality).
  * THE CONSTRUCTION ITSELF (second half of the file): the worklist closes and is exact
    (C13_saturation_closed / _complete / _exact), `clean()` preserves the language (C13_clean_lang) and
    guarantees exactly "first arguments kept" (C13_clean_first; the rest is finding C13-F5, proved
    unrepairable by rule removal: finding_C13_F5_no_repair), `programs()` = size of the language of
    every table (C13_programs), constructed grammars are typed (C13_product_constructed needs no
    certificate); TOTAL CORRECTNESS with explicit fuel: C13_clean_terminates, C13_programs_terminates,
    C13_size_total, C13_atmost_total_partial (hypothesis uncountedRanked; finding_C13_F9: finite
    language, construction never returns), C13_product_terminates, C13_product_size_total;
    type request: C13_type_request_size / _atmost / _product.  The certificate theorems below
    (`_partial`, `_certified`) are kept: they hold for ANY table, whatever produced it.
  * clean tables: `closedOK` (verified checker) ⇒ every partial derivation can be completed
    (C13_clean) and `programs()` = size of the language (C13_count); `clean` adds no program
    (C13_clean_sound).
-/
import PS.Proofs.TtcfgRun
import PS.Proofs.TtcfgCert
import PS.Proofs.TtcfgRows
import PS.Proofs.TtcfgSize
import PS.Proofs.TtcfgAtMost
import PS.Proofs.TtcfgMul
import PS.Proofs.TtcfgClean
import PS.Proofs.TtcfgCountC
import PS.Proofs.TtcfgSat
import PS.Proofs.TtcfgBuild
import PS.Proofs.TtcfgCleanLang
import PS.Proofs.TtcfgBuildTerm
import PS.Proofs.TtcfgCountS
import PS.Proofs.TtcfgNoRepair
import PS.Proofs.TtcfgCleanFirst
import PS.Proofs.TtcfgBuildExact
import PS.Proofs.TtcfgTotal
import PS.Proofs.TtcfgAtMostTerm
import PS.Proofs.TtcfgAtMostDiverge
import PS.Proofs.TtcfgTyped
import PS.Proofs.TtcfgMulTerm
namespace PS.T
open PS PS.G

/-! ## literals for the non-vacuity examples and the findings -/
namespace Ex
def a : Ty := .base "a"
def b : Ty := .base "b"
def c : Ty := .base "c"
def d : Ty := .base "d"
def x : Ty := .base "x"
def int : Ty := .base "int"
def fn (args : List Ty) (r : Ty) : Ty := Ty.mkFun args r
def leaf (s : Sym) : Prog := .node s []
-- arithmetic DSL with a forbidden pattern
def plus : Sym := Sym.prim "+" (fn [int, int] int)
def one : Sym := Sym.prim "1" int
def arith : Dsl := ⟨[plus, one], [(("+", 0), ["+"])]⟩
def v0 : Sym := Sym.var 0 int
def good : Prog := .node plus [leaf one, .node plus [leaf v0, leaf one]]     -- (+ 1 (+ var0 1))
def bad : Prog := .node plus [.node plus [leaf one, leaf one], leaf one]     -- (+ (+ 1 1) 1): forbidden
-- the DSL of finding C13-F2
def f : Sym := Sym.prim "f" (fn [a, b] c)
def g : Sym := Sym.prim "g" (fn [a, d] c)
def h : Sym := Sym.prim "h" (fn [x] a)
def x0 : Sym := Sym.prim "x0" x
def y : Sym := Sym.prim "y" b
def z : Sym := Sym.prim "z" d
def sib : Dsl := ⟨[f, g, h, x0, y, z], []⟩
def fhxy : Prog := .node f [.node h [leaf x0], leaf y]                       -- (f (h x0) y)
def ghxz : Prog := .node g [.node h [leaf x0], leaf z]                       -- (g (h x0) z)
-- the DSL of finding C13-F3
def map : Sym := Sym.prim "map" (fn [fn [int] int, int] int)
def succ : Sym := Sym.prim "succ" (fn [int] int)
def ho : Dsl := ⟨[map, succ, one], []⟩
def mapsucc1 : Prog := .node map [leaf succ, leaf one]                       -- (map succ 1)
-- the DSL of finding C13-F5: the second argument of f has no inhabitant
def xa : Sym := Sym.prim "x" a
def kc : Sym := Sym.prim "k" c
def unin : Dsl := ⟨[f, xa, kc], []⟩
-- empty language
def fa : Sym := Sym.prim "f" (fn [a] c)
def xb : Sym := Sym.prim "x" b
def empty : Dsl := ⟨[fa, xb], []⟩
def tableOf {S T : Type} : Res (TTG S T) → Option (TT S T)
  | .ok g => some g.G
  | _ => none
end Ex

/-! ## membership -/

/-- **`program in grammar`** - the deterministic derivation with a pending stack of argument
    slots and a threaded state - **is the stack-free language of the rule table**, for every
    table with any state types and every program. -/
theorem C13_contains_run {S T : Type} [DecidableEq S] [DecidableEq T] (G : TT S T) (t : Prog) :
    PS.G.contains G t = inLang G t :=
  contains_eq_inLang G t

/-! ## rule creation = the statement's languages -/

/-- **size**: the rules created by `size_constraint` (every non-terminal `(type, n-gram, (size,
    future))` carrying the rules the worklist iteration creates for it) derive from the start
    symbol exactly the well-typed programs with at most `k` nodes and without a forbidden
    pattern (as far as the n-gram shows the parent).  Hypothesis (finding C13-F3): the transition
    counts the arguments actually taken (`actual`, proposed repair), or no primitive takes a
    function as an argument.
    Full statement (false on the unchanged code, see `finding_C13_F3`): the same without `hyp`. -/
theorem C13_size_rules_partial (dsl : Dsl) (hwf : wfDsl dsl = true) (request : Ty) (nG : Int) (k : Nat) (actual : Bool)
    (hyp : actual = true ∨ firstOrder dsl = true) (t : Prog) :
    (run (idealFn (sizeBuilder dsl nG k actual) dsl request) t (request.returns, []) (0, 0)).isSome
      = SizedVis dsl request nG k t :=
  size_ideal_lang dsl hwf request nG k actual hyp t

/-- … with the proposed repair of C13-F3 there is no hypothesis: every DSL, higher-order or not -/
theorem C13_size_rules (dsl : Dsl) (hwf : wfDsl dsl = true) (request : Ty) (nG : Int) (k : Nat) (t : Prog) :
    (run (idealFn (sizeBuilder dsl nG k true) dsl request) t (request.returns, []) (0, 0)).isSome
      = SizedVis dsl request nG k t :=
  size_ideal_lang dsl hwf request nG k true (Or.inl rfl) t

/-- **at most k occurrences**: likewise, for every DSL (finite language or not) -/
theorem C13_atmost_rules (dsl : Dsl) (hwf : wfDsl dsl = true) (request : Ty) (nG : Int) (name : String) (k : Nat)
    (t : Prog) :
    (run (idealFn (atMostBuilder dsl nG name k) dsl request) t (request.returns, []) k).isSome
      = AtMostOccVis dsl request nG name k t :=
  atMost_ideal_lang dsl hwf request nG name k t

/-- an n-gram of width ≥ 2 (or unbounded) shows the parent: the language seen through it is the
    statement's (finding C13-F7 = C01-F2 otherwise) -/
theorem C13_vis_statement (dsl : Dsl) (request : Ty) (nG : Int) (hn : nG ≥ 2 ∨ nG < 0) (k : Nat) (name : String)
    (t : Prog) :
    SizedVis dsl request nG k t = Sized dsl request k t ∧
    AtMostOccVis dsl request nG name k t = AtMostOcc dsl request name k t := by
  have : effParentT nG = some := by funext p; simp [effParentT, hn]
  simp [SizedVis, Sized, AtMostOccVis, AtMostOcc, this]

open Ex in
/-- the languages are not trivial: `(+ 1 (+ var0 1))` is in both, the forbidden
    `(+ (+ 1 1) 1)` in neither, and 5 nodes do not fit in 4 -/
example : Sized arith (fn [int] int) 5 good = true ∧ Sized arith (fn [int] int) 5 bad = false ∧
    Sized arith (fn [int] int) 4 good = false ∧ AtMostOcc arith (fn [int] int) "+" 2 good = true ∧
    AtMostOcc arith (fn [int] int) "+" 1 good = false := by decide +kernel

/-! ## the worklist -/

/-- **`__saturation_build__`**: the table it returns (before `clean`) has distinct keys, contains
    the start symbol and every row is exactly the row of the rule-creation step - for every
    builder, DSL, request and fuel. -/
theorem C13_saturation {S T : Type} [DecidableEq S] [DecidableEq T] (B : Builder S T) (prims : List Sym)
    (request : Ty) (stackKey : Bool) (fuel : Nat) (G : TT S T) (h : saturationTable B prims request stackKey fuel = some G) :
    G.start = startOf B request ∧ (AList.keys G.rules).Nodup ∧ AList.contains G.start G.rules = true ∧
    ∀ e ∈ G.rules, e.2 = rowDict B prims request e.1 :=
  saturationTable_spec B prims request stackKey fuel G h

/-- the model's grammar derives only what the rule creation derives -/
theorem C13_model_sound {S T : Type} [DecidableEq S] [DecidableEq T] (B : Builder S T) (dsl : Dsl) (request : Ty)
    (stackKey : Bool) (fuel : Nat) (G0 G : TT S T) (h0 : saturationTable B dsl.prims request stackKey fuel = some G0)
    (h1 : clean G0 fuel = .ok G) (t : Prog) (hin : inLang G t = true) :
    (run (idealFn B dsl request) t (request.returns, B.init.1) B.init.2).isSome = true := by
  have hs : G.start = startOf B request := by
    rw [clean_start G0 G fuel h1]; exact (saturationTable_spec B dsl.prims request stackKey fuel G0 h0).1
  unfold inLang at hin
  rw [hs] at hin
  cases hr : run G.rule? t ((startOf B request).1, (startOf B request).2.1) (startOf B request).2.2 with
  | none => simp [hr] at hin
  | some w =>
    have h2 := clean_sound G0 G fuel h1 t _ _ w hr
    have h3 := (run_mono _ _ (saturation_rule B dsl request stackKey fuel G0 h0)).1 t _ _ w h2
    simp only [startOf] at h3
    simp [h3]

/-- **soundness of `size_constraint`, unconditional in the table**: whatever the worklist
    explored or dropped, the grammar it returns contains only well-typed programs with at most
    `k` nodes and no forbidden pattern (seen through the n-gram). -/
theorem C13_size_sound_partial (dsl : Dsl) (hwf : wfDsl dsl = true) (request : Ty) (k : Nat) (nG : Int) (actual : Bool)
    (hyp : actual = true ∨ firstOrder dsl = true) (stackKey : Bool) (fuel : Nat) (g : TTG Ctx (Nat × Nat))
    (h : sizeConstraint dsl request k nG actual stackKey fuel = .ok g) (t : Prog) (hin : PS.G.contains g.G t = true) :
    SizedVis dsl request nG k t = true := by
  unfold sizeConstraint at h
  cases h0 : saturationTable (sizeBuilder dsl nG k actual) dsl.prims request stackKey fuel with
  | none => simp [h0] at h
  | some G0 =>
    simp only [h0] at h
    cases h1 : clean G0 fuel with
    | ok G =>
      simp only [h1, Res.ok.injEq] at h
      subst h
      rw [C13_contains_run] at hin
      have := C13_model_sound (sizeBuilder dsl nG k actual) dsl request stackKey fuel G0 G h0 h1 t hin
      rw [← size_ideal_lang dsl hwf request nG k actual hyp t]
      exact this
    | fuel => simp [h1] at h
    | keyError => simp [h1] at h

/-- **soundness of `at_most_k`, unconditional** -/
theorem C13_atmost_sound (dsl : Dsl) (hwf : wfDsl dsl = true) (request : Ty) (name : String) (k : Nat) (nG : Int)
    (stackKey : Bool) (fuel : Nat) (g : TTG Ctx Nat) (h : atMostK dsl request name k nG stackKey fuel = .ok g) (t : Prog)
    (hin : PS.G.contains g.G t = true) : AtMostOccVis dsl request nG name k t = true := by
  unfold atMostK at h
  cases h0 : saturationTable (atMostBuilder dsl nG name k) dsl.prims request stackKey fuel with
  | none => simp [h0] at h
  | some G0 =>
    simp only [h0] at h
    cases h1 : clean G0 fuel with
    | ok G =>
      simp only [h1, Res.ok.injEq] at h
      subst h
      rw [C13_contains_run] at hin
      have := C13_model_sound (atMostBuilder dsl nG name k) dsl request stackKey fuel G0 G h0 h1 t hin
      rw [← atMost_ideal_lang dsl hwf request nG name k t]
      exact this
    | fuel => simp [h1] at h
    | keyError => simp [h1] at h

/-! ## certified tables: the language is exactly the statement's -/

/-- **certified checking**: a rule table `G` - whatever produced it; in every check run: the
    implementation's actual table - that the verified checker `subOK` accepts against the rule
    creation of a builder contains exactly the programs that rule creation derives. -/
theorem C13_certified {S T : Type} [DecidableEq S] [DecidableEq T] (B : Builder S T) (dsl : Dsl) (request : Ty)
    (G : TT S T) (outs : AList (NT S T) (List T)) (dead : List (NT S T))
    (hs : G.start = startOf B request) (h : subOK (rowDict B dsl.prims request) G outs dead = true) (t : Prog) :
    PS.G.contains G t = (run (idealFn B dsl request) t (request.returns, B.init.1) B.init.2).isSome := by
  rw [C13_contains_run, cert_lang _ G outs dead h t, hs]
  rfl

/-- **size-bounded grammars**: membership in a certified table of `size_constraint` ↔ `Sized`.
    `Hyp_C13` = `subOK` (classifier of C13-F2: the table misses no non-terminal a derivation
    reaches) ∧ `actual ∨ firstOrder` (C13-F3) ∧ n-gram width ≥ 2 or unbounded (C13-F7).
    Full statement (false on the unchanged code, `finding_C13_F2`, `finding_C13_F3`):
      sizeConstraint dsl request k n false false fuel = .ok g → contains g.G t = Sized dsl request k t. -/
theorem C13_size_partial (dsl : Dsl) (hwf : wfDsl dsl = true) (request : Ty) (k : Nat) (nG : Int) (actual : Bool)
    (G : TT Ctx (Nat × Nat)) (outs : AList (NT Ctx (Nat × Nat)) (List (Nat × Nat))) (dead : List (NT Ctx (Nat × Nat)))
    (hs : G.start = startOf (sizeBuilder dsl nG k actual) request)
    (hsub : subOK (rowDict (sizeBuilder dsl nG k actual) dsl.prims request) G outs dead = true)
    (hyp : actual = true ∨ firstOrder dsl = true) (hn : nG ≥ 2 ∨ nG < 0) (t : Prog) :
    PS.G.contains G t = Sized dsl request k t := by
  rw [C13_certified (sizeBuilder dsl nG k actual) dsl request G outs dead hs hsub t]
  have := size_ideal_lang dsl hwf request nG k actual hyp t
  simp only [sizeBuilder] at this ⊢
  rw [this, (C13_vis_statement dsl request nG hn k "" t).1]

/-- **occurrence-bounded grammars**: membership in a certified table of `at_most_k` ↔ `AtMostOcc`.
    Full statement (false on the unchanged code for the same reason as C13-F2):
      atMostK dsl request name k n false fuel = .ok g → contains g.G t = AtMostOcc dsl request name k t. -/
theorem C13_atmost_partial (dsl : Dsl) (hwf : wfDsl dsl = true) (request : Ty) (name : String) (k : Nat) (nG : Int)
    (G : TT Ctx Nat) (outs : AList (NT Ctx Nat) (List Nat)) (dead : List (NT Ctx Nat))
    (hs : G.start = startOf (atMostBuilder dsl nG name k) request)
    (hsub : subOK (rowDict (atMostBuilder dsl nG name k) dsl.prims request) G outs dead = true)
    (hn : nG ≥ 2 ∨ nG < 0) (t : Prog) :
    PS.G.contains G t = AtMostOcc dsl request name k t := by
  rw [C13_certified (atMostBuilder dsl nG name k) dsl request G outs dead hs hsub t]
  have := atMost_ideal_lang dsl hwf request nG name k t
  simp only [atMostBuilder] at this ⊢
  rw [this, (C13_vis_statement dsl request nG hn k name t).2]

/-! ## products -/

/-- **product = intersection**: the table built by `__mul_ttcfg__` derives exactly the programs
    both factors derive - for all grammars whose rules give a symbol the same argument types at
    non-terminals of the same type (grammars compiled from DSLs do) and the same start type. -/
theorem C13_product {S T U V : Type} [DecidableEq S] [DecidableEq T] [DecidableEq U] [DecidableEq V]
    (G1 : TT S T) (G2 : TT U V) (hag : ArgsAgree G1 G2) (hty : G1.start.1 = G2.start.1) (t : Prog) :
    PS.G.contains (mulRaw G1 G2) t = (PS.G.contains G1 t && PS.G.contains G2 t) := by
  rw [C13_contains_run, C13_contains_run, C13_contains_run]
  exact mulRaw_lang G1 G2 hag hty t

/-- the hypothesis `ArgsAgree` follows from the decidable `typedOK` of both factors (evaluated by
    the driver on the implementation's factor tables in every product case) -/
theorem C13_product_typed {S T U V : Type} [DecidableEq S] [DecidableEq T] [DecidableEq U] [DecidableEq V]
    (G1 : TT S T) (G2 : TT U V) (h1 : typedOK G1 = true) (h2 : typedOK G2 = true)
    (hty : G1.start.1 = G2.start.1) (t : Prog) :
    PS.G.contains (mulRaw G1 G2) t = (PS.G.contains G1 t && PS.G.contains G2 t) :=
  C13_product G1 G2 (argsAgree_of_typed G1 G2 h1 h2) hty t

/-- … and the cleaned product `g1 * g2` contains only common programs (for every fuel) … -/
theorem C13_product_sound {S T U V : Type} [DecidableEq S] [DecidableEq T] [DecidableEq U] [DecidableEq V]
    (G1 : TT S T) (G2 : TT U V) (hag : ArgsAgree G1 G2) (hty : G1.start.1 = G2.start.1) (fuel : Nat)
    (G : TT (S × U) (T × V)) (h : mul G1 G2 fuel = .ok G) (t : Prog) (hin : PS.G.contains G t = true) :
    PS.G.contains G1 t = true ∧ PS.G.contains G2 t = true := by
  rw [C13_contains_run] at hin
  unfold inLang at hin
  rw [clean_start _ G fuel h] at hin
  cases hr : run G.rule? t ((mulRaw G1 G2).start.1, (mulRaw G1 G2).start.2.1) (mulRaw G1 G2).start.2.2 with
  | none => simp [hr] at hin
  | some w =>
    have h2 := clean_sound _ G fuel h t _ _ w hr
    have h3 : inLang (mulRaw G1 G2) t = true := by unfold inLang; simp [h2]
    rw [← C13_contains_run, C13_product G1 G2 hag hty t, Bool.and_eq_true] at h3
    exact h3

/-- … and all of them when the cleaned table passes the verified checker against the raw
    product (evaluated on the implementation's product in every generated case). -/
theorem C13_product_certified {S T U V : Type} [DecidableEq S] [DecidableEq T] [DecidableEq U] [DecidableEq V]
    (G1 : TT S T) (G2 : TT U V) (hag : ArgsAgree G1 G2) (hty : G1.start.1 = G2.start.1)
    (G : TT (S × U) (T × V)) (outs : AList (NT (S × U) (T × V)) (List (T × V))) (dead : List (NT (S × U) (T × V)))
    (hs : G.start = (mulRaw G1 G2).start)
    (h : subOK (fun nt => (AList.lookup nt (mulRaw G1 G2).rules).getD []) G outs dead = true) (t : Prog) :
    PS.G.contains G t = (PS.G.contains G1 t && PS.G.contains G2 t) := by
  rw [C13_contains_run, cert_lang _ G outs dead h t, tableRows_fn, hs, ← C13_product G1 G2 hag hty t, C13_contains_run]
  rfl

/-! ## clean tables -/

/-- **`clean()` adds no program** (every table, fuel, program) -/
theorem C13_clean_sound {S T : Type} [DecidableEq S] [DecidableEq T] (G G' : TT S T) (fuel : Nat)
    (h : clean G fuel = .ok G') (t : Prog) (hin : PS.G.contains G' t = true) : PS.G.contains G t = true := by
  rw [C13_contains_run] at hin ⊢
  unfold inLang at hin ⊢
  rw [clean_start G G' fuel h] at hin
  cases hr : run G'.rule? t (G.start.1, G.start.2.1) G.start.2.2 with
  | none => simp [hr] at hin
  | some w => simp [clean_sound G G' fuel h t _ _ w hr]

/-- **every derivation that can be started can be completed**: in a table accepted by the
    verified checker `closedOK`, from every configuration (pending argument slots + state) that
    the derivation machine of `TTCFG.derive` can reach from the start symbol, a final
    configuration (no slot pending) can be reached.
    Full statement (false on the unchanged code, `finding_C13_F5`): the same for the table
    returned by `clean`, without the hypothesis `closedOK`. -/
theorem C13_clean_partial {S T : Type} [DecidableEq S] [DecidableEq T] (G : TT S T)
    (outs : AList (NT S T) (List T)) (rk : AList (NT S T) Nat) (h : closedOK G outs rk = true)
    (c : Config S T) (hreach : Steps G ([(G.start.1, G.start.2.1)], G.start.2.2) c) :
    ∃ w, Steps G c ([], w) :=
  closed_complete G outs rk h c hreach

/-- … in particular every rule of every non-terminal derives a program -/
theorem C13_clean_productive {S T : Type} [DecidableEq S] [DecidableEq T] (G : TT S T)
    (outs : AList (NT S T) (List T)) (rk : AList (NT S T) Nat) (h : closedOK G outs rk = true) :
    ∀ e ∈ G.rules, ∀ r ∈ e.2, ∃ (kids : List Prog) (w : T),
      run G.rule? (.node r.1 kids) (e.1.1, e.1.2.1) e.1.2.2 = some w :=
  fun e he r hr => closed_productive G outs rk (closedCert_of_closedOK G outs rk h) _ e he (Nat.le_refl _) r hr

/-- **the reported number of programs is the size of the language**: on a table accepted by
    `closedOK`, whenever `programs()` returns `n`, the programs of the grammar are listed exactly
    once each by `langOf` and there are `n` of them.
    Full statement (false on the unchanged code, `finding_C13_F5`, `finding_C13_F6`): the same for
    every table returned by a constructor. -/
theorem C13_count_partial {S T : Type} [DecidableEq S] [DecidableEq T] (G : TT S T)
    (outs : AList (NT S T) (List T)) (rk : AList (NT S T) Nat) (h : closedOK G outs rk = true)
    (fuel n : Nat) (hp : programs G fuel = some n) :
    ∃ L : List Prog, L.Nodup ∧ n = L.length ∧ ∀ t, t ∈ L ↔ PS.G.contains G t = true := by
  obtain ⟨h1, h2, h3⟩ := programs_count G outs rk h fuel n hp
  exact ⟨langOf G fuel, h1, h2, fun t => by rw [h3 t, C13_contains_run]⟩

/-! ## type request -/

/-- the grammar returned by the model of `size_constraint` reports the request it was compiled for -/
theorem C13_type_request_size (dsl : Dsl) (request : Ty) (k : Nat) (n : Int) (a sk : Bool) (fuel : Nat)
    (g : TTG Ctx (Nat × Nat)) (h : sizeConstraint dsl request k n a sk fuel = .ok g) : g.typeRequest = request := by
  unfold sizeConstraint at h
  split at h
  · cases h
  · split at h <;> cases h
    rfl

theorem C13_type_request_atmost (dsl : Dsl) (request : Ty) (name : String) (k : Nat) (n : Int) (sk : Bool) (fuel : Nat)
    (g : TTG Ctx Nat) (h : atMostK dsl request name k n sk fuel = .ok g) : g.typeRequest = request := by
  unfold atMostK at h
  split at h
  · cases h
  · split at h <;> cases h
    rfl

/-! ## non-vacuity of the certified theorems and the recorded findings (kernel evaluation of the
     model on concrete inputs) -/
namespace Ex
/-- DSL {+, 1}, request int, at most 3 nodes: the language is {1, (+ 1 1)} -/
def small : Dsl := ⟨[plus, one], []⟩
def S0 : NT Ctx (Nat × Nat) := (int, ([], (0, 0)))
def A : NT Ctx (Nat × Nat) := (int, ([(plus, 0)], (1, 2)))
def B : NT Ctx (Nat × Nat) := (int, ([(plus, 1)], (2, 1)))
def smallOuts : AList (NT Ctx (Nat × Nat)) (List (Nat × Nat)) := [(S0, [(1, 0), (3, 0)]), (A, [(2, 1)]), (B, [(3, 0)])]
def smallRk : AList (NT Ctx (Nat × Nat)) Nat := [(S0, 1), (A, 0), (B, 0)]
/-- run a check on the table a model constructor returns -/
def onTable {S T : Type} (r : Res (TTG S T)) (p : TT S T → Bool) : Bool :=
  match r with
  | .ok g => p g.G
  | _ => false
end Ex

open Ex in
/-- the hypotheses of C13_size_partial, C13_clean_partial and C13_count_partial hold on the table
    the model of `size_constraint` builds for {+, 1} / int / 3, with a certificate written by
    hand; `programs()` is 2, `(+ 1 1)` is a member, `(+ 1 (+ 1 1))` is not -/
example : onTable (sizeConstraint small int 3 2 false false 100) (fun G =>
    G.start == startOf (sizeBuilder small 2 3 false) int &&
    subOK (rowDict (sizeBuilder small 2 3 false) small.prims int) G smallOuts [] &&
    closedOK G smallOuts smallRk &&
    programs G 10 == some 2 &&
    PS.G.contains G (.node plus [leaf one, leaf one]) &&
    !(PS.G.contains G (.node plus [leaf one, .node plus [leaf one, leaf one]]))) = true := by decide +kernel

open Ex in
/-- a product: size ≤ 3 times size ≤ 1 over {+, 1} contains `1` and not `(+ 1 1)`; the
    factors agree on argument types (C13_product applies) -/
example : (match tableOf (sizeConstraint small int 3 2 false false 100), tableOf (sizeConstraint small int 1 2 false false 100) with
    | some G1, some G2 =>
      PS.G.contains (mulRaw G1 G2) (leaf one) && !(PS.G.contains (mulRaw G1 G2) (.node plus [leaf one, leaf one])) &&
      PS.G.contains G1 (.node plus [leaf one, leaf one])
    | _, _ => false) = true := by decide +kernel

open Ex in
/-- **finding C13-F2** on the model: `size_constraint(dsl, c, 4)` over f: a→b→c, g: a→d→c,
    h: x→a, x0, y, z misses the 4-node program `(f (h x0) y)` (the second pending stack that
    reaches `(x, (h,0), (2,2))` is dropped) while it keeps `(g (h x0) z)`; `programs()` still
    reports 2 and no certificate exists: the table is not closed. -/
theorem finding_C13_F2 :
    Sized sib c 4 fhxy = true ∧ Sized sib c 4 ghxz = true ∧
    onTable (sizeConstraint sib c 4 2 false false 1000) (fun G =>
      !(PS.G.contains G fhxy) && PS.G.contains G ghxz && programs G 20 == some 2) = true ∧
    -- with the proposed repair (work list keyed by rule AND pending stack) both are members
    onTable (sizeConstraint sib c 4 2 false true 1000) (fun G =>
      PS.G.contains G fhxy && PS.G.contains G ghxz && programs G 20 == some 2) = true := by decide +kernel

open Ex in
/-- **finding C13-F3** on the model: `(map succ 1)` has 3 nodes but is not in
    `size_constraint(dsl, int, 3)` - `succ` passed as a value is charged its declared argument;
    with the proposed repair (`actual`) it is. -/
theorem finding_C13_F3 :
    Sized ho int 3 mapsucc1 = true ∧
    onTable (sizeConstraint ho int 3 2 false false 1000) (fun G => !(PS.G.contains G mapsucc1)) = true ∧
    onTable (sizeConstraint ho int 3 2 true false 1000) (fun G => PS.G.contains G mapsucc1) = true := by decide +kernel

open Ex in
/-- **finding C13-F5** on the model: f : a → b → c with b uninhabited.  The language of
    `size_constraint(dsl, c, 4)` is {k}, but `clean()` keeps the rule `f` (its FIRST argument is
    fine), so `programs()` reports 2 and the derivation `f x _` cannot be completed. -/
theorem finding_C13_F5 :
    onTable (sizeConstraint unin c 4 2 false false 1000) (fun G =>
      programs G 20 == some 2 && (langOf G 10).length == 1 && PS.G.contains G (leaf kc) &&
      (G.rule? (c, ([], (0, 0))) f).isSome &&
      !(AList.contains ((b, ([(f, 1)], (2, 1))) : NT Ctx (Nat × Nat)) G.rules)) = true := by decide +kernel

open Ex in
/-- **finding C13-F6** on the model: an empty language (no rule left, not even for the start
    symbol) is reported as 1 program. -/
theorem finding_C13_F6 :
    onTable (sizeConstraint empty c 3 2 false false 1000) (fun G => G.rules.isEmpty && programs G 20 == some 1) = true := by
  decide +kernel

open Ex in
/-- **finding C13-F7** on the model: with `n_gram = 1` the forbidden `(+ (+ 1 1) 1)` is a member. -/
theorem finding_C13_F7 :
    Sized arith int 5 bad = false ∧
    onTable (sizeConstraint arith int 5 1 false false 1000) (fun G => PS.G.contains G bad) = true ∧
    onTable (sizeConstraint arith int 5 2 false false 1000) (fun G => !(PS.G.contains G bad)) = true := by decide +kernel

/-! ## THE CONSTRUCTION ITSELF: the worklist closes, `clean()` keeps the language
     (no per-case certificate: these replace the hypothesis `subOK` of the `_partial` theorems
     for the code as it is now - work list keyed by rule and pending stack, 6d9766e) -/

/-- **the worklist of `__saturation_build__` closes**: when the loop ends there is a set of
    (non-terminal, pending stack) pairs that contains the start configuration, is closed under
    every rule the rule creation gives any of its non-terminals (the next non-terminal, taken from
    the arguments and the pending stack, with the new state, is in the set again), and all its
    non-terminals have a row in the table returned - for every builder, DSL, request and fuel. -/
theorem C13_saturation_closed {S T : Type} [DecidableEq S] [DecidableEq T] (B : Builder S T) (prims : List Sym)
    (request : Ty) (fuel : Nat) (G : TT S T) (h : saturationTable B prims request true fuel = some G) :
    ∃ seen : List (NT S T × List (Ty × S)), ((request.returns, B.init), []) ∈ seen ∧
      (∀ (rule : NT S T) (stack : List (Ty × S)), (rule, stack) ∈ seen →
        ∀ (P : Sym) (args : List (Ty × S)) (st : T), rowsFn (rowDict B prims request) rule P = some (args, st) →
          ∀ (x : Ty × S) (rest : List (Ty × S)), args ++ stack = x :: rest → ((x.1, (x.2, st)), rest) ∈ seen) ∧
      ∀ x ∈ seen, AList.contains x.1 G.rules = true :=
  saturation_closed B prims request fuel G h

/-- **`__saturation_build__` is complete**: the table it returns (before `clean`) contains
    exactly the programs the rule creation derives from the start symbol - every builder, DSL,
    request, fuel, program. -/
theorem C13_saturation_complete {S T : Type} [DecidableEq S] [DecidableEq T] (B : Builder S T) (dsl : Dsl)
    (request : Ty) (fuel : Nat) (G : TT S T) (h : saturationTable B dsl.prims request true fuel = some G) (t : Prog) :
    PS.G.contains G t = (run (idealFn B dsl request) t (request.returns, B.init.1) B.init.2).isSome := by
  rw [C13_contains_run]
  exact saturation_lang B dsl request fuel G h t

open Ex in
/-- non-vacuity: the worklist of `size_constraint` over the DSL of finding C13-F2 ends, and its
    table contains both 4-node programs -/
example : (match saturationTable (sizeBuilder sib 2 4 true) sib.prims c true 1000 with
    | some G => PS.G.contains G fhxy && PS.G.contains G ghxz
    | none => false) = true := by decide +kernel

/-- **`clean()` preserves the language**: every table none of whose non-terminals has the
    end-marker type `UnknownType`, every fuel, every program.
    (Without the hypothesis the statement is false: `finding_C13_clean_unknown`.) -/
theorem C13_clean_lang {S T : Type} [DecidableEq S] [DecidableEq T] (G G' : TT S T) (hU : noUnknownKey G = true)
    (fuel : Nat) (h : clean G fuel = .ok G') (t : Prog) : PS.G.contains G' t = PS.G.contains G t := by
  rw [C13_contains_run, C13_contains_run]
  exact clean_lang G G' hU fuel h t

/-- … and so does `clean()` with the test for a missing start symbol in front (8ba7791) -/
theorem C13_cleanFixed_lang {S T : Type} [DecidableEq S] [DecidableEq T] (G G' : TT S T) (hU : noUnknownKey G = true)
    (fuel : Nat) (h : cleanFixed G fuel = .ok G') (t : Prog) : PS.G.contains G' t = PS.G.contains G t := by
  rw [C13_contains_run, C13_contains_run]
  exact cleanFixed_lang G G' hU fuel h t

namespace Ex
/-- a table with a non-terminal of the end-marker type: `S0 → x` (a leaf, ending in state 1) and
    an empty row for `(UnknownType, ("s", 1))` -/
def unk : TT String Nat := ⟨(int, ("s", 0)), [((int, ("s", 0)), [(xa, ([], 1))]), ((Ty.unknown, ("s", 1)), [])]⟩
end Ex

open Ex in
/-- **why the hypothesis**: on a table with a non-terminal of type `UnknownType`, `clean()` takes
    the end of the derivation of `x` for a deleted first argument and removes the only program. -/
theorem finding_C13_clean_unknown :
    noUnknownKey unk = false ∧ PS.G.contains unk (leaf xa) = true ∧
    (match clean unk 100 with
     | .ok G' => !(PS.G.contains G' (leaf xa)) && G'.rules.isEmpty
     | _ => false) = true := by decide +kernel

/-- **size-bounded grammars, the construction itself**: the grammar returned by the model of
    `TTCFG.size_constraint` (saturation, then clean) contains exactly the well-typed programs with
    at most `k` nodes and no forbidden pattern seen through the n-gram.  Hypotheses: the DSL is a
    list of primitives without `UnknownType` arguments; `actual ∨ firstOrder` (C13-F3; the code as
    it is now has `actual = true`). -/
theorem C13_size_vis (dsl : Dsl) (hwf : wfDsl dsl = true) (request : Ty) (hU : noUnknownDsl dsl request = true)
    (k : Nat) (nG : Int) (actual : Bool) (hyp : actual = true ∨ firstOrder dsl = true) (fuel : Nat)
    (g : TTG Ctx (Nat × Nat)) (h : sizeConstraint dsl request k nG actual true fuel = .ok g) (t : Prog) :
    PS.G.contains g.G t = SizedVis dsl request nG k t := by
  unfold sizeConstraint at h
  cases h0 : saturationTable (sizeBuilder dsl nG k actual) dsl.prims request true fuel with
  | none => simp [h0] at h
  | some G0 =>
    simp only [h0] at h
    cases h1 : clean G0 fuel with
    | ok G =>
      simp only [h1, Res.ok.injEq] at h
      subst h
      rw [C13_clean_lang G0 G (saturation_noUnknown _ dsl request true fuel G0 hU h0) fuel h1 t,
        C13_saturation_complete _ dsl request fuel G0 h0 t]
      exact size_ideal_lang dsl hwf request nG k actual hyp t
    | fuel => simp [h1] at h
    | keyError => simp [h1] at h

/-- **size-bounded grammars** (the code as it is now; n-gram of width ≥ 2 or unbounded, C13-F7):
    `program in TTCFG.size_constraint(dsl, request, k, n)` ↔ the program is well typed, has at most
    `k` nodes and no forbidden pattern. -/
theorem C13_size (dsl : Dsl) (hwf : wfDsl dsl = true) (request : Ty) (hU : noUnknownDsl dsl request = true)
    (k : Nat) (nG : Int) (hn : nG ≥ 2 ∨ nG < 0) (fuel : Nat)
    (g : TTG Ctx (Nat × Nat)) (h : sizeConstraint dsl request k nG true true fuel = .ok g) (t : Prog) :
    PS.G.contains g.G t = Sized dsl request k t := by
  rw [C13_size_vis dsl hwf request hU k nG true (Or.inl rfl) fuel g h t, (C13_vis_statement dsl request nG hn k "" t).1]

/-- **occurrence-bounded grammars, the construction itself** (whenever the construction ends:
    finite language or not) -/
theorem C13_atmost_vis (dsl : Dsl) (hwf : wfDsl dsl = true) (request : Ty) (hU : noUnknownDsl dsl request = true)
    (name : String) (k : Nat) (nG : Int) (fuel : Nat)
    (g : TTG Ctx Nat) (h : atMostK dsl request name k nG true fuel = .ok g) (t : Prog) :
    PS.G.contains g.G t = AtMostOccVis dsl request nG name k t := by
  unfold atMostK at h
  cases h0 : saturationTable (atMostBuilder dsl nG name k) dsl.prims request true fuel with
  | none => simp [h0] at h
  | some G0 =>
    simp only [h0] at h
    cases h1 : clean G0 fuel with
    | ok G =>
      simp only [h1, Res.ok.injEq] at h
      subst h
      rw [C13_clean_lang G0 G (saturation_noUnknown _ dsl request true fuel G0 hU h0) fuel h1 t,
        C13_saturation_complete _ dsl request fuel G0 h0 t]
      exact atMost_ideal_lang dsl hwf request nG name k t
    | fuel => simp [h1] at h
    | keyError => simp [h1] at h

theorem C13_atmost (dsl : Dsl) (hwf : wfDsl dsl = true) (request : Ty) (hU : noUnknownDsl dsl request = true)
    (name : String) (k : Nat) (nG : Int) (hn : nG ≥ 2 ∨ nG < 0) (fuel : Nat)
    (g : TTG Ctx Nat) (h : atMostK dsl request name k nG true fuel = .ok g) (t : Prog) :
    PS.G.contains g.G t = AtMostOcc dsl request name k t := by
  rw [C13_atmost_vis dsl hwf request hU name k nG fuel g h t, (C13_vis_statement dsl request nG hn k name t).2]

open Ex in
/-- non-vacuity: the hypotheses hold and the constructors return - `size_constraint` on the
    arithmetic DSL with a forbidden pattern (request int → int, 5 nodes), `at_most_k` (at most one
    `x0`) on the DSL of finding C13-F2 -/
example : wfDsl arith = true ∧ noUnknownDsl arith (fn [int] int) = true ∧
    onTable (sizeConstraint arith (fn [int] int) 5 2 true true 10000) (fun G =>
      PS.G.contains G good && !(PS.G.contains G bad)) = true ∧
    onTable (atMostK sib c "x0" 1 2 true 1000) (fun G => PS.G.contains G fhxy) = true := by decide +kernel

/-! ### products -/

/-- **`g1 * g2` (table of `__mul_ttcfg__`, then `clean`) contains exactly the programs common to
    both factors** - for all pairs of grammars that give a symbol the same argument types at
    non-terminals of the same type, have the same start type, and no end-marker non-terminal in
    the left factor; every fuel for which `clean` returns. -/
theorem C13_product_clean {S T U V : Type} [DecidableEq S] [DecidableEq T] [DecidableEq U] [DecidableEq V]
    (G1 : TT S T) (G2 : TT U V) (hag : ArgsAgree G1 G2) (hty : G1.start.1 = G2.start.1)
    (hU : noUnknownKey G1 = true) (fuel : Nat) (G : TT (S × U) (T × V)) (h : mul G1 G2 fuel = .ok G) (t : Prog) :
    PS.G.contains G t = (PS.G.contains G1 t && PS.G.contains G2 t) := by
  rw [C13_clean_lang (mulRaw G1 G2) G (mulRaw_noUnknown G1 G2 hU) fuel h t]
  exact C13_product G1 G2 hag hty t

/-- … and with `clean()` as it is now (empty product = empty table instead of KeyError) -/
theorem C13_product_cleanFixed {S T U V : Type} [DecidableEq S] [DecidableEq T] [DecidableEq U] [DecidableEq V]
    (G1 : TT S T) (G2 : TT U V) (hag : ArgsAgree G1 G2) (hty : G1.start.1 = G2.start.1)
    (hU : noUnknownKey G1 = true) (fuel : Nat) (G : TT (S × U) (T × V))
    (h : cleanFixed (mulRaw G1 G2) fuel = .ok G) (t : Prog) :
    PS.G.contains G t = (PS.G.contains G1 t && PS.G.contains G2 t) := by
  rw [C13_cleanFixed_lang (mulRaw G1 G2) G (mulRaw_noUnknown G1 G2 hU) fuel h t]
  exact C13_product G1 G2 hag hty t

open Ex in
/-- non-vacuity: size ≤ 3 times size ≤ 1 over {+, 1}: the cleaned product exists, the factors are
    typed, contain no end-marker, and it contains `1` only -/
example : (match tableOf (sizeConstraint small int 3 2 true true 100), tableOf (sizeConstraint small int 1 2 true true 100) with
    | some G1, some G2 =>
      typedOK G1 && typedOK G2 && noUnknownKey G1 &&
      (match mul G1 G2 100 with
       | .ok G => PS.G.contains G (leaf one) && !(PS.G.contains G (.node plus [leaf one, leaf one]))
       | _ => false)
    | _, _ => false) = true := by decide +kernel

/-! ### termination of the worklist (fuel adequacy) -/

/-- **`__saturation_build__` terminates** for every builder whose rules strictly decrease a rank
    of the configuration (non-terminal, pending stack): with either de-duplication the loop ends
    within `satBound b (rk start)` iterations, where `b` = number of variables of the request +
    number of primitives and `satBound b n = 1 + b + … + bⁿ`; and **more fuel does not change the
    table**. -/
theorem C13_saturation_terminates {S T : Type} [DecidableEq S] [DecidableEq T] (B : Builder S T) (prims : List Sym)
    (request : Ty) (stackKey : Bool) (rk : NT S T × List (Ty × S) → Nat)
    (hdec : ∀ (rule : NT S T) (stack : List (Ty × S)), ∀ p ∈ pushesOf B prims request rule stack,
      rk (entryKey p) < rk (rule, stack)) :
    (∀ fuel, satBound (request.arguments.length + prims.length) (rk ((request.returns, B.init), [])) ≤ fuel →
      (saturationTable B prims request stackKey fuel).isSome = true) ∧
    (∀ fuel extra G, saturationTable B prims request stackKey fuel = some G →
      saturationTable B prims request stackKey (fuel + extra) = some G) :=
  ⟨fun fuel hf => saturationTable_terminates B prims request stackKey rk hdec fuel hf,
   fun fuel extra G h => saturationTable_mono B prims request stackKey fuel extra G h⟩

/-- **the worklist of `size_constraint` always ends**: every rule created has `size ≤ max_size` and
    moves to `size + 1`, so `max_size + 1 - size` is a rank - every DSL, request, bound, n-gram. -/
theorem C13_saturation_terminates_size (dsl : Dsl) (request : Ty) (nG : Int) (maxSize : Nat) (actual stackKey : Bool)
    (fuel : Nat) (hf : satBound (request.arguments.length + dsl.prims.length) (maxSize + 1) ≤ fuel) :
    (saturationTable (sizeBuilder dsl nG maxSize actual) dsl.prims request stackKey fuel).isSome = true :=
  size_saturation_terminates dsl request nG maxSize actual stackKey fuel hf

/-- **the worklist of `at_most_k` ends when every primitive that takes an argument is the counted
    one** (`spendAll`, decidable): rank `occ_left · (A + 1) + |pending stack|`, `A` = total declared
    arity.  Full statement (false: with a binary primitive that is not counted the pending stack
    grows for ever - the language is infinite, or finite with an unproductive recursion, see the
    assumptions in harness/meta/C13.json): the same without `hsp`. -/
theorem C13_saturation_terminates_atmost_partial (dsl : Dsl) (request : Ty) (nG : Int) (name : String) (k : Nat)
    (hsp : spendAll dsl name = true) (stackKey : Bool) (fuel : Nat)
    (hf : satBound (request.arguments.length + dsl.prims.length) (k * (totalArity dsl + 1)) ≤ fuel) :
    (saturationTable (atMostBuilder dsl nG name k) dsl.prims request stackKey fuel).isSome = true :=
  atMost_saturation_terminates dsl request nG name k hsp stackKey fuel hf

open Ex in
/-- non-vacuity: {+, 1} / int / 3 nodes: the bound is 1 + 2 + 4 + 8 + 16 = 31 and the table exists
    at that fuel; `spendAll` holds for the counted primitive `+` -/
example : satBound (int.arguments.length + small.prims.length) (3 + 1) = 31 ∧
    (saturationTable (sizeBuilder small 2 3 true) small.prims int true 31).isSome = true ∧
    spendAll small "+" = true ∧
    (saturationTable (atMostBuilder small 2 "+" 1) small.prims int true
      (satBound (int.arguments.length + small.prims.length) (1 * (totalArity small + 1)))).isSome = true := by
  decide +kernel

/-! ### `programs()` -/

/-- **`programs()` with the proposed repair C13-F5 is the size of the language - of EVERY table**
    whose rows are dicts and that uses the end-marker type `UnknownType` neither as a non-terminal
    nor as an argument slot (three decidable hypotheses; no certificate, no closedness, cleaned
    or not): whenever it returns `n`, the programs of the grammar are listed once each by `langOf`
    and there are `n` of them.  (The code as it is: `C13_count_partial`, `finding_C13_F5`.) -/
theorem C13_programs {S T : Type} [DecidableEq S] [DecidableEq T] (G : TT S T) (hr : rowsNodup G = true)
    (hU : noUnknownKey G = true) (hA : noUnknownArg G = true) (fuel n : Nat) (hp : programsR G fuel = some n) :
    ∃ L : List Prog, L.Nodup ∧ n = L.length ∧ ∀ t, t ∈ L ↔ PS.G.contains G t = true := by
  obtain ⟨h1, h2, h3⟩ := programsR_count G hr hU hA fuel n hp
  exact ⟨langOf G fuel, h1, h2, fun t => by rw [h3 t, C13_contains_run]⟩

/-- **the reported number of programs of a size-bounded grammar** (construction as it is now,
    `programs()` as repaired): `n` = the number of well-typed programs with at most `k` nodes and
    no forbidden pattern. -/
theorem C13_count_size (dsl : Dsl) (hwf : wfDsl dsl = true) (request : Ty) (hU : noUnknownDsl dsl request = true)
    (k : Nat) (nG : Int) (hn : nG ≥ 2 ∨ nG < 0) (fuel : Nat) (g : TTG Ctx (Nat × Nat))
    (h : sizeConstraint dsl request k nG true true fuel = .ok g) (fuel' n : Nat) (hp : programsR g.G fuel' = some n) :
    ∃ L : List Prog, L.Nodup ∧ n = L.length ∧ ∀ t, t ∈ L ↔ Sized dsl request k t = true := by
  have hlang := C13_size dsl hwf request hU k nG hn fuel g h
  unfold sizeConstraint at h
  cases h0 : saturationTable (sizeBuilder dsl nG k true) dsl.prims request true fuel with
  | none => simp [h0] at h
  | some G0 =>
    simp only [h0] at h
    cases h1 : clean G0 fuel with
    | ok G =>
      simp only [h1, Res.ok.injEq] at h
      subst h
      obtain ⟨_, s2, s3⟩ := saturation_countHyps _ dsl request true fuel G0 hU h0
      obtain ⟨c1, c2, c3⟩ := clean_countHyps G0 G s2 s3 fuel h1
      obtain ⟨L, l1, l2, l3⟩ := C13_programs G c1 c2 c3 fuel' n hp
      exact ⟨L, l1, l2, fun t => by rw [l3 t, hlang t]⟩
    | fuel => simp [h1] at h
    | keyError => simp [h1] at h

/-- … and of an occurrence-bounded grammar -/
theorem C13_count_atmost (dsl : Dsl) (hwf : wfDsl dsl = true) (request : Ty) (hU : noUnknownDsl dsl request = true)
    (name : String) (k : Nat) (nG : Int) (hn : nG ≥ 2 ∨ nG < 0) (fuel : Nat) (g : TTG Ctx Nat)
    (h : atMostK dsl request name k nG true fuel = .ok g) (fuel' n : Nat) (hp : programsR g.G fuel' = some n) :
    ∃ L : List Prog, L.Nodup ∧ n = L.length ∧ ∀ t, t ∈ L ↔ AtMostOcc dsl request name k t = true := by
  have hlang := C13_atmost dsl hwf request hU name k nG hn fuel g h
  unfold atMostK at h
  cases h0 : saturationTable (atMostBuilder dsl nG name k) dsl.prims request true fuel with
  | none => simp [h0] at h
  | some G0 =>
    simp only [h0] at h
    cases h1 : clean G0 fuel with
    | ok G =>
      simp only [h1, Res.ok.injEq] at h
      subst h
      obtain ⟨_, s2, s3⟩ := saturation_countHyps _ dsl request true fuel G0 hU h0
      obtain ⟨c1, c2, c3⟩ := clean_countHyps G0 G s2 s3 fuel h1
      obtain ⟨L, l1, l2, l3⟩ := C13_programs G c1 c2 c3 fuel' n hp
      exact ⟨L, l1, l2, fun t => by rw [l3 t, hlang t]⟩
    | fuel => simp [h1] at h
    | keyError => simp [h1] at h

open Ex in
/-- non-vacuity, and the repair at work on the witness of C13-F5 (f : a → b → c, b uninhabited):
    the cleaned table keeps the rule `f`, `programs()` as it is reports 2, repaired 1 = |{k}| -/
example : noUnknownDsl unin c = true ∧ wfDsl unin = true ∧
    onTable (sizeConstraint unin c 4 2 true true 1000) (fun G =>
      rowsNodup G && noUnknownKey G && noUnknownArg G &&
      programs G 20 == some 2 && programsR G 20 == some 1 && (langOf G 20).length == 1) = true := by decide +kernel

/-! ### where `clean()` falls short (C13-F5, second half) and why removing rules cannot repair it -/

/-- **criterion**: if the derivation machine of `G` can follow a sequence of symbols from the start
    configuration, using only rules that derivations of programs of `G` use, into a configuration
    whose next non-terminal has no rule in `G`, then EVERY table made of rules of `G` with the
    language of `G` has a derivation that can be started and cannot be completed. -/
theorem C13_no_repair_by_removal {S T : Type} [DecidableEq S] [DecidableEq T] (G G' : TT S T) (hstart : G'.start = G.start)
    (hsub : ∀ nt P val, G'.rule? nt P = some val → G.rule? nt P = some val)
    (hlang : ∀ t, PS.G.contains G' t = PS.G.contains G t)
    (ts : List Prog) (hts : ∀ t ∈ ts, PS.G.contains G t = true) (syms : List Sym)
    (a : Ty × S) (stk : List (Ty × S)) (v : T) (rs : List (NT S T × Sym))
    (hw : walk G.rule? syms ([(G.start.1, G.start.2.1)], G.start.2.2) = some ((a :: stk, v), rs))
    (hcover : ∀ x ∈ rs, ∃ t ∈ ts, x ∈ used G.rule? t (G.start.1, G.start.2.1) G.start.2.2)
    (hdead : inRules G (a.1, (a.2, v)) = false) :
    ∃ c, Steps G' ([(G'.start.1, G'.start.2.1)], G'.start.2.2) c ∧ ¬ ∃ w, Steps G' c ([], w) :=
  no_repair_of_witness G G' hstart hsub (fun t => by rw [← C13_contains_run, ← C13_contains_run]; exact hlang t)
    ts (fun t ht => by rw [← C13_contains_run]; exact hts t ht) syms a stk v rs hw hcover hdead

namespace Ex
namespace Sh
def m : Ty := .base "m"
def c1 : Ty := .base "c1"
def c2 : Ty := .base "c2"
def q : Ty := .base "q"
def r : Ty := .base "r"
def k1 : Sym := Sym.prim "k1" (fn [m, c1] r)
def k2 : Sym := Sym.prim "k2" (fn [m, c2] r)
def ff : Sym := Sym.prim "f" (fn [a, b] m)
def xx : Sym := Sym.prim "x" a
def hh : Sym := Sym.prim "h" (fn [a] a)
def yy : Sym := Sym.prim "y" b
def pp : Sym := Sym.prim "p" c1
def g2 : Sym := Sym.prim "g2" (fn [q, q] c2)
def q0 : Sym := Sym.prim "q0" q
/-- k1 : m → c1 → r, k2 : m → c2 → r, f : a → b → m, x : a, h : a → a, y : b, p : c1, g2 : q → q → c2, q0 : q -/
def dsl : Dsl := ⟨[k1, k2, ff, xx, hh, yy, pp, g2, q0], []⟩
def p1 : Prog := .node k1 [.node ff [.node hh [leaf xx], leaf yy], leaf pp]            -- (k1 (f (h x) y) p), 6 nodes
def p2 : Prog := .node k2 [.node ff [leaf xx, leaf yy], .node g2 [leaf q0, leaf q0]]    -- (k2 (f x y) (g2 q0 q0)), 7 nodes
/-- the grammar `size_constraint(dsl, r, 7)` as the model builds it (code as it is now) -/
def G : TT Ctx (Nat × Nat) := (tableOf (sizeConstraint dsl r 7 2 true true 3000)).getD ⟨(r, ([], (0, 0))), []⟩
end Sh
end Ex

open Ex Ex.Sh in
/-- **finding C13-F5, the part that no rule removal can repair.**  In `size_constraint(dsl, r, 7)`
    the non-terminal `(a, (f,0), (2,3))` of the first argument of `f` is shared by the derivations
    under `k1` and under `k2`.  Its rule `h` is needed by `(k1 (f (h x) y) p)`, but after
    `k2, f, h, x, y` the second argument of `k2` (the only term of type c2 has 3 nodes) no longer
    fits: the non-terminal `(c2, (k2,1), (5,1))` has no rule.  Hence EVERY table made of rules of
    this grammar that has its language - whatever `clean()` is replaced by - has a derivation that
    can be started and cannot be completed.  (`programs()` as it is counts 6, repaired 4 = the
    size of the language.) -/
theorem finding_C13_F5_no_repair :
    (programs G 30 = some 6 ∧ programsR G 30 = some 4 ∧ (langOf G 30).length = 4) ∧
    ∀ G' : TT Ctx (Nat × Nat), G'.start = G.start →
      (∀ nt P val, G'.rule? nt P = some val → G.rule? nt P = some val) →
      (∀ t, PS.G.contains G' t = PS.G.contains G t) →
      ∃ c, Steps G' ([(G'.start.1, G'.start.2.1)], G'.start.2.2) c ∧ ¬ ∃ w, Steps G' c ([], w) := by
  refine ⟨by decide +kernel, ?_⟩
  intro G' hstart hsub hlang
  have h1 : (walk G.rule? [k2, ff, hh, xx, yy] ([(G.start.1, G.start.2.1)], G.start.2.2)).map (·.1) =
      some ([(c2, [(k2, 1)])], (5, 1)) := by decide +kernel
  have h2 : ((walk G.rule? [k2, ff, hh, xx, yy] ([(G.start.1, G.start.2.1)], G.start.2.2)).elim [] (·.2)).all (fun x =>
      [p1, p2].any (fun t => (used G.rule? t (G.start.1, G.start.2.1) G.start.2.2).contains x)) = true := by decide +kernel
  cases hW : walk G.rule? [k2, ff, hh, xx, yy] ([(G.start.1, G.start.2.1)], G.start.2.2) with
  | none => rw [hW] at h1; cases h1
  | some res =>
    obtain ⟨d, rs⟩ := res
    rw [hW] at h1 h2
    simp only [Option.map_some, Option.some.injEq] at h1
    subst h1
    simp only [Option.elim_some] at h2
    refine C13_no_repair_by_removal G G' hstart hsub hlang [p1, p2] ?_ [k2, ff, hh, xx, yy] (c2, [(k2, 1)]) [] (5, 1) rs hW ?_ ?_
    · have : ([p1, p2].all fun t => PS.G.contains G t) = true := by decide +kernel
      intro t ht
      exact List.all_eq_true.mp this t ht
    · intro x hx
      have h3 := List.all_eq_true.mp h2 x hx
      rw [List.any_eq_true] at h3
      obtain ⟨t, ht, hc⟩ := h3
      exact ⟨t, ht, by simpa using hc⟩
    · decide +kernel

/-- **what `clean()` removes**: the table returned is the original one restricted to a set of marks
    such that (1) a non-terminal of a configuration reachable from the start symbol that lost its
    row is DEAD (no program is derivable from it in the original table), (2) a rule that was removed
    from a kept non-terminal has a dead FIRST argument, (3) no non-terminal is invented. -/
theorem C13_clean_removes_only_dead {S T : Type} [DecidableEq S] [DecidableEq T] (G G' : TT S T)
    (hU : noUnknownKey G = true) (fuel : Nat) (h : clean G fuel = .ok G') :
    ∃ nr : Marks S T, G' = restrict G nr ∧
      (∀ c, Reach0 G c → AList.contains c.1 nr = true ∨ Dead G c.1) ∧
      (∀ rule l, AList.lookup rule nr = some l → ∀ P args st, G.rule? rule P = some (args, st) →
        P ∈ l ∨ ∃ a as, args = a :: as ∧ Dead G (a.1, (a.2, st))) ∧
      (∀ rule, AList.contains rule nr = true → inRules G rule = true) := by
  obtain ⟨nr, e, hinv⟩ := clean_result G G' hU fuel h
  exact ⟨nr, e, hinv.reach, hinv.kept, hinv.sub⟩

/-- **what `clean()` guarantees about its result**: the table returned is the original one
    restricted to a set of marks (kept symbols per kept non-terminal) such that at EVERY
    configuration (non-terminal, pending stack) that the machine of the kept rules reaches from the
    start symbol, if the non-terminal is kept then
      (1) its kept row is not empty, and
      (2) every kept rule that takes arguments has the non-terminal of its FIRST argument kept,
          provided it was a non-terminal of the original table.
    So a derivation can always be continued downwards along first arguments to a leaf; it can get
    stuck only after a complete sub-term, at the non-terminal of a LATER argument - which is
    exactly finding C13-F5, and `finding_C13_F5_no_repair` shows that this cannot be avoided by
    removing rules. -/
theorem C13_clean_first {S T : Type} [DecidableEq S] [DecidableEq T] (G G' : TT S T) (hU : noUnknownKey G = true)
    (fuel : Nat) (h : clean G fuel = .ok G') :
    ∃ nr : Marks S T, G' = restrict G nr ∧
      ∀ c, VSteps G nr (G.start, []) c → ∀ l, AList.lookup c.1 nr = some l →
        l ≠ [] ∧
        ∀ P ∈ l, ∀ (a : Ty × S) (as : List (Ty × S)) (st : T), G.rule? c.1 P = some (a :: as, st) →
          inRules G (a.1, (a.2, st)) = true → AList.contains (a.1, (a.2, st)) nr = true := by
  obtain ⟨nr, e, _, hg⟩ := clean_first G G' hU fuel h
  refine ⟨nr, e, ?_⟩
  intro c hc l hl
  exact ⟨((hg c hc) l hl).1, fun P hP a as st hr hin => goodC_first G nr c (hg c hc) l hl P hP a as st hr hin⟩

open Ex in
/-- non-vacuity: `clean` returns on the saturation table of the witness of C13-F5 and keeps the
    rule `f` (its first argument `a` is inhabited) although its second argument is not -/
example : (match saturationTable (sizeBuilder unin 2 4 true) unin.prims c true 1000 with
    | some G0 => noUnknownKey G0 && (match clean G0 1000 with
        | .ok G' => (G'.rule? (c, ([], (0, 0))) f).isSome && AList.contains ((a, ([(f, 0)], (1, 2))) : NT Ctx (Nat × Nat)) G'.rules &&
                    !(AList.contains ((b, ([(f, 1)], (2, 1))) : NT Ctx (Nat × Nat)) G'.rules)
        | _ => false)
    | none => false) = true := by decide +kernel

/-- **the table of `__saturation_build__` contains no junk**: every non-terminal with a row is the
    non-terminal of a configuration (non-terminal, pending stack) reachable from the start
    configuration by the pushes of the loop - either de-duplication, every builder, DSL, request,
    fuel.  With `C13_saturation_closed`: the keys are exactly the reachable non-terminals. -/
theorem C13_saturation_exact {S T : Type} [DecidableEq S] [DecidableEq T] (B : Builder S T) (prims : List Sym)
    (request : Ty) (stackKey : Bool) (fuel : Nat) (G : TT S T) (h : saturationTable B prims request stackKey fuel = some G) :
    ∀ k, AList.contains k G.rules = true → ∃ stack, SReach B prims request (k, stack) :=
  saturation_exact B prims request stackKey fuel G h

open Ex in
/-- non-vacuity: the table of {+, 1} / int / 3 nodes has the three non-terminals S0, A, B and two more
    that `clean` removes later -/
example : ((saturationTable (sizeBuilder small 2 3 true) small.prims int true 100).map (fun G =>
    AList.contains S0 G.rules && AList.contains A G.rules && AList.contains B G.rules)) = some true := by decide +kernel

/-! ## TOTAL CORRECTNESS: the construction returns, within explicit fuel -/

/-- **`clean()` terminates** on every table whose machine of partial derivations has a rank (a
    function of (non-terminal, pending stack) decreasing along every step `clean()` follows; pass 1
    and the inner passes de-duplicate nothing, so on a recursive table they do not end): with
    `fuel ≥ satBound b (rk start) + |rules| + 1` (`b` = longest row; at most `|non-terminals| + 1`
    passes: a pass that reports a change removed a non-terminal) the model returns a table. -/
theorem C13_clean_terminates {S T : Type} [DecidableEq S] [DecidableEq T] (G : TT S T) (b : Nat)
    (hb : ∀ e ∈ G.rules, e.2.length ≤ b) (hr : rowsNodup G = true)
    (rk : CConfig S T → Nat) (hdec : ∀ c d, CStep G c d → rk d < rk c)
    (hs : inRules G G.start = true) (fuel : Nat)
    (hf : satBound b (rk (G.start, [])) + G.rules.length + 1 ≤ fuel) : ∃ G', clean G fuel = .ok G' :=
  clean_terminates G b hb hr rk hdec hs fuel hf

/-- **`programs()` terminates on non-recursive tables**: if `(m, ρ)` ranks the table (`m` never
    grows from a non-terminal's state to the state of one of its rules, `ρ` decreases from a
    non-terminal to the argument slots of its rules and is monotone in `m`), the recursion of
    `__compute__` is at most `ρ start + 2` deep. -/
theorem C13_programs_terminates {S T : Type} [DecidableEq S] [DecidableEq T] (G : TT S T) (hU : noUnknownKey G = true)
    (m : T → Nat) (ρ : Ty × S → T → Nat) (hR : Ranked G m ρ) (fuel : Nat)
    (hf : ρ (G.start.1, G.start.2.1) G.start.2.2 + 2 ≤ fuel) : (programsR G fuel).isSome = true :=
  programsR_terminates G hU m ρ hR fuel hf

/-- **`TTCFG.size_constraint`, total correctness** (the code as it is now): for EVERY DSL (a list of
    primitives without `UnknownType` arguments), request, bound `k` and n-gram width ≥ 2 or unbounded,
    with `fuel ≥ sizeFuel = 2·(1 + b + … + b^(k+1)) + k + 3` (`b` = variables + primitives) the model
    of the constructor RETURNS a grammar `g`; it reports the request it was compiled for, contains
    exactly the well-typed programs with at most `k` nodes and no forbidden pattern, and `programs()`
    returns their number. -/
theorem C13_size_total (dsl : Dsl) (hwf : wfDsl dsl = true) (request : Ty) (hU : noUnknownDsl dsl request = true)
    (k : Nat) (nG : Int) (hn : nG ≥ 2 ∨ nG < 0) (fuel : Nat) (hf : sizeFuel dsl request k ≤ fuel) :
    ∃ g : TTG Ctx (Nat × Nat), sizeConstraint dsl request k nG true true fuel = .ok g ∧ g.typeRequest = request ∧
      (∀ t, PS.G.contains g.G t = Sized dsl request k t) ∧
      ∃ (n : Nat) (L : List Prog), programsR g.G fuel = some n ∧ L.Nodup ∧ n = L.length ∧
        ∀ t, t ∈ L ↔ Sized dsl request k t = true := by
  obtain ⟨G0, G, h0, h1, h2⟩ := size_total dsl request hU nG k true true fuel hf
  have hg : sizeConstraint dsl request k nG true true fuel = .ok ⟨G, request⟩ := by
    unfold sizeConstraint; rw [h0]; simp only; rw [h1]
  refine ⟨⟨G, request⟩, hg, rfl, C13_size dsl hwf request hU k nG hn fuel _ hg, ?_⟩
  cases hp : programsR G fuel with
  | none => rw [hp] at h2; cases h2
  | some n =>
    obtain ⟨L, l1, l2, l3⟩ := C13_count_size dsl hwf request hU k nG hn fuel _ hg fuel n hp
    exact ⟨n, L, rfl, l1, l2, l3⟩

open Ex in
/-- non-vacuity: {+, 1} / int / 3 nodes: `sizeFuel` = 2·31 + 6 = 68, and with that fuel the constructor
    returns a grammar with 2 programs -/
example : sizeFuel small int 3 = 68 ∧ wfDsl small = true ∧ noUnknownDsl small int = true ∧
    onTable (sizeConstraint small int 3 2 true true 68) (fun G => programsR G 68 == some 2) = true := by decide +kernel

/-! ### `at_most_k`: when the construction terminates -/

/-- **`TTCFG.at_most_k`, total correctness under `uncountedRanked`** (decidable, with a ranking of
    the types as certificate: every primitive that is NOT the counted one takes, at every slot, only
    arguments of strictly smaller rank than the slot - the dependency graph of the types through the
    uncounted primitives - partial applications included - is acyclic; `spendAll` is the case of the empty ranking,
    `uncountedRanked_of_spendAll`).  With `fuel ≥ atMostFuel` the model of the constructor RETURNS a
    grammar that reports its request, contains exactly the well-typed programs with at most `k`
    occurrences of the primitive and no forbidden pattern, and `programs()` returns their number.
    Full statement (false on the code, `finding_C13_F9`): the same whenever the language is finite. -/
theorem C13_atmost_total_partial (dsl : Dsl) (hwf : wfDsl dsl = true) (request : Ty) (hU : noUnknownDsl dsl request = true)
    (name : String) (k : Nat) (nG : Int) (hn : nG ≥ 2 ∨ nG < 0) (rkT : AList Ty Nat)
    (hur : uncountedRanked dsl name rkT = true) (fuel : Nat) (hf : atMostFuel dsl request k rkT ≤ fuel) :
    ∃ g : TTG Ctx Nat, atMostK dsl request name k nG true fuel = .ok g ∧ g.typeRequest = request ∧
      (∀ t, PS.G.contains g.G t = AtMostOcc dsl request name k t) ∧
      ∃ (n : Nat) (L : List Prog), programsR g.G fuel = some n ∧ L.Nodup ∧ n = L.length ∧
        ∀ t, t ∈ L ↔ AtMostOcc dsl request name k t = true := by
  obtain ⟨G0, G, h0, h1, h2⟩ := atMost_total dsl request hU nG name k rkT hur true fuel hf
  have hg : atMostK dsl request name k nG true fuel = .ok ⟨G, request⟩ := by
    unfold atMostK; rw [h0]; simp only; rw [h1]
  refine ⟨⟨G, request⟩, hg, rfl, C13_atmost dsl hwf request hU name k nG hn fuel _ hg, ?_⟩
  cases hp : programsR G fuel with
  | none => rw [hp] at h2; cases h2
  | some n =>
    obtain ⟨L, l1, l2, l3⟩ := C13_count_atmost dsl hwf request hU name k nG hn fuel _ hg fuel n hp
    exact ⟨n, L, rfl, l1, l2, l3⟩

open Ex in
/-- non-vacuity: arithmetic with `+` counted (at most 2): the empty ranking is a certificate, the
    fuel bound is met and the constructor returns -/
example : uncountedRanked small "+" [] = true ∧ atMostFuel small int 1 [] ≤ 200 ∧
    onTable (atMostK small int "+" 1 2 true 200) (fun G => programsR G 200 == some 2) = true := by decide +kernel

open Ex in
/-- non-vacuity with a non-trivial ranking: f : a → b → c, g : a → d → c, h : x → a uncounted, `x0` counted -/
example : uncountedRanked sib "x0" [(c, 2), (fn [b] c, 2), (fn [d] c, 2), (a, 1)] = true ∧ spendAll sib "x0" = false := by decide +kernel

/-- **non-termination criterion for the worklist** (keyed by rule and pending stack): if
    configurations with arbitrarily long pending stacks are reachable by its pushes, the loop never
    ends - the model runs out of every fuel. -/
theorem C13_saturation_diverges {S T : Type} [DecidableEq S] [DecidableEq T] (B : Builder S T) (prims : List Sym)
    (request : Ty) (h : ∀ n : Nat, ∃ c, SReach B prims request c ∧ n ≤ c.2.length) :
    ∀ fuel, saturationTable B prims request true fuel = none :=
  not_terminates_of_unbounded B prims request h

open Ex.Dv in
/-- **finding C13-F9**: `TTCFG.at_most_k(dsl, a, "l", 1)` over g : a → a → a, l : a.  The
    occurrence-bounded language is FINITE - it is the single program `l` (`(g l l)` already needs two
    occurrences) - but the construction never returns: `g` can be derived again and again without
    spending an occurrence, every time with a longer pending stack.  (On the real code: the call does
    not return; before 6d9766e the worklist ended and `clean()` did not.) -/
theorem finding_C13_F9 :
    (∀ t, AtMostOcc dsl a "l" 1 t = true ↔ t = .node l []) ∧
    (∀ rkT, uncountedRanked dsl "l" rkT = false) ∧
    ∀ fuel, (match atMostK dsl a "l" 1 2 true fuel with
      | .fuel => true
      | _ => false) = true := by
  refine ⟨dv_language, ?_, ?_⟩
  · intro rkT
    cases h : uncountedRanked dsl "l" rkT with
    | false => rfl
    | true =>
      exfalso
      unfold uncountedRanked at h
      rw [List.all_eq_true] at h
      have := h g (by decide)
      have hs : symStr g ≠ "l" := by decide
      simp only [hs, decide_false, Bool.false_or, List.all_eq_true] at this
      have h2 := this ([a, a], a) (by decide)
      simp at h2
  · intro fuel
    unfold atMostK
    rw [dv_diverges fuel]

/-! ### type request -/

/-- **the product reports the type request of its factors** (`grammar.type_request =
    self.type_request`, 26a6c4e; the factors' requests are asserted equal) -/
theorem C13_type_request_product {S T U V : Type} [DecidableEq S] [DecidableEq T] [DecidableEq U] [DecidableEq V]
    (g1 : TTG S T) (g2 : TTG U V) (hreq : g1.typeRequest = g2.typeRequest) (fuel : Nat) (g : TTG (S × U) (T × V))
    (h : mulTTG g1 g2 fuel = .ok g) : g.typeRequest = g1.typeRequest ∧ g.typeRequest = g2.typeRequest := by
  unfold mulTTG at h
  split at h
  · cases h; exact ⟨rfl, hreq⟩
  · cases h
  · cases h

/-- **products of constructed grammars, no certificate**: for two grammars built by
    `__saturation_build__` + `clean()` (any two builders - size, occurrences -, the right one possibly
    over another DSL) for the same request, `g1 * g2` contains exactly the programs common to both.
    The hypotheses `ArgsAgree` / `typedOK` / `noUnknownKey` of `C13_product_clean`, which the check
    used to evaluate per case on the factor tables, are PROVED for constructed grammars
    (`saturation_typedOK`, `clean_typedOK`, `clean_countHyps`). -/
theorem C13_product_constructed {S T U V : Type} [DecidableEq S] [DecidableEq T] [DecidableEq U] [DecidableEq V]
    (B1 : Builder S T) (B2 : Builder U V) (dsl1 dsl2 : Dsl) (request : Ty) (hd : noUnknownDsl dsl1 request = true)
    (f1 f2 : Nat) (G01 G1 : TT S T) (G02 G2 : TT U V)
    (s1 : saturationTable B1 dsl1.prims request true f1 = some G01) (c1 : clean G01 f1 = .ok G1)
    (s2 : saturationTable B2 dsl2.prims request true f2 = some G02) (c2 : clean G02 f2 = .ok G2)
    (hd2 : noUnknownDsl dsl2 request = true)
    (fuel : Nat) (G : TT (S × U) (T × V)) (h : cleanFixed (mulRaw G1 G2) fuel = .ok G) (t : Prog) :
    PS.G.contains G t = (PS.G.contains G1 t && PS.G.contains G2 t) := by
  obtain ⟨_, u1, a1⟩ := saturation_countHyps B1 dsl1 request true f1 G01 hd s1
  obtain ⟨_, u2, _⟩ := saturation_countHyps B2 dsl2 request true f2 G02 hd2 s2
  have t1 := clean_typedOK G01 G1 u1 f1 c1 (saturation_typedOK B1 dsl1.prims request true f1 G01 s1)
  have t2 := clean_typedOK G02 G2 u2 f2 c2 (saturation_typedOK B2 dsl2.prims request true f2 G02 s2)
  have k1 := (clean_countHyps G01 G1 u1 a1 f1 c1).2.1
  have hty : G1.start.1 = G2.start.1 := by
    rw [clean_start G01 G1 f1 c1, clean_start G02 G2 f2 c2,
      (saturationTable_spec B1 dsl1.prims request true f1 G01 s1).1,
      (saturationTable_spec B2 dsl2.prims request true f2 G02 s2).1]
    rfl
  exact C13_product_cleanFixed G1 G2 (argsAgree_of_typed G1 G2 t1 t2) hty k1 fuel G h t

/-- … in particular for two size-bounded grammars: the product reports `request` and is the intersection -/
theorem C13_product_total (dsl : Dsl) (request : Ty) (hd : noUnknownDsl dsl request = true) (k1 k2 : Nat) (nG : Int) (fuel : Nat)
    (g1 g2 : TTG Ctx (Nat × Nat)) (h1 : sizeConstraint dsl request k1 nG true true fuel = .ok g1)
    (h2 : sizeConstraint dsl request k2 nG true true fuel = .ok g2) (fuel' : Nat)
    (g : TTG (Ctx × Ctx) ((Nat × Nat) × (Nat × Nat))) (h : mulTTG g1 g2 fuel' = .ok g) :
    g.typeRequest = request ∧ ∀ t, PS.G.contains g.G t = (PS.G.contains g1.G t && PS.G.contains g2.G t) := by
  have r1 := C13_type_request_size dsl request k1 nG true true fuel g1 h1
  unfold sizeConstraint at h1 h2
  cases s1 : saturationTable (sizeBuilder dsl nG k1 true) dsl.prims request true fuel with
  | none => simp [s1] at h1
  | some G01 =>
    simp only [s1] at h1
    cases c1 : clean G01 fuel with
    | ok G1 =>
      simp only [c1, Res.ok.injEq] at h1
      cases s2 : saturationTable (sizeBuilder dsl nG k2 true) dsl.prims request true fuel with
      | none => simp [s2] at h2
      | some G02 =>
        simp only [s2] at h2
        cases c2 : clean G02 fuel with
        | ok G2 =>
          simp only [c2, Res.ok.injEq] at h2
          subst h1; subst h2
          unfold mulTTG at h
          cases hc : cleanFixed (mulRaw G1 G2) fuel' with
          | ok G =>
            simp only [hc, Res.ok.injEq] at h
            subst h
            exact ⟨rfl, fun t => C13_product_constructed _ _ dsl dsl request hd fuel fuel G01 G1 G02 G2 s1 c1 s2 c2 hd fuel' G hc t⟩
          | fuel => simp [hc] at h
          | keyError => simp [hc] at h
        | fuel => simp [c2] at h2
        | keyError => simp [c2] at h2
    | fuel => simp [c1] at h1
    | keyError => simp [c1] at h1

open Ex in
/-- non-vacuity: size ≤ 3 times size ≤ 1 over {+, 1}: the product object exists, reports `int`, contains `1` only -/
example : (match sizeConstraint small int 3 2 true true 100, sizeConstraint small int 1 2 true true 100 with
    | .ok g1, .ok g2 => (match mulTTG g1 g2 100 with
        | .ok g => g.typeRequest == int && PS.G.contains g.G (leaf one) && !(PS.G.contains g.G (.node plus [leaf one, leaf one]))
        | _ => false)
    | _, _ => false) = true := by decide +kernel

/-- **`clean()` returns on the product table**: the machine of `__mul_ttcfg__`'s table projects onto
    the machine of the left factor, so a rank of the left factor's machine bounds pass 1 and every
    inner pass; at most `|rules1|·|rules2| + 1` passes. -/
theorem C13_product_terminates {S T U V : Type} [DecidableEq S] [DecidableEq T] [DecidableEq U] [DecidableEq V]
    (G1 : TT S T) (G2 : TT U V) (hag : ArgsAgree G1 G2) (b : Nat)
    (hb : ∀ e ∈ G1.rules, e.2.length ≤ b) (hr1 : rowsNodup G1 = true)
    (rk1 : CConfig S T → Nat) (hdec1 : ∀ c d, CStep G1 c d → rk1 d < rk1 c) (fuel : Nat)
    (hf : satBound b (rk1 (projL ((mulRaw G1 G2).start, []))) + G1.rules.length * G2.rules.length + 1 ≤ fuel) :
    ∃ G, cleanFixed (mulRaw G1 G2) fuel = .ok G :=
  mul_clean_terminates G1 G2 hag b hb hr1 rk1 hdec1 fuel hf

/-- **the product of two size-bounded grammars, total correctness**: both constructors return
    (`C13_size_total`), and with `fuel' ≥ satBound b (k1 + 1) + |rules1|·|rules2| + 1` so does
    `g1 * g2`; it reports `request` and contains exactly the programs common to both. -/
theorem C13_product_size_total (dsl : Dsl) (request : Ty) (hd : noUnknownDsl dsl request = true) (k1 k2 : Nat) (nG : Int)
    (fuel : Nat) (g1 g2 : TTG Ctx (Nat × Nat)) (h1 : sizeConstraint dsl request k1 nG true true fuel = .ok g1)
    (h2 : sizeConstraint dsl request k2 nG true true fuel = .ok g2) (fuel' : Nat)
    (hf : satBound (request.arguments.length + dsl.prims.length) (k1 + 1) + g1.G.rules.length * g2.G.rules.length + 1 ≤ fuel') :
    ∃ g, mulTTG g1 g2 fuel' = .ok g ∧ g.typeRequest = request ∧
      ∀ t, PS.G.contains g.G t = (PS.G.contains g1.G t && PS.G.contains g2.G t) := by
  have h1' := h1
  have h2' := h2
  unfold sizeConstraint at h1 h2
  cases s1 : saturationTable (sizeBuilder dsl nG k1 true) dsl.prims request true fuel with
  | none => simp [s1] at h1
  | some G01 =>
    simp only [s1] at h1
    cases c1 : clean G01 fuel with
    | ok G1 =>
      simp only [c1, Res.ok.injEq] at h1
      cases s2 : saturationTable (sizeBuilder dsl nG k2 true) dsl.prims request true fuel with
      | none => simp [s2] at h2
      | some G02 =>
        simp only [s2] at h2
        cases c2 : clean G02 fuel with
        | ok G2 =>
          simp only [c2, Res.ok.injEq] at h2
          subst h1; subst h2
          obtain ⟨m1, m2, m3⟩ := constructed_machine (sizeBuilder dsl nG k1 true) dsl request hd (sizeRank k1)
            (size_rank dsl request nG k1 true) true fuel G01 G1 s1 c1
          obtain ⟨_, u1, _⟩ := saturation_countHyps (sizeBuilder dsl nG k1 true) dsl request true fuel G01 hd s1
          obtain ⟨_, u2, _⟩ := saturation_countHyps (sizeBuilder dsl nG k2 true) dsl request true fuel G02 hd s2
          have t1 := clean_typedOK G01 G1 u1 fuel c1 (saturation_typedOK _ dsl.prims request true fuel G01 s1)
          have t2 := clean_typedOK G02 G2 u2 fuel c2 (saturation_typedOK _ dsl.prims request true fuel G02 s2)
          have hstart : sizeRank k1 (projL ((mulRaw G1 G2).start, [])) = k1 + 1 := by
            have e1 : G1.start = (request.returns, ([], (0, 0))) := by
              rw [clean_start G01 G1 fuel c1, (saturationTable_spec _ dsl.prims request true fuel G01 s1).1]; rfl
            simp [sizeRank, projL, mulRaw, e1]
          obtain ⟨G, hG⟩ := C13_product_terminates G1 G2 (argsAgree_of_typed G1 G2 t1 t2) _ m2 m3 (sizeRank k1) m1 fuel'
            (by rw [hstart]; exact hf)
          refine ⟨⟨G, request⟩, ?_, rfl, ?_⟩
          · unfold mulTTG; simp only; rw [hG]
          · intro t
            exact C13_product_constructed _ _ dsl dsl request hd fuel fuel G01 G1 G02 G2 s1 c1 s2 c2 hd fuel' G hG t
        | fuel => simp [c2] at h2
        | keyError => simp [c2] at h2
    | fuel => simp [c1] at h1
    | keyError => simp [c1] at h1

end PS.T
