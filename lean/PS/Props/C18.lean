/-
  C18 — Generated tasks are self-consistent and reproducible from the seed.

  Property theorems only (model: PS/Model/TaskGen.lean, lemmas: PS/Proofs/TaskGen.lean).
  Quantification: every type of type requests / argument types / programs / values / exceptions,
  every generator configuration `cfg` (max_tries, uniques, argument lists, variable usage, skip set,
  output validator — any function, also one accepting `None`), every evaluator `ev` with state
  that is *faithful* to a semantics `sem` under an invariant `Inv` (section A) and — discharging
  that hypothesis with property C11 — the model of the real `DSLEvaluator` for every DSL semantics,
  cache on or off, from every sound cache (section B); every state `s` of the generator object left
  by earlier calls (`seen`, `_failed_types`, statistics), every draw stream (type requests,
  programs per grammar, sample numbers, inputs per argument type), every number `n` of consecutive
  `generate_task` calls, every task among their results.  No bound on any length.

  Model after the proposed fix C18-F1 (the example loop of `generate_task` ran once with a sample
  number of 0 and could return a task with one example; `finding_count_zero_before_fix`).
-/
import PS.Proofs.TaskGen
import PS.Props.C10
set_option linter.unusedSectionVars false
set_option linter.unusedVariables false
namespace PS.C18
open PS
open PS.C11 (Outcome)
open PS.C10 (Ev Faithful pureEv dslEv)

variable {T A P I V E St : Type} [DecidableEq T] [DecidableEq A] [DecidableEq P] [DecidableEq V]

/-! ## A. every faithful evaluator -/
section faithful
variable (cfg : Cfg T A P V E) {ev : Ev St P (List I) V E} {sem : P → List I → Outcome V E}
  {Inv : St → Prop} (hF : Faithful ev sem Inv)
include hF

/-- every example's output is the evaluation of the solution on its input (`None` exactly when
    the evaluation fails with an exception skipped by the evaluator or by the generator) -/
theorem C18_consistent (n : Nat) (s : State T A P I St) (hI : Inv s.es) :
    ∀ t ∈ tasksOf (run cfg ev n s), Consistent cfg.skip sem t := by
  intro t ht
  obtain ⟨_, h⟩ := run_tasks cfg hF n s hI t ht
  exact h.consistent

/-- with a validator that rejects `None` (e.g. `basic_output_validator`): every example output is
    a value and the semantics of the solution on the example input is that value -/
theorem C18_consistent_value (hv : cfg.valid none = false) (n : Nat) (s : State T A P I St)
    (hI : Inv s.es) :
    ∀ t ∈ tasksOf (run cfg ev n s), ∀ ex ∈ t.examples,
      ∃ v, ex.2 = some v ∧ sem t.solution ex.1 = .value v := by
  intro t ht ex hex
  obtain ⟨_, h⟩ := run_tasks cfg hF n s hI t ht
  have hc := h.consistent ex hex
  have hval := h.distinct.2 ex hex
  cases hs : sem t.solution ex.1 with
  | value v =>
    simp only [hs, outOpt, okIs, decide_eq_true_eq] at hc
    exact ⟨v, hc.symm, rfl⟩
  | skipped =>
    simp only [hs, outOpt, okIs, decide_eq_true_eq] at hc
    rw [← hc, hv] at hval; cases hval
  | raised e =>
    simp only [hs, outOpt] at hc
    split at hc
    · simp only [okIs, decide_eq_true_eq] at hc
      rw [← hc, hv] at hval; cases hval
    · simp [okIs] at hc

/-- the solution is one of the draws of the grammar of the task's type request -/
theorem C18_member (n : Nat) (s : State T A P I St) (hI : Inv s.es) :
    ∀ t ∈ tasksOf (run cfg ev n s), Member s.progs t := by
  intro t ht
  obtain ⟨_, h⟩ := run_tasks cfg hF n s hI t ht
  exact h.member

/-- … hence in the language of that grammar, whenever the grammar's sampler only returns
    programs of its language (`L`; property C09: sample-member) -/
theorem C18_member_language (L : T → P → Prop) (n : Nat) (s : State T A P I St) (hI : Inv s.es)
    (hL : ∀ tr, ∀ p ∈ draws tr s.progs, L tr p) :
    ∀ t ∈ tasksOf (run cfg ev n s), L t.typeRequest t.solution :=
  fun t ht => hL _ _ (C18_member cfg hF n s hI t ht)

/-- every input has one component per argument of the type request, each a draw of the input
    sampler for that argument's type -/
theorem C18_inputs (n : Nat) (s : State T A P I St) (hI : Inv s.es) :
    ∀ t ∈ tasksOf (run cfg ev n s), InputsOK cfg.args s.inputs t := by
  intro t ht
  obtain ⟨_, h⟩ := run_tasks cfg hF n s hI t ht
  exact h.inputs

/-- outputs are pairwise distinct and accepted by the validator -/
theorem C18_distinct (n : Nat) (s : State T A P I St) (hI : Inv s.es) :
    ∀ t ∈ tasksOf (run cfg ev n s), Distinct cfg.valid t := by
  intro t ht
  obtain ⟨_, h⟩ := run_tasks cfg hF n s hI t ht
  exact h.distinct

/-- the number of examples is a sample number drawn for the type request (0 when a negative
    number is drawn) -/
theorem C18_count (n : Nat) (s : State T A P I St) (hI : Inv s.es) :
    ∀ t ∈ tasksOf (run cfg ev n s),
      ∃ k ∈ draws t.typeRequest s.samples, (t.examples.length : Int) = max k 0 := by
  intro t ht
  obtain ⟨_, h⟩ := run_tasks cfg hF n s hI t ht
  exact h.count

/-- … exactly the specification's clause when sample numbers are counts (not negative) -/
theorem C18_count_nonneg (n : Nat) (s : State T A P I St) (hI : Inv s.es)
    (hpos : ∀ tr, ∀ k ∈ draws tr s.samples, 0 ≤ k) :
    ∀ t ∈ tasksOf (run cfg ev n s), Count s.samples t := by
  intro t ht
  obtain ⟨k, hk, he⟩ := C18_count cfg hF n s hI t ht
  have := hpos _ k hk
  unfold Count
  rw [he, Int.max_eq_left this]
  exact hk

/-- `tries` accounting: examples ≤ tries ≤ max_tries -/
theorem C18_tries (n : Nat) (s : State T A P I St) (hI : Inv s.es) :
    ∀ t ∈ tasksOf (run cfg ev n s), t.examples.length ≤ t.tries ∧ t.tries ≤ cfg.maxTries := by
  intro t ht
  obtain ⟨_, h⟩ := run_tasks cfg hF n s hI t ht
  exact h.tries

/-- with `uniques`: the solutions of the tasks flagged `unique` are pairwise distinct, and none
    was in `seen` before -/
theorem C18_unique (hu : cfg.uniques = true) (n : Nat) (s : State T A P I St) (hI : Inv s.es) :
    (uniqueSols (tasksOf (run cfg ev n s))).Nodup ∧
    ∀ p ∈ uniqueSols (tasksOf (run cfg ev n s)), p ∉ s.seen :=
  run_unique cfg hF hu n s hI

end faithful

/-- equal configurations, evaluators, generator states and draw streams give equal results
    (tasks, exceptions and successor states): the model is a function of the streams -/
theorem C18_deterministic (cfg cfg' : Cfg T A P V E) (ev ev' : Ev St P (List I) V E) (n n' : Nat)
    (s s' : State T A P I St) (hc : cfg = cfg') (he : ev = ev') (hn : n = n') (hs : s = s') :
    run cfg ev n s = run cfg' ev' n' s' := by
  subst hc he hn hs; rfl

/-- the tasks (and exceptions, generator states, remaining streams) do not depend on the evaluator
    or its state (cache contents, cache on/off), only on the semantics: two generators that
    differ only there produce the same results -/
theorem C18_evaluator_independent {St' : Type} (cfg : Cfg T A P V E)
    {ev : Ev St P (List I) V E} {ev' : Ev St' P (List I) V E} {sem : P → List I → Outcome V E}
    {Inv : St → Prop} {Inv' : St' → Prop} (hF : Faithful ev sem Inv) (hF' : Faithful ev' sem Inv')
    (n : Nat) (s : State T A P I St) (s' : State T A P I St') (hI : Inv s.es) (hI' : Inv' s'.es)
    (hs : s.forget = s'.forget) :
    (run cfg ev n s).map Out.forget = (run cfg ev' n s').map Out.forget ∧
    tasksOf (run cfg ev n s) = tasksOf (run cfg ev' n s') := by
  have h1 := run_forget cfg hF n s hI
  have h2 := run_forget cfg hF' n s' hI'
  have h : (run cfg ev n s).map Out.forget = (run cfg ev' n s').map Out.forget := by
    rw [h1, h2, hs]
  exact ⟨h, by rw [← tasksOf_forget (run cfg ev n s), h, tasksOf_forget]⟩

/-- termination of `while True`: each iteration that goes round again has consumed a type draw,
    so the loop never needs more iterations than there are type draws (any larger fuel gives the
    same result: the only way not to return is to exhaust a stream = `stuck`) -/
theorem C18_terminates (cfg : Cfg T A P V E) (ev : Ev St P (List I) V E) (s : State T A P I St)
    (fuel : Nat) (h : s.types.length < fuel) :
    taskLoop cfg ev fuel { s with failed := [] } = generateTask cfg ev s :=
  taskLoop_fuel cfg ev fuel (s.types.length + 1) { s with failed := [] } h (Nat.lt_succ_self _)

/-- the bounded loops are exact: they are recursions on a fuel instantiated with
    `max_tries - counter` (`max_tries + 1 - i` for the type loop); every fuel at least that large
    gives the same result, so no loop of the model ever stops because of its fuel -/
theorem C18_loops_exact (cfg : Cfg T A P V E) (ev : Ev St P (List I) V E) (seen : List P) (failed : List T)
    (nargs : Nat) (f : Nat) :
    (∀ sol ut ds, cfg.maxTries - ut ≤ f →
      uniqLoop seen cfg.maxTries f sol ut ds = uniqLoop seen cfg.maxTries (cfg.maxTries - ut) sol ut ds) ∧
    (∀ vu best tries ut ds, cfg.maxTries - tries ≤ f →
      varLoop seen cfg.maxTries nargs cfg.usedVars f vu best tries ut ds =
        varLoop seen cfg.maxTries nargs cfg.usedVars (cfg.maxTries - tries) vu best tries ut ds) ∧
    (∀ tr i ts, cfg.maxTries + 1 - i ≤ f →
      typeLoop failed cfg.maxTries f tr i ts = typeLoop failed cfg.maxTries (cfg.maxTries + 1 - i) tr i ts) ∧
    (∀ sol args samples tries exs ind es, cfg.maxTries - tries ≤ f →
      exLoop cfg ev sol args samples f tries exs ind es =
        exLoop cfg ev sol args samples (cfg.maxTries - tries) tries exs ind es) :=
  ⟨fun sol ut ds h => uniqLoop_fuel seen _ _ _ sol ut ds h (Nat.le_refl _),
   fun vu best tries ut ds h => varLoop_fuel seen _ nargs _ _ _ vu best tries ut ds h (Nat.le_refl _),
   fun tr i ts h => typeLoop_fuel failed _ _ _ tr i ts h (Nat.le_refl _),
   fun sol args samples tries exs ind es h => exLoop_fuel cfg ev sol args samples _ _ tries exs ind es h (Nat.le_refl _)⟩

/-! ## B. the real evaluator (property C11) -/
section dsl
variable {σ : Type} [DecidableEq σ] {V E : Type} [DecidableEq V]
  {T A : Type} [DecidableEq T] [DecidableEq A]

/-- all clauses for the model of `DSLEvaluator` (any DSL semantics `S`, cache on or off, started
    from any sound cache, e.g. the empty one) -/
theorem C18_dsl (S : C11.Sem σ V E) (useCache : Bool) (cfg : Cfg T A (Tree σ) V E) (n : Nat)
    (s : State T A (Tree σ) V (C11.Cache σ V)) (hc : C11.CacheSound S s.es) :
    ∀ t ∈ tasksOf (run cfg (dslEv S useCache) n s),
      Consistent cfg.skip (C11.specEval S) t ∧ Member s.progs t ∧ InputsOK cfg.args s.inputs t ∧
      Distinct cfg.valid t ∧
      (∃ k ∈ draws t.typeRequest s.samples, (t.examples.length : Int) = max k 0) ∧
      t.examples.length ≤ t.tries ∧ t.tries ≤ cfg.maxTries := by
  intro t ht
  have hF := PS.C10.dslEv_faithful S useCache
  exact ⟨C18_consistent cfg hF n s hc t ht, C18_member cfg hF n s hc t ht,
    C18_inputs cfg hF n s hc t ht, C18_distinct cfg hF n s hc t ht, C18_count cfg hF n s hc t ht,
    C18_tries cfg hF n s hc t ht⟩

/-- cache on or off, empty or warmed up by any earlier evaluations: same tasks -/
theorem C18_dsl_cache_independent (S : C11.Sem σ V E) (uc uc' : Bool) (cfg : Cfg T A (Tree σ) V E)
    (n : Nat) (s s' : State T A (Tree σ) V (C11.Cache σ V)) (hc : C11.CacheSound S s.es)
    (hc' : C11.CacheSound S s'.es) (hs : s.forget = s'.forget) :
    tasksOf (run cfg (dslEv S uc) n s) = tasksOf (run cfg (dslEv S uc') n s') :=
  (C18_evaluator_independent cfg (PS.C10.dslEv_faithful S uc) (PS.C10.dslEv_faithful S uc') n s s'
    hc hc' hs).2

end dsl

/-! ## Non-vacuity and the finding -/
namespace Example

/-- type request 0 has one argument of type 0; program `p` denotes `x ↦ p * x`, program 5 fails on 0 -/
def cfg : Cfg Nat Nat Nat Int Unit :=
  { maxTries := 4, uniques := true, args := fun t => if t = 0 then [0] else [],
    usedVars := fun p => if p = 0 then 0 else 1, skip := fun _ => true,
    valid := fun o => o.isSome, keyError := () }

def sem : Nat → List Int → Outcome Int Unit := fun p inp =>
  match inp with
  | [x] => if p = 5 ∧ x = 0 then .skipped else .value (p * x)
  | _ => .raised ()

def s0 : State Nat Nat Nat Int Unit :=
  State.init [0, 1, 0] [(0, [0, 2, 2, 5]), (1, [7])] [(0, [2, 2]), (1, [9])]
    [(0, [1, 1, 2, 3, 3, 0, 4, 7, 8])] ()

/-- two calls: the constant program 0 is replaced by 2 (variable usage), the duplicate output is
    rejected; the second call first draws type 1, fails (9 samples > max_tries) and goes round
    again with type 0, draws 2 again (seen: redrawn → 5), rejects a duplicate and a `None` -/
example : tasksOf (run cfg (pureEv sem) 2 s0) =
    [⟨0, 2, [([1], some 2), ([2], some 4)], 3, true⟩,
     ⟨0, 5, [([3], some 15), ([4], some 20)], 4, true⟩] := by decide

example : Faithful (pureEv sem) sem (fun _ => True) := PS.C10.pureEv_faithful sem

example : ∀ t ∈ tasksOf (run cfg (pureEv sem) 2 s0), Consistent cfg.skip sem t ∧ Distinct cfg.valid t :=
  fun t ht => ⟨C18_consistent cfg (PS.C10.pureEv_faithful sem) 2 s0 trivial t ht,
               C18_distinct cfg (PS.C10.pureEv_faithful sem) 2 s0 trivial t ht⟩

example : (uniqueSols (tasksOf (run cfg (pureEv sem) 2 s0))) = [2, 5] := by decide

/-- **finding C18-F1** (before the fix): with a sample number of 0 the example loop still ran and
    returned one example — the number of examples is not the number drawn -/
theorem finding_count_zero_before_fix :
    exLoopUnfixed cfg (pureEv sem) 2 [0] 0 cfg.maxTries 0 [] [(0, [1, 2])] () =
      .done 1 [([1], some 2)] [(0, [2])] () := by decide

/-- after the fix the loop does not run -/
example : exLoop cfg (pureEv sem) 2 [0] 0 cfg.maxTries 0 [] [(0, [1, 2])] () =
    .done 0 [] [(0, [1, 2])] () := by decide

end Example

end PS.C18
