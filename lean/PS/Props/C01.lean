/-
  C01 — A depth-bounded grammar denotes exactly the well-typed programs of its DSL.
  Property theorems (models: PS/Model/Grammar.lean, PS/Model/Cfg.lean; lemmas: PS/Proofs/*).

  How the pieces fit.  `wt P some` is the statement's set of terms.  `ruleSet` transcribes the
  rule-creation step of `CFG.depth_constraint`; `tableOK` is a *verified checker* that every
  check run evaluates on the rule table actually produced by the implementation.  Theorem
  `C01_certified` says: a table accepted by the checker has exactly the language `wt`
  (membership being the implementation's stack-based `__contains_rec__`, theorem
  `C01_contains_gen`), so for every generated input the property is *proved* for the real
  output, not sampled.
-/
import PS.Proofs.Cfg
import PS.Proofs.Lang
import PS.Proofs.Programs
import PS.Proofs.Mass
import PS.Proofs.CfgBuild
import PS.Proofs.CfgPrograms
import PS.Proofs.CfgInfinite
import PS.Proofs.CfgInfiniteDepth
import PS.Proofs.CfgInfiniteFuel
namespace PS.G
open PS

/-- **Membership** by the deterministic stack-based derivation (with the arity check) is
    exactly top-down matching of the rule table — for every grammar and every program. -/
theorem C01_contains_gen {S : Type} [DecidableEq S] (G : TT S Unit) (t : Prog) :
    contains G t = gen G t G.start :=
  contains_eq_gen G t

/-- **Rule creation = well-typed terms**: the terms derivable when every non-terminal
    `(type, n-gram, depth)` carries the rules created for it are exactly the well-typed terms
    (depth bound, minimum variable depth, constant types, forbidden patterns as far as the
    n-gram shows the parent). For all parameters. -/
theorem C01_rules_wt (P : Params) (t : Prog) :
    genR P t (startNT P) = wt P (effParent P) t 0 none P.request.returns := by
  have := genR_eq_wt P t.size t (Nat.le_refl _) P.request.returns [] 0 (fun _ => rfl)
  simpa [startNT] using this

/-- **Certified tables**: for every rule table `G` accepted by the checker (whatever produced
    it — here: the implementation), membership in `G` is exactly well-typedness. In
    particular the table contains no term outside `wt` and misses none. -/
theorem C01_certified (P : Params) (G : CFG) (dead : List CNT) (rankR rankP : AList CNT Nat)
    (h : tableOK P G dead rankR rankP = true) (t : Prog) :
    contains G t = wt P (effParent P) t 0 none P.request.returns := by
  unfold tableOK at h
  simp only [Bool.and_eq_true] at h
  obtain ⟨⟨⟨⟨hstart, hrules⟩, hdead⟩, _⟩, _⟩ := h
  unfold okStart at hstart
  simp only [Bool.and_eq_true, beq_iff_eq, decide_eq_true_eq] at hstart
  obtain ⟨⟨hs, hkey⟩, _⟩ := hstart
  rw [C01_contains_gen, table_gen_eq_genR P G dead hrules hdead t.size t (Nat.le_refl _) G.start hkey,
    hs, C01_rules_wt]

/-- **The statement's language** (every child sees its parent, so *no* forbidden
    (parent, index, child) pattern occurs, whatever the arity of the child) — under the
    hypothesis that the n-gram is wide enough to hold the parent.
    Full statement (false on the unchanged tree for `n_gram ∈ {0,1}`, finding C01-F2, see
    `finding_C01_F2`):  ∀ P, tableOK … → contains G t = wtTop P t. -/
theorem C01_statement_partial (P : Params) (G : CFG) (dead : List CNT) (rankR rankP : AList CNT Nat)
    (h : tableOK P G dead rankR rankP = true) (hn : P.nGram ≥ 2 ∨ P.nGram < 0) (t : Prog) :
    contains G t = wtTop P t := by
  rw [C01_certified P G dead rankR rankP h t]
  have : effParent P = some := by
    funext p; simp [effParent, hn]
  rw [this]; rfl

/-- **Clean**: in a table accepted by the checker every non-terminal is reachable from the
    start symbol and productive (derives at least one program), and every argument of every
    rule is again a non-terminal of the table — "every rule left in the grammar is reachable
    and productive". -/
theorem C01_clean (P : Params) (G : CFG) (dead : List CNT) (rankR rankP : AList CNT Nat)
    (h : tableOK P G dead rankR rankP = true) :
    ∀ e ∈ G.rules, Reach G e.1 ∧ (∃ t, gen G t e.1 = true) ∧
      ∀ r ∈ e.2, ∀ a ∈ r.2.1, AList.contains (toNT a) G.rules = true := by
  unfold tableOK at h
  simp only [Bool.and_eq_true] at h
  obtain ⟨⟨⟨⟨hstart, hrules⟩, _⟩, hreach⟩, hprod⟩ := h
  unfold okStart at hstart
  simp only [Bool.and_eq_true, beq_iff_eq, decide_eq_true_eq] at hstart
  obtain ⟨_, hnd⟩ := hstart
  intro e he
  refine ⟨reach_of_cert G rankR hnd hreach _ e he (Nat.le_refl _),
          prod_of_cert G rankP hnd hprod _ e he (Nat.le_refl _), ?_⟩
  intro r hr a ha
  unfold okRules at hrules
  rw [List.all_eq_true] at hrules
  have := hrules e he
  simp only [Bool.and_eq_true] at this
  obtain ⟨hsame, _⟩ := this
  unfold sameRules at hsame
  simp only [Bool.and_eq_true, decide_eq_true_eq] at hsame
  obtain ⟨⟨hsub, _⟩, _⟩ := hsame
  rw [List.all_eq_true] at hsub
  have h1 := hsub r hr
  have h1' : (r.1, r.2.1) ∈ (ruleSet P e.1).filter (fun r => r.2.all (isKey G)) := by simpa using h1
  have := (List.mem_filter.mp h1').2
  simp only [List.all_eq_true] at this
  exact this a ha

/-- **Counting**: for a table accepted by the checker, whenever `programs()` returns a number
    (not -1) that number is the number of well-typed terms: there is a duplicate-free list of
    exactly the terms of the language, of that length. (Uses the counting theorems of C04.) -/
theorem C01_count (P : Params) (G : CFG) (dead : List CNT) (rankR rankP : AList CNT Nat)
    (h : tableOK P G dead rankR rankP = true) (n : Nat) (hp : programs G = some n) :
    ∃ L : List Prog, L.Nodup ∧ n = L.length ∧
      ∀ t, t ∈ L ↔ wt P (effParent P) t 0 none P.request.returns = true := by
  have hcert := C01_certified P G dead rankR rankP h
  unfold tableOK at h
  simp only [Bool.and_eq_true] at h
  obtain ⟨⟨⟨⟨hstart, hrules⟩, _⟩, _⟩, _⟩ := h
  unfold okStart at hstart
  simp only [Bool.and_eq_true, beq_iff_eq, decide_eq_true_eq] at hstart
  obtain ⟨_, hnd⟩ := hstart
  -- every row of the table has distinct symbols
  have hrows : RowsNodup G := by
    intro nt rs hl
    have hmem := AList.lookup_some_mem hl
    unfold okRules at hrules
    rw [List.all_eq_true] at hrules
    have := hrules (nt, rs) hmem
    simp only [Bool.and_eq_true] at this
    obtain ⟨hsame, _⟩ := this
    unfold sameRules at hsame
    simp only [Bool.and_eq_true, decide_eq_true_eq] at hsame
    exact hsame.2
  obtain ⟨k, hb, hn⟩ := Programs.programs_eq_count G hnd n hp
  refine ⟨lang G k G.start, lang_nodup G hrows k G.start, by rw [hn, count_eq_length], ?_⟩
  intro t
  rw [mem_lang_of_bounded G hrows k t G.start hb, ← hcert t, C01_contains_gen]

/-! ### literals for the non-vacuity examples -/
namespace Example
def int : Ty := .base "int"
def plus : Sym := Sym.prim "+" (.arrow int (.arrow int int))
def one : Sym := Sym.prim "1" int
/-- DSL {+, 1}, forbidden ("+", 0) ↦ {"+"}, request int -> int, depth 3 -/
def P2 : Params := { prims := [plus, one], forbidden := [(("+", 0), ["+"])], request := .arrow int int,
                     maxDepth := 3, minVarDepth := 1, nGram := 2, recursive := false, constTypes := [] }
def P1 : Params := { P2 with nGram := 1 }
def leaf (s : Sym) : Prog := .node s []
/-- `(+ (+ 1 1) 1)` : the forbidden pattern ("+", 0, "+") -/
def bad : Prog := .node plus [.node plus [leaf one, leaf one], leaf one]
def good : Prog := .node plus [leaf one, .node plus [leaf one, leaf (Sym.var 0 int)]]
/-- a DSL where `clean` has work to do: `g : int -> bool -> int` and `h : bool -> bool` need the
    uninhabited type `bool` -/
def boolT : Ty := .base "bool"
def gS : Sym := Sym.prim "g" (.arrow int (.arrow boolT int))
def hS : Sym := Sym.prim "h" (.arrow boolT boolT)
def P3 : Params := { P2 with prims := [plus, one, gS, hS] }
/-- request `int -> bool`: the language is empty, the constructor fails -/
def P4 : Params := { P3 with request := .arrow int boolT }
/-- the table of `P3` when the worklist loop ends (10 non-terminals) -/
def tbl3 : Table := (closure P3 16 [startNT P3] []).getD []
/-- … and after `clean` (5 non-terminals) -/
def T3 : Table := (removeNonReachable (startNT P3) (removeNonProductive tbl3)).getD []
def tbl4 : Table := (closure P4 3 [startNT P4] []).getD []
/-- `f : bool -> int`, `true : bool`, request `int`: the only program is `(f true)` -/
def fS : Sym := Sym.prim "f" (.arrow boolT int)
def trueS : Sym := Sym.prim "true" boolT
def P5 : Params := { P2 with prims := [fS, trueS], forbidden := [], request := int }
def fTrue : Prog := .node fS [leaf trueS]
/-- a term of depth 6 of the unbounded language of `P2` -/
def deep : Prog := .node plus [leaf one, .node plus [leaf one, .node plus [leaf one, .node plus [leaf one, good]]]]
/-- the grammars built by the model of `CFG.infinite` -/
def GI3 : CFG := (buildTableInf P3 40).getD ⟨startNT P3, []⟩
def GI5 : CFG := (buildTableInf P5 10).getD ⟨startNT P5, []⟩
end Example

/-! ### the construction itself: worklist loop + `clean`, for every parameter set

  The theorems above certify a *given* table.  The ones below close the remaining quantifier:
  the model of `CFG.depth_constraint` (`buildTable` = worklist `closure`, then
  `removeNonProductive`, then `removeNonReachable`) produces, for EVERY DSL, type request,
  depth, n-gram width, forbidden table, minimum variable depth, constant types and recursive
  flag, a table with exactly the specified language, all of whose non-terminals are reachable
  and productive.  No well-formedness hypothesis on the parameters is needed. -/

/-- **`clean` keeps the language** of ANY rule table that is a dict of dicts. -/
theorem C01_clean_lang (start : CNT) (tbl T' : Table) (hwf : TableWF tbl)
    (h : removeNonReachable start (removeNonProductive tbl) = some T') (t : Prog) :
    contains (⟨start, T'⟩ : CFG) t = contains (⟨start, tbl⟩ : CFG) t := by
  rw [C01_contains_gen, C01_contains_gen]
  exact (clean_some start tbl T' hwf h).lang t

open Example in
/-- non-vacuity: on `P3` the loop ends with 10 non-terminals, `clean` succeeds and leaves 5 -/
theorem Example.tbl3_eq : closure P3 16 [startNT P3] [] = some tbl3 :=
  eq_some_getD _ [] (by decide)
open Example in
theorem Example.tbl3_wf : TableWF tbl3 :=
  cinv_wf P3 tbl3 [] (closure_inv P3 16 _ _ tbl3 (cinv_init P3) Example.tbl3_eq)
open Example in
theorem Example.T3_eq : removeNonReachable (startNT P3) (removeNonProductive tbl3) = some T3 :=
  eq_some_getD _ [] (by decide)
open Example in
example : TableWF tbl3 ∧ removeNonReachable (startNT P3) (removeNonProductive tbl3) = some T3 ∧
    tbl3.length = 10 ∧ T3.length = 5 ∧ contains (⟨startNT P3, tbl3⟩ : CFG) good = true :=
  ⟨Example.tbl3_wf, Example.T3_eq, by decide, by decide, by decide⟩

/-- **after `clean` every non-terminal is reachable and productive**, every argument of a
    remaining rule is a remaining non-terminal, every remaining rule is a rule of the original
    table, and a rule of a remaining non-terminal whose arguments are all productive is kept —
    for ANY dict-of-dicts table. -/
theorem C01_clean_reachable_productive (start : CNT) (tbl T' : Table) (hwf : TableWF tbl)
    (h : removeNonReachable start (removeNonProductive tbl) = some T') :
    AList.contains start T' = true ∧
    (∀ e ∈ T', Reach (⟨start, T'⟩ : CFG) e.1 ∧ (∃ t, gen (⟨start, T'⟩ : CFG) t e.1 = true) ∧
      (∀ r ∈ e.2, ∀ a ∈ r.2.1, AList.contains (toNT a) T' = true) ∧
      ∃ e0 ∈ tbl, e0.1 = e.1 ∧ (∀ r ∈ e.2, r ∈ e0.2) ∧
        ∀ r ∈ e0.2, (∀ a ∈ r.2.1, ∃ t, gen (⟨start, tbl⟩ : CFG) t (toNT a) = true) → r ∈ e.2) := by
  have hs := clean_some start tbl T' hwf h
  refine ⟨mem_keys_iff_contains.mp hs.start_key, ?_⟩
  intro e he
  have hk := mem_keys_of_mem he
  refine ⟨hs.reachable _ hk, hs.productive _ hk,
    fun r hr a ha => mem_keys_iff_contains.mp (hs.closed e he r hr a ha), ?_⟩
  obtain ⟨e0, he0, h1, h2⟩ := hs.sub e he
  exact ⟨e0, he0, h1, h2, fun r hr hp => hs.kept e he e0 he0 h1 r hr hp⟩

open Example in
/-- non-vacuity: 3 of the 10 non-terminals are unproductive, 2 more become unreachable -/
example : (removeNonProductive tbl3).length = 7 ∧ T3.length = 5 ∧ ∀ e ∈ T3, Reach (⟨startNT P3, T3⟩ : CFG) e.1 :=
  ⟨by decide, by decide, fun e he =>
    ((C01_clean_reachable_productive _ tbl3 T3 Example.tbl3_wf Example.T3_eq).2 e he).1⟩

/-- **`clean` raises (KeyError on the start symbol) only when the language is empty.** -/
theorem C01_clean_fails_empty (start : CNT) (tbl : Table) (hwf : TableWF tbl)
    (h : removeNonReachable start (removeNonProductive tbl) = none) (t : Prog) :
    contains (⟨start, tbl⟩ : CFG) t = false := by
  rw [C01_contains_gen]
  exact clean_none start tbl hwf h t

open Example in
/-- non-vacuity: on `P4` (request `int -> bool`) the loop ends and `clean` fails -/
theorem Example.tbl4_eq : closure P4 3 [startNT P4] [] = some tbl4 :=
  eq_some_getD _ [] (by decide)
open Example in
example : tbl4.length = 3 ∧ removeNonReachable (startNT P4) (removeNonProductive tbl4) = none := by decide

/-- **`_remove_non_productive_` computes the least fixed point**: the set found by the
    `while changed` loop (model: `prodFix` with fuel `|table| + 1`, never exhausted) is exactly
    the set of non-terminals that derive a program. -/
theorem C01_clean_productive_fixpoint (start : CNT) (tbl : Table) (hwf : TableWF tbl) (nt : CNT) :
    nt ∈ prodFix tbl (tbl.length + 1) [] ↔ ∃ t, gen (⟨start, tbl⟩ : CFG) t nt = true :=
  mem_prodSet_iff start tbl hwf nt

open Example in
/-- non-vacuity: the fixed point is a proper, non-empty subset of the non-terminals -/
example : (prodFix tbl3 (tbl3.length + 1) []).length = 7 ∧ tbl3.length = 10 := by decide

/-- **`_remove_non_reachable_` computes the reachability closure**: the set found by the
    breadth-first loop (model: `reachFix`, fuel never exhausted) is exactly the set of
    non-terminals reachable from the start. -/
theorem C01_clean_reachable_closure (start : CNT) (tbl : Table)
    (hc : ∀ e ∈ tbl, ∀ r ∈ e.2, ∀ a ∈ r.2.1, toNT a ∈ AList.keys tbl)
    (hs : start ∈ AList.keys tbl) (nt : CNT) :
    nt ∈ reachFix tbl (tbl.length * tbl.length + tbl.length + 1) [start] [start] ↔
      Reach (⟨start, tbl⟩ : CFG) nt :=
  mem_reachSet_iff start tbl hc hs nt

open Example in
/-- non-vacuity: the hypotheses hold for the table of `P3` after `_remove_non_productive_`,
    5 of its 7 non-terminals are reachable -/
example : (∀ e ∈ removeNonProductive tbl3, ∀ r ∈ e.2, ∀ a ∈ r.2.1, toNT a ∈ AList.keys (removeNonProductive tbl3)) ∧
    startNT P3 ∈ AList.keys (removeNonProductive tbl3) ∧
    (reachFix (removeNonProductive tbl3) (7 * 7 + 7 + 1) [startNT P3] [startNT P3]).length = 5 :=
  ⟨removeNonProductive_closed (startNT P3) tbl3 Example.tbl3_wf, by decide, by decide⟩

/-- **Worklist invariant**: when the loop of `depth_constraint` ends (with whatever fuel), the
    table has distinct non-terminals, contains the start symbol, every non-terminal carries
    exactly the dict of the rules created for it, and the non-terminals are closed under
    "argument of a created rule of a member". -/
theorem C01_worklist_closed (P : Params) (fuel : Nat) (tbl : Table)
    (h : closure P fuel [startNT P] [] = some tbl) :
    (AList.keys tbl).Nodup ∧ AList.contains (startNT P) tbl = true ∧
    (∀ e ∈ tbl, e.2 = rulesDict (ruleSet P e.1)) ∧
    (∀ e ∈ tbl, ∀ r ∈ ruleSet P e.1, ∀ a ∈ r.2, AList.contains (toNT a) tbl = true) := by
  have hinv := closure_inv P fuel _ _ tbl (cinv_init P) h
  refine ⟨hinv.nodup, start_key_of_cinv P tbl hinv, hinv.rows, ?_⟩
  intro e he r hr a ha
  rcases hinv.closed e he (toNT a) ((mem_kidsR P e.1 _).mpr ⟨r, hr, a, ha, rfl⟩) with h1 | h1
  · exact mem_keys_iff_contains.mp h1
  · cases h1

open Example in
/-- non-vacuity: the loop of `P3` ends with fuel 16 (and not with 15) -/
example : closure P3 16 [startNT P3] [] = some tbl3 ∧ closure P3 15 [startNT P3] [] = none :=
  ⟨Example.tbl3_eq, by decide⟩

/-- **The uncleaned table has the specified language**: from the start symbol the table built by
    the worklist loop derives exactly the well-typed terms. -/
theorem C01_worklist_lang (P : Params) (fuel : Nat) (tbl : Table)
    (h : closure P fuel [startNT P] [] = some tbl) (t : Prog) :
    contains (⟨startNT P, tbl⟩ : CFG) t = wt P (effParent P) t 0 none P.request.returns := by
  have hinv := closure_inv P fuel _ _ tbl (cinv_init P) h
  rw [C01_contains_gen, closure_gen P (startNT P) tbl hinv t.size t (Nat.le_refl _) _
    (start_key_of_cinv P tbl hinv), C01_rules_wt]

open Example in
example : contains (⟨startNT P3, tbl3⟩ : CFG) good = true ∧ contains (⟨startNT P3, tbl3⟩ : CFG) bad = false := by
  decide

/-- **Fuel adequacy**: the worklist loop ends within `buildFuel P` iterations (the number of
    pushes of a run that never finds a non-terminal already treated), and more fuel does not
    change the table. -/
theorem C01_construction_fuel (P : Params) (fuel : Nat) (hf : buildFuel P ≤ fuel) :
    ∃ tbl, closure P fuel [startNT P] [] = some tbl ∧
      ∀ fuel', fuel ≤ fuel' → closure P fuel' [startNT P] [] = some tbl := by
  have h := closure_terminates P fuel [startNT P] [] (by simpa [buildFuel] using hf)
  cases hc : closure P fuel [startNT P] [] with
  | none => rw [hc] at h; cases h
  | some tbl =>
    refine ⟨tbl, rfl, ?_⟩
    intro fuel' hle
    obtain ⟨d, rfl⟩ := Nat.exists_eq_add_of_le hle
    induction d with
    | zero => exact hc
    | succ d ih => exact closure_mono P _ _ _ _ (ih (Nat.le_add_right _ _))

open Example in
/-- non-vacuity: the bound is attained on `P3` and `P4` -/
example : buildFuel P3 = 16 ∧ closure P3 15 [startNT P3] [] = none ∧
    buildFuel P4 = 3 ∧ closure P4 2 [startNT P4] [] = none := by decide

/-- … hence the constructor's answer does not depend on the fuel once it is adequate. -/
theorem C01_construction_fuel_indep (P : Params) (fuel : Nat) (hf : buildFuel P ≤ fuel) :
    buildTable P fuel = buildTable P (buildFuel P) := by
  obtain ⟨tbl, hc, hall⟩ := C01_construction_fuel P (buildFuel P) (Nat.le_refl _)
  have h := hall fuel hf
  unfold buildTable
  rw [h, hc]

open Example in
/-- non-vacuity: `buildFuel P3 = 16`, and with fuel 15 the answer differs (loop not over) -/
example : buildFuel P3 ≤ 1000 ∧ buildTable P3 15 = none ∧ (buildTable P3 (buildFuel P3)).isSome = true := by
  decide

/-- **C01 for the construction — language**: whenever the model of `CFG.depth_constraint`
    returns a grammar, membership in it (the implementation's stack-based derivation) is exactly
    well-typedness. For every parameter set and every fuel. -/
theorem C01_construction_lang (P : Params) (fuel : Nat) (G : CFG) (h : buildTable P fuel = some G)
    (t : Prog) : contains G t = wt P (effParent P) t 0 none P.request.returns := by
  obtain ⟨tbl, hc, _, hstart, hclean⟩ := buildTable_some P fuel G h
  have hG : G = ⟨startNT P, G.rules⟩ := by cases G; simp only at hstart; rw [hstart]
  rw [← C01_worklist_lang P fuel tbl hc t, C01_contains_gen, C01_contains_gen, hG]
  exact hclean.lang t

open Example in
/-- non-vacuity: the constructor succeeds on `P3`; the grammar contains `good`, not `bad` -/
theorem Example.build3 : buildTable P3 16 = some ⟨startNT P3, T3⟩ := by
  unfold buildTable
  rw [Example.tbl3_eq]
  simp only
  rw [Example.T3_eq]
open Example in
example : contains (⟨startNT P3, T3⟩ : CFG) good = true ∧ contains (⟨startNT P3, T3⟩ : CFG) bad = false ∧
    wt P3 (effParent P3) good 0 none P3.request.returns = true := by decide

/-- **C01 for the construction — the statement's language** when the n-gram is wide enough to
    hold the parent (finding C01-F2 otherwise, see `finding_C01_F2`). -/
theorem C01_construction_statement_partial (P : Params) (fuel : Nat) (G : CFG)
    (h : buildTable P fuel = some G) (hn : P.nGram ≥ 2 ∨ P.nGram < 0) (t : Prog) :
    contains G t = wtTop P t := by
  rw [C01_construction_lang P fuel G h t]
  have : effParent P = some := by
    funext p; simp [effParent, hn]
  rw [this]; rfl

open Example in
example : buildTable P3 16 = some ⟨startNT P3, T3⟩ ∧ (P3.nGram ≥ 2 ∨ P3.nGram < 0) ∧
    wtTop P3 good = true ∧ wtTop P3 bad = false := ⟨Example.build3, by decide, by decide, by decide⟩

/-- **C01 for the construction — clean**: the grammar starts at the start symbol of the type
    request, has distinct non-terminals and distinct symbols per non-terminal; every
    non-terminal is reachable from the start and productive, every argument of every rule is a
    non-terminal of the grammar, and the rules of a non-terminal are exactly the created rules
    all of whose arguments are productive. -/
theorem C01_construction_clean (P : Params) (fuel : Nat) (G : CFG) (h : buildTable P fuel = some G) :
    G.start = startNT P ∧ AList.contains G.start G.rules = true ∧ (AList.keys G.rules).Nodup ∧
    ∀ e ∈ G.rules, (AList.keys e.2).Nodup ∧ Reach G e.1 ∧ (∃ t, gen G t e.1 = true) ∧
      (∀ r ∈ e.2, ∀ a ∈ r.2.1, AList.contains (toNT a) G.rules = true) ∧
      (∀ f args, (f, (args, ())) ∈ e.2 ↔
        (f, args) ∈ ruleSet P e.1 ∧ ∀ a ∈ args, ∃ t, genR P t (toNT a) = true) := by
  obtain ⟨tbl, _, hinv, hstart, hs⟩ := buildTable_some P fuel G h
  have hG : G = ⟨startNT P, G.rules⟩ := by cases G; simp only at hstart; rw [hstart]
  have hwf := cinv_wf P tbl [] hinv
  have hgen : ∀ nt, nt ∈ AList.keys tbl → ∀ t, gen (⟨startNT P, tbl⟩ : CFG) t nt = genR P t nt :=
    fun nt hnt t => closure_gen P (startNT P) tbl hinv t.size t (Nat.le_refl _) nt (mem_keys_iff_contains.mp hnt)
  refine ⟨hstart, by rw [hstart]; exact mem_keys_iff_contains.mp hs.start_key, hs.wf.keys, ?_⟩
  intro e he
  have hk := mem_keys_of_mem he
  refine ⟨hs.wf.rows e he, by rw [hG]; exact hs.reachable _ hk, by rw [hG]; exact hs.productive _ hk,
    fun r hr a ha => mem_keys_iff_contains.mp (hs.closed e he r hr a ha), ?_⟩
  obtain ⟨e0, he0, h1, h2⟩ := hs.sub e he
  have hrow : e0.2 = rulesDict (ruleSet P e.1) := by rw [hinv.rows e0 he0, h1]
  -- arguments of created rules of a key of the uncleaned table are keys of it
  have hargs : ∀ r ∈ ruleSet P e.1, ∀ a ∈ r.2, toNT a ∈ AList.keys tbl := by
    intro r hr a ha
    rcases hinv.closed e0 he0 (toNT a) ((mem_kidsR P e0.1 _).mpr ⟨r, h1 ▸ hr, a, ha, rfl⟩) with h3 | h3
    · exact h3
    · cases h3
  intro f args
  constructor
  · intro hm
    have hm0 := h2 _ hm
    rw [hrow] at hm0
    have hlk := lookup_row_of_mem (rulesDict_nodup _) hm0
    have hin := rulesDict_lookup_mem _ f _ hlk
    refine ⟨hin, ?_⟩
    intro a ha
    have hka := hs.closed e he _ hm a ha
    obtain ⟨t, ht⟩ := hs.productive _ hka
    refine ⟨t, ?_⟩
    rw [hs.lang_key _ hka t, hgen _ (hargs _ hin a ha) t] at ht
    exact ht
  · rintro ⟨hin, hp⟩
    apply hs.kept e he e0 he0 h1
    · rw [hrow]
      exact AList.lookup_some_mem (rulesDict_lookup_of_mem _ (ruleSet_functional P e.1) (f, args) hin)
    · intro a ha
      obtain ⟨t, ht⟩ := hp a ha
      exact ⟨t, by rw [hgen _ (hargs _ hin a ha) t]; exact ht⟩

open Example in
/-- non-vacuity: in the grammar of `P3` the rule for `g` (argument `bool` unproductive) is
    created for the start symbol but not kept; the rule for `+` is kept -/
example : (ruleSet P3 (startNT P3)).any (fun r => r.1 == gS) = true ∧
    ((AList.lookup (startNT P3) T3).getD []).any (fun r => r.1 == gS) = false ∧
    ((AList.lookup (startNT P3) T3).getD []).any (fun r => r.1 == plus) = true := by decide

/-- **C01 for the construction — failure**: if the worklist loop has ended and the constructor
    fails (the KeyError of `clean` on the start symbol), the specified language is empty. -/
theorem C01_construction_empty (P : Params) (fuel : Nat)
    (hc : closure P fuel [startNT P] [] ≠ none) (h : buildTable P fuel = none) (t : Prog) :
    wt P (effParent P) t 0 none P.request.returns = false := by
  rcases buildTable_none P fuel h with h1 | ⟨tbl, h1, hinv, h2⟩
  · exact absurd h1 hc
  · rw [← C01_worklist_lang P fuel tbl h1 t]
    exact C01_clean_fails_empty (startNT P) tbl (cinv_wf P tbl [] hinv) h2 t

open Example in
/-- non-vacuity: on `P4` the loop ends and the constructor fails -/
example : closure P4 3 [startNT P4] [] ≠ none ∧ buildTable P4 3 = none := by decide

/-- **C01 for the construction — total form**: with adequate fuel (`buildFuel P` or more), for
    every parameter set, either the constructor returns a grammar whose language is exactly the
    specified one, or it fails and the specified language is empty. -/
theorem C01_construction (P : Params) (fuel : Nat) (hf : buildFuel P ≤ fuel) :
    (∃ G, buildTable P fuel = some G ∧
      ∀ t, contains G t = wt P (effParent P) t 0 none P.request.returns) ∨
    (buildTable P fuel = none ∧ ∀ t, wt P (effParent P) t 0 none P.request.returns = false) := by
  obtain ⟨tbl, hc, _⟩ := C01_construction_fuel P fuel hf
  cases hb : buildTable P fuel with
  | some G => exact Or.inl ⟨G, rfl, C01_construction_lang P fuel G hb⟩
  | none => exact Or.inr ⟨rfl, C01_construction_empty P fuel (by rw [hc]; simp) hb⟩

open Example in
/-- non-vacuity: both branches occur, with adequate fuel -/
example : buildFuel P3 ≤ 16 ∧ (buildTable P3 16).isSome = true ∧
    buildFuel P4 ≤ 3 ∧ buildTable P4 3 = none := by decide

/-- **C01 for the construction — counting**: on every grammar returned by the constructor
    `programs()` returns a number (never -1, even with `recursive = True`: a depth-bounded grammar
    is acyclic), and that number is the number of well-typed terms: there is a duplicate-free
    list of exactly the terms of the language, of that length. -/
theorem C01_construction_count (P : Params) (fuel : Nat) (G : CFG) (h : buildTable P fuel = some G) :
    ∃ n, programs G = some n ∧ ∃ L : List Prog, L.Nodup ∧ n = L.length ∧
      ∀ t, t ∈ L ↔ wt P (effParent P) t 0 none P.request.returns = true := by
  obtain ⟨hstart, hskey, hnd, hall⟩ := C01_construction_clean P fuel G h
  have hrows : RowsNodup G := fun nt rs hl => (hall (nt, rs) (AList.lookup_some_mem hl)).1
  obtain ⟨n, hn⟩ := programs_isSome G
    (by
      intro e he r hr a ha
      obtain ⟨_, _, _, _, hiff⟩ := hall e he
      have hin := ((hiff r.1 r.2.1).mp hr).1
      have := ruleSet_depth P e.1 _ hin a ha
      unfold depthOf; omega)
    (fun e he r hr a ha => mem_keys_iff_contains.mpr ((hall e he).2.2.2.1 r hr a ha))
    (mem_keys_iff_contains.mpr hskey)
  refine ⟨n, hn, ?_⟩
  obtain ⟨k, hb, hnk⟩ := Programs.programs_eq_count G hnd n hn
  refine ⟨lang G k G.start, lang_nodup G hrows k G.start, by rw [hnk, count_eq_length], ?_⟩
  intro t
  rw [mem_lang_of_bounded G hrows k t G.start hb, ← C01_construction_lang P fuel G h t, C01_contains_gen]

open Example in
/-- non-vacuity: the grammar of `P3` has 13 programs; so has the recursive variant's count a
    number -/
example : buildTable P3 16 = some ⟨startNT P3, T3⟩ ∧ programs (⟨startNT P3, T3⟩ : CFG) = some 13 ∧
    ((buildTable { P3 with recursive := true } 40).bind programs).isSome = true :=
  ⟨Example.build3, by decide, by decide⟩

/-! ### `CFG.infinite`: the grammar compiled without a depth bound

  Model: PS/Model/CfgInfinite.lean (`buildTableInf` = worklist `closureWith (ruleSetInf P)`, then
  the same `clean`).  Specification: `wtI` — well-typed applicative terms of ANY depth that respect
  the forbidden patterns (`wtITop` = every child sees its parent).  All theorems hold for every
  parameter set and every fuel at which the model returns (`maxDepth`, `minVarDepth` are ignored). -/

/-- **Rule creation of `CFG.infinite` = well-typed terms of every depth.** -/
theorem C01_infinite_rules_wt (P : Params) (t : Prog) :
    genW (ruleSetInf P) t (startNT P) = wtI P (effParent P) t none P.request.returns := by
  have := genW_eq_wtI P t.size t (Nat.le_refl _) P.request.returns [] 0 (fun _ => rfl)
  simpa [startNT] using this

open Example in
/-- non-vacuity: rule creation derives a term of depth 6, rejects the forbidden pattern -/
example : genW (ruleSetInf P2) deep (startNT P2) = true ∧ genW (ruleSetInf P2) bad (startNT P2) = false := by
  decide

/-- **C01 for `CFG.infinite` — language**: whenever the model of `CFG.infinite` returns a grammar,
    membership in it is exactly well-typedness at any depth. -/
theorem C01_infinite_lang (P : Params) (fuel : Nat) (G : CFG) (h : buildTableInf P fuel = some G)
    (t : Prog) : contains G t = wtI P (effParent P) t none P.request.returns := by
  obtain ⟨tbl, _, hinv, hstart, _, hclean⟩ := buildTableInf_some P fuel G h
  have hG : G = ⟨startNT P, G.rules⟩ := by cases G; simp only at hstart; rw [hstart]
  rw [C01_contains_gen, hG, hclean.lang t,
    closureWith_gen _ (ruleSetInf_functional P) (startNT P) tbl hinv t.size t (Nat.le_refl _) _
      (cinvW_start_key _ _ tbl hinv), C01_infinite_rules_wt]

open Example in
/-- non-vacuity: on `P3` the model of `CFG.infinite` returns a grammar with 3 non-terminals (6
    before `clean`); it contains a term of depth 6, not the forbidden pattern -/
theorem Example.buildI3 : buildTableInf P3 40 = some GI3 := eq_some_getD _ _ (by decide)
open Example in
example : GI3.rules.length = 3 ∧ (closureWith (ruleSetInf P3) 40 [startNT P3] []).map (·.length) = some 6 ∧
    contains GI3 deep = true ∧ contains GI3 bad = false := by decide

/-- **C01 for `CFG.infinite` — the statement's language** ("exactly the well-typed terms of every
    depth that respect the forbidden patterns") when the n-gram is wide enough to hold the parent.
    Full statement (false for `n_gram ∈ {0,1}`, finding C01-F2, see `finding_C01_F2_infinite`):
    ∀ P, buildTableInf P fuel = some G → contains G t = wtITop P t. -/
theorem C01_infinite_lang_partial (P : Params) (fuel : Nat) (G : CFG)
    (h : buildTableInf P fuel = some G) (hn : P.nGram ≥ 2 ∨ P.nGram < 0) (t : Prog) :
    contains G t = wtITop P t := by
  rw [C01_infinite_lang P fuel G h t]
  have : effParent P = some := by
    funext p; simp [effParent, hn]
  rw [this]; rfl

open Example in
example : buildTableInf P3 40 = some GI3 ∧ (P3.nGram ≥ 2 ∨ P3.nGram < 0) ∧
    wtITop P3 deep = true ∧ wtITop P3 bad = false := ⟨Example.buildI3, by decide, by decide, by decide⟩

open Example in
/-- **finding C01-F2** for `CFG.infinite`, on the model: with `n_gram = 1` rule creation derives
    the term that the statement forbids. -/
theorem finding_C01_F2_infinite :
    genW (ruleSetInf P1) bad (startNT P1) = true ∧ wtITop P1 bad = false := by decide

/-- **The unbounded specification is "well typed at some depth bound"**: `wtI` is the union over
    all depth bounds `D` of the bounded specification `wt` (with variables allowed at every
    level, `unb P D = { P with maxDepth := D, minVarDepth := 0 }`). -/
theorem C01_infinite_wt_depth (P : Params) (vis : Sym × Nat → Option (Sym × Nat)) (t : Prog)
    (parent : Option (Sym × Nat)) (ty : Ty) :
    wtI P vis t parent ty = true ↔ ∃ D, wt (unb P D) vis t 0 parent ty = true :=
  wtI_iff_exists_depth P vis t parent ty

open Example in
/-- non-vacuity: `deep` (depth 6) is well typed with bound 7, not with bound 6 -/
example : wtI P2 some deep none int = true ∧ wt (unb P2 7) some deep 0 none int = true ∧
    wt (unb P2 6) some deep 0 none int = false := by decide

/-- **The grammar of `CFG.infinite` is the union of the depth-bounded grammars** (built with
    `min_variable_depth = 0`): a program is a member iff it is a member of
    `CFG.depth_constraint(…, max_depth = D, min_variable_depth = 0, …)` for some `D`. -/
theorem C01_infinite_union (P : Params) (fuel : Nat) (G : CFG) (h : buildTableInf P fuel = some G)
    (t : Prog) :
    contains G t = true ↔
      ∃ D Gd, buildTable (unb P D) (buildFuel (unb P D)) = some Gd ∧ contains Gd t = true := by
  rw [C01_infinite_lang P fuel G h t, C01_infinite_wt_depth]
  constructor
  · rintro ⟨D, hw⟩
    rcases C01_construction (unb P D) (buildFuel (unb P D)) (Nat.le_refl _) with ⟨Gd, hb, hl⟩ | ⟨_, hl⟩
    · exact ⟨D, Gd, hb, by rw [hl t]; exact hw⟩
    · have := hl t
      change wt (unb P D) (effParent P) t 0 none P.request.returns = false at this
      rw [this] at hw; cases hw
  · rintro ⟨D, Gd, hb, hc⟩
    refine ⟨D, ?_⟩
    rw [C01_construction_lang (unb P D) _ Gd hb t] at hc
    exact hc

open Example in
/-- non-vacuity: `good` (depth 3) is in the depth-3 grammar of `P2`, not in the depth-2 one -/
example : ((buildTable (unb P2 3) (buildFuel (unb P2 3))).map (fun Gd => contains Gd good)) = some true ∧
    ((buildTable (unb P2 2) (buildFuel (unb P2 2))).map (fun Gd => contains Gd good)) = some false := by
  decide

/-- **C01 for `CFG.infinite` — clean**: the grammar starts at the start symbol of the type
    request, which is a non-terminal and the first key of the table; non-terminals and symbols
    are distinct; every non-terminal is reachable and productive, every argument of every rule is
    a non-terminal with depth component 0, and the rules of a non-terminal are exactly the created
    rules all of whose arguments are productive. -/
theorem C01_infinite_clean (P : Params) (fuel : Nat) (G : CFG) (h : buildTableInf P fuel = some G) :
    G.start = startNT P ∧ AList.contains G.start G.rules = true ∧ (AList.keys G.rules).Nodup ∧
    G.rules.head?.map (·.1) = some G.start ∧
    ∀ e ∈ G.rules, (AList.keys e.2).Nodup ∧ Reach G e.1 ∧ (∃ t, gen G t e.1 = true) ∧
      (∀ r ∈ e.2, ∀ a ∈ r.2.1, AList.contains (toNT a) G.rules = true ∧ a.2.2 = 0) ∧
      (∀ f args, (f, (args, ())) ∈ e.2 ↔
        (f, args) ∈ ruleSetInf P e.1 ∧ ∀ a ∈ args, ∃ t, genW (ruleSetInf P) t (toNT a) = true) := by
  obtain ⟨tbl, _, hinv, hstart, hrm, hs⟩ := buildTableInf_some P fuel G h
  have hG : G = ⟨startNT P, G.rules⟩ := by cases G; simp only at hstart; rw [hstart]
  have hwf := cinvW_wf _ _ tbl [] hinv
  have hgen : ∀ nt, nt ∈ AList.keys tbl → ∀ t, gen (⟨startNT P, tbl⟩ : CFG) t nt = genW (ruleSetInf P) t nt :=
    fun nt hnt t => closureWith_gen _ (ruleSetInf_functional P) (startNT P) tbl hinv t.size t (Nat.le_refl _) nt
      (mem_keys_iff_contains.mp hnt)
  have hfirst : tbl.head?.map (·.1) = some (startNT P) := by
    rcases hinv.first with h1 | ⟨_, h1⟩
    · exact h1
    · cases h1
  refine ⟨hstart, by rw [hstart]; exact mem_keys_iff_contains.mp hs.start_key, hs.wf.keys,
    by rw [hstart]; exact clean_head (startNT P) tbl G.rules hwf hfirst hrm, ?_⟩
  intro e he
  have hk := mem_keys_of_mem he
  obtain ⟨e0, he0, h1, h2⟩ := hs.sub e he
  have hrow : e0.2 = rulesDict (ruleSetInf P e.1) := by rw [hinv.rows e0 he0, h1]
  have hcreated : ∀ r ∈ e.2, (r.1, r.2.1) ∈ ruleSetInf P e.1 := by
    intro r hr
    have hm0 := h2 _ hr
    rw [hrow] at hm0
    exact rulesDict_lookup_mem _ r.1 _ (lookup_row_of_mem (rulesDict_nodup _) hm0)
  refine ⟨hs.wf.rows e he, by rw [hG]; exact hs.reachable _ hk, by rw [hG]; exact hs.productive _ hk,
    fun r hr a ha => ⟨mem_keys_iff_contains.mp (hs.closed e he r hr a ha),
      ruleSetInf_depth P e.1 _ (hcreated r hr) a ha⟩, ?_⟩
  have hargs : ∀ r ∈ ruleSetInf P e.1, ∀ a ∈ r.2, toNT a ∈ AList.keys tbl := by
    intro r hr a ha
    rcases hinv.closed e0 he0 (toNT a) ((mem_kidsW _ e0.1 _).mpr ⟨r, h1 ▸ hr, a, ha, rfl⟩) with h3 | h3
    · exact h3
    · cases h3
  intro f args
  constructor
  · intro hm
    have hin := hcreated _ hm
    refine ⟨hin, ?_⟩
    intro a ha
    have hka := hs.closed e he _ hm a ha
    obtain ⟨t, ht⟩ := hs.productive _ hka
    refine ⟨t, ?_⟩
    rw [hs.lang_key _ hka t, hgen _ (hargs _ hin a ha) t] at ht
    exact ht
  · rintro ⟨hin, hp⟩
    apply hs.kept e he e0 he0 h1
    · rw [hrow]
      exact AList.lookup_some_mem (rulesDict_lookup_of_mem _ (ruleSetInf_functional P e.1) (f, args) hin)
    · intro a ha
      obtain ⟨t, ht⟩ := hp a ha
      exact ⟨t, by rw [hgen _ (hargs _ hin a ha) t]; exact ht⟩

open Example in
/-- non-vacuity: in the infinite grammar of `P3` the rule for `g` (argument `bool` unproductive) is
    created for the start symbol but not kept; the rule for `+` is kept -/
example : (ruleSetInf P3 (startNT P3)).any (fun r => r.1 == gS) = true ∧
    ((AList.lookup (startNT P3) GI3.rules).getD []).any (fun r => r.1 == gS) = false ∧
    ((AList.lookup (startNT P3) GI3.rules).getD []).any (fun r => r.1 == plus) = true := by decide

/-- **C01 for `CFG.infinite` — failure**: if the worklist loop has ended and the constructor fails
    (the KeyError of `clean` on the start symbol), there is no well-typed term of any depth. -/
theorem C01_infinite_empty (P : Params) (fuel : Nat)
    (hc : closureWith (ruleSetInf P) fuel [startNT P] [] ≠ none) (h : buildTableInf P fuel = none)
    (t : Prog) : wtI P (effParent P) t none P.request.returns = false := by
  rcases buildTableInf_none P fuel h with h1 | ⟨tbl, _, hinv, h2⟩
  · exact absurd h1 hc
  · have := clean_none (startNT P) tbl (cinvW_wf _ _ tbl [] hinv) h2 t
    rw [closureWith_gen _ (ruleSetInf_functional P) (startNT P) tbl hinv t.size t (Nat.le_refl _) _
      (cinvW_start_key _ _ tbl hinv), C01_infinite_rules_wt] at this
    exact this

open Example in
/-- non-vacuity: on `P4` (request `int -> bool`) the loop ends and the constructor fails -/
example : closureWith (ruleSetInf P4) 40 [startNT P4] [] ≠ none ∧ buildTableInf P4 40 = none := by decide

/-- **C01 for `CFG.infinite` — counting, sound direction**: if `programs()` (on such a table: the
    non-terminals in dict order, `programsInf`) returns a number, the language is finite and that
    number is its size. Hence on an infinite language `programs()` answers -1. -/
theorem C01_infinite_count (P : Params) (fuel : Nat) (G : CFG) (h : buildTableInf P fuel = some G)
    (n : Nat) (hp : programsInf G = some n) :
    ∃ L : List Prog, L.Nodup ∧ n = L.length ∧
      ∀ t, t ∈ L ↔ wtI P (effParent P) t none P.request.returns = true := by
  obtain ⟨_, _, hnd, _, hall⟩ := C01_infinite_clean P fuel G h
  have hrows : RowsNodup G := fun nt rs hl => (hall (nt, rs) (AList.lookup_some_mem hl)).1
  obtain ⟨k, hb, hnk⟩ := programsInf_count G hnd n hp
  refine ⟨lang G k G.start, lang_nodup G hrows k G.start, by rw [hnk, count_eq_length], ?_⟩
  intro t
  rw [mem_lang_of_bounded G hrows k t G.start hb, ← C01_infinite_lang P fuel G h t, C01_contains_gen]

open Example in
/-- non-vacuity: a DSL without function symbols at the requested type: `programs()` = 2 -/
example : ((buildTableInf { P5 with request := boolT, constTypes := [boolT] } 10).bind programsInf) = some 2 := by
  decide

/-- **What `programs()` really answers on a grammar of `CFG.infinite`**: -1 exactly when the
    language contains an application (the start symbol, first in dict order, has a rule with an
    argument whose count is not yet known) — NOT exactly when the language is infinite, see
    `finding_C01_infinite_programs`. -/
theorem C01_infinite_programs (P : Params) (fuel : Nat) (G : CFG) (h : buildTableInf P fuel = some G) :
    programsInf G = none ↔ ∃ f k ks, contains G (.node f (k :: ks)) = true := by
  obtain ⟨_, _, hnd, hfirst, hall⟩ := C01_infinite_clean P fuel G h
  have hiff := programsInf_none_iff G ⟨hnd, fun e he => (hall e he).1⟩ hfirst
    (fun nt hnt => by obtain ⟨e, he, rfl⟩ := List.mem_map.mp hnt; exact (hall e he).2.1)
    (fun nt hnt => by obtain ⟨e, he, rfl⟩ := List.mem_map.mp hnt; exact (hall e he).2.2.1)
    (fun e he r hr a ha => mem_keys_iff_contains.mpr ((hall e he).2.2.2.1 r hr a ha).1)
  rw [hiff]
  constructor
  · rintro ⟨f, k, ks, hg⟩; exact ⟨f, k, ks, by rw [C01_contains_gen]; exact hg⟩
  · rintro ⟨f, k, ks, hg⟩; exact ⟨f, k, ks, by rw [C01_contains_gen] at hg; exact hg⟩

open Example in
/-- non-vacuity: both sides hold on `P3` (infinite language) -/
example : programsInf GI3 = none ∧ contains GI3 good = true := by decide

open Example in
/-- **candidate finding (C01, `programs()` / `is_recursive()` of `CFG.infinite`)** on the model:
    for `f : bool -> int`, `true : bool`, request `int`, every derivation ends within 2 levels and
    the language is the single program `(f true)`, yet `programs()` answers -1 ("recursive
    grammar"); the depth-bounded grammar of the same DSL reports 1. -/
theorem finding_C01_infinite_programs :
    buildTableInf P5 10 = some GI5 ∧ programsInf GI5 = none ∧
    bounded GI5 2 GI5.start = true ∧ lang GI5 2 GI5.start = [fTrue] ∧
    ((buildTable { P5 with maxDepth := 5 } 10).bind programs) = some 1 :=
  ⟨eq_some_getD _ _ (by decide), by decide, by decide, by decide, by decide⟩

/-- **Termination of `CFG.infinite` for `n_gram ≥ 0`** (fuel adequacy): the non-terminals that can
    be pushed lie in a finite universe — a type among the argument types of the applicable symbols
    (or the requested return type), an n-gram of at most `n_gram` (symbol, argument index) pairs,
    depth 0 — and an iteration pushes at most `kidBound P` of them, so the worklist loop ends
    within `infFuel P = 1 + |universe| · (kidBound P + 1)` iterations; more fuel does not change
    the table. -/
theorem C01_infinite_terminates (P : Params) (hn : 0 ≤ P.nGram) (fuel : Nat) (hf : infFuel P ≤ fuel) :
    ∃ tbl, closureWith (ruleSetInf P) fuel [startNT P] [] = some tbl ∧
      ∀ fuel', fuel ≤ fuel' → closureWith (ruleSetInf P) fuel' [startNT P] [] = some tbl := by
  have h := infinite_terminates P hn fuel hf
  cases hc : closureWith (ruleSetInf P) fuel [startNT P] [] with
  | none => rw [hc] at h; cases h
  | some tbl =>
    refine ⟨tbl, rfl, ?_⟩
    intro fuel' hle
    obtain ⟨d, rfl⟩ := Nat.exists_eq_add_of_le hle
    induction d with
    | zero => exact hc
    | succ d ih => exact closureWith_mono _ _ _ _ _ (ih (Nat.le_add_right _ _))

open Example in
/-- non-vacuity: `infFuel P3 = 21974` is adequate (the loop of `P3` actually ends after 17
    iterations, not after 16) -/
example : 0 ≤ P3.nGram ∧ infFuel P3 = 21974 ∧
    (closureWith (ruleSetInf P3) 17 [startNT P3] []).isSome = true ∧
    closureWith (ruleSetInf P3) 16 [startNT P3] [] = none :=
  ⟨by decide, by decide +kernel, by decide, by decide⟩

/-- … hence the answer of the model of `CFG.infinite` does not depend on the fuel once adequate. -/
theorem C01_infinite_fuel_indep (P : Params) (hn : 0 ≤ P.nGram) (fuel : Nat) (hf : infFuel P ≤ fuel) :
    buildTableInf P fuel = buildTableInf P (infFuel P) := by
  obtain ⟨tbl, hc, hall⟩ := C01_infinite_terminates P hn (infFuel P) (Nat.le_refl _)
  have h := hall fuel hf
  unfold buildTableInf
  rw [h, hc]

open Example in
example : infFuel P3 ≤ 30000 ∧ buildTableInf P3 30000 = buildTableInf P3 (infFuel P3) :=
  ⟨by decide +kernel, C01_infinite_fuel_indep P3 (by decide) 30000 (by decide +kernel)⟩

/-- **C01 for `CFG.infinite` — total form** (`n_gram ≥ 0`, adequate fuel): either the constructor
    returns a grammar whose members are exactly the well-typed terms of every depth, or it fails
    and there is no well-typed term at all. -/
theorem C01_infinite (P : Params) (hn : 0 ≤ P.nGram) (fuel : Nat) (hf : infFuel P ≤ fuel) :
    (∃ G, buildTableInf P fuel = some G ∧
      ∀ t, contains G t = wtI P (effParent P) t none P.request.returns) ∨
    (buildTableInf P fuel = none ∧ ∀ t, wtI P (effParent P) t none P.request.returns = false) := by
  obtain ⟨tbl, hc, _⟩ := C01_infinite_terminates P hn fuel hf
  cases hb : buildTableInf P fuel with
  | some G => exact Or.inl ⟨G, rfl, C01_infinite_lang P fuel G hb⟩
  | none => exact Or.inr ⟨rfl, C01_infinite_empty P fuel (by rw [hc]; simp) hb⟩

open Example in
/-- non-vacuity: both branches occur -/
example : 0 ≤ P3.nGram ∧ (buildTableInf P3 (infFuel P3)).isSome = true ∧
    0 ≤ P4.nGram ∧ buildTableInf P4 (infFuel P4) = none :=
  ⟨by decide, by decide +kernel, by decide, by decide +kernel⟩

/-- **Documented exclusion `n_gram < 0`**: without a depth bound an unbounded n-gram keeps growing,
    so there are infinitely many non-terminals and the worklist loop of `CFG.infinite` does not
    end — on the DSL {neg : int -> int, 1 : int} with `n_gram = -1` the model returns no table
    whatever the fuel (the implementation loops forever; the generator of the harness never
    produces this combination). -/
theorem C01_infinite_loops_neg (fuel : Nat) :
    NegExample.Pneg.nGram < 0 ∧
    closureWith (ruleSetInf NegExample.Pneg) fuel [startNT NegExample.Pneg] [] = none ∧
    buildTableInf NegExample.Pneg fuel = none := by
  have h := neg_loops_aux fuel [] 0 [] (fun k hk => by cases hk)
  refine ⟨by decide, h, ?_⟩
  unfold buildTableInf
  change (match closureWith (ruleSetInf NegExample.Pneg) fuel [(NegExample.int, (([], 0), ()))] [] with
    | none => none
    | some tbl => _) = none
  rw [h]

/-- non-vacuity: with the same DSL and `n_gram = 2` the loop ends and the grammar contains
    `(neg (neg 1))` -/
example : ((buildTableInf { NegExample.Pneg with nGram := 2 } 10).map (fun G =>
    contains G (.node NegExample.negS [.node NegExample.negS [.node NegExample.oneS []]]))) = some true := by
  decide

/-! ### non-vacuity and the recorded finding -/
open Example in
/-- the statement's language is not trivial: it contains `good`, rejects `bad` -/
example : wtTop P2 good = true ∧ wtTop P2 bad = false := by decide
open Example in
/-- **finding C01-F2** on the model: with `n_gram = 1` the rules generate the term that the
    statement forbids. -/
theorem finding_C01_F2 :
    genR P1 bad (startNT P1) = true ∧ wtTop P1 bad = false := by decide

end PS.G
