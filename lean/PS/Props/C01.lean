/-
  C01 — A depth-bounded grammar denotes exactly the well-typed programs of its DSL.
  Property theorems (models: PS/Model/Grammar.lean, PS/Model/Cfg.lean; lemmas: PS/Proofs/*).

  How the pieces fit.  `wt P some` is the statement's set of terms.  `ruleSet` transcribes the
  rule-creation step of `CFG.depth_constraint`; `tableOK` is a *verified checker* that every
  check run evaluates on the rule table actually produced by the implementation.  Theorem
  `C01_certified` says: a table accepted by the checker has exactly the language `wt`
  (membership being the implementation's stack-based `__contains_rec__`, theorem
  `C01_contains_gen`), so for every generated input the property is *proved* for the real
  output, not sampled.
-/
import PS.Proofs.Cfg
import PS.Proofs.Lang
import PS.Proofs.Programs
import PS.Proofs.Mass
namespace PS.G
open PS

/-- **Membership** by the deterministic stack-based derivation (with the arity check) is
    exactly top-down matching of the rule table — for every grammar and every program. -/
theorem C01_contains_gen {S : Type} [DecidableEq S] (G : TT S Unit) (t : Prog) :
    contains G t = gen G t G.start :=
  contains_eq_gen G t

/-- **Rule creation = well-typed terms**: the terms derivable when every non-terminal
    `(type, n-gram, depth)` carries the rules created for it are exactly the well-typed terms
    (depth bound, minimum variable depth, constant types, forbidden patterns as far as the
    n-gram shows the parent). For all parameters. -/
theorem C01_rules_wt (P : Params) (t : Prog) :
    genR P t (startNT P) = wt P (effParent P) t 0 none P.request.returns := by
  have := genR_eq_wt P t.size t (Nat.le_refl _) P.request.returns [] 0 (fun _ => rfl)
  simpa [startNT] using this

/-- **Certified tables**: for every rule table `G` accepted by the checker (whatever produced
    it — here: the implementation), membership in `G` is exactly well-typedness. In
    particular the table contains no term outside `wt` and misses none. -/
theorem C01_certified (P : Params) (G : CFG) (dead : List CNT) (rankR rankP : AList CNT Nat)
    (h : tableOK P G dead rankR rankP = true) (t : Prog) :
    contains G t = wt P (effParent P) t 0 none P.request.returns := by
  unfold tableOK at h
  simp only [Bool.and_eq_true] at h
  obtain ⟨⟨⟨⟨hstart, hrules⟩, hdead⟩, _⟩, _⟩ := h
  unfold okStart at hstart
  simp only [Bool.and_eq_true, beq_iff_eq, decide_eq_true_eq] at hstart
  obtain ⟨⟨hs, hkey⟩, _⟩ := hstart
  rw [C01_contains_gen, table_gen_eq_genR P G dead hrules hdead t.size t (Nat.le_refl _) G.start hkey,
    hs, C01_rules_wt]

/-- **The statement's language** (every child sees its parent, so *no* forbidden
    (parent, index, child) pattern occurs, whatever the arity of the child) — under the
    hypothesis that the n-gram is wide enough to hold the parent.
    Full statement (false on the unchanged tree for `n_gram ∈ {0,1}`, finding C01-F2, see
    `finding_C01_F2`):  ∀ P, tableOK … → contains G t = wtTop P t. -/
theorem C01_statement_partial (P : Params) (G : CFG) (dead : List CNT) (rankR rankP : AList CNT Nat)
    (h : tableOK P G dead rankR rankP = true) (hn : P.nGram ≥ 2 ∨ P.nGram < 0) (t : Prog) :
    contains G t = wtTop P t := by
  rw [C01_certified P G dead rankR rankP h t]
  have : effParent P = some := by
    funext p; simp [effParent, hn]
  rw [this]; rfl

/-- **Clean**: in a table accepted by the checker every non-terminal is reachable from the
    start symbol and productive (derives at least one program), and every argument of every
    rule is again a non-terminal of the table — "every rule left in the grammar is reachable
    and productive". -/
theorem C01_clean (P : Params) (G : CFG) (dead : List CNT) (rankR rankP : AList CNT Nat)
    (h : tableOK P G dead rankR rankP = true) :
    ∀ e ∈ G.rules, Reach G e.1 ∧ (∃ t, gen G t e.1 = true) ∧
      ∀ r ∈ e.2, ∀ a ∈ r.2.1, AList.contains (toNT a) G.rules = true := by
  unfold tableOK at h
  simp only [Bool.and_eq_true] at h
  obtain ⟨⟨⟨⟨hstart, hrules⟩, _⟩, hreach⟩, hprod⟩ := h
  unfold okStart at hstart
  simp only [Bool.and_eq_true, beq_iff_eq, decide_eq_true_eq] at hstart
  obtain ⟨_, hnd⟩ := hstart
  intro e he
  refine ⟨reach_of_cert G rankR hnd hreach _ e he (Nat.le_refl _),
          prod_of_cert G rankP hnd hprod _ e he (Nat.le_refl _), ?_⟩
  intro r hr a ha
  unfold okRules at hrules
  rw [List.all_eq_true] at hrules
  have := hrules e he
  simp only [Bool.and_eq_true] at this
  obtain ⟨hsame, _⟩ := this
  unfold sameRules at hsame
  simp only [Bool.and_eq_true, decide_eq_true_eq] at hsame
  obtain ⟨⟨hsub, _⟩, _⟩ := hsame
  rw [List.all_eq_true] at hsub
  have h1 := hsub r hr
  have h1' : (r.1, r.2.1) ∈ (ruleSet P e.1).filter (fun r => r.2.all (isKey G)) := by simpa using h1
  have := (List.mem_filter.mp h1').2
  simp only [List.all_eq_true] at this
  exact this a ha

/-- **Counting**: for a table accepted by the checker, whenever `programs()` returns a number
    (not -1) that number is the number of well-typed terms: there is a duplicate-free list of
    exactly the terms of the language, of that length. (Uses the counting theorems of C04.) -/
theorem C01_count (P : Params) (G : CFG) (dead : List CNT) (rankR rankP : AList CNT Nat)
    (h : tableOK P G dead rankR rankP = true) (n : Nat) (hp : programs G = some n) :
    ∃ L : List Prog, L.Nodup ∧ n = L.length ∧
      ∀ t, t ∈ L ↔ wt P (effParent P) t 0 none P.request.returns = true := by
  have hcert := C01_certified P G dead rankR rankP h
  unfold tableOK at h
  simp only [Bool.and_eq_true] at h
  obtain ⟨⟨⟨⟨hstart, hrules⟩, _⟩, _⟩, _⟩ := h
  unfold okStart at hstart
  simp only [Bool.and_eq_true, beq_iff_eq, decide_eq_true_eq] at hstart
  obtain ⟨_, hnd⟩ := hstart
  -- every row of the table has distinct symbols
  have hrows : RowsNodup G := by
    intro nt rs hl
    have hmem := AList.lookup_some_mem hl
    unfold okRules at hrules
    rw [List.all_eq_true] at hrules
    have := hrules (nt, rs) hmem
    simp only [Bool.and_eq_true] at this
    obtain ⟨hsame, _⟩ := this
    unfold sameRules at hsame
    simp only [Bool.and_eq_true, decide_eq_true_eq] at hsame
    exact hsame.2
  obtain ⟨k, hb, hn⟩ := Programs.programs_eq_count G hnd n hp
  refine ⟨lang G k G.start, lang_nodup G hrows k G.start, by rw [hn, count_eq_length], ?_⟩
  intro t
  rw [mem_lang_of_bounded G hrows k t G.start hb, ← hcert t, C01_contains_gen]

/-! ### non-vacuity and the recorded finding -/
namespace Example
def int : Ty := .base "int"
def plus : Sym := Sym.prim "+" (.arrow int (.arrow int int))
def one : Sym := Sym.prim "1" int
/-- DSL {+, 1}, forbidden ("+", 0) ↦ {"+"}, request int -> int, depth 3 -/
def P2 : Params := { prims := [plus, one], forbidden := [(("+", 0), ["+"])], request := .arrow int int,
                     maxDepth := 3, minVarDepth := 1, nGram := 2, recursive := false, constTypes := [] }
def P1 : Params := { P2 with nGram := 1 }
def leaf (s : Sym) : Prog := .node s []
/-- `(+ (+ 1 1) 1)` : the forbidden pattern ("+", 0, "+") -/
def bad : Prog := .node plus [.node plus [leaf one, leaf one], leaf one]
def good : Prog := .node plus [leaf one, .node plus [leaf one, leaf (Sym.var 0 int)]]
end Example
open Example in
/-- the statement's language is not trivial: it contains `good`, rejects `bad` -/
example : wtTop P2 good = true ∧ wtTop P2 bad = false := by decide
open Example in
/-- **finding C01-F2** on the model: with `n_gram = 1` the rules generate the term that the
    statement forbids. -/
theorem finding_C01_F2 :
    genR P1 bad (startNT P1) = true ∧ wtTop P1 bad = false := by decide

end PS.G
