/- C01 — property theorems (under construction; see PS/Proofs/Grammar.lean). -/
import PS.Model.Cfg
namespace PS.G
theorem C01_placeholder_startNT (P : Params) : (startNT P).1 = P.request.returns := rfl
end PS.G
