/-
  C06 — Turning an automaton into a grammar preserves the language and is unambiguous.
  Property theorems only (model: PS/Model/UcfgFromDfta.lean, PS/Model/Ucfg.lean, PS/Model/Dfta.lean;
  lemmas: PS/Proofs/UcfgFromDfta*.lean, PS/Proofs/Ucfg.lean, PS/Proofs/FromCfg.lean).

  Every statement is for an arbitrary deterministic automaton (`Det`: no duplicate key in the rule
  table, which every Python dict satisfies) over the alphabet of derivable programs, any state
  type, every tree/program — no bound on sizes or depths.  The hypothesis about the state
  flattening `__d2state__` is that it does not merge two states the automaton mentions
  (`d2Injective`, decidable; evaluated by the driver on every case).  The code AS IT IS violates
  it on automata produced by the library's own sharpening pipeline: finding C06-F1 below.
-/
import PS.Proofs.UcfgFromDftaLang
import PS.Proofs.UcfgFromDftaCount
import PS.Proofs.UcfgFromDftaNodup
import PS.Proofs.UcfgFromDftaClean
import PS.Proofs.UcfgFromDftaTerm
import PS.Proofs.UcfgFromDftaCleanTerm
import PS.Proofs.FromCfg
import PS.Proofs.UcfgFromDftaCfg
import PS.Proofs.Mass
namespace PS.C06
open PS PS.G PS.U PS.U.FD DFTA

variable {Q U : Type} [DecidableEq Q] [DecidableEq U]

/-- the flattening does not merge two states mentioned by the automaton -/
def InjOn (d : Q → UNT U) (A : DFTA Sym Q) : Prop :=
  ∀ q ∈ A.allStates, ∀ q' ∈ A.allStates, d q = d q' → q = q'

/-! ## `UCFG.from_DFTA` -/

/-- **termination (total correctness of the `while stack` loop).** For every automaton with a
    final state and every flattening, `from_DFTA` returns a grammar within
    `|starts| + (number of argument positions of the rule table) + 1` iterations. -/
theorem C06_fromDFTA_terminates (d : Q → UNT U) (A : DFTA Sym Q) (hf : A.finals ≠ []) :
    ∃ G, fromDFTA d A = some G :=
  fromDFTA_terminates d A hf

/-- **language.** `program in UCFG.from_DFTA(A)` (the possibility-list algorithm
    `__contains_rec__`) is exactly acceptance by `A`.
    Full statement (no hypothesis on `d`): FALSE for the code as it is, see `finding_C06_F1`. -/
theorem C06_lang_partial (d : Q → UNT U) (A : DFTA Sym Q) (hd : A.Det) (hinj : InjOn d A)
    (G : UCFG U) (h : fromDFTA d A = some G) (t : Prog) :
    contains G t = A.accepts t :=
  contains_eq_accepts (built_of_build _ A _ G h) (plainFlat_ok d A hinj) hd t

/-- **unambiguity.** `reduce_derivations` finds exactly one derivation of every accepted
    program and none of any other program … -/
theorem C06_unambiguous_partial (d : Q → UNT U) (A : DFTA Sym Q) (hd : A.Det) (hinj : InjOn d A)
    (G : UCFG U) (h : fromDFTA d A = some G) (t : Prog) :
    (reduceAll G t).length = if A.accepts t = true then 1 else 0 :=
  reduceAll_length (built_of_build _ A _ G h) (plainFlat_ok d A hinj) hd t

/-- … in the specification's terms: at most one (start symbol, derivation) pair for every
    program whatsoever. -/
theorem C06_unambiguousOn_partial (d : Q → UNT U) (A : DFTA Sym Q) (hd : A.Det) (hinj : InjOn d A)
    (G : UCFG U) (h : fromDFTA d A = some G) (t : Prog) :
    unambiguousOn G t = true := by
  unfold unambiguousOn
  rw [allDerivs_length (built_of_build _ A _ G h) (plainFlat_ok d A hinj) hd t]
  split <;> simp

/-! ## `UCFG.from_DFTA_with_ngrams` (every width `n`, also 0, negative = unbounded, and widths
    beyond the depth of the automaton; every number of iterations after which it returns) -/

theorem C06_ngram_lang_partial (n : Int) (d : Q → UNT U) (A : DFTA Sym Q) (hd : A.Det)
    (hinj : InjOn d A) (fuel : Nat) (G : UCFG (List (Sym × Nat) × U))
    (h : fromDFTAWithNgrams n d A fuel = some G) (t : Prog) :
    contains G t = A.accepts t :=
  contains_eq_accepts (built_of_build _ A _ G h) (ngramFlat_ok n d A hinj) hd t

theorem C06_ngram_unambiguous_partial (n : Int) (d : Q → UNT U) (A : DFTA Sym Q) (hd : A.Det)
    (hinj : InjOn d A) (fuel : Nat) (G : UCFG (List (Sym × Nat) × U))
    (h : fromDFTAWithNgrams n d A fuel = some G) (t : Prog) :
    (reduceAll G t).length = if A.accepts t = true then 1 else 0 :=
  reduceAll_length (built_of_build _ A _ G h) (ngramFlat_ok n d A hinj) hd t

/-- **termination of `from_DFTA_with_ngrams`** (every width, also unbounded contexts): on an
    acyclic automaton whose states are not merged by the flattening, the `while stack` loop
    returns for every number of iterations beyond a bound (the size of the unfolding of the
    final states) — together with the three theorems above: total correctness. -/
theorem C06_ngram_terminates_partial (n : Int) (d : Q → UNT U) (A : DFTA Sym Q) (hinj : InjOn d A)
    (hac : Acyclic A) (hf : A.finals ≠ []) :
    ∃ fuel0, ∀ fuel, fuel0 ≤ fuel → ∃ G, fromDFTAWithNgrams n d A fuel = some G := by
  obtain ⟨rank, hrank⟩ := hac
  -- a ranking of the flattened states
  let rankU : UNT U → Nat := fun x =>
    match A.allStates.find? (fun q => decide (d q = x)) with
    | some q => rank q
    | none => 0
  have hru : ∀ q ∈ A.allStates, rankU (d q) = rank q := by
    intro q hq
    show (match A.allStates.find? (fun q' => decide (d q' = d q)) with
      | some q' => rank q' | none => 0) = rank q
    cases hfind : A.allStates.find? (fun q' => decide (d q' = d q)) with
    | none =>
      have := List.find?_eq_none.mp hfind q hq
      simp at this
    | some q' =>
      have h1 := List.find?_some hfind
      have h2 := List.mem_of_find?_eq_some hfind
      simp only [decide_eq_true_eq] at h1
      rw [hinj q' h2 q hq h1]
  have hrk : ∀ r ∈ A.rules, ∀ a ∈ r.1.2, rankU ((ngramFlat n d).d a) < rankU ((ngramFlat n d).d r.2) := by
    intro r hr a ha
    have hst := mem_allStates_of_rule A (l := r.1.1) (args := r.1.2) (d := r.2) hr
    show rankU (d a) < rankU (d r.2)
    rw [hru a (hst.2 a ha), hru r.2 hst.1]
    exact hrank r hr a ha
  refine ⟨potential (ngramFlat n d) A rankU (startsOf (ngramFlat n d) A) + 1, ?_⟩
  intro fuel hfuel
  exact build_terminates (ngramFlat n d) A rankU (fun _ _ _ _ => rfl) hrk hf fuel (by omega)

/-! ## `programs()` -/

/-- **count.** For an ACYCLIC automaton, whenever `programs()` of the grammar returns `n` (memo
    table, any recursion budget), `n` is the NUMBER of programs the automaton accepts: the length
    of a duplicate-free list that contains exactly the accepted programs. -/
theorem C06_count_partial (d : Q → UNT U) (A : DFTA Sym Q) (hd : A.Det) (hinj : InjOn d A)
    (hac : Acyclic A) (G : UCFG U) (h : fromDFTA d A = some G) (fuel n : Nat)
    (hp : programs G fuel = some n) :
    ∃ L : List Prog, L.Nodup ∧ (∀ t, t ∈ L ↔ A.accepts t = true) ∧ n = L.length := by
  obtain ⟨rank, hrank⟩ := hac
  have hb := built_of_build _ A _ G h
  have ok := plainFlat_ok d A hinj
  exact ⟨_, langU_starts_nodup hb ok hd _, mem_langU_starts hb ok hd rank hrank,
    programs_eq_enum hb ok rank hrank fuel n hp⟩

theorem C06_ngram_count_partial (w : Int) (d : Q → UNT U) (A : DFTA Sym Q) (hd : A.Det)
    (hinj : InjOn d A) (hac : Acyclic A) (bfuel : Nat) (G : UCFG (List (Sym × Nat) × U))
    (h : fromDFTAWithNgrams w d A bfuel = some G) (fuel n : Nat) (hp : programs G fuel = some n) :
    ∃ L : List Prog, L.Nodup ∧ (∀ t, t ∈ L ↔ A.accepts t = true) ∧ n = L.length := by
  obtain ⟨rank, hrank⟩ := hac
  have hb := built_of_build _ A _ G h
  have ok := ngramFlat_ok w d A hinj
  exact ⟨_, langU_starts_nodup hb ok hd _, mem_langU_starts hb ok hd rank hrank,
    programs_eq_enum hb ok rank hrank fuel n hp⟩

/-- every non-terminal of the grammar of an acyclic automaton completes all its derivations
    within (sum of the ranks) + 1 levels: the grammar is not recursive -/
theorem C06_bounded_partial (d : Q → UNT U) (A : DFTA Sym Q) (hinj : InjOn d A)
    (rank : Q → Nat) (hrank : ∀ r ∈ A.rules, ∀ a ∈ r.1.2, rank a < rank r.2)
    (G : UCFG U) (h : fromDFTA d A = some G) (s : UNT U) (hs : s ∈ G.starts) :
    boundedU G (levelOf A rank + 1) s = true := by
  have hb := built_of_build _ A _ G h
  have ok := plainFlat_ok d A hinj
  rw [hb.starts_eq] at hs
  obtain ⟨q, hqf, hqs⟩ := (mem_startsOf _ A s).mp hs
  have hqa := mem_finals_allStates A q hqf
  exact bounded_key hb ok rank hrank _ s q (rank_le_levelOf A rank q hqa)
    (hb.starts s (by rw [hb.starts_eq]; exact hs)) hqa (by rw [← hqs, ok.proj_root])

/-- **`programs()` returns** on the grammar of an acyclic automaton, for every recursion budget
    beyond a bound computed from the ranking (the Python recursion is unbounded) — together with
    `C06_count_partial`: total correctness of `programs()`. -/
theorem C06_programs_terminates_partial (d : Q → UNT U) (A : DFTA Sym Q) (hinj : InjOn d A)
    (rank : Q → Nat) (hrank : ∀ r ∈ A.rules, ∀ a ∈ r.1.2, rank a < rank r.2)
    (G : UCFG U) (h : fromDFTA d A = some G) (fuel : Nat) (hf : levelOf A rank + 1 ≤ fuel) :
    ∃ n, programs G fuel = some n := by
  have hb : ∀ s ∈ G.starts, boundedU G (levelOf A rank + 1) s = true :=
    fun s hs => C06_bounded_partial d A hinj rank hrank G h s hs
  have := programsFrom_isSome G _ fuel hf G.starts 0 [] hb
  exact Option.isSome_iff_exists.mp this

/-! ## `UCFG.clean()` (run by `from_DFTA` by default) -/

/-- **`clean()` keeps the language** — of EVERY unambiguous grammar none of whose non-terminals
    has the type `UnknownType` (the type of the end-of-derivation marker, which `clean()` does not
    expand), for every number of iterations after which it returns. -/
theorem C06_clean_lang (G : UCFG U) (hK : ∀ k ∈ AList.keys G.rules, k.1 ≠ Ty.unknown) (fuel : Nat)
    (Gc : UCFG U) (h : clean G fuel = some Gc) (t : Prog) : contains Gc t = contains G t :=
  CL.clean_contains G hK fuel Gc h t

/-- **start symbols.** `clean()` returns a subset of the start symbols and keeps every start
    symbol from which some program derives … -/
theorem C06_clean_starts (G : UCFG U) (hK : ∀ k ∈ AList.keys G.rules, k.1 ≠ Ty.unknown) (fuel : Nat)
    (Gc : UCFG U) (h : clean G fuel = some Gc) (s : UNT U) :
    (s ∈ Gc.starts → s ∈ G.starts) ∧
    (s ∈ G.starts → ∀ t, derivs G t s ≠ [] → s ∈ Gc.starts ∧ derivs Gc t s ≠ []) := by
  refine ⟨?_, fun hs t hne => CL.clean_keeps G hK fuel Gc h t s hs hne⟩
  obtain ⟨st, _, _, _, _, hstarts⟩ := CL.clean_eq G fuel Gc h
  intro hs
  rw [hstarts] at hs
  exact (List.mem_filter.mp hs).1

/-- … and never creates a derivation. -/
theorem C06_clean_sound (G : UCFG U) (fuel : Nat) (Gc : UCFG U) (h : clean G fuel = some Gc)
    (t : Prog) (s : UNT U) (hne : derivs Gc t s ≠ []) : derivs G t s ≠ [] :=
  CL.clean_derivs_sub G fuel Gc h t s hne

/-- **what `clean()` guarantees**: its set `done` of (pending stack, non-terminal) pairs contains
    `([], S)` for every start symbol and is closed under `derive` (each pair is an end marker or
    has a row, and all results of `derive` on that row are in `done`); the non-terminal of every
    pair is in `reached`, and the rows kept are exactly those of `reached` non-terminals. -/
theorem C06_clean_done_closed (G : UCFG U) (fuel : Nat) (st : CleanSt U)
    (h : cleanState G fuel = some st) :
    (∀ s ∈ G.starts, ([], s) ∈ st.done) ∧
    (∀ c ∈ st.done, c.2.1 = Ty.unknown ∨ CL.Expanded G st.done c) ∧
    (∀ c ∈ st.done, c.2 ∈ st.reached) :=
  CL.clean_done_closed G fuel st h

/-- `from_DFTA` with its default `clean=True`: the language is still the automaton's, and every
    accepted program still has exactly one derivation, the others none. -/
theorem C06_clean_fromDFTA_partial (d : Q → UNT U) (A : DFTA Sym Q) (hd : A.Det) (hinj : InjOn d A)
    (G : UCFG U) (h : fromDFTA d A = some G) (hK : ∀ k ∈ AList.keys G.rules, k.1 ≠ Ty.unknown)
    (fuel : Nat) (Gc : UCFG U) (hc : clean G fuel = some Gc) (t : Prog) :
    contains Gc t = A.accepts t ∧
    (reduceAll Gc t).length = (if A.accepts t = true then 1 else 0) := by
  have hl : contains Gc t = A.accepts t := by
    rw [C06_clean_lang G hK fuel Gc hc t, C06_lang_partial d A hd hinj G h t]
  refine ⟨hl, ?_⟩
  have hlen := congrArg List.length (reduceAll_derivs Gc t)
  simp only [List.length_map] at hlen
  rw [hlen]
  have hle := CL.clean_allDerivs_le G fuel Gc hc t
  rw [allDerivs_length (built_of_build _ A _ G h) (plainFlat_ok d A hinj) hd t] at hle
  have hg : genU Gc t = A.accepts t := by rw [← contains_eq_genU]; exact hl
  unfold genU at hg
  cases ha : A.accepts t with
  | false =>
    rw [ha] at hle
    simp only [Bool.false_eq_true, if_false] at hle ⊢
    omega
  | true =>
    rw [ha] at hg hle
    simp only [if_true] at hle ⊢
    have : (allDerivs Gc t) ≠ [] := by
      intro e; rw [e] at hg; simp at hg
    have := List.length_pos_iff.mpr this
    omega

/-- the arguments occurring in the row of a key of the built table come from rules of the
    automaton read at that key -/
theorem argsOf_built {V : Type} [DecidableEq V] {F : Flat Q U V} {A : DFTA Sym Q} {G : UCFG V}
    (hb : Built F A G) (S a : UNT V) (ha : a ∈ CL.argsOf G S) :
    S ∈ AList.keys G.rules ∧ ∃ r ∈ A.rules, matchesTgt F S r = true ∧ a ∈ newArgs F S r.1.1 r.1.2 := by
  unfold CL.argsOf at ha
  cases hl : AList.lookup S G.rules with
  | none => rw [hl] at ha; cases ha
  | some row =>
    rw [hl] at ha
    simp only at ha
    have hk : S ∈ AList.keys G.rules := AList.lookup_isSome_iff_mem_keys.mp (by rw [hl]; rfl)
    have hre := hb.rows _ (AList.lookup_some_mem hl)
    simp only at hre
    obtain ⟨e, he, hae⟩ := List.mem_flatMap.mp ha
    obtain ⟨args, hargs, haa⟩ := List.mem_flatMap.mp hae
    obtain ⟨r, hr, hi, e2⟩ := (mem_row_iff (F := F) (A := A) S e.1 args).mp ⟨e.2, by rw [← hre]; exact he, hargs⟩
    simp only [isAlt, Bool.and_eq_true, decide_eq_true_eq] at hi
    exact ⟨hk, r, hr, hi.1, by rw [hi.2, ← e2]; exact haa⟩

/-- `clean()` returns on the grammar built by the worklist construction (any flattening
    scheme) from an acyclic automaton -/
theorem clean_terminates_built {V : Type} [DecidableEq V] (F : Flat Q U V) (A : DFTA Sym Q)
    (hpc : ∀ tgt P i x, F.proj (F.child tgt P i x) = x) (hinj : InjOn F.d A) (hac : Acyclic A)
    (G : UCFG V) (hb : Built F A G) :
    ∃ fuel0, ∀ fuel, fuel0 ≤ fuel → ∃ Gc, clean G fuel = some Gc := by
  obtain ⟨rank, hrank⟩ := hac
  let rankU : UNT U → Nat := fun x =>
    match A.allStates.find? (fun q => decide (F.d q = x)) with
    | some q => rank q
    | none => 0
  have hru : ∀ q ∈ A.allStates, rankU (F.d q) = rank q := by
    intro q hq
    show (match A.allStates.find? (fun q' => decide (F.d q' = F.d q)) with
      | some q' => rank q' | none => 0) = rank q
    cases hfind : A.allStates.find? (fun q' => decide (F.d q' = F.d q)) with
    | none =>
      have := List.find?_eq_none.mp hfind q hq
      simp at this
    | some q' =>
      have h1 := List.find?_some hfind
      have h2 := List.mem_of_find?_eq_some hfind
      simp only [decide_eq_true_eq] at h1
      rw [hinj q' h2 q hq h1]
  have hrk : ∀ S, ∀ a ∈ CL.argsOf G S, rankU (F.proj a) < rankU (F.proj S) := by
    intro S a ha
    obtain ⟨_, r, hr, hm, hx⟩ := argsOf_built hb S a ha
    obtain ⟨a', ha', i, rfl⟩ := mem_newArgs S r.1.1 r.1.2 a hx
    have hst := mem_allStates_of_rule A (l := r.1.1) (args := r.1.2) (d := r.2) hr
    have hS : F.d r.2 = F.proj S := by
      have := hm
      simp only [matchesTgt] at this
      exact of_decide_eq_true this
    rw [hpc, ← hS, hru a' (hst.2 a' ha'), hru r.2 hst.1]
    exact hrank r hr a' ha'
  have hclosed : ∀ S ∈ AList.keys G.rules, ∀ a ∈ CL.argsOf G S, a ∈ AList.keys G.rules := by
    intro S hS a ha
    obtain ⟨_, r, hr, hm, hx⟩ := argsOf_built hb S a ha
    exact hb.closed S hS r hr hm a hx
  refine ⟨CL.pot G (fun k => rankU (F.proj k)) (cleanInit G).toTest + 1, fun fuel hfuel => ?_⟩
  exact CL.clean_terminates G (fun k => rankU (F.proj k)) hrk hclosed hb.starts fuel (by omega)

/-- **`clean()` returns** on the grammar that `from_DFTA` builds from an acyclic automaton, for
    every number of iterations beyond a bound (the size of the exploration from the start
    configurations) — with `C06_clean_fromDFTA_partial`: total correctness of
    `UCFG.from_DFTA(dfta)` with its default `clean=True`. -/
theorem C06_clean_terminates_partial (d : Q → UNT U) (A : DFTA Sym Q) (hinj : InjOn d A)
    (hac : Acyclic A) (G : UCFG U) (h : fromDFTA d A = some G) :
    ∃ fuel0, ∀ fuel, fuel0 ≤ fuel → ∃ Gc, clean G fuel = some Gc :=
  clean_terminates_built (plainFlat d) A (fun _ _ _ _ => rfl) hinj hac G (built_of_build _ A _ G h)

/-- the same for `from_DFTA_with_ngrams(dfta, n, clean=True)`, together with its language -/
theorem C06_ngram_clean_partial (n : Int) (d : Q → UNT U) (A : DFTA Sym Q) (hd : A.Det)
    (hinj : InjOn d A) (hac : Acyclic A) (bfuel : Nat) (G : UCFG (List (Sym × Nat) × U))
    (h : fromDFTAWithNgrams n d A bfuel = some G) :
    (∃ fuel0, ∀ fuel, fuel0 ≤ fuel → ∃ Gc, clean G fuel = some Gc) ∧
    ((∀ k ∈ AList.keys G.rules, k.1 ≠ Ty.unknown) → ∀ fuel Gc, clean G fuel = some Gc →
      ∀ t, contains Gc t = A.accepts t) := by
  refine ⟨clean_terminates_built (ngramFlat n d) A (fun _ _ _ _ => rfl) hinj hac G
    (built_of_build _ A _ G h), ?_⟩
  intro hK fuel Gc hc t
  rw [C06_clean_lang G hK fuel Gc hc t, C06_ngram_lang_partial n d A hd hinj bfuel G h t]

/-- the non-terminals of the grammar carry the types of the flattened states: none is the
    end-of-derivation marker's `UnknownType` as soon as no state has that type (the side
    condition of the `clean()` theorems) -/
theorem C06_keys_typed (d : Q → UNT U) (A : DFTA Sym Q) (htyped : ∀ q ∈ A.allStates, (d q).1 ≠ Ty.unknown)
    (G : UCFG U) (h : fromDFTA d A = some G) : ∀ k ∈ AList.keys G.rules, k.1 ≠ Ty.unknown := by
  intro k hk
  obtain ⟨q, hq, e⟩ := build_keys_image (plainFlat d) A (fun _ _ _ _ => rfl) (fun _ => rfl) _ G h k hk
  have : k = d q := e
  rw [this]
  exact htyped q hq

/-- **`UCFG.from_DFTA(dfta)` as the library calls it (clean=True), total correctness**: for a
    duplicate-free acyclic table with a final state whose states are typed and not merged by the
    flattening, the construction returns, `clean()` returns, and the cleaned grammar contains
    exactly the accepted programs, each with exactly one derivation. -/
theorem C06_fromDFTA_clean_total_partial (d : Q → UNT U) (A : DFTA Sym Q) (hd : A.Det)
    (hinj : InjOn d A) (hac : Acyclic A) (hf : A.finals ≠ [])
    (htyped : ∀ q ∈ A.allStates, (d q).1 ≠ Ty.unknown) :
    ∃ G, fromDFTA d A = some G ∧ ∃ fuel0, ∀ fuel, fuel0 ≤ fuel → ∃ Gc, clean G fuel = some Gc ∧
      ∀ t, contains Gc t = A.accepts t ∧
        (reduceAll Gc t).length = (if A.accepts t = true then 1 else 0) := by
  obtain ⟨G, hG⟩ := C06_fromDFTA_terminates d A hf
  obtain ⟨fuel0, h0⟩ := C06_clean_terminates_partial d A hinj hac G hG
  refine ⟨G, hG, fuel0, fun fuel hfuel => ?_⟩
  obtain ⟨Gc, hGc⟩ := h0 fuel hfuel
  exact ⟨Gc, hGc, fun t => C06_clean_fromDFTA_partial d A hd hinj G hG
    (C06_keys_typed d A htyped G hG) fuel Gc hGc t⟩

/-! ## with the Python state values and `__d2state__` -/

theorem injOn_of_d2Injective (fixed : Bool) (A : DFTA Sym PyVal) (h : d2Injective fixed A = true) :
    InjOn (d2 fixed) A := by
  intro q hq q' hq' e
  unfold d2Injective at h
  simp only [List.all_eq_true, decide_eq_true_eq] at h
  exact h q hq q' hq' e

/-- the three statements for `UCFG.from_DFTA(dfta, clean=False)` as the library calls it:
    whenever `__d2state__` (as it is, or repaired: `fixed`) merges no two states of `dfta` -/
theorem C06_py_partial (fixed : Bool) (A : DFTA Sym PyVal) (hd : A.Det)
    (hinj : d2Injective fixed A = true) (G : UCFG PyVal) (h : fromDFTAPy fixed A = some G) (t : Prog) :
    contains G t = A.accepts t ∧
    (reduceAll G t).length = (if A.accepts t = true then 1 else 0) ∧
    unambiguousOn G t = true := by
  unfold fromDFTAPy at h
  split at h
  · exact ⟨C06_lang_partial _ A hd (injOn_of_d2Injective fixed A hinj) G h t,
      C06_unambiguous_partial _ A hd (injOn_of_d2Injective fixed A hinj) G h t,
      C06_unambiguousOn_partial _ A hd (injOn_of_d2Injective fixed A hinj) G h t⟩
  · cases h

theorem C06_py_ngram_partial (fixed : Bool) (n : Int) (A : DFTA Sym PyVal) (hd : A.Det)
    (hinj : d2Injective fixed A = true) (fuel : Nat) (G : UCFG (List (Sym × Nat) × PyVal))
    (h : fromDFTAWithNgramsPy fixed n A fuel = some G) (t : Prog) :
    contains G t = A.accepts t ∧
    (reduceAll G t).length = (if A.accepts t = true then 1 else 0) := by
  unfold fromDFTAWithNgramsPy at h
  split at h
  · exact ⟨C06_ngram_lang_partial n _ A hd (injOn_of_d2Injective fixed A hinj) fuel G h t,
      C06_ngram_unambiguous_partial n _ A hd (injOn_of_d2Injective fixed A hinj) fuel G h t⟩
  · cases h

/-- on automata all of whose states are plain `(type, x)` pairs (the output of `__cfg2dfta__`,
    hand-written automata) `__d2state__` is the identity, hence merges nothing: the hypothesis of
    the theorems holds, for the code as it is and repaired -/
theorem C06_plain_states_injective (fixed : Bool) (A : DFTA Sym PyVal)
    (hp : ∀ q ∈ A.allStates, ∃ t x, q = PyVal.state t x) :
    d2Defined fixed A = true ∧ d2Injective fixed A = true := by
  have key : ∀ q ∈ A.allStates, ∃ t x, q = PyVal.state t x ∧ d2state fixed q = some (t, x) := by
    intro q hq
    obtain ⟨t, x, rfl⟩ := hp q hq
    refine ⟨t, x, rfl, ?_⟩
    unfold PyVal.state
    rw [d2state]
  constructor
  · unfold d2Defined
    simp only [List.all_eq_true]
    intro q hq
    obtain ⟨t, x, _, h⟩ := key q hq
    rw [h]; rfl
  · unfold d2Injective
    simp only [List.all_eq_true, decide_eq_true_eq]
    intro q hq q' hq' e
    obtain ⟨t, x, rfl, h⟩ := key q hq
    obtain ⟨t', x', rfl, h'⟩ := key q' hq'
    unfold d2 at e
    rw [h, h'] at e
    simp only [Option.getD_some, Prod.mk.injEq] at e
    rw [e.1, e.2]

/-- the executable acyclicity test of the driver is sound -/
theorem acyclic_of_acyclicB (A : DFTA Sym Q) (h : acyclicB A = true) : Acyclic A := by
  unfold acyclicB at h
  simp only [List.all_eq_true, decide_eq_true_eq] at h
  exact ⟨rankOf A (A.rules.length + 1), fun r hr a ha => h r hr a ha⟩

/-- **everything, with decidable hypotheses only** (all evaluated by the driver on every case):
    a duplicate-free table, an acyclic automaton with a final state, `__d2state__` defined and
    injective on its states.  Then `UCFG.from_DFTA(dfta, clean=False)` returns a grammar `G`;
    `program in G` is acceptance; every accepted program has exactly one derivation, the others
    none; `programs()` returns (large enough recursion budget) and returns the number of accepted
    programs. -/
theorem C06_py_total_partial (fixed : Bool) (A : DFTA Sym PyVal) (hd : A.Det)
    (hdef : d2Defined fixed A = true) (hinj : d2Injective fixed A = true) (hac : acyclicB A = true)
    (hf : A.finals ≠ []) :
    ∃ G, fromDFTAPy fixed A = some G ∧
      (∀ t, contains G t = A.accepts t) ∧
      (∀ t, (reduceAll G t).length = if A.accepts t = true then 1 else 0) ∧
      ∃ n fuel0, (∀ fuel, fuel0 ≤ fuel → programs G fuel = some n) ∧
        ∃ L : List Prog, L.Nodup ∧ (∀ t, t ∈ L ↔ A.accepts t = true) ∧ n = L.length := by
  have hi := injOn_of_d2Injective fixed A hinj
  obtain ⟨G, hG⟩ := C06_fromDFTA_terminates (d2 fixed) A hf
  have hpy : fromDFTAPy fixed A = some G := by unfold fromDFTAPy; rw [if_pos hdef]; exact hG
  obtain ⟨rank, hrank⟩ := acyclic_of_acyclicB A hac
  refine ⟨G, hpy, fun t => C06_lang_partial _ A hd hi G hG t,
    fun t => C06_unambiguous_partial _ A hd hi G hG t, ?_⟩
  obtain ⟨n, hn⟩ := C06_programs_terminates_partial _ A hi rank hrank G hG _ (Nat.le_refl _)
  refine ⟨n, levelOf A rank + 1, ?_, C06_count_partial _ A hd hi ⟨rank, hrank⟩ G hG _ n hn⟩
  intro fuel hfuel
  obtain ⟨n', hn'⟩ := C06_programs_terminates_partial _ A hi rank hrank G hG fuel hfuel
  -- both budgets return the number of derivations within the same number of levels
  have hb : ∀ s ∈ G.starts, boundedU G (levelOf A rank + 1) s = true :=
    fun s hs => C06_bounded_partial _ A hi rank hrank G hG s hs
  have e1 := Ops.programs_eq_countU G _ n _ hn hb
  have e2 := Ops.programs_eq_countU G _ n' _ hn' hb
  rw [hn', e2, ← e1]

/-! ## `UCFG.from_CFG` (a deterministic grammar) -/

/-- the grammar built from a CFG contains exactly the programs the CFG generates
    (`PS.G.gen`: plain top-down matching of the rule table) … -/
theorem C06_cfg_lang {S : Type} [DecidableEq S] (G : TT S Unit) (hk : (AList.keys G.rules).Nodup)
    (hr : ∀ e ∈ G.rules, (AList.keys e.2).Nodup) (t : Prog) :
    contains (fromCFG G) t = gen G t G.start := by
  rw [contains_eq_genU, FromCfg.genU_fromCFG G hk hr]

/-- … and gives each of them exactly one derivation, the others none -/
theorem C06_cfg_unambiguous {S : Type} [DecidableEq S] (G : TT S Unit) (hk : (AList.keys G.rules).Nodup)
    (hr : ∀ e ∈ G.rules, (AList.keys e.2).Nodup) (t : Prog) :
    (reduceAll (fromCFG G) t).length = if gen G t G.start = true then 1 else 0 := by
  have h := congrArg List.length (reduceAll_derivs (fromCFG G) t)
  simp only [List.length_map] at h
  rw [h, FromCfg.allDerivs_fromCFG_length G hk hr]

/-- … and `programs()` of it, when it returns `n` for a grammar all of whose derivations finish
    within `k` levels (`PS.G.bounded`, i.e. a non-recursive grammar), is the NUMBER of programs the
    CFG generates: the length of the duplicate-free list `PS.G.lang G k G.start`, which contains
    exactly the generated programs -/
theorem C06_cfg_count {S : Type} [DecidableEq S] (G : TT S Unit) (hk : (AList.keys G.rules).Nodup)
    (hr : ∀ e ∈ G.rules, (AList.keys e.2).Nodup) (k : Nat) (hb : bounded G k G.start = true)
    (fuel n : Nat) (hp : programs (fromCFG G) fuel = some n) :
    n = (lang G k G.start).length ∧ (lang G k G.start).Nodup ∧
    ∀ t, t ∈ lang G k G.start ↔ gen G t G.start = true := by
  have hrn : RowsNodup G := fun nt rs hl => hr (nt, rs) (AList.lookup_some_mem hl)
  have hst : (fromCFG G).starts = [FromCfg.toU G.start] := rfl
  have hbu : ∀ s ∈ (fromCFG G).starts, boundedU (fromCFG G) k s = true := by
    intro s hs
    rw [hst] at hs
    simp only [List.mem_singleton] at hs
    rw [hs, FromCfg.boundedU_fromCFG G hk hr]
    exact hb
  have := Ops.programs_eq_length (fromCFG G) fuel n k hp hbu
  rw [hst] at this
  simp only [List.map_cons, List.map_nil, List.sum_cons, List.sum_nil, Nat.add_zero] at this
  rw [FromCfg.langU_fromCFG G hk hr] at this
  exact ⟨this, lang_nodup G hrn k G.start, fun t => mem_lang_of_bounded G hrn k t G.start hb⟩

/-! ## non-vacuity, and finding C06-F1 -/
namespace Example
open PyVal

def tInt : Ty := .base "int"
def sa : Sym := Sym.prim "a" tInt
def sb : Sym := Sym.prim "b" tInt
def sf : Sym := Sym.prim "f" (.arrow tInt (.arrow tInt tInt))
def ta : Prog := .node sa []
def tb : Prog := .node sb []

/-- plain states `(int, i)`: `a → 0`, `b → 1`, `f(0,1) → 2`, `f(1,0) → 2`, `f(2, 0) → 3`; final 2, 3 -/
def st (i : Int) : PyVal := state tInt (.int i)
def plain : DFTA Sym PyVal :=
  { rules := [((sa, []), st 0), ((sb, []), st 1), ((sf, [st 0, st 1]), st 2), ((sf, [st 1, st 0]), st 2),
              ((sf, [st 2, st 0]), st 3)],
    finals := [st 2, st 3] }

example : plain.Det := by unfold DFTA.Det; decide
example : d2Injective false plain = true := by decide
example : ∃ G, fromDFTAPy false plain = some G ∧ G.starts.length = 2 ∧ G.rules.length = 4 ∧
    contains G (.node sf [ta, tb]) = true ∧ contains G (.node sf [ta, ta]) = false ∧
    (reduceAll G (.node sf [.node sf [tb, ta], ta])).length = 1 := ⟨_, rfl, by decide⟩
example : ∃ G, fromDFTAWithNgramsPy false 2 plain 100 = some G ∧ G.rules.length = 7 ∧
    contains G (.node sf [.node sf [tb, ta], ta]) = true := ⟨_, rfl, by decide⟩


/-- the ranking that shows `plain` acyclic -/
def rk : PyVal → Nat
  | .tup [_, .int n] => n.toNat
  | _ => 0
example : Acyclic plain := ⟨rk, by decide⟩
example : ∃ G, fromDFTAPy false plain = some G ∧ programs G 10 = some 4 := ⟨_, rfl, by decide⟩

example : ∀ q ∈ plain.allStates, ∃ t x, q = PyVal.state t x := by
  have h : plain.allStates.all (fun q => [st 0, st 1, st 2, st 3].contains q) = true := by decide
  intro q hq
  have := List.all_eq_true.mp h q hq
  simp only [List.contains_iff_mem, List.mem_cons, List.not_mem_nil, or_false] at this
  rcases this with e | e | e | e <;> exact ⟨tInt, _, by rw [e]; rfl⟩
example : ∃ G Gc, fromDFTAPy false plain = some G ∧ clean G 100 = some Gc ∧ Gc.rules.length = 4 ∧
    Gc.starts.length = 2 ∧ (∀ k ∈ AList.keys G.rules, k.1 ≠ Ty.unknown) :=
  ⟨_, _, rfl, rfl, by decide, by decide, by decide⟩

example : plain.Det ∧ d2Defined false plain = true ∧ d2Injective false plain = true ∧
    acyclicB plain = true ∧ plain.finals ≠ [] := by
  refine ⟨by unfold DFTA.Det; decide, by decide, by decide, by decide, by decide⟩

/-- states of the shape the sharpening pipeline produces after two constraints and a sketch:
    a product `(class, state)` whose first component is a one-element class of `minimise`
    holding a product pair `(x, y)`:  `q x = ((( (int,x), (int,0) ),), (int,0))` -/
def q (x : Int) : PyVal := pair (tup [pair (st x) (st 0)]) (st 0)
/-- `a → q 1`, `b → q 2`, only `q 1` is final: the language is `{a}` -/
def nested : DFTA Sym PyVal := { rules := [((sa, []), q 1), ((sb, []), q 2)], finals := [q 1] }

example : nested.Det := by unfold DFTA.Det; decide

/-- **finding C06-F1** (witness on the model of the code AS IT IS): `__d2state__` sends the two
    states `q 1`, `q 2` to the same non-terminal `(int, ((int,0), 0))` — the component `x` is
    dropped — so `from_DFTA` answers a grammar that contains `b`, which the automaton rejects,
    and reports 2 programs for a language of 1. -/
theorem finding_C06_F1 :
    d2 false (q 1) = d2 false (q 2) ∧ d2Injective false nested = false ∧
    (∃ G, fromDFTAPy false nested = some G ∧ contains G tb = true ∧ programs G 10 = some 2) ∧
    nested.accepts tb = false ∧ nested.accepts ta = true :=
  ⟨by decide, by decide, ⟨_, rfl, by decide, by decide⟩, by decide, by decide⟩

/-- with the proposed repair (`rest.append(__d2state__(tt)[1])`) the two states stay apart and
    the grammar is right on this automaton -/
theorem finding_C06_F1_repaired :
    d2 true (q 1) ≠ d2 true (q 2) ∧ d2Injective true nested = true ∧
    (∃ G, fromDFTAPy true nested = some G ∧ contains G tb = false ∧ contains G ta = true ∧
      programs G 10 = some 1) :=
  ⟨by decide, by decide, ⟨_, rfl, by decide, by decide, by decide⟩⟩

end Example
end PS.C06
