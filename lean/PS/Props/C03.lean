import PS.Props.C03_HS
