/-
  C12, part hs — filter and merges during heap search / bucket search.

  FULL STATEMENT: with a filter, the output is duplicate-free, contains no rejected program and
  contains every program all of whose sub-programs are accepted; after `merge_program(rep, other)`
  exactly the not-yet-yielded programs not containing `other` are yielded; termination.

  Proved here, for all inputs and fuels (safety at the yield site):
    * C12_HS_yield_accepted / C12_HS_U_yield_accepted — whatever `next` yields was accepted by the filter;
    * C12_HS_rejected_deleted — a program rejected at the yield site is in `deleted` afterwards,
      and `deleted` only grows there;
    * C12_HS_merge_deleted — after `merge_program(rep, other)`, `other ∈ deleted`.
  The merge half of the statement is FALSE on the code as it is:
    * finding_C12_F1 — after yielding `var0, 0, (+ var0 var0)` and merging `0`, heap search
      yields `(+ 0 var0)`, which contains the merged program.
  The liveness half with a filter is also false on the code as it is (finding C12-F4: a successor
  that is already in `deleted` is not pushed, `Env.dropDeleted = true`, which cuts the successor
  graph); the proposed one-line fix is modelled by `dropDeleted = false`.
  Absence of duplicates and the liveness half are not proved (checked by oracle and correspondence).
-/
import PS.Model.Enum.HeapSearch
import PS.Model.Enum.UHeapSearch
import PS.Proofs.Enum.HeapSearch
namespace PS.C12HS
open PS PS.G

section
variable {S T π : Type} [DecidableEq S] [DecidableEq T]
open PS.HS

/-- `next(generator)` only yields programs accepted by the filter; the yielded program becomes `current` -/
theorem C12_HS_yield_accepted (E : Env S T π) (fuel : Nat) (g g' : Gen S T π) (p : Prog)
    (h : next E fuel g = some (g', some p)) : E.filter p = true ∧ g'.current = some p := by
  unfold next at h
  split at h
  · exact ⟨(nextLoop_yield E fuel _ _ _ _ _ h).1, (nextLoop_yield E fuel _ _ _ _ _ h).2.1⟩
  · split at h
    · simp at h
    · exact ⟨(nextLoop_yield E fuel _ _ _ _ _ h).1, (nextLoop_yield E fuel _ _ _ _ _ h).2.1⟩

/-- `self.deleted.add(program)` at the yield site: the rejected program is in `deleted`, nothing leaves it -/
theorem C12_HS_rejected_deleted (s : St S T π) (p q : Prog) :
    p ∈ (s.addDeleted p).deleted ∧ (q ∈ s.deleted → q ∈ (s.addDeleted p).deleted) :=
  ⟨mem_addDeleted s p, addDeleted_mono s p q⟩

/-- `merge_program(representative, other)` puts `other` in `deleted` -/
theorem C12_HS_merge_deleted (E : Env S T π) (g : Gen S T π) (other : Prog) :
    other ∈ (merge E g other).st.deleted := by
  unfold merge
  simp only
  rw [foldl_mergeAt_deleted]
  exact mem_addDeleted _ _
end

section
variable {U π : Type} [DecidableEq U]
/-- the same for the unambiguous-grammar machine -/
theorem C12_HS_U_yield_accepted (E : UHS.Env U π) (fuel k : Nat) (s s' : UHS.St U π) (p : Prog)
    (h : UHS.next E fuel k s = some (s', some p)) : E.filter p = true := UHS.next_yield E fuel k s s' p h
end

/-! ### finding C12-F1 and non-vacuity -/
section F1
open PS.HS
def sy (k : Nat) : Sym := Sym.prim (toString k) Ty.unknown
/-- start: `var0` (0) | `0` (1) | `+` (2) over two leaf non-terminals -/
def wmG : TT Nat Nat :=
  { start := (Ty.base "int", (2, 2)),
    rules := [
    ((Ty.base "int", (2, 2)), [(sy 0, ([], 0)), (sy 1, ([], 0)), (sy 2, ([(Ty.base "int", 0), (Ty.base "int", 1)], 1))]),
    ((Ty.base "int", (0, 1)), [(sy 0, ([], 3)), (sy 1, ([], 3))]),
    ((Ty.base "int", (1, 3)), [(sy 0, ([], 4)), (sy 1, ([], 4))])] }
def wmW : AList (NT Nat Nat) (AList Sym Rat) := [
    ((Ty.base "int", (2, 2)), [(sy 0, (1 : Rat) / 4), (sy 1, (1 : Rat) / 4), (sy 2, (1 : Rat) / 4)]),
    ((Ty.base "int", (0, 1)), [(sy 0, (1 : Rat) / 2), (sy 1, (1 : Rat) / 2)]),
    ((Ty.base "int", (1, 3)), [(sy 0, (1 : Rat) / 2), (sy 1, (1 : Rat) / 2)])]
def Em (f : Prog → Bool) : Env Nat Nat Rat := { G := wmG, W := wmW, ops := probOps 0, filter := f }
def zero : Prog := .node (sy 1) []
def zeroPlusVar : Prog := .node (sy 2) [.node (sy 1) [], .node (sy 0) []]

/-- after three programs, `merge_program(_, 0)`; the next program yielded is `(+ 0 var0)` -/
theorem finding_C12_F1 :
    (match take (Em fun _ => true) 100 3 (Gen.new wmG) [] with
     | some (g, ys, _) => (take (Em fun _ => true) 100 1 (merge (Em fun _ => true) g zero) []).map (fun r => (ys.contains zero, r.2.1))
     | none => none) = some (true, [zeroPlusVar]) := by
  decide +kernel

/-- non-vacuity of C12_HS_yield_accepted: with the filter "is not the leaf `0`" the machine yields
    `var0` and `(+ var0 var0)` — the programs all of whose sub-programs are accepted — and stops
    (the rejected leaf enters `deleted` and is skipped in every heap) -/
example : (take (Em fun p => decide (p ≠ zero)) 100 10 (Gen.new wmG) []).map (fun r => (r.2.1.length, r.2.2, r.2.1.contains zero))
    = some (2, true, false) := by
  decide +kernel
end F1

end PS.C12HS
