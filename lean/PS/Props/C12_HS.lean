/-
  C12, part hs — filter and merges during heap search / bucket search.

  FULL STATEMENT: with a filter, the output is duplicate-free, contains no rejected program and
  contains every program all of whose sub-programs are accepted; after `merge_program(rep, other)`
  exactly the not-yet-yielded programs not containing `other` are yielded; termination.

  Proved here, for all inputs and fuels (safety at the yield site):
    * C12_HS_yield_accepted / C12_HS_U_yield_accepted — whatever `next` yields was accepted by the filter;
    * C12_HS_rejected_deleted — a program rejected at the yield site is in `deleted` afterwards,
      and `deleted` only grows there;
    * C12_HS_merge_deleted — after `merge_program(rep, other)`, `other ∈ deleted`.
  The merge half of the statement is FALSE on the code as it is:
    * finding_C12_F1 — after yielding `var0, 0, (+ var0 var0)` and merging `0`, heap search
      yields `(+ 0 var0)`, which contains the merged program.
  The liveness half with a filter is also false on the code as it is (finding C12-F4: a successor
  that is already in `deleted` is not pushed, `Env.dropDeleted = true`, which cuts the successor
  graph); the proposed one-line fix is modelled by `dropDeleted = false`.
  The filter half is PROVED for heap search (any threshold) and bucket search on acyclic
  context-free grammars, for the code after fix 53c3acb (`Env.dropDeleted = false`), for every fuel:
    * C12_HS_filter_safe / C12_HS_bucket_filter_safe — with a filter installed every yielded program
      is a member, is accepted, and the yielded programs are pairwise distinct (every prefix);
    * C12_HS_filter_complete / C12_HS_bucket_filter_complete — once the generator has stopped, every
      member all of whose sub-programs (itself included) the filter accepts — `HG.clean` — and whose
      probability is above the threshold was yielded;
    * C12_HS_filter_terminates / C12_HS_bucket_filter_terminates — with fuel at least
      `HG.enoughFuelF` the generator stops after finitely many `next`;
    * C12_HS_filter_full / C12_HS_bucket_filter_full — the three together.
  The hypotheses (`HG.ProbHyp`, `HG.BucketHyp`) are Boolean checks on a literal grammar
  (`HG.probHyp_of_checks`, `HG.bucketHyp_of_checks`); acyclicity is needed (findings C03-F3/C03-F4).
  UNAMBIGUOUS-GRAMMAR MACHINE (section "unambiguous machine"): safety C12_HS_U_filter_safe; on acyclic
  unambiguous grammars with several start symbols the filter half C12_HS_U_filter_complete,
  C12_HS_U_filter_sorted, C12_HS_U_filter_terminates, C12_HS_U_filter_full.
  Not proved: the merge half (false, C12-F1), recursive grammars, thresholds of the unambiguous machine.
-/
import PS.Model.Enum.HeapSearch
import PS.Model.Enum.UHeapSearch
import PS.Proofs.Enum.HeapSearch
import PS.Proofs.Enum.GInst
import PS.Proofs.Enum.UUnamb
import PS.Proofs.Enum.UFrame
import PS.Proofs.Enum.UCompleteRun
import PS.Proofs.Enum.UOrderCheck
import PS.Proofs.Enum.UTotalCheck
import PS.Proofs.Enum.UPrefix
namespace PS.C12HS
open PS PS.G

section
variable {S T π : Type} [DecidableEq S] [DecidableEq T]
open PS.HS

/-- `next(generator)` only yields programs accepted by the filter; the yielded program becomes `current` -/
theorem C12_HS_yield_accepted (E : Env S T π) (fuel : Nat) (g g' : Gen S T π) (p : Prog)
    (h : next E fuel g = some (g', some p)) : E.filter p = true ∧ g'.current = some p := by
  unfold next at h
  split at h
  · exact ⟨(nextLoop_yield E fuel _ _ _ _ _ h).1, (nextLoop_yield E fuel _ _ _ _ _ h).2.1⟩
  · split at h
    · simp at h
    · exact ⟨(nextLoop_yield E fuel _ _ _ _ _ h).1, (nextLoop_yield E fuel _ _ _ _ _ h).2.1⟩

/-- `self.deleted.add(program)` at the yield site: the rejected program is in `deleted`, nothing leaves it -/
theorem C12_HS_rejected_deleted (s : St S T π) (p q : Prog) :
    p ∈ (s.addDeleted p).deleted ∧ (q ∈ s.deleted → q ∈ (s.addDeleted p).deleted) :=
  ⟨mem_addDeleted s p, addDeleted_mono s p q⟩

/-- `merge_program(representative, other)` puts `other` in `deleted` -/
theorem C12_HS_merge_deleted (E : Env S T π) (g : Gen S T π) (other : Prog) :
    other ∈ (merge E g other).st.deleted := by
  unfold merge
  simp only
  rw [foldl_mergeAt_deleted]
  exact mem_addDeleted _ _
end

section
variable {U π : Type} [DecidableEq U]
/-- the same for the unambiguous-grammar machine -/
theorem C12_HS_U_yield_accepted (E : UHS.Env U π) (fuel k : Nat) (s s' : UHS.St U π) (p : Prog)
    (h : UHS.next E fuel k s = some (s', some p)) : E.filter p = true := UHS.next_yield E fuel k s s' p h
end

/-! ### finding C12-F1 and non-vacuity -/
section F1
open PS.HS
def sy (k : Nat) : Sym := Sym.prim (toString k) Ty.unknown
/-- start: `var0` (0) | `0` (1) | `+` (2) over two leaf non-terminals -/
def wmG : TT Nat Nat :=
  { start := (Ty.base "int", (2, 2)),
    rules := [
    ((Ty.base "int", (2, 2)), [(sy 0, ([], 0)), (sy 1, ([], 0)), (sy 2, ([(Ty.base "int", 0), (Ty.base "int", 1)], 1))]),
    ((Ty.base "int", (0, 1)), [(sy 0, ([], 3)), (sy 1, ([], 3))]),
    ((Ty.base "int", (1, 3)), [(sy 0, ([], 4)), (sy 1, ([], 4))])] }
def wmW : AList (NT Nat Nat) (AList Sym Rat) := [
    ((Ty.base "int", (2, 2)), [(sy 0, (1 : Rat) / 4), (sy 1, (1 : Rat) / 4), (sy 2, (1 : Rat) / 4)]),
    ((Ty.base "int", (0, 1)), [(sy 0, (1 : Rat) / 2), (sy 1, (1 : Rat) / 2)]),
    ((Ty.base "int", (1, 3)), [(sy 0, (1 : Rat) / 2), (sy 1, (1 : Rat) / 2)])]
def Em (f : Prog → Bool) : Env Nat Nat Rat := { G := wmG, W := wmW, ops := probOps 0, filter := f }
def zero : Prog := .node (sy 1) []
def zeroPlusVar : Prog := .node (sy 2) [.node (sy 1) [], .node (sy 0) []]

/-- after three programs, `merge_program(_, 0)`; the next program yielded is `(+ 0 var0)` -/
theorem finding_C12_F1 :
    (match take (Em fun _ => true) 100 3 (Gen.new wmG) [] with
     | some (g, ys, _) => (take (Em fun _ => true) 100 1 (merge (Em fun _ => true) g zero) []).map (fun r => (ys.contains zero, r.2.1))
     | none => none) = some (true, [zeroPlusVar]) := by
  decide +kernel

/-- non-vacuity of C12_HS_yield_accepted: with the filter "is not the leaf `0`" the machine yields
    `var0` and `(+ var0 var0)` — the programs all of whose sub-programs are accepted — and stops
    (the rejected leaf enters `deleted` and is skipped in every heap) -/
example : (take (Em fun p => decide (p ≠ zero)) 100 10 (Gen.new wmG) []).map (fun r => (r.2.1.length, r.2.2, r.2.1.contains zero))
    = some (2, true, false) := by
  decide +kernel
end F1

/-! ### the filter half on acyclic context-free grammars -/
section Filter
open PS.HS PS.HG
variable {S : Type} [DecidableEq S]

/-- **C12, safety with a filter (heap search, any threshold, every fuel, every prefix of the run)**:
    the yielded programs are members of the grammar, are accepted by the filter and are pairwise distinct -/
theorem C12_HS_filter_safe (E : Env S Unit Rat) (rank : NT S Unit → Nat) (t : Rat) (P : ProbHyp E rank t)
    (fuel k : Nat) (g' : Gen S Unit Rat) (out : List Prog) (b : Bool)
    (h : take E fuel k (Gen.new E.G) [] = some (g', out, b)) :
    (∀ p ∈ out, contains E.G p = true) ∧ (∀ p ∈ out, E.filter p = true) ∧ out.Nodup := by
  obtain ⟨a, b', c, _⟩ := prob_safe P fuel k g' out b h
  exact ⟨fun p hp => by rw [contains_eq_gen]; exact a p hp, c, b'⟩

/-- **C12, completeness relative to the filter (heap search)**: once the generator has stopped, every
    member all of whose sub-programs are accepted (`clean`) and whose probability is above the threshold
    (no condition when the threshold is 0) was yielded -/
theorem C12_HS_filter_complete (E : Env S Unit Rat) (rank : NT S Unit → Nat) (t : Rat) (P : ProbHyp E rank t)
    (fuel k : Nat) (g' : Gen S Unit Rat) (out : List Prog)
    (h : take E fuel k (Gen.new E.G) [] = some (g', out, true)) (p : Prog)
    (hp : contains E.G p = true) (hcl : clean E.filter p = true)
    (hthr : t < G.prob E.G E.W p E.G.start ∨ t = 0) : p ∈ out :=
  prob_stop_complete P fuel k g' out h p (by rw [← contains_eq_gen]; exact hp) hcl hthr

/-- **C12, termination with a filter (heap search)** -/
theorem C12_HS_filter_terminates (E : Env S Unit Rat) (rank : NT S Unit → Nat) (t : Rat) (P : ProbHyp E rank t)
    (hclosed : HG.Closed E.G) (hstart : E.G.start ∈ AList.keys E.G.rules) (fuel : Nat)
    (hfuel : enoughFuelF E.G rank ≤ fuel) :
    ∃ k g' out, take E fuel k (Gen.new E.G) [] = some (g', out, true) := prob_total P hclosed hstart fuel hfuel

/-- **C12, THE FILTER HALF FOR HEAP SEARCH ON ACYCLIC CONTEXT-FREE GRAMMARS**: with enough fuel the
    generator stops; its output is duplicate-free, contains only accepted members, and contains every
    member above the threshold all of whose sub-programs are accepted -/
theorem C12_HS_filter_full (E : Env S Unit Rat) (rank : NT S Unit → Nat) (t : Rat) (P : ProbHyp E rank t)
    (hclosed : HG.Closed E.G) (hstart : E.G.start ∈ AList.keys E.G.rules) (fuel : Nat)
    (hfuel : enoughFuelF E.G rank ≤ fuel) :
    ∃ k g' out, take E fuel k (Gen.new E.G) [] = some (g', out, true) ∧ out.Nodup ∧
      (∀ p ∈ out, contains E.G p = true ∧ E.filter p = true) ∧
      (∀ p, contains E.G p = true → clean E.filter p = true → (t < G.prob E.G E.W p E.G.start ∨ t = 0) → p ∈ out) := by
  obtain ⟨k, g', out, h⟩ := C12_HS_filter_terminates E rank t P hclosed hstart fuel hfuel
  obtain ⟨a, b, c⟩ := C12_HS_filter_safe E rank t P fuel k g' out true h
  exact ⟨k, g', out, h, c, fun p hp => ⟨a p hp, b p hp⟩,
    fun p hp hcl hthr => C12_HS_filter_complete E rank t P fuel k g' out h p hp hcl hthr⟩

/-- the same for bucket search: safety -/
theorem C12_HS_bucket_filter_safe (E : Env S Unit Bucket) (rank : NT S Unit → Nat) (size : Nat)
    (B : BucketHyp E rank size) (fuel k : Nat) (g' : Gen S Unit Bucket) (out : List Prog) (b : Bool)
    (h : take E fuel k (Gen.new E.G) [] = some (g', out, b)) :
    (∀ p ∈ out, contains E.G p = true) ∧ (∀ p ∈ out, E.filter p = true) ∧ out.Nodup := by
  obtain ⟨a, b', c, _⟩ := bucket_safe B fuel k g' out b h
  exact ⟨fun p hp => by rw [contains_eq_gen]; exact a p hp, c, b'⟩

/-- bucket search: completeness relative to the filter -/
theorem C12_HS_bucket_filter_complete (E : Env S Unit Bucket) (rank : NT S Unit → Nat) (size : Nat)
    (B : BucketHyp E rank size) (fuel k : Nat) (g' : Gen S Unit Bucket) (out : List Prog)
    (h : take E fuel k (Gen.new E.G) [] = some (g', out, true)) (p : Prog)
    (hp : contains E.G p = true) (hcl : clean E.filter p = true) : p ∈ out :=
  bucket_stop_complete B fuel k g' out h p (by rw [← contains_eq_gen]; exact hp) hcl

/-- bucket search: termination with a filter -/
theorem C12_HS_bucket_filter_terminates (E : Env S Unit Bucket) (rank : NT S Unit → Nat) (size : Nat)
    (B : BucketHyp E rank size) (hclosed : HG.Closed E.G) (hstart : E.G.start ∈ AList.keys E.G.rules) (fuel : Nat)
    (hfuel : enoughFuelF E.G rank ≤ fuel) :
    ∃ k g' out, take E fuel k (Gen.new E.G) [] = some (g', out, true) := bucket_total B hclosed hstart fuel hfuel

/-- **C12, the filter half for bucket search on acyclic context-free grammars** -/
theorem C12_HS_bucket_filter_full (E : Env S Unit Bucket) (rank : NT S Unit → Nat) (size : Nat)
    (B : BucketHyp E rank size) (hclosed : HG.Closed E.G) (hstart : E.G.start ∈ AList.keys E.G.rules) (fuel : Nat)
    (hfuel : enoughFuelF E.G rank ≤ fuel) :
    ∃ k g' out, take E fuel k (Gen.new E.G) [] = some (g', out, true) ∧ out.Nodup ∧
      (∀ p ∈ out, contains E.G p = true ∧ E.filter p = true) ∧
      (∀ p, contains E.G p = true → clean E.filter p = true → p ∈ out) := by
  obtain ⟨k, g', out, h⟩ := C12_HS_bucket_filter_terminates E rank size B hclosed hstart fuel hfuel
  obtain ⟨a, b, c⟩ := C12_HS_bucket_filter_safe E rank size B fuel k g' out true h
  exact ⟨k, g', out, h, c, fun p hp => ⟨a p hp, b p hp⟩,
    fun p hp hcl => C12_HS_bucket_filter_complete E rank size B fuel k g' out h p hp hcl⟩

/-! non-vacuity: `S0 → 1 | + S1 S1`, `S1 → 1 | x`, the filter rejects the leaf `1` -/
def fInt : Ty := .base "int"
def fOne : Sym := Sym.prim "1" fInt
def fX : Sym := Sym.var 0 fInt
def fPlus : Sym := Sym.prim "+" (.arrow fInt (.arrow fInt fInt))
def fG : TT Nat Unit := ⟨(fInt, (0, ())), [((fInt, (0, ())), [(fOne, ([], ())), (fPlus, ([(fInt, 1), (fInt, 1)], ()))]),
                                          ((fInt, (1, ())), [(fOne, ([], ())), (fX, ([], ()))])]⟩
def fW : AList (NT Nat Unit) (AList Sym Rat) :=
  [((fInt, (0, ())), [(fOne, 1/2), (fPlus, 1/2)]), ((fInt, (1, ())), [(fOne, 1/4), (fX, 3/4)])]
def fRank (nt : NT Nat Unit) : Nat := 1 - nt.2.1
def fFilter (p : Prog) : Bool := decide (p ≠ .node fOne [])
/-- heap search, threshold 0, filter "is not the leaf `1`", the code after fix 53c3acb -/
def fE : Env Nat Unit Rat := { G := fG, W := fW, ops := probOps 0, filter := fFilter, dropDeleted := false }
/-- bucket search (size 3) with the same filter -/
def fB : Env Nat Unit Bucket := { G := fG, W := fW, ops := bucketOps 3, filter := fFilter, dropDeleted := false }

theorem fE_hyp : ProbHyp fE fRank 0 :=
  probHyp_of_checks fE fRank 0 rfl (by decide) (by decide +kernel) (by decide) (by decide) (by decide) (by decide)
    (by decide +kernel) rfl

theorem fB_hyp : BucketHyp fB fRank 3 :=
  bucketHyp_of_checks fB fRank 3 rfl (by decide) (by decide) (by decide) (by decide) (by decide +kernel) rfl

theorem fG_closed : HG.Closed fG := closed_of_allG fG (by decide)

/-- enough fuel is 2 * (2 + 2 + 5 + 5) = 28 -/
example : ∃ k g' out, take fE 28 k (Gen.new fG) [] = some (g', out, true) ∧ out.Nodup ∧
    (∀ p ∈ out, contains fG p = true ∧ fFilter p = true) ∧
    (∀ p, contains fG p = true → clean fFilter p = true → ((0 : Rat) < G.prob fG fW p fG.start ∨ (0 : Rat) = 0) → p ∈ out) :=
  C12_HS_filter_full fE fRank 0 fE_hyp fG_closed (by decide) 28 (by decide +kernel)

example : ∃ k g' out, take fB 28 k (Gen.new fG) [] = some (g', out, true) ∧ out.Nodup ∧
    (∀ p ∈ out, contains fG p = true ∧ fFilter p = true) ∧
    (∀ p, contains fG p = true → clean fFilter p = true → p ∈ out) :=
  C12_HS_bucket_filter_full fB fRank 3 fB_hyp fG_closed (by decide) 28 (by decide +kernel)

/-- what the machines do on the example: only `(+ x x)`, the one member all of whose sub-programs
    are accepted, is yielded (the rejected leaf enters `deleted` and is skipped in the heap of the
    argument non-terminal as well), then the generator stops -/
example : (take fE 28 10 (Gen.new fG) []).map (fun r => (r.2.1, r.2.2)) =
    some ([.node fPlus [.node fX [], .node fX []]], true) := by
  decide +kernel
/-- bucket search on the same input yields the 4 accepted members: the argument non-terminal had
    popped the leaf `1` (bucket `[0,0,1]`, before `x`, bucket `[1,0,0]`) before it was rejected, so the
    programs that contain it are still built — the statement is an inclusion, not an equality -/
example : (take fB 28 10 (Gen.new fG) []).map (fun r => (r.2.1.length, r.2.2, r.2.1.all fFilter)) =
    some (4, true, true) := by
  decide +kernel
/-- a clean member: `(+ x x)` -/
example : clean fFilter (.node fPlus [.node fX [], .node fX []]) = true := by decide +kernel
end Filter

/-! ## unambiguous machine -/
section UMachine
open PS.UHS
variable {U π : Type} [DecidableEq U]

/-- **C12, safety with a filter, unambiguous-grammar machine** (heap search and bucket search of
    u_heap_search.py, any threshold, every fuel, every prefix of the run) on ACYCLIC grammars whose start
    languages are disjoint: the yielded programs are members of the grammar (`U.genU`), are accepted by
    the filter and are pairwise distinct.  Acyclicity gives `UHS.NoReent` (`__add_successors__(p, S)` does
    not re-enter `query(S, ·)`, `UHS.noReent_of_acyclic`), which the skip loop
    `while succ in self.deleted` of `query` needs to keep `succ[S]` a function. -/
theorem C12_HS_U_filter_safe (E : UHS.Env U π) (H : GHyp E) (rank : UHS.UNT U → Nat) (hac : Acyclic E rank)
    (hdisj : SDisj E) (hstarts : (E.G.starts.map (·.1)).Nodup) (d : UHS.UNT U) (fuel k : Nat) (s' : UHS.St U π)
    (out : List Prog) (b : Bool) (h : UHS.take E fuel k (UHS.St.empty E.G) [] = some (s', out, b)) :
    (∀ p ∈ out, PS.U.genU (E.G.toUCFG d) p = true) ∧ (∀ p ∈ out, E.filter p = true) ∧ out.Nodup := by
  obtain ⟨a, b'⟩ := take_nodup E ⟨H, hdisj, hstarts, Or.inr (noReent_of_acyclic E H rank hac)⟩ fuel k s' out b h
  refine ⟨?_, b', a⟩
  intro p hp
  rw [← derStart_iff_genU]
  exact ((sinv_empty E).take H k (by intro q hq; cases hq) h).2 p hp

omit [DecidableEq U] in
/-- a program rejected at the yield site is in `deleted` afterwards, and `deleted` only grows there -/
theorem C12_HS_U_rejected_deleted (s : UHS.St U π) (p q : Prog) :
    p ∈ (s.addDeleted p).deleted ∧ (q ∈ s.deleted → q ∈ (s.addDeleted p).deleted) := by
  unfold UHS.St.addDeleted
  split
  · rename_i h; exact ⟨by simpa using h, fun hq => hq⟩
  · exact ⟨by simp, fun hq => List.mem_append_left _ hq⟩

/-- **C12, COMPLETENESS RELATIVE TO THE FILTER, unambiguous-grammar machine** (acyclic unambiguous grammars,
    several start symbols, no threshold; any priority type with a monotone `combine`): once the generator
    has stopped, every member all of whose sub-programs (itself included) the filter accepts — `HG.clean` —
    was yielded.  The rejected programs enter `deleted` at the yield site and are skipped by the pop loop of
    every non-terminal (`while succ in self.deleted`), their successors still being pushed: the order and
    completeness invariants (`UHS.NTInv`, `UHS.CInv`: what was ever pushed is in the heap, was popped, or was
    skipped as a rejected program) are kept by the skip branch too (`UHS.big_order`, case `pop_deleted`),
    and an exhausted non-terminal has popped every clean derivable program (`UHS.exhausted_complete`). -/
theorem C12_HS_U_filter_complete (E : UHS.Env U π) (rank : UHS.UNT U → Nat) (Good : π → Prop) (R : RHyp E rank Good)
    (d : UHS.UNT U) (fuel k : Nat) (s' : UHS.St U π) (out : List Prog)
    (h : UHS.take E fuel k (UHS.St.empty E.G) [] = some (s', out, true)) (p : Prog)
    (hp : PS.U.genU (E.G.toUCFG d) p = true) (hcl : PS.HG.clean E.filter p = true) : p ∈ out := by
  obtain ⟨nt, w, hw, hd⟩ := (derStart_iff_genU E d p).mpr hp
  exact take_complete R fuel k s' out h p nt w hw hd hcl

/-- with a filter installed the yielded keys are still in best-first order (every fuel, every prefix) -/
theorem C12_HS_U_filter_sorted (E : UHS.Env U π) (rank : UHS.UNT U → Nat) (Good : π → Prop) (R : RHyp E rank Good)
    (fuel k : Nat) (s' : UHS.St U π) (out : List Prog) (b : Bool)
    (h : UHS.take E fuel k (UHS.St.empty E.G) [] = some (s', out, b)) :
    out.Pairwise (fun p q => ∀ kp kq, StartKey E p kp → StartKey E q kq → E.ops.lt kq kp = false) :=
  take_sorted R fuel k s' out b h

/-- **prefix completeness with a filter** (every fuel, every prefix of the run): once a program `q` has been
    yielded, every member all of whose sub-programs are accepted and whose key is strictly better than the
    key of `q` has been yielded -/
theorem C12_HS_U_filter_prefix_complete (E : UHS.Env U π) (rank : UHS.UNT U → Nat) (Good : π → Prop) (R : RHyp E rank Good)
    (fuel k : Nat) (s' : UHS.St U π) (out : List Prog) (b : Bool)
    (h : UHS.take E fuel k (UHS.St.empty E.G) [] = some (s', out, b)) (p q : Prog) (hq : q ∈ out) (kp kq : π)
    (hkp : StartKey E p kp) (hkq : StartKey E q kq) (hlt : E.ops.lt kp kq = true)
    (hcl : PS.HG.clean E.filter p = true) : p ∈ out :=
  take_prefix_complete R fuel k s' out b h p q hq kp kq hkp hkq hlt hcl

/-- **C12, termination with a filter, unambiguous-grammar machine**: with enough fuel the generator stops;
    the pop loop skips every rejected program at most once per non-terminal (a program taken out of a heap
    never comes back: `UHS.addSucc_proc`), and `next` loops at most once per rejected program -/
theorem C12_HS_U_filter_terminates (E : UHS.Env U π) (rank : UHS.UNT U → Nat) (Good : π → Prop) (R : RHyp E rank Good)
    (L Al A : Nat) (T : THyp E L Al A) (fuel : Nat)
    (hf : FuelOK E rank (L + Al + A + 6 + (langList E rank).length) fuel) (hN : (langList E rank).length + 1 ≤ fuel) :
    ∃ k s' out, UHS.take E fuel k (UHS.St.empty E.G) [] = some (s', out, true) :=
  take_stops R T hf hN

/-- **C12, THE FILTER HALF FOR THE UNAMBIGUOUS-GRAMMAR MACHINE** (acyclic unambiguous grammars, several start
    symbols): with enough fuel the generator stops; its output is duplicate-free, contains only accepted
    members, and contains every member all of whose sub-programs are accepted -/
theorem C12_HS_U_filter_full (E : UHS.Env U π) (rank : UHS.UNT U → Nat) (Good : π → Prop) (R : RHyp E rank Good)
    (L Al A : Nat) (T : THyp E L Al A) (d : UHS.UNT U) (fuel : Nat)
    (hf : FuelOK E rank (L + Al + A + 6 + (langList E rank).length) fuel) (hN : (langList E rank).length + 1 ≤ fuel) :
    ∃ k s' out, UHS.take E fuel k (UHS.St.empty E.G) [] = some (s', out, true) ∧ out.Nodup ∧
      (∀ p ∈ out, PS.U.genU (E.G.toUCFG d) p = true ∧ E.filter p = true) ∧
      (∀ p, PS.U.genU (E.G.toUCFG d) p = true → PS.HG.clean E.filter p = true → p ∈ out) := by
  obtain ⟨k, s', out, h⟩ := take_stops R T hf hN
  obtain ⟨a, b, c⟩ := C12_HS_U_filter_safe E R.ohyp.ghyp rank R.ohyp.acyclic R.disj R.starts_nodup d fuel k s' out true h
  exact ⟨k, s', out, h, c, fun p hp => ⟨a p hp, b p hp⟩,
    fun p hp hcl => C12_HS_U_filter_complete E rank Good R d fuel k s' out h p hp hcl⟩

/-! non-vacuity: three start symbols, two alternatives for `+` at `S2`; the filter rejects the leaf `1` -/
def mT : Ty := .base "int"
def m0 : UHS.UNT Nat := (mT, 0)
def m1 : UHS.UNT Nat := (mT, 1)
def m2 : UHS.UNT Nat := (mT, 2)
def mPlus : Sym := Sym.prim "+" (.arrow mT (.arrow mT mT))
def mOne : Sym := Sym.prim "1" mT
def mV0 : Sym := Sym.var 0 mT
def mG : UG Nat :=
  { starts := [(m2, 1/2), (m0, 1/4), (m1, 1/4)],
    rules := [(m1, [(mPlus, [([m0, m0], 1)])]), (m0, [(mOne, [([], 1/4)]), (mV0, [([], 3/4)])]),
              (m2, [(mPlus, [([m0, m1], 3/5), ([m1, m0], 2/5)])])] }
def mFilter (p : Prog) : Bool := decide (p ≠ .node mOne [])
def mE : UHS.Env Nat Rat := { G := mG, ops := UHS.probOps 0, filter := mFilter, kway := true }
def mRank (nt : UHS.UNT Nat) : Nat := nt.2

example : ∀ k s' out b, UHS.take mE 60 k (UHS.St.empty mG) [] = some (s', out, b) →
    (∀ p ∈ out, PS.U.genU (mG.toUCFG m0) p = true) ∧ (∀ p ∈ out, mFilter p = true) ∧ out.Nodup :=
  fun k s' out b h => C12_HS_U_filter_safe mE (GHyp.of_checks mE (by decide) (by decide) rfl) mRank
    (acyclic_of_check mE mRank (by decide)) (sdisj_of_budet mE (budet_of_check mE (by decide))) (by decide) m0 60 k s' out b h

theorem mE_rhyp : RHyp mE mRank (fun v : Rat => 0 ≤ v) :=
  rhyp_prob mE mRank rfl rfl (by decide) (by decide) (by decide) (by decide) (by decide) (by decide) (by decide)
    (by decide +kernel) (by decide)

example : ∀ s' out, UHS.take mE 60 30 (UHS.St.empty mG) [] = some (s', out, true) → ∀ p,
    PS.U.genU (mG.toUCFG m0) p = true → PS.HG.clean mFilter p = true → p ∈ out :=
  fun s' out h p hp hcl => C12_HS_U_filter_complete mE mRank _ mE_rhyp m0 60 30 s' out h p hp hcl

theorem mE_langList : (langList mE mRank).length = 22 := by decide +kernel

example : ∃ k s' out, UHS.take mE 102 k (UHS.St.empty mG) [] = some (s', out, true) ∧ out.Nodup ∧
    (∀ p ∈ out, PS.U.genU (mG.toUCFG m0) p = true ∧ mFilter p = true) ∧
    (∀ p, PS.U.genU (mG.toUCFG m0) p = true → PS.HG.clean mFilter p = true → p ∈ out) :=
  C12_HS_U_filter_full mE mRank _ mE_rhyp 2 2 2 (thyp_of_check mE 2 2 2 (by decide)) m0 102
    (by rw [mE_langList]; exact fuelOK_of_check mE mRank 34 102 (by decide)) (by rw [mE_langList]; decide)

/-- what the machine does on the example: the leaf `1` is rejected when the start symbol `S0` hands it
    over; the 20 other programs that contain it are still yielded (the statement is an inclusion) -/
example : (UHS.take mE 60 30 (UHS.St.empty mG) []).map (fun r => (r.2.1.length, r.2.2, r.2.1.all mFilter)) =
    some (21, true, true) := by decide +kernel
end UMachine

end PS.C12HS
