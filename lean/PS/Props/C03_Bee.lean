/- C03, part bee (bee search): best-first order "by non-decreasing integer cost at the requested discretisation".
   Theorems about the machine PS.Bee (lean/PS/Model/Enum/BeeSearch.lean); the cost of a program is `pcost`, the
   sum of the integer costs int(-log p * 10^threshold) of the rules of its derivation (the cost table is data). -/
import PS.Proofs.Enum.BeeOrderRun
import PS.Proofs.Enum.BeeFullRun
import PS.Props.C02_Bee
namespace PS.C03Bee
open PS PS.G PS.Bee PS.Heapq PS.C02Bee

variable {S : Type} [DecidableEq S]

/-- `HeapElement.__lt__` (dataclass order on `(cost, combination)`, lists compared as Python compares lists) is a
    strict weak order, so the heapq port keeps its invariant on the queues and pops a cheapest element -/
theorem C03_Bee_heapElement_weakOrder : WeakOrder ltE := ltE_weakOrder

example : ltE ⟨3, [0, 1], cOne⟩ ⟨3, [1, 0], cPlus⟩ = true ∧ ltE ⟨3, [1], cOne⟩ ⟨3, [1, 0], cOne⟩ = true ∧
    ltE ⟨4, [], cOne⟩ ⟨3, [9], cOne⟩ = false := by decide

/-- `_next_cheapest_` returns the least cost among ALL queued elements (not only the roots), on states whose
    queues satisfy the heap invariant — which every reachable state does (`C03_Bee_order_inv`) -/
theorem C03_Bee_next_cheapest_min (s : St S) (hh : HAll s) (nts : List (NT S Unit)) (c : Int)
    (h : nextCheapest s = (nts, some c)) :
    (∀ nt l, (nt, l) ∈ s.queued → ∀ e ∈ l, c ≤ e.cost) ∧ ∃ nt l e, (nt, l) ∈ s.queued ∧ e ∈ l ∧ e.cost = c :=
  nextCheapest_min s hh nts c h

/-- the order invariant is kept by every step (non-negative cost table): `GOrd E g b` = the global cost list is
    strictly increasing with entries ≥ 0, every queue is a heap, every queued element costs at least the cost of
    the current round (between rounds: at least every entry of the cost list), every delayed combination
    really needs a cost index that does not exist yet, and `b` is a lower bound of all of this -/
theorem C03_Bee_order_step (E : Env S) (hw : nonnegW E = true) (g g' : Gen S) (out : Option Prog) (b : Int)
    (h : step E g = some (g', out)) (hi : GInv E g) (ho : GOrd E g b) : GOrd E g' b :=
  step_order E (nnw_of_check E hw) g g' out b h hi ho

/-- **BEST-FIRST ORDER, every history**: with a non-negative cost table (probabilities ≤ 1) on a rule table
    without duplicate keys, the programs yielded by bee search along ANY interleaving of `next` calls and merge
    declarations, with any filter, rule order and fuel — on finite AND recursive grammars, for every prefix —
    come by non-decreasing integer cost -/
theorem C03_Bee_sorted (E : Env S) (hw : nonnegW E = true) (hd : dictOK E = true) (fuel : Nat) (acts : List Act)
    (g0 g : Gen S) (out : List Prog) (h0 : Gen.new E = some g0) (h : runActs E fuel acts g0 [] = some (g, out)) :
    (out.map fun p => pcost E p E.G.start).Pairwise (· ≤ ·) := by
  obtain ⟨b', _, hs⟩ := runActs_order E (nnw_of_check E hw) fuel acts g0 g [] out 0 h (ginv_new E g0 h0).1
    (gord_new E (nnw_of_check E hw) (dictOK_of_check E hd) g0 h0 0 (Int.le_refl _)) ⟨by simp, by simp⟩
  exact hs.1

/-- the global cost list is strictly increasing after any history, and every queued element costs at least
    every entry of it -/
theorem C03_Bee_cost_list_increasing (E : Env S) (hw : nonnegW E = true) (hd : dictOK E = true) (fuel : Nat)
    (acts : List Act) (g0 g : Gen S) (out : List Prog) (h0 : Gen.new E = some g0)
    (h : runActs E fuel acts g0 [] = some (g, out)) :
    g.st.costList.Pairwise (· < ·) ∧ ∀ nt q, (nt, q) ∈ g.st.queued → ∀ e ∈ q, ∀ x ∈ g.st.costList, x ≤ e.cost := by
  obtain ⟨b', ho, _⟩ := runActs_order E (nnw_of_check E hw) fuel acts g0 g [] out 0 h (ginv_new E g0 h0).1
    (gord_new E (nnw_of_check E hw) (dictOK_of_check E hd) g0 h0 0 (Int.le_refl _)) ⟨by simp, by simp⟩
  have key : ∃ low, OSt E g.st low := by
    unfold GOrd at ho
    cases hc : g.phase.cost? with
    | none => simp only [hc] at ho; obtain ⟨low, h1, _⟩ := ho; exact ⟨low, h1⟩
    | some c => simp only [hc] at ho; exact ⟨c, ho.1⟩
  obtain ⟨low, hos⟩ := key
  exact ⟨hos.mono, fun nt q hm e he x hx => Int.le_trans (hos.cl_le x hx) (hos.q nt q hm e he).1⟩

/-- non-vacuity: the example table passes the checks and yields costs 1, 4, 5, 5, 6 -/
example : nonnegW cE = true ∧ dictOK cE = true := by decide
example : ((Gen.new cE).bind fun g => runActs cE 1000 [.take 10] g []).map (fun r => r.2.map fun p => pcost cE p cG.start) =
    some [1, 4, 5, 5, 6] := by decide +kernel

/-! ### PREFIX COMPLETENESS (repaired loop, no merge declaration; finite AND recursive grammars)

False when a rule with arguments costs 0: finding C03-F8 = C02-F6 below; the hypothesis `posArgCosts` is the complement of
that classifier. -/

/-- **PREFIX COMPLETENESS**: under the decidable hypotheses `nonnegW`, `posArgCosts`, `hasCosts`, `dictOK`, `initFrontOK`,
    `initCoverOK`, for every grammar (finite or recursive), cost table, rule order, filter, fuel and every history of `next`
    calls: in a prefix `l1 ++ q :: l2` of the output, every member of the grammar of strictly smaller cost than `q` all of
    whose sub-programs are accepted by the filter is in `l1` — once a program of cost c has been produced every program of
    strictly smaller cost has been produced -/
theorem C03_Bee_prefix_complete_partial (E : Env S) (h1 : nonnegW E = true) (h2 : posArgCosts E = true)
    (h3 : hasCosts E = true) (h4 : dictOK E = true) (h5 : initFrontOK E = true) (h6 : initCoverOK E = true)
    (hfix : E.fixF11 = true) (fuel : Nat) (acts : List Act) (hacts : acts.all Act.isTake = true) (g0 g : Gen S)
    (out : List Prog) (h0 : Gen.new E = some g0) (h : runActs E fuel acts g0 [] = some (g, out))
    (l1 : List Prog) (q : Prog) (l2 : List Prog) (hout : out = l1 ++ q :: l2) (p : Prog)
    (hp : gen E.G p E.G.start = true) (hs : Strict E p) (hlt : pcost E p E.G.start < pcost E q E.G.start) : p ∈ l1 := by
  have H := hyp_of_checks E h1 h2 h3 h4 h5 h6
  obtain ⟨ha0, hnob⟩ := all_new E H g0 h0
  obtain ⟨_, hr⟩ := runActs_all E H hfix fuel acts g0 g [] out hacts h ha0
    ⟨⟨by simp, by simp⟩, fun ci p hin => absurd hin (hnob _ ci p), fun l1 q l2 he => by simp at he⟩
  exact hr.pc l1 q l2 hout p hp hs hlt

/-- the state form: when a program of cost c is yielded, every accepted member of strictly smaller cost is already in the
    bank of the start symbol -/
theorem C03_Bee_yield_bank_complete (E : Env S) (h1 : nonnegW E = true) (h2 : posArgCosts E = true)
    (h3 : hasCosts E = true) (h4 : dictOK E = true) (h5 : initFrontOK E = true) (h6 : initCoverOK E = true)
    (hfix : E.fixF11 = true) (g g' : Gen S) (q : Prog) (h : step E g = some (g', some q)) (ha : All E g) :
    ∀ p, gen E.G p E.G.start = true → Strict E p → pcost E p E.G.start < pcost E q E.G.start →
      ∃ ci, inBank g.st E.G.start ci p :=
  (step_all E (hyp_of_checks E h1 h2 h3 h4 h5 h6) hfix g g' (some q) h ha).2 q rfl

/-- `b -> a0 | g a`, `a -> h c`, `c -> k` with costs a0: 5, g: 0, h: 0, k: 1 -/
def pG : TT Nat Unit := ⟨(fT "b", (0, ())), [((fT "b", (0, ())), [(Sym.prim "a0" .unknown, ([], ())), (Sym.prim "g" .unknown, ([(fT "a", 1)], ()))]),
                                             ((fT "a", (1, ())), [(Sym.prim "h" .unknown, ([(fT "c", 2)], ()))]),
                                             ((fT "c", (2, ())), [(Sym.prim "k" .unknown, ([], ()))])]⟩
def pW : AList (NT Nat Unit) (AList Sym Int) :=
  [((fT "b", (0, ())), [(Sym.prim "a0" .unknown, 5), (Sym.prim "g" .unknown, 0)]), ((fT "a", (1, ())), [(Sym.prim "h" .unknown, 0)]),
   ((fT "c", (2, ())), [(Sym.prim "k" .unknown, 1)])]
def pE : Env Nat := { G := pG, W := pW, progs0 := 2 }

/-- the machine yields `a0` (cost 5) although `(g (h k))` (cost 1) was never yielded: the combination `g[0]` is
    popped before `(h k)` is in the bank of its argument (both have cost 1 because `g` and `h` cost 0) -/
theorem finding_C03_F8 :
    ((Gen.new pE).bind fun g => take pE 1000 1 g []).map (fun r => r.2.1) = some [.node (Sym.prim "a0" .unknown) []] ∧
    gen pG fProg pG.start = true ∧ pcost pE fProg pG.start = 1 ∧ pcost pE (.node (Sym.prim "a0" .unknown) []) pG.start = 5 ∧
    posArgCosts pE = false := by
  decide +kernel

end PS.C03Bee
