/-
  C07 — Tree-automaton operations are the language operations they are named after.
  Property theorems only (model: PS/Model/Dfta.lean; lemmas: PS/Proofs/Dfta*.lean).
  Every statement is for arbitrary partial deterministic automata (`Det`: the rule table has
  no duplicate key, which every Python dict satisfies), any alphabet, any state type, and
  every tree — no bound on sizes or depths.
-/
import PS.Proofs.Dfta
import PS.Proofs.DftaUnion
import PS.Proofs.DftaQuot
import PS.Proofs.DftaMin
import PS.Proofs.DftaMinimal
namespace PS.C07
open PS DFTA

variable {σ Q Q₁ Q₂ X : Type} [DecidableEq σ] [DecidableEq Q] [DecidableEq Q₁] [DecidableEq Q₂]
  [DecidableEq X]

/-- **states.** `DFTA.states` is exactly the set of states some tree is read into (and it has
    no duplicates, so `len(dfta.states)` counts them). -/
theorem C07_states (A : DFTA σ Q) (hd : A.Det) (q : Q) :
    q ∈ A.states ↔ ∃ t, run A t = some q :=
  mem_states_iff A hd q

theorem C07_states_nodup (A : DFTA σ Q) (hd : A.Det) : A.states.Nodup := states_nodup A hd

/-- **reduce.** Removing unreachable and unproductive states keeps the language (and the
    table deterministic). -/
theorem C07_reduce (A : DFTA σ Q) (hd : A.Det) (t : Tree σ) :
    (reduce A).accepts t = A.accepts t :=
  accepts_reduce A hd t

theorem C07_reduce_det (A : DFTA σ Q) (hd : A.Det) : (reduce A).Det := reduce_det A hd

/-- **read_product.** The product reads a tree into the pair of the two runs (defined iff
    both are) … -/
theorem C07_product_run (A : DFTA σ Q₁) (B : DFTA σ Q₂) (ha : A.Det) (hb : B.Det) (t : Tree σ) :
    run (readProduct A B) t = optPair (run A t) (run B t) :=
  run_product A B ha hb t

/-- … hence accepts exactly the intersection of the two languages. -/
theorem C07_product (A : DFTA σ Q₁) (B : DFTA σ Q₂) (ha : A.Det) (hb : B.Det) (t : Tree σ) :
    (readProduct A B).accepts t = (A.accepts t && B.accepts t) :=
  accepts_product A B ha hb t

theorem C07_product_det (A : DFTA σ Q₁) (B : DFTA σ Q₂) : (readProduct A B).Det :=
  AList.keys_nodup_ofList _

/-- **read_union**, for every injective `fusion` (before the final `reduce`): a tree is read
    into the fusion of the two partial runs as soon as one of them is defined. -/
theorem C07_union_run (fusion : Option Q₁ → Option Q₂ → X)
    (hinj : ∀ a b a' b', fusion a b = fusion a' b' → a = a' ∧ b = b')
    (A : DFTA σ Q₁) (B : DFTA σ Q₂) (ha : A.Det) (hb : B.Det) (t : Tree σ) :
    run (unionRaw fusion A B) t = optFuse fusion (run A t) (run B t) :=
  run_unionRaw fusion hinj A B ha hb t

theorem C07_union_fusion (fusion : Option Q₁ → Option Q₂ → X)
    (hinj : ∀ a b a' b', fusion a b = fusion a' b' → a = a' ∧ b = b')
    (A : DFTA σ Q₁) (B : DFTA σ Q₂) (ha : A.Det) (hb : B.Det) (t : Tree σ) :
    (readUnionWith fusion A B).accepts t = (A.accepts t || B.accepts t) :=
  accepts_readUnionWith fusion hinj A B ha hb t

/-- `read_union` with the default fusion accepts exactly the union of the two languages. -/
theorem C07_union (A : DFTA σ Q₁) (B : DFTA σ Q₂) (ha : A.Det) (hb : B.Det) (t : Tree σ) :
    (readUnion A B).accepts t = (A.accepts t || B.accepts t) :=
  accepts_readUnionWith _ (fun _ _ _ _ h => ⟨(Prod.mk.inj h).1, (Prod.mk.inj h).2⟩) A B ha hb t

theorem C07_union_det (A : DFTA σ Q₁) (B : DFTA σ Q₂) : (readUnion A B).Det :=
  reduce_det _ (AList.keys_nodup_ofList _)

/-- **map_states.** A renaming that is injective on the states mentioned by the automaton
    (rules and final states) changes nothing: same runs up to the renaming, same language. -/
theorem C07_map_run (f : Q → X) (A : DFTA σ Q) (hd : A.Det)
    (hinj : ∀ x, x ∈ allStates A → ∀ y, y ∈ allStates A → f x = f y → x = y) (t : Tree σ) :
    run (mapStates f A) t = (run A t).map f :=
  (run_mapStates f A hd hinj t).1

theorem C07_map (f : Q → X) (A : DFTA σ Q) (hd : A.Det)
    (hinj : ∀ x, x ∈ allStates A → ∀ y, y ∈ allStates A → f x = f y → x = y) (t : Tree σ) :
    (mapStates f A).accepts t = A.accepts t :=
  accepts_mapStates f A hd hinj t

/-- **quotients.** Renaming the states by ANY map `c` that passes the executable congruence
    certificate (same-named states are both final or both not; replacing one by the other at
    one position of a rule leads to a rule whose target has the same name) keeps the language.
    `C07_map` is the special case of an injective `c`. -/
theorem C07_quotient (c : Q → X) (A : DFTA σ Q) (hd : A.Det)
    (hc : congruenceCert A c (stateSet A) = true) (t : Tree σ) :
    (mapStates c A).accepts t = A.accepts t :=
  accepts_quotient A hd c _ (allStates_subset_stateSet A) hc t

/-- **minimise, determinism.** Whatever partition the refinement loop ends with, for every
    initial class order, every `mapping` and every number of passes, the returned table has no
    duplicate key. -/
theorem C07_min_det (f : List Q → X) (A : DFTA σ Q) (cls0 cls1 : List Q) (fuel : Nat) (M : DFTA σ X)
    (h : minimiseCore f A cls0 cls1 fuel = some M) : M.Det := by
  obtain ⟨st, _, e⟩ := minimiseCore_eq f A cls0 cls1 fuel M h
  subst e
  exact AList.keys_nodup_ofList _

/-- **minimise, language (certificate form).** `minimise` returns the quotient of its input
    by its final partition `st`, and whenever that partition passes the congruence certificate
    — which the driver evaluates on the model's final partition in every correspondence run —
    the minimised automaton accepts exactly the trees the input accepts.
    (That the refinement loop always ends in a partition passing the certificate is now
    proved: `C07_min_cert` below, whence the unconditional `C07_min_lang`.) -/
theorem C07_min_lang_cert (f : List Q → X) (A : DFTA σ Q) (hd : A.Det) (cls0 cls1 : List Q)
    (fuel : Nat) (M : DFTA σ X) (h : minimiseCore f A cls0 cls1 fuel = some M) :
    ∃ st, minimiseState A cls0 cls1 fuel = some st ∧
      M = mapStates (fun q => f (clsTuple st q)) A ∧
      (congruenceCert A (fun q => f (clsTuple st q)) (stateSet A) = true →
        ∀ t, M.accepts t = A.accepts t) := by
  obtain ⟨st, hst, e⟩ := minimiseCore_eq f A cls0 cls1 fuel M h
  refine ⟨st, hst, e, ?_⟩
  intro hc t
  rw [e]
  exact accepts_quotient A hd _ _ (allStates_subset_stateSet A) hc t

/-! ### non-vacuity: cyclic automata over {z/0, s/1, f/2} -/
namespace Example
def z : Tree String := .node "z" []
def s (t : Tree String) : Tree String := .node "s" [t]
def f (a b : Tree String) : Tree String := .node "f" [a, b]
/-- odd numbers; state 7 is unreachable, state 2 is an unproductive cycle -/
def odd : DFTA String Nat :=
  { rules := [(("z", []), 0), (("s", [0]), 1), (("s", [1]), 0), (("s", [7]), 1), (("f", [0, 0]), 2),
              (("f", [2, 2]), 2)], finals := [1] }
/-- numbers divisible by three -/
def three : DFTA String Nat :=
  { rules := [(("z", []), 0), (("s", [0]), 1), (("s", [1]), 2), (("s", [2]), 0)], finals := [0] }
example : odd.Det := by unfold DFTA.Det; decide
example : three.Det := by unfold DFTA.Det; decide
example : odd.states = [0, 1, 2] := by decide
example : (reduce odd).rules = [(("z", []), 0), (("s", [0]), 1), (("s", [1]), 0)] := by decide
example : (readProduct odd three).accepts (s (s (s z))) = true := by decide
example : (readProduct odd three).accepts (s z) = false := by decide
set_option maxRecDepth 8000 in
example : (readUnion odd three).accepts (s z) = true ∧ (readUnion odd three).accepts (s (s z)) = false := by decide
example : (mapStates (· + 10) odd).accepts (s z) = true := by decide
/-- numbers modulo 4, final: 1 and 3 — minimises to the two states of `odd` -/
def mod4 : DFTA String Nat :=
  { rules := [(("z", []), 0), (("s", [0]), 1), (("s", [1]), 2), (("s", [2]), 3), (("s", [3]), 0)], finals := [1, 3] }
example : (minimise mod4).map (fun M => M.rules) =
    some [(("z", []), [2, 0]), (("s", [[2, 0]]), [3, 1]), (("s", [[3, 1]]), [2, 0])] := by decide
example : (minimiseState mod4 [0, 2] [1, 3] 6).map
    (fun st => congruenceCert mod4 (clsTuple st) (stateSet mod4)) = some true := by decide
-- a non-injective renaming that is not a congruence fails the certificate
example : congruenceCert mod4 (fun q => q % 3) (stateSet mod4) = false := by decide
end Example

/-! ### literal for the non-vacuity examples of the `minimise` theorems
  trees over {a/0, b/0, f/2}; a partial table with a binary letter; states 2 and 3 are
  equivalent, 0 and 1 are not (f(0,1) is defined, f(1,1) is not). -/
namespace MinExample
def par : DFTA String Nat :=
  { rules := [(("a", []), 0), (("b", []), 1), (("f", [0, 1]), 2), (("f", [1, 0]), 3),
              (("f", [2, 2]), 0), (("f", [2, 3]), 0), (("f", [3, 2]), 0), (("f", [3, 3]), 0)],
    finals := [2, 3] }
/-- a three-state automaton for the same language: the quotient of `par` by 2 ~ 3 -/
def par3 : DFTA String Nat := mapStates (fun q => if q = 3 then 2 else q) par
example : par3.rules = [(("a", []), 0), (("b", []), 1), (("f", [0, 1]), 2), (("f", [1, 0]), 2),
    (("f", [2, 2]), 0)] ∧ par3.finals = [2, 2] := by decide
end MinExample

/-- **minimise, the certificate always holds.** The partition the refinement loop ends with
    (for every order of the two initial classes and every number of passes after which it
    returns) passes the executable congruence certificate, for every injective naming `f` of
    the classes — provided every state the automaton mentions is reachable (`AllReach`, the
    part of "reduced" the code needs: without it the Python raises `KeyError`). -/
theorem C07_min_cert (f : List Q → X) (hf : ∀ a b, f a = f b → a = b) (A : DFTA σ Q) (hd : A.Det)
    (hr : AllReach A) (cls0 cls1 : List Q) (h01 : InitOK A cls0 cls1) (fuel : Nat) (st : MinState Q)
    (h : minimiseState A cls0 cls1 fuel = some st) :
    congruenceCert A (fun q => f (clsTuple st q)) (stateSet A) = true :=
  minimiseState_cert A hd hr cls0 cls1 h01 fuel st h f hf

/-- **minimise, language** (general form: every order of the two initial classes, every
    injective `mapping`, every number of passes after which the loop returns). -/
theorem C07_min_lang_core (f : List Q → X) (hf : ∀ a b, f a = f b → a = b) (A : DFTA σ Q)
    (hd : A.Det) (hr : AllReach A) (cls0 cls1 : List Q) (h01 : InitOK A cls0 cls1) (fuel : Nat)
    (M : DFTA σ X) (h : minimiseCore f A cls0 cls1 fuel = some M) (t : Tree σ) :
    M.accepts t = A.accepts t :=
  minimiseCore_lang f hf A hd hr cls0 cls1 h01 fuel M h t

/-- **minimise, language.** Minimising a deterministic automaton all of whose states are
    reachable (in particular a reduced one, `C07_reduce_allReach`) leaves its language
    unchanged. -/
theorem C07_min_lang (A : DFTA σ Q) (hd : A.Det) (hr : AllReach A) (M : DFTA σ (List Q))
    (h : minimise A = some M) (t : Tree σ) : M.accepts t = A.accepts t :=
  minimiseCore_lang id (fun _ _ e => e) A hd hr _ _ (initOK_filter A) _ M h t

example : MinExample.par.Det ∧ AllReach MinExample.par ∧
    (minimise MinExample.par).map (fun M => M.rules) =
      some [(("a", []), [0]), (("b", []), [1]), (("f", [[0], [1]]), [2, 3]), (("f", [[1], [0]]), [2, 3]),
            (("f", [[2, 3], [2, 3]]), [0])] := by
  unfold DFTA.Det AllReach; decide

/-- **minimise, termination.** The `while not finished` loop ends: every pass but the last
    creates a class, classes are disjoint non-empty sets of reachable states (but possibly the
    two initial ones), so `|states| + 1` passes are always enough — the model's `|states| + 2`
    never runs out, for ANY automaton (no hypothesis), any class order and any `mapping`. -/
theorem C07_min_terminates_core (f : List Q → X) (A : DFTA σ Q) (cls0 cls1 : List Q)
    (h01 : InitOK A cls0 cls1) (fuel : Nat) (hfuel : A.states.length + 1 ≤ fuel) :
    ∃ M, minimiseCore f A cls0 cls1 fuel = some M :=
  minimiseCore_terminates f A cls0 cls1 h01 fuel hfuel

theorem C07_min_terminates (A : DFTA σ Q) : ∃ M, minimise A = some M :=
  minimiseCore_terminates id A _ _ (initOK_filter A) _ (by omega)

example : ∃ M, minimise MinExample.par = some M ∧ numStates M = 3 := ⟨_, rfl, by decide⟩

/-- **reduce returns a trim automaton** (`Trim`: every state it mentions is reachable, and every
    reachable state is productive), i.e. the precondition of the `minimise` theorems. -/
theorem C07_reduce_trim (A : DFTA σ Q) (hd : A.Det) : Trim (reduce A) := trim_reduce A hd

theorem C07_reduce_allReach (A : DFTA σ Q) (hd : A.Det) : AllReach (reduce A) := (trim_reduce A hd).1

example : Trim (reduce Example.odd) ∧ ¬ AllReach Example.odd := by
  unfold Trim AllReach; decide

/-- **minimise, minimality** (general form: every class order, injective `mapping`, number of
    passes).  No deterministic automaton with the same language has fewer states than the
    result of minimising a trim automaton (`numStates` = `len(dfta.states)`). -/
theorem C07_min_minimal_core (f : List Q → X) (hf : ∀ a b, f a = f b → a = b) (A : DFTA σ Q)
    (hd : A.Det) (htrim : Trim A) (cls0 cls1 : List Q) (h01 : InitOK A cls0 cls1) (fuel : Nat)
    (M : DFTA σ X) (h : minimiseCore f A cls0 cls1 fuel = some M)
    (B : DFTA σ Q₂) (hb : B.Det) (hl : ∀ t, B.accepts t = A.accepts t) :
    numStates M ≤ numStates B :=
  minimiseCore_minimal f hf A hd htrim cls0 cls1 h01 fuel M h B hb hl

/-- **minimise, minimality.** -/
theorem C07_min_minimal (A : DFTA σ Q) (hd : A.Det) (htrim : Trim A) (M : DFTA σ (List Q))
    (h : minimise A = some M) (B : DFTA σ Q₂) (hb : B.Det) (hl : ∀ t, B.accepts t = A.accepts t) :
    numStates M ≤ numStates B :=
  minimiseCore_minimal id (fun _ _ e => e) A hd htrim _ _ (initOK_filter A) _ M h B hb hl

/-- non-vacuity: `par3` (3 states) has the language of `par` (4 states; it is its quotient by
    2 ~ 3, certificate by evaluation), `par` is trim, and the theorem bounds the 3 states of
    `minimise par` by the 3 states of `par3`. -/
example : ∃ M, minimise MinExample.par = some M ∧ numStates M = 3 ∧ numStates MinExample.par3 = 3 ∧
    numStates M ≤ numStates MinExample.par3 := by
  have hd : MinExample.par.Det := by unfold DFTA.Det; decide
  have hd3 : MinExample.par3.Det := by unfold DFTA.Det; decide
  have htrim : Trim MinExample.par := by unfold Trim AllReach; decide
  refine ⟨_, rfl, by decide, by decide, C07_min_minimal _ hd htrim _ rfl _ hd3 ?_⟩
  intro t
  exact C07_quotient _ _ hd (by decide) t

/-- **reduce, then minimise** (how the library uses it): the result exists, is deterministic,
    has the language of the original automaton and the least number of states among all
    deterministic automata with that language. -/
theorem C07_min_reduce (A : DFTA σ Q) (hd : A.Det) :
    ∃ M, minimise (reduce A) = some M ∧ M.Det ∧ (∀ t, M.accepts t = A.accepts t) ∧
      ∀ (B : DFTA σ Q₂), B.Det → (∀ t, B.accepts t = A.accepts t) → numStates M ≤ numStates B := by
  obtain ⟨M, hM⟩ := C07_min_terminates (reduce A)
  have hd' := reduce_det A hd
  have htrim := trim_reduce A hd
  refine ⟨M, hM, C07_min_det id (reduce A) _ _ _ M hM, ?_, ?_⟩
  · intro t
    rw [C07_min_lang (reduce A) hd' htrim.1 M hM t, accepts_reduce A hd t]
  · intro B hb hl
    exact C07_min_minimal (reduce A) hd' htrim M hM B hb (fun t => by rw [hl, accepts_reduce A hd t])

example : ∃ M, minimise (reduce Example.odd) = some M ∧ numStates M = 2 := ⟨_, rfl, by decide⟩

/-- **Finding C07-F1** (repaired by proposed_fixes/C07-F1.diff).  On the two rules `z -> 0`,
    `s(0) -> 0` with no final state the language is empty, yet the old `__remove_unproductive__`
    keeps both rules (state 0 is "consumed" by its own cycle): `reduce()` did not return a trim
    automaton and `minimise()` of its result was not minimal.  The repaired code (the model's
    `reduce`) returns the empty table. -/
def deadCycle : DFTA String Nat := { rules := [(("z", []), 0), (("s", [0]), 0)], finals := [] }
theorem finding_C07_F1 :
    (removeUnproductiveOld (removeUnreachable deadCycle) 5).rules = deadCycle.rules ∧
    (reduce deadCycle).rules = [] := by decide

/-- productivity (`Trim`, not only `AllReach`) is needed for `C07_min_minimal`: the dead cycle
    (all states reachable, none productive, empty language) is "minimised" to one state while
    the empty table, with the same language, has none.  (Not a defect: `minimise` is documented
    for reduced automata, and `reduce` — with fix C07-F1 — returns the empty table here.) -/
example : AllReach deadCycle ∧ ¬ Trim deadCycle ∧
    (∃ M, minimise deadCycle = some M ∧ numStates M = 1) ∧
    numStates ({ rules := [], finals := [] } : DFTA String Nat) = 0 ∧
    ∀ t, ({ rules := [], finals := [] } : DFTA String Nat).accepts t = deadCycle.accepts t := by
  refine ⟨by unfold AllReach; decide, by unfold Trim AllReach; decide, ⟨_, rfl, by decide⟩, by decide, ?_⟩
  intro t
  unfold accepts
  cases run deadCycle t <;> cases run ({ rules := [], finals := [] } : DFTA String Nat) t <;>
    simp [deadCycle]

end PS.C07
