import PS.Model.Dfta
namespace PS.C07
end PS.C07
