/-
  Specification of C14: which primitives must be present after polymorphic instantiation.
  Stated without the algorithm of dsl.py: a *simultaneous* substitution of the type
  variables by admissible types of the documented universe, a choice of one alternative per
  sum, and the removal of the unit arguments.  Core Lean only.
-/
import PS.Model.Dsl
namespace PS.Dsl
open PS Ty

mutual
  /-- simultaneous substitution of the type variables by name -/
  def applySubst (σ : String → Ty) : Ty → Ty
    | .node l ks =>
      if isVarL l then σ l.name
      else if isInnerL l then .node l (applySubstList σ ks) else .node l ks
  def applySubstList (σ : String → Ty) : List Ty → List Ty
    | [] => []
    | t :: ts => applySubst σ t :: applySubstList σ ts
end

mutual
  /-- `Choice t c`: `c` is obtained from `t` by choosing one alternative of every sum -/
  inductive Choice : Ty → Ty → Prop
    | leaf (l : TyL) (ks : List Ty) : isInnerL l = false → Choice (.node l ks) (.node l ks)
    | alt (l : TyL) (ks : List Ty) (a c : Ty) :
        l = .sum → a ∈ ks → Choice a c → Choice (.node l ks) c
    | comp (l : TyL) (ks cs : List Ty) :
        l ≠ .sum → isInnerL l = true → ChoiceList ks cs → Choice (.node l ks) (.node l cs)
  inductive ChoiceList : List Ty → List Ty → Prop
    | nil : ChoiceList [] []
    | cons (t c : Ty) (ts cs : List Ty) : Choice t c → ChoiceList ts cs → ChoiceList (t :: ts) (c :: cs)
end

/-- all arguments equal to `unit` removed, everything else untouched -/
def dropUnit (t : Ty) : Ty :=
  mkArrows ((arguments t).filter (fun a => a != Ty.unit)) (returns t)

/-- base types of the DSL: the primitive types occurring in a declared type, except `unit` -/
def IsBase (P : List Prim) (b : Ty) : Prop :=
  (∃ p ∈ P, b ∈ basics p.2) ∧ b ≠ Ty.unit

/-- the documented universe: base types, lists and lists of lists of them, one-argument
    functions between them -/
def InUniverse (P : List Prim) (u : Ty) : Prop :=
  ∃ b, IsBase P b ∧
    (u = b ∨ u = Ty.list b ∨ u = Ty.list (Ty.list b) ∨ ∃ b', IsBase P b' ∧ u = Ty.arrow b b')

/-- `σ` gives every type variable of `τ` a type of the universe within the size bound that
    the variable accepts -/
def Admissible (P : List Prim) (bound : Nat) (τ : Ty) (σ : String → Ty) : Prop :=
  ∀ q ∈ polys τ, InUniverse P (σ q.label.name) ∧ Ty.size (σ q.label.name) ≤ bound ∧
    canBe q (σ q.label.name) = true

/-- `r` is an instance of the declared primitive `p` -/
def IsInstance (P : List Prim) (bound : Nat) (p r : Prim) : Prop :=
  r.1 = p.1 ∧ ∃ σ, Admissible P bound p.2 σ ∧ ∃ c, Choice (applySubst σ p.2) c ∧ r.2 = dropUnit c

/-- the specified content of `list_primitives` after instantiation -/
def Instances (P : List Prim) (bound : Nat) (r : Prim) : Prop :=
  ∃ p ∈ P, IsInstance P bound p r

/-! ### executable form of the specification (used by the driver) -/

def specBases (P : List Prim) : List Ty :=
  dedup ((P.flatMap (fun p => basics p.2)).filter (fun b => b != Ty.unit))

def specUniverse (P : List Prim) : List Ty :=
  let B := specBases P
  dedup (B ++ B.map Ty.list ++ B.map (fun b => Ty.list (Ty.list b)) ++
    B.flatMap (fun b => B.map (fun b' => Ty.arrow b b')))

def varNames (τ : Ty) : List String := dedup ((polys τ).map (fun q => q.label.name))

/-- the candidates of the variable name `n` in `τ` -/
def candidates (U : List Ty) (bound : Nat) (τ : Ty) (n : String) : List Ty :=
  U.filter (fun u => decide (Ty.size u ≤ bound) &&
    (polys τ).all (fun q => q.label.name != n || canBe q u))

def substOf (ns : List String) (vs : List Ty) : String → Ty :=
  fun n => ((ns.zip vs).lookup n).getD Ty.unknown

/-- all instances of one primitive, by enumeration of the substitutions -/
def specInstancesOf (U : List Ty) (bound : Nat) (p : Prim) : List Prim :=
  let ns := varNames p.2
  (product (ns.map (candidates U bound p.2))).flatMap (fun vs =>
    (versions (applySubst (substOf ns vs) p.2)).map (fun c => (p.1, dropUnit c)))

def specInstances (P : List Prim) (bound : Nat) : List Prim :=
  dedup (P.flatMap (specInstancesOf (specUniverse P) bound))

/-- decidable classifier of finding C14-F4: some instance, before the unit pass, has both a
    unit argument and an argument that is a function returning unit -/
def returnsUnitFn : Ty → Bool
  | .node .arrow [_, y] => y == Ty.unit
  | _ => false

def hasUnitRetArg (t : Ty) : Bool := (arguments t).any returnsUnitFn

def unitSafe (t : Ty) : Bool := !(hasUnitArg t && hasUnitRetArg t)

end PS.Dsl
