/-
  SPECIFICATION for property C05: the documented meaning of constraints and sketches
  (docs/source/sharpening.md, "Simplifying Rules / Syntax"), as direct recursive predicates on
  trees — no automaton, no state.

    NSet          a set of symbols (after `^` / `_` have been resolved by the parser)
    #NSet<=N      `cnt S t ≤ N`   (occurrences of symbols of S anywhere in the sub-tree, root included)
    #NSet>=N      `cnt S t ≥ N`
    >NSet / >^NSet   forced / forbidden sub-tree symbol: `cnt S t ≥ 1` / `cnt S t = 0`
    (NSet R1 … Rk)   the head symbol is in NSet and the i-th argument satisfies Ri
    local rule    "for each occurrence of f, its arguments must …"  (`satLocal`)
    sketch        "the program starts with f and …"                   (`satSketch` = `matches` at the root)

  Children and argument patterns are paired positionally; a surplus on either side is
  unconstrained (the documentation only speaks about patterns of the right arity).
  Core Lean only.
-/
import PS.Model.Constraints
namespace PS.C05
open PS

variable {σ : Type} [DecidableEq σ]

mutual
  /-- number of nodes of `t` whose symbol is in `S` -/
  def cnt (S : List σ) : Tree σ → Nat
    | .node l ks => (if l ∈ S then 1 else 0) + cntList S ks
  def cntList (S : List σ) : List (Tree σ) → Nat
    | [] => 0
    | k :: ks => cnt S k + cntList S ks
end

mutual
  /-- the sub-tree `t` matches the pattern -/
  def matchesTok : Tok σ → Tree σ → Bool
    | .any, _ => true
    | .allow S, t => decide (t.label ∈ S)
    | .atMost S n, t => decide (cnt S t ≤ n)
    | .atLeast S n, t => decide (cnt S t ≥ n)
    | .forbidSub S, t => decide (cnt S t = 0)
    | .forceSub S, t => decide (cnt S t ≥ 1)
    | .func H args, t => decide (t.label ∈ H) && matchesArgs args t.kids
  def matchesArgs : List (Tok σ) → List (Tree σ) → Bool
    | [], _ => true
    | _ :: _, [] => true
    | a :: as, k :: ks => matchesTok a k && matchesArgs as ks
end

mutual
  /-- local rule `(H a₁ … a_k)`: every occurrence of a symbol of `H` has matching arguments -/
  def satLocal (H : List σ) (args : List (Tok σ)) : Tree σ → Bool
    | .node l ks => (decide (l ∉ H) || matchesArgs args ks) && satLocalList H args ks
  def satLocalList (H : List σ) (args : List (Tok σ)) : List (Tree σ) → Bool
    | [] => true
    | k :: ks => satLocal H args k && satLocalList H args ks
end

/-- a sketch constrains the root -/
def satSketch (tok : Tok σ) (t : Tree σ) : Bool := matchesTok tok t

/-- a parsed constraint of the list given to `add_dfta_constraints`: `_` (and what the parser
    reduces to it) says nothing; anything but a function pattern is not a local rule -/
def satConstraint (tok : Tok σ) (t : Tree σ) : Bool :=
  match tok with
  | .func H args => satLocal H args t
  | _ => true

/-- the programs the property says are kept -/
def sharpenSpec (inBase : Tree σ → Bool) (cs : List (Tok σ)) (sketch : Option (Tok σ)) (t : Tree σ) : Bool :=
  inBase t && cs.all (fun c => satConstraint c t) && (match sketch with
    | none => true
    | some sk => satSketch sk t)

/-- the documented exception: a nested pattern repeats a head symbol of an enclosing pattern
    (`heads` = the symbols of the enclosing heads) -/
def noRepeatedHead : List σ → Tok σ → Bool
  | heads, .func H args =>
    H.all (fun h => !heads.contains h) && noRepeatedHeadList (H ++ heads) args
  | _, _ => true
where noRepeatedHeadList : List σ → List (Tok σ) → Bool
  | _, [] => true
  | heads, a :: as => noRepeatedHead heads a && noRepeatedHeadList heads as

/-! ### when is `__cfg2dfta__` exact?  decidable conditions on the grammar object -/
open PS.G

/-- shape of a table built by `CFG.depth_constraint`: unique keys, the start symbol is a key at
    depth 0 whose type is not an arrow, a leaf rule carries a symbol of the non-terminal's type, every argument of a rule is
    a key one level deeper. -/
def wfCFG (G : CFG) : Bool :=
  decide ((AList.keys G.rules).Nodup) &&
  AList.contains G.start G.rules && (G.start.2.1.2 == 0) && (G.start.1.returns == G.start.1) &&
  G.rules.all (fun e =>
    decide ((AList.keys e.2).Nodup) &&
    e.2.all (fun r =>
      (if r.2.1.isEmpty then r.1.ty == e.1.1 else true) &&
      r.2.1.all (fun a => a.2.2 == e.1.2.1.2 + 1 && AList.contains (toNT a) G.rules)))

/-- `(symbol, argument types)` determines the type of the non-terminal: two rules that
    `__cfg2dfta__` files under the same keys agree on the target type -/
def sigFunctional (G : CFG) : Bool :=
  G.rules.all fun e => e.2.all fun r => G.rules.all fun e' => e'.2.all fun r' =>
    if r.1 = r'.1 ∧ r.2.1.map (·.1) = r'.2.1.map (·.1) then e.1.1 == e'.1.1 else true

/-- **Hyp_C05** (`cfg2dftaExact`): every rule of the (type, height) automaton can be taken at
    every non-terminal of its target type that leaves enough depth — i.e. the grammar does not
    depend on anything but type and depth (no `min_variable_depth`, no forbidden pattern, no
    n-gram dependent rule in effect).  Finding C05-F1 is its negation. -/
def cfg2dftaExact (G : CFG) : Bool :=
  let D := cfg2dfta G
  let md := maxDepth G
  D.rules.all fun r => G.rules.all fun e =>
    if e.1.1 = r.2.1 ∧ e.1.2.1.2 + r.2.2 < md then
      match AList.lookup r.1.1 e.2 with
      | some (args, _) => args.map (·.1) == r.1.2.map (·.1)
      | none => false
    else true

end PS.C05
