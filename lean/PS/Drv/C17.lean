/- Driver glue for C17 (instantiating constants): model outputs, specification outputs and the
   decidable hypotheses of the `_partial` theorems, on the implementation's actual tables. -/
import PS.Drv.Wire
import PS.Model.InstConst
namespace PS.C17
open PS PS.G PS.IC PS.Wire Sexp

def decTbl : Sexp → Option Tbl
  | .list es => allSome (fun e => match e with
      | .list [t, .list vs] => do pure (← decTy t, ← allSome Sexp.string? vs)
      | _ => none) es
  | _ => none

def decRat : Sexp → Option Rat
  | .list [n, d] => do
      let n ← n.int?
      let d ← d.nat?
      if d = 0 then none else pure ((n : Rat) / (d : Rat))
  | _ => none

def encRat (r : Rat) : Sexp := .list [ofInt r.num, ofNat r.den]

def decTags : Sexp → Option (Tags CFGState Unit)
  | .list es => allSome (fun e => match e with
      | .list [nt, .list rs] => do
          pure (← decNT nt, ← allSome (fun r => match r with
            | .list [sy, w] => do pure (← decSym sy, ← decRat w)
            | _ => none) rs)
      | _ => none) es
  | _ => none

def encTags (t : Tags CFGState Unit) : Sexp :=
  .list (t.map fun e => .list [encNT e.1, .list (e.2.map fun r => .list [encSym r.1, encRat r.2])])

def decUTable : Sexp → Option (UTable CFGState)
  | .list es => allSome (fun e => match e with
      | .list [nt, .list rs] => do
          pure (← decArg nt, ← allSome (fun r => match r with
            | .list [sy, .list alts] => do
                pure (← decSym sy, ← allSome (fun a => match a with
                  | .list args => allSome decArg args
                  | _ => none) alts)
            | _ => none) rs)
      | _ => none) es
  | _ => none

def encUTable (t : UTable CFGState) : Sexp :=
  .list (t.map fun e => .list [encArg e.1, .list (e.2.map fun r =>
    .list [encSym r.1, .list (r.2.map fun a => .list (a.map encArg))])])

def decUTags : Sexp → Option (UTags CFGState)
  | .list es => allSome (fun e => match e with
      | .list [nt, .list rs] => do
          pure (← decArg nt, ← allSome (fun r => match r with
            | .list [sy, .list alts] => do
                pure (← decSym sy, ← allSome (fun a => match a with
                  | .list [.list args, w] => do pure (← allSome decArg args, ← decRat w)
                  | _ => none) alts)
            | _ => none) rs)
      | _ => none) es
  | _ => none

def encUTags (t : UTags CFGState) : Sexp :=
  .list (t.map fun e => .list [encArg e.1, .list (e.2.map fun r =>
    .list [encSym r.1, .list (r.2.map fun a => .list [.list (a.1.map encArg), encRat a.2])])])

def rowSums {κ : Type} (tags : AList κ (AList Sym Rat)) : List Rat :=
  tags.map (fun e => rsum (AList.values e.2))

def uRowSums (tags : UTags CFGState) : List Rat :=
  tags.map (fun e => rsum (e.2.map (fun r => rsum (AList.values r.2))))

def encOptList (l : Option (List Prog)) : Sexp :=
  match l with
  | none => .list [.atom "none"]
  | some ps => .list (.atom "some" :: ps.map encProg)

def handle : Sexp → Option Sexp
  | .list [.atom "c17.det", g, tg, tb, .list templates, .list cands] => do
      let G ← decCFG g
      let tags ← decTags tg
      let tbl ← decTbl tb
      let templates ← allSome decProg templates
      let cands ← allSome decProg cands
      let G' := inst G tbl
      let tags' := instTags tags tbl
      let hyps := [rulesOK tbl G.rules, rulesOK tbl tags, rulesNonEmpty tbl G.rules, rulesNonEmpty tbl tags]
      pure (.list [
        .list (hyps.map ofBool),
        encCFG G', encTags tags',
        .list ((rowSums tags).map encRat), .list ((rowSums tags').map encRat),
        .list (templates.map fun t =>
          let l := allInst tbl t
          .list [ofBool (gen G t G.start), encRat (prob G tags t G.start), ofBool (progOK tbl t), encOptList l,
                 encRat (rsum ((l.getD []).map fun t' => prob G' tags' t' G'.start)),
                 ofBool ((l.getD []).all fun t' => isInst tbl t t')]),
        .list (cands.map fun t' =>
          .list [ofBool (contains G' t'), ofBool (gen G' t' G'.start),
                 encRat (probability G' tags' t'), encRat (prob G' tags' t' G'.start),
                 encProg (templ tbl t'), ofBool (gen G (templ tbl t') G.start),
                 ofBool (isInst tbl (templ tbl t') t'),
                 encRat (probability G tags (templ tbl t'))])])
  | .list [.atom "c17.prog", tb, t, .list cands] => do
      let tbl ← decTbl tb
      let t ← decProg t
      let cands ← allSome decProg cands
      pure (.list [ofBool (progOK tbl t), encOptList (allInst tbl t),
                   .list (cands.map fun c => ofBool (isInst tbl t c))])
  | .list [.atom "c17.u", r, tg, tb] => do
      let R ← decUTable r
      let tags ← decUTags tg
      let tbl ← decTbl tb
      let tags' := instUTags tags tbl
      pure (.list [
        .list ([rulesOK tbl R, rulesOK tbl tags, rulesNonEmpty tbl R, rulesNonEmpty tbl tags].map ofBool),
        encUTable (instU R tbl), encUTags tags',
        .list ((uRowSums tags).map encRat), .list ((uRowSums tags').map encRat)])
  | _ => none

end PS.C17
