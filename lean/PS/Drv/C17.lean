/- Driver glue for C17 (instantiating constants): model outputs (for the variant of the code —
   as it is / with the proposed repairs — that the harness found by probing), specification
   outputs and the decidable hypotheses of the theorems, on the implementation's actual tables. -/
import PS.Drv.Wire
import PS.Model.InstConst
namespace PS.C17
open PS PS.G PS.IC PS.Wire Sexp

def decTbl : Sexp → Option Tbl
  | .list es => allSome (fun e => match e with
      | .list [t, .list vs] => do pure (← decTy t, ← allSome Sexp.string? vs)
      | _ => none) es
  | _ => none

def decRat : Sexp → Option Rat
  | .list [n, d] => do
      let n ← n.int?
      let d ← d.nat?
      if d = 0 then none else pure ((n : Rat) / (d : Rat))
  | _ => none

def encRat (r : Rat) : Sexp := .list [ofInt r.num, ofNat r.den]

def decTags : Sexp → Option (Tags CFGState Unit)
  | .list es => allSome (fun e => match e with
      | .list [nt, .list rs] => do
          pure (← decNT nt, ← allSome (fun r => match r with
            | .list [sy, w] => do pure (← decSym sy, ← decRat w)
            | _ => none) rs)
      | _ => none) es
  | _ => none

def encTags (t : Tags CFGState Unit) : Sexp :=
  .list (t.map fun e => .list [encNT e.1, .list (e.2.map fun r => .list [encSym r.1, encRat r.2])])

def decUTable : Sexp → Option (UTable CFGState)
  | .list es => allSome (fun e => match e with
      | .list [nt, .list rs] => do
          pure (← decArg nt, ← allSome (fun r => match r with
            | .list [sy, .list alts] => do
                pure (← decSym sy, ← allSome (fun a => match a with
                  | .list args => allSome decArg args
                  | _ => none) alts)
            | _ => none) rs)
      | _ => none) es
  | _ => none

def encUTable (t : UTable CFGState) : Sexp :=
  .list (t.map fun e => .list [encArg e.1, .list (e.2.map fun r =>
    .list [encSym r.1, .list (r.2.map fun a => .list (a.map encArg))])])

def decUTags : Sexp → Option (UTags CFGState)
  | .list es => allSome (fun e => match e with
      | .list [nt, .list rs] => do
          pure (← decArg nt, ← allSome (fun r => match r with
            | .list [sy, .list alts] => do
                pure (← decSym sy, ← allSome (fun a => match a with
                  | .list [.list args, w] => do pure (← allSome decArg args, ← decRat w)
                  | _ => none) alts)
            | _ => none) rs)
      | _ => none) es
  | _ => none

def encUTags (t : UTags CFGState) : Sexp :=
  .list (t.map fun e => .list [encArg e.1, .list (e.2.map fun r =>
    .list [encSym r.1, .list (r.2.map fun a => .list [.list (a.1.map encArg), encRat a.2])])])

def rowSums {κ : Type} (tags : AList κ (AList Sym Rat)) : List Rat :=
  tags.map (fun e => rsum (AList.values e.2))

def uRowSums (tags : UTags CFGState) : List Rat :=
  tags.map (fun e => rsum (e.2.map (fun r => rsum (AList.values r.2))))

def encOptList (l : Option (List Prog)) : Sexp :=
  match l with
  | none => .list [.atom "none"]
  | some ps => .list (.atom "some" :: ps.map encProg)

/-- `(f2 f3 f4)`: which repairs the implementation under test contains (probed by the harness) -/
def decFix : Sexp → Option Fix
  | .list [a, b, c] => do
      let a ← a.nat?
      let b ← b.nat?
      let c ← c.nat?
      pure ⟨a != 0, b != 0, c != 0⟩
  | _ => none

def handle : Sexp → Option Sexp
  | .list [.atom "c17.det", fxs, g, tg, tb, .list templates, .list cands] => do
      let fx ← decFix fxs
      let G ← decCFG g
      let tags ← decTags tg
      let tbl ← decTbl tb
      let templates ← allSome decProg templates
      let cands ← allSome decProg cands
      let G' := inst fx G tbl
      let tags' := instTags fx tags tbl
      -- hypotheses of the generic `_partial` theorems for this `fx`, then those of the theorems for
      -- the repaired code (`grammarWF`, `tagsWF`, `grammarWF` of the tags, `slotsNonEmpty` ×2)
      let hyps := [rulesOK fx tbl G.rules, rulesOK fx tbl tags, rulesNonEmpty fx tbl G.rules,
                   rulesNonEmpty fx tbl tags,
                   grammarWF tbl G.rules, tagsWF tbl G.rules tags, grammarWF tbl tags,
                   slotsNonEmpty tbl G.rules, slotsNonEmpty tbl tags]
      -- the template of a candidate, with respect to the part of the table that matters
      let e := restrict (slotTys G.rules) tbl
      pure (.list [
        .list (hyps.map ofBool),
        encCFG G', encTags tags',
        .list ((rowSums tags).map encRat), .list ((rowSums tags').map encRat),
        .list (templates.map fun t =>
          let l := allInst fx tbl t
          .list [ofBool (gen G t G.start), encRat (prob G tags t G.start), ofBool (progOK fx tbl t), encOptList l,
                 encRat (rsum ((l.getD []).map fun t' => prob G' tags' t' G'.start)),
                 ofBool ((l.getD []).all fun t' => isInst tbl t t')]),
        .list (cands.map fun t' =>
          .list [ofBool (contains G' t'), ofBool (gen G' t' G'.start),
                 encRat (probability G' tags' t'), encRat (prob G' tags' t' G'.start),
                 encProg (templ e t'), ofBool (gen G (templ e t') G.start),
                 ofBool (isInst tbl (templ e t') t'),
                 encRat (probability G tags (templ e t'))])])
  | .list [.atom "c17.prog", fxs, tb, t, .list cands] => do
      let fx ← decFix fxs
      let tbl ← decTbl tb
      let t ← decProg t
      let cands ← allSome decProg cands
      pure (.list [ofBool (progOK fx tbl t), encOptList (allInst fx tbl t),
                   .list (cands.map fun c => ofBool (isInst tbl t c))])
  | .list [.atom "c17.u", fxs, r, tg, tb] => do
      let fx ← decFix fxs
      let R ← decUTable r
      let tags ← decUTags tg
      let tbl ← decTbl tb
      let tags' := instUTags fx tags tbl
      pure (.list [
        .list ([rulesOK fx tbl R, rulesOK fx tbl tags, rulesNonEmpty fx tbl R, rulesNonEmpty fx tbl tags,
                grammarWF tbl R, tagsWF tbl R tags, grammarWF tbl tags,
                slotsNonEmpty tbl R, slotsNonEmpty tbl tags].map ofBool),
        encUTable (instU fx R tbl), encUTags tags',
        .list ((uRowSums tags).map encRat), .list ((uRowSums tags').map encRat)])
  | _ => none

end PS.C17
