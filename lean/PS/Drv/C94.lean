/- Driver glue for beap search (parts `beap` of C02, C03, C12): requests `(beap.<op> …)`.
   Symbols and non-terminal contexts are abstracted to the integers the harness assigns by Python
   equality; a symbol `k` is `Sym.prim "k" unknown`.  Costs travel as "n/d" strings (exact). -/
import PS.Sexp
import PS.Model.Enum.BeapSearch
import PS.Model.Enum.BeapSpec
namespace PS.C94
open PS PS.G Sexp

def decRat (s : Sexp) : Option Rat := do
  let t ← s.string?
  match t.splitOn "/" with
  | [n] => do pure ((← n.toInt?) : Rat)
  | [n, d] => do pure (mkRat (← n.toInt?) (← d.toNat?))
  | _ => none

def encRat (q : Rat) : Sexp := .str (toString q.num ++ "/" ++ toString q.den)
def encCost (c : Beap.Cost) : Sexp := .list [ofInt c.inf, encRat c.fin]
def encORat : Option Rat → Sexp
  | none => .atom "none"
  | some q => encRat q

def sym (k : Nat) : Sym := Sym.prim (toString k) Ty.unknown

partial def decProg : Sexp → Option Prog
  | .list (h :: args) => do pure (.node (sym (← h.nat?)) (← allSome decProg args))
  | _ => none

partial def encProg : Prog → Sexp
  | .node h args => .list (.atom h.name :: args.map encProg)

abbrev DNT := NT Nat Unit

/-- non-terminal `(type ctx state)`; the state of a CFG is `None` (any number is accepted) -/
def decNT : Sexp → Option DNT
  | .list [t, s, _] => do pure (Ty.base (← t.string?), (← s.nat?, ()))
  | _ => none

def decArg : Sexp → Option (Ty × Nat)
  | .list [t, s] => do pure (Ty.base (← t.string?), ← s.nat?)
  | _ => none

/-- rule `(sym (arg …) state "n/d")` -/
def decRule : Sexp → Option ((Sym × (List (Ty × Nat) × Unit)) × Rat)
  | .list [k, .list args, _, w] => do
      pure ((sym (← k.nat?), (← allSome decArg args, ())), ← decRat w)
  | _ => none

def decGrammar : Sexp → Option (TT Nat Unit × AList DNT (AList Sym Rat))
  | .list [.atom "tt", st, .list entries] => do
      let start ← decNT st
      let es ← allSome (fun e => match e with
        | .list [nt, .list rs] => do pure (← decNT nt, ← allSome decRule rs)
        | _ => none) entries
      pure (⟨start, es.map fun e => (e.1, e.2.map (·.1))⟩,
            es.map fun e => (e.1, e.2.map fun r => (r.1.1, r.2)))
  | _ => none

inductive Act where
  | take (k : Nat)
  /-- merge `p`; `nts` = positions (in rule order) of the non-terminals whose type is `p.type` -/
  | merge (p : Prog) (nts : List Nat)

def decAct : Sexp → Option Act
  | .list [.atom "take", k] => do pure (.take (← k.nat?))
  | .list [.atom "merge", p, .list nts] => do pure (.merge (← decProg p) (← allSome Sexp.nat? nts))
  | _ => none

def runScript (E : Beap.Env Nat) (fuel : Nat) :
    List Act → Beap.Gen Nat → List Sexp → List Prog → Option (Beap.Gen Nat × List Sexp × List Prog)
  | [], g, out, ys => some (g, out, ys)
  | .merge p nts :: rest, g, out, ys =>
    let keys := AList.keys E.G.rules
    let ok : DNT → Bool := fun nt => nts.any fun i => keys[i]? == some nt
    runScript E fuel rest (Beap.merge g p ok) out ys
  | .take k :: rest, g, out, ys =>
    match Beap.take E fuel k g [] with
    | none => none
    | some (g', zs, fin) => runScript E fuel rest g' (out ++ [.list [.list (zs.map encProg), ofBool fin]]) (ys ++ zs)

def encEl (e : Beap.HeapEl) : Sexp := .list [encCost e.cost, .list (e.comb.map ofNat), .atom e.P.name]

/-- the tables of the machine, per non-terminal in rule order -/
def encTables (E : Beap.Env Nat) (s : Beap.St Nat) : List Sexp :=
  let nts := AList.keys E.G.rules
  [ .list (nts.map fun nt => .list ((s.clOf nt).map encCost)),
    .list (nts.map fun nt => .list ((s.bankOf nt).map fun e => .list [ofNat e.1, .list (e.2.map encProg)])),
    .list (nts.map fun nt => .list ((s.queueOf nt).map encEl)),
    .list (nts.map fun nt => .list ((s.emptiesOf nt).map ofNat)),
    .list (s.deleted.map encProg) ]

def mkEnv (gr recursive rej : Sexp) (fix : Bool := false) : Option (Beap.Env Nat) := do
  let (G, W) ← decGrammar gr
  let rejected ← allSome decProg (← rej.list?)
  pure { G := G, W := W, filter := fun p => !rejected.contains p, recursive := ← recursive.bool?, fixEmptied := fix }

/-- `(beap.run grammar recursive rejected script fuel fixEmptied)` (`fixEmptied`: the implementation has the fix C12-F13) →
    `(ok steps costLists banks queues empties deleted spec sorted)`; `sorted` = `Beap.sortedB` of the final
    `_cost_lists[start]`; `spec` = for every yielded program
    `(member cost)` by the specification (`G.gen`, `Beap.costOf`) -/
def handleRun (gr recursive rej script fuel fix : Sexp) : Option Sexp := do
  let E ← mkEnv gr recursive rej (← fix.bool?)
  let acts ← allSome decAct (← script.list?)
  let fuel ← fuel.nat?
  match runScript E fuel acts (Beap.Gen.new E.G) [] [] with
  | none => pure (.list [.atom "undef"])
  | some (g, out, ys) =>
    pure (.list ([.atom "ok", .list out] ++ encTables E g.st ++
      [.list (ys.map fun p => .list [ofBool (G.gen E.G p E.G.start), encORat (Beap.costOf E p E.G.start)]),
       ofBool (Beap.sortedB (g.st.clOf E.G.start))]))

/-- `(beap.init grammar recursive fuel)` → `(ok costLists banks queues empties deleted minCostSpec minCostOK stable)`:
    the tables after `_init_non_terminal_(start); _reevaluate_()` and the minimal cost of every
    non-terminal by the specification (`Beap.minCostSpec`: value iteration, `none` = no program) -/
def handleInit (gr recursive fuel : Sexp) : Option Sexp := do
  let E ← mkEnv gr recursive (.list [])
  let fuel ← fuel.nat?
  match Beap.prologue E fuel (Beap.St.empty E.G) with
  | none => pure (.list [.atom "undef"])
  | some s =>
    let mc := Beap.minCostSpec E
    pure (.list ([.atom "ok"] ++ encTables E s ++
      [.list ((AList.keys E.G.rules).map fun nt => encORat ((AList.lookup nt mc).getD none)),
       ofBool (Beap.minCostOK E s), ofBool (Beap.stableB E s)]))

def handle : Sexp → Option Sexp
  | .list [.atom "beap.run", gr, recursive, rej, script, fuel, fix] => handleRun gr recursive rej script fuel fix
  | .list [.atom "beap.init", gr, recursive, fuel] => handleInit gr recursive fuel
  | _ => none

end PS.C94
