/- Driver glue for C06: decode an automaton over derivable programs whose states are Python
   values (types, ints, strings, nested tuples), run the model of `__d2state__`, `from_DFTA`,
   `from_DFTA_with_ngrams`, `clean`, membership, derivation enumeration and `programs()`, and
   answer with model AND spec (the automaton's own acceptance) outputs and the decidable
   hypotheses of the theorems evaluated on the case.

   request  (c06.case FIXED RULES JOBS TREES CLEANFUEL NONCE)
     FIXED     1 = `__d2state__` with proposed fix C06-F1, 0 = as it is
     RULES     (((SYM (Q …)) Q) …)            the table, in dict order
     JOBS      ((plain (Q …)) | (ngram N FUEL (Q …)) …)   one grammar each; (Q …) = final states
               in the order that reproduces the iteration order of the Python set `starts`
     TREES     programs `(A SYM ARG …)`
   answer   (ok HYP D2 (JOBANSWER …) SPECBITS NONCE)
     HYP        (det d2defined d2injective acyclic)
     D2         the image of every mentioned state under `__d2state__` ((Q NT) …), NT = none when undefined
     JOBANSWER  (grammar GR CONTAINS NDERIVS PROGRAMS) | (none)        before clean()
                plain jobs also carry (clean GR' CONTAINS' PROGRAMS' NDONE) | (none)
     SPECBITS   acceptance by the automaton (`DFTA.accepts`) of each tree
-/
import PS.Drv.Wire
import PS.Model.UcfgFromDfta
namespace PS.C06
open PS PS.G PS.U PS.Wire Sexp

partial def decV : Sexp → Option PyVal
  | .list [.atom "T", t] => do pure (.ty (← decTy t))
  | .list (.atom "t" :: xs) => do pure (.tup (← allSome decV xs))
  | .str s => some (.str s)
  | .atom s => do pure (.int (← s.toInt?))
  | _ => none

partial def encV : PyVal → Sexp
  | .ty t => .list [.atom "T", encTy t]
  | .int n => ofInt n
  | .str s => .str s
  | .tup xs => .list (.atom "t" :: xs.map encV)

def decRule : Sexp → Option ((Sym × List PyVal) × PyVal)
  | .list [.list [sy, .list args], d] => do pure ((← decSym sy, ← allSome decV args), ← decV d)
  | _ => none

def encNT (n : UNT PyVal) : Sexp := .list [encTy n.1, encV n.2]
def encNTn (n : UNT (List (Sym × Nat) × PyVal)) : Sexp := .list [encTy n.1, encCtx n.2.1, encV n.2.2]

def encGrammar {V : Type} (enc : UNT V → Sexp) (G : UCFG V) : Sexp :=
  .list [.list (G.starts.map enc),
         .list (G.rules.map fun e => .list [enc e.1, .list (e.2.map fun r =>
            .list [encSym r.1, .list (r.2.map fun alt => .list (alt.map enc))])])]

def bits (bs : List Bool) : Sexp := .str (String.ofList (bs.map (fun b => if b then '1' else '0')))

def encOptNat : Option Nat → Sexp
  | some n => ofNat n
  | none => .atom "none"

def progFuel {V : Type} (G : UCFG V) : Nat := G.rules.length + 2

def answerGrammar {V : Type} [DecidableEq V] (enc : UNT V → Sexp) (G : UCFG V) (trees : List Prog) : List Sexp :=
  [encGrammar enc G, bits (trees.map (contains G)),
   .list (trees.map fun t => ofNat (reduceAll G t).length), encOptNat (programs G (progFuel G))]

def runJob (fixed : Bool) (rules : AList (Sym × List PyVal) PyVal) (trees : List Prog) (cleanFuel : Nat) :
    Sexp → Option Sexp
  | .list [.atom "plain", .list fin] => do
      let A : DFTA Sym PyVal := { rules := rules, finals := ← allSome decV fin }
      match fromDFTAPy fixed A with
      | none => pure (.list [.atom "none"])
      | some G =>
        let cl := match clean G cleanFuel with
          | none => .list [.atom "none"]
          | some G' =>
            let nd := match cleanState G cleanFuel with
              | some st => st.done.length
              | none => 0
            .list [.atom "clean", encGrammar encNT G', bits (trees.map (contains G')),
                   encOptNat (programs G' (progFuel G')), ofNat nd]
        pure (.list ((.atom "grammar" :: answerGrammar encNT G trees) ++ [cl]))
  | .list [.atom "ngram", n, fuel, .list fin] => do
      let A : DFTA Sym PyVal := { rules := rules, finals := ← allSome decV fin }
      match fromDFTAWithNgramsPy fixed (← n.int?) A (← fuel.nat?) with
      | none => pure (.list [.atom "none"])
      | some G => pure (.list (.atom "grammar" :: answerGrammar encNTn G trees))
  | _ => none

def handle : Sexp → Option Sexp
  | .list [.atom "c06.case", fx, .list rules, .list jobs, .list trees, cf, nonce] => do
      let fixed ← fx.bool?
      let rules ← allSome decRule rules
      let trees ← allSome decProg trees
      let cleanFuel ← cf.nat?
      -- the hypotheses do not depend on the order of the final states: take those of the first job
      let fin0 ← match jobs with
        | .list [.atom "plain", .list fin] :: _ => allSome decV fin
        | .list [.atom "ngram", _, _, .list fin] :: _ => allSome decV fin
        | _ => some []
      let A : DFTA Sym PyVal := { rules := rules, finals := fin0 }
      let det := decide ((AList.keys A.rules).Nodup)
      let hyp := .list [ofBool det, ofBool (d2Defined fixed A), ofBool (d2Injective fixed A), ofBool (acyclicB A)]
      let d2s := .list (A.stateSet.map fun q => .list [encV q, match d2state fixed q with
        | some nt => encNT nt
        | none => .atom "none"])
      let answers ← allSome (runJob fixed rules trees cleanFuel) jobs
      pure (.list [.atom "ok", hyp, d2s, .list answers, bits (trees.map A.accepts), nonce])
  | _ => none

end PS.C06
