/- Driver glue for C15: decode requests, run the model and the spec. -/
import PS.Sexp
import PS.Model.TyExpr
import PS.Model.Parse
namespace PS.C15
open PS Sexp

def sstr (s : Str) : Sexp := .str (String.ofList s)

partial def encTy : TyO → Sexp
  | .node (.prim n) _ => .list [.atom "p", sstr n]
  | .node (.poly n) _ => .list [.atom "poly", sstr n]
  | .node (.fpoly n) ks => .list (.atom "fpoly" :: sstr n :: ks.map encTy)
  | .node .sum ks => .list (.atom "sum" :: ks.map encTy)
  | .node .arrow ks => .list (.atom "->" :: ks.map encTy)
  | .node (.generic n i) ks => .list (.atom "g" :: sstr n :: ofBool i :: ks.map encTy)

partial def decTy : Sexp → Option TyO
  | .list [.atom "p", n] => do pure (.node (.prim (← n.string?).toList) [])
  | .list [.atom "poly", n] => do pure (.node (.poly (← n.string?).toList) [])
  | .list (.atom "fpoly" :: n :: ks) => do pure (.node (.fpoly (← n.string?).toList) (← allSome decTy ks))
  | .list (.atom "sum" :: ks) => do pure (.node .sum (← allSome decTy ks))
  | .list (.atom "->" :: ks) => do pure (.node .arrow (← allSome decTy ks))
  | .list (.atom "g" :: n :: i :: ks) => do
      pure (.node (.generic (← n.string?).toList (← i.bool?)) (← allSome decTy ks))
  | _ => none

def encErr : Err → Sexp
  | .assertion => .atom "AssertionError"
  | .index => .atom "IndexError"
  | .value => .atom "ValueError"
  | .fuel => .atom "FUEL"

def encRes {α} (f : α → Sexp) : Res α → Sexp
  | .ok x => .list [.atom "ok", f x]
  | .error e => .list [.atom "err", encErr e]

partial def decExpr : Sexp → Option TyExpr
  | .list [.atom "prim", n] => do pure (.prim (← n.string?).toList)
  | .list [.atom "var", n] => do pure (.var (← n.string?).toList)
  | .list [.atom "fvar", n, r] => do pure (.fvar (← n.string?).toList (← decExpr r))
  | .list [.atom "infx", op, a, b] => do pure (.infx (← op.string?).toList (← decExpr a) (← decExpr b))
  | .list [.atom "generic", n, a] => do pure (.generic (← n.string?).toList (← decExpr a))
  | .list [.atom "optional", a] => do pure (.optional (← decExpr a))
  | .list [.atom "union", a, b] => do pure (.union (← decExpr a) (← decExpr b))
  | _ => none

partial def encProg : Prog → Sexp
  | .node (.prim n ty) _ => .list [.atom "P", sstr n, encTy ty]
  | .node (.var k ty) _ => .list [.atom "V", ofNat k, encTy ty]
  | .node (.const ty v hv) _ => .list [.atom "C", encTy ty, sstr v, ofBool hv]
  | .node .app ks => .list (.atom "app" :: ks.map encProg)

partial def decProg : Sexp → Option Prog
  | .list [.atom "P", n, ty] => do pure (.node (.prim (← n.string?).toList (← decTy ty)) [])
  | .list [.atom "V", k, ty] => do pure (.node (.var (← k.nat?) (← decTy ty)) [])
  | .list [.atom "C", ty, v, hv] => do pure (.node (.const (← decTy ty) (← v.string?).toList (← hv.bool?)) [])
  | .list (.atom "app" :: ks) => do pure (.node .app (← allSome decProg ks))
  | _ => none

def decDsl (xs : List Sexp) : Option Dsl :=
  allSome (fun x => match x with
    | .list [n, ty] => do pure ((← n.string?).toList, ← decTy ty)
    | _ => none) xs

def decConsts (xs : List Sexp) : Option Consts :=
  allSome (fun x => match x with
    | .list [k, ty, v] => do pure ((← k.string?).toList, (← decTy ty, (← v.string?).toList))
    | _ => none) xs

def handle : Sexp → Option Sexp
  -- a text: character-level model, and the token-level machine on the model's own tokenization
  -- `strict` = 1: the implementation contains the repair of C15-F4 (probed by the harness)
  | .list [.atom "c15.type", strict, t] => do
      let st := (← strict.nat?) != 0
      let s := (← t.string?).toList
      let viaToks : Res TyO := match tokenize st (s.length + 1) s with
        | .error e => .error e
        | .ok ts => autoTypeToks st ts
      pure (.list [encRes encTy (autoTypeText st s), encRes encTy viaToks])
  -- an expression of the notation with a spacing: rendered text, ⟦e⟧, wf, parser on toks e
  | .list [.atom "c15.expr", strict, e, .list sp] => do
      let st := (← strict.nat?) != 0
      let e ← decExpr e
      let sp ← allSome Sexp.nat? sp
      let spf : Spacing := fun k => sp.getD k 0
      pure (.list [sstr (render spf e), encTy e.denote, ofBool e.wf, encRes encTy (autoTypeToks st e.toks)])
  | .list [.atom "c15.parse", .list dsl, tr, .list consts, chk, text] => do
      let dsl ← decDsl dsl
      let tr ← decTy tr
      let consts ← decConsts consts
      let r := parseProgram dsl tr consts (← chk.bool?) (← text.string?).toList
      pure (.list [encRes encProg r, encRes encTy (r.map progType)])
  | .list [.atom "c15.print", .list dsl, tr, .list consts, p] => do
      let dsl ← decDsl dsl
      let tr ← decTy tr
      let consts ← decConsts consts
      let p ← decProg p
      pure (.list [sstr (printProg p), encTy (progType p),
                   ofBool (goodProg dsl tr consts p), ofBool (goodConsts consts)])
  | _ => none

end PS.C15
