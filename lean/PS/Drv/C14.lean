/- Driver glue for C14: types on the wire, instantiation (model and executable spec) and the
   single type operations.
   wire:  (P "int") (V "a") (F "a" alt…) (A in out) (G "list" arg…) (S alt…) (U) -/
import PS.Sexp
import PS.Model.Dsl
import PS.Spec.Dsl
namespace PS.C14
open PS Sexp Ty Dsl

partial def decTy : Sexp → Option Ty
  | .list [.atom "P", n] => do pure (Ty.prim (← n.string?))
  | .list [.atom "V", n] => do pure (Ty.poly (← n.string?))
  | .list (.atom "F" :: n :: alts) => do pure (Ty.fpoly (← n.string?) (← allSome decTy alts))
  | .list [.atom "A", a, b] => do pure (Ty.arrow (← decTy a) (← decTy b))
  | .list (.atom "G" :: n :: args) => do pure (Ty.generic (← n.string?) (← allSome decTy args))
  | .list (.atom "S" :: alts) => do pure (Ty.sum (← allSome decTy alts))
  | .list [.atom "U"] => some Ty.unknown
  | _ => none

partial def encTy : Ty → Sexp
  | .node l ks =>
    match l with
    | .prim n => .list [.atom "P", .str n]
    | .poly n => .list [.atom "V", .str n]
    | .fpoly n => .list (.atom "F" :: .str n :: ks.map encTy)
    | .arrow => .list (.atom "A" :: ks.map encTy)
    | .generic n => .list (.atom "G" :: .str n :: ks.map encTy)
    | .sum => .list (.atom "S" :: ks.map encTy)
    | .unknown => .list [.atom "U"]

def decPrim : Sexp → Option Prim
  | .list [n, t] => do pure ((← n.string?), (← decTy t))
  | _ => none

def encPrim (p : Prim) : Sexp := .list [.str p.1, encTy p.2]
def encPrims (L : List Prim) : Sexp := .list (L.map encPrim)
def encTys (L : List Ty) : Sexp := .list (L.map encTy)

def handle : Sexp → Option Sexp
  -- `fx` = 1: the implementation contains the repair of C14-F4 (probed by the harness)
  | .list [.atom "c14.inst", fx, b, .list ps] => do
      let fx := (← fx.nat?) != 0
      let b ← b.nat?
      let P ← allSome decPrim ps
      let U := typeUniverse (basicTypes P)
      let pre := sumPass (varPass U b P)
      let once := unitPass fx pre
      pure (.list [
        .list [.atom "model", encPrims once],
        .list [.atom "twice", encPrims (instantiate fx once b)],
        .list [.atom "spec", encPrims (specInstances P b)],
        .list [.atom "universe", encTys U],
        .list [.atom "specuniverse", encTys (specUniverse P)],
        .list [.atom "unitsafe", ofBool (pre.all (fun p => unitSafe p.2))],
        .list [.atom "wf", ofBool (P.all (fun p => Ty.wf p.2))]])
  | .list [.atom "c14.ty", fx, t] => do
      let fx := (← fx.nat?) != 0
      let t ← decTy t
      let (bs, vs) := (dedup (basics t), dedup (polys t))
      pure (.list [
        .list [.atom "str", .str (Ty.toString t)],
        .list [.atom "size", ofNat (Ty.size t)],
        .list [.atom "poly", ofBool (Ty.isPolymorphic t)],
        .list [.atom "args", encTys (Ty.arguments t)],
        .list [.atom "ret", encTy (Ty.returns t)],
        .list [.atom "basics", encTys bs],
        .list [.atom "vars", encTys vs],
        .list [.atom "versions", encTys (versions t)],
        .list [.atom "nounit", encTy (withoutUnit fx t)],
        .list [.atom "dropunit", encTy (dropUnit t)],
        .list [.atom "hassum", ofBool (Ty.hasSum t)]])
  | .list [.atom "c14.rel", q, o] => do
      let q ← decTy q
      let o ← decTy o
      pure (.list [
        .list [.atom "isinst", ofBool (isInst o q)],
        .list [.atom "canbe", ofBool (canBe q o)]])
  | .list [.atom "c14.unify", n, v, t] => do
      pure (encTy (unify (← n.string?) (← decTy v) (← decTy t)))
  | _ => none

end PS.C14
