/- Driver glue for C05.
   (c05.sharpen ("C05-F3" …: fixes the model follows) CFG (prims…) (vars…) ("constraint" … in processing order) (none)|(some "sketch")
                (program …) nonce)
     → (ok (parsed…) parsedSketch (base rules) (wf sigFunctional exact) (steps…)
           modelAccept modelReadable spec baseAccept inGrammar nonce)
   (c05.parse (prims…) (vars…) "string" nonce) → (ok token|error nonce)
   (c05.tokens CFG (tok…) (none)|(some tok) (program…) nonce): same as sharpen on given tokens. -/
import PS.Sexp
import PS.Drv.Wire
import PS.Model.ConstraintsParse
import PS.Spec.Constraints
namespace PS.C05
open PS PS.G Sexp PS.Wire

def symText (s : Sym) : String :=
  match s.kind with
  | .prim => s.name
  | .var => "var" ++ toString s.idx
  | .const => "<" ++ s.ty.toStr ++ ">"

/-- a letter is a (name, type) pair: one name may be used at several types -/
def symTextTy (s : Sym) : String := symText s ++ ":" ++ s.ty.toStr

partial def tokSexp : Tok Sym → Sexp
  | .any => .list [.atom "any"]
  | .allow S => .list (.atom "allow" :: S.map (fun s => .str (symTextTy s)))
  | .forbidSub S => .list (.atom "forbid" :: S.map (fun s => .str (symTextTy s)))
  | .forceSub S => .list (.atom "force" :: S.map (fun s => .str (symTextTy s)))
  | .atMost S n => .list [.atom "atmost", .list (S.map (fun s => .str (symTextTy s))), ofNat n]
  | .atLeast S n => .list [.atom "atleast", .list (S.map (fun s => .str (symTextTy s))), ofNat n]
  | .func H args => .list (.atom "func" :: .list (H.map (fun s => .str (symTextTy s))) :: args.map tokSexp)

/-- tokens sent by name: the names are resolved against the symbol lists -/
partial def decTok (syms : List Sym) : Sexp → Option (Tok Sym)
  | .list [.atom "any"] => some .any
  | .list (.atom "allow" :: ns) => do pure (.allow (← names ns))
  | .list (.atom "forbid" :: ns) => do pure (.forbidSub (← names ns))
  | .list (.atom "force" :: ns) => do pure (.forceSub (← names ns))
  | .list [.atom "atmost", .list ns, n] => do pure (.atMost (← names ns) (← n.nat?))
  | .list [.atom "atleast", .list ns, n] => do pure (.atLeast (← names ns) (← n.nat?))
  | .list (.atom "func" :: .list ns :: args) => do pure (.func (← names ns) (← allSome (decTok syms) args))
  | _ => none
where names (ns : List Sexp) : Option (List Sym) := do
  let ss ← allSome Sexp.string? ns
  pure (syms.filter (fun s => ss.contains (symText s)))

def bits (bs : List Bool) : Sexp := .str (String.ofList (bs.map (fun b => if b then '1' else '0')))

def stText (q : BaseSt) : Sexp := .list [.str q.1.toStr, ofNat q.2]

def ruleSexp (r : (Sym × List BaseSt) × BaseSt) : Sexp :=
  .list [.str (symText r.1.1), .list (r.1.2.map stText), stText r.2]

abbrev A1 := DFTA Sym (St BaseSt)
abbrev AU := DFTA Sym (UState BaseSt)

def stats1 (A : A1) : Sexp := .list [ofNat A.rules.length, ofNat A.finals.eraseDups.length]
def statsU (A : AU) : Sexp := .list [ofNat A.rules.length, ofNat A.states.length, ofNat A.finals.eraseDups.length]

/-- the loop of `addDftaConstraints`, re-run step by step for the statistics (same functions) -/
def stepStats (base : A1) : List (Tok Sym) → Option AU → List Sexp → Option (Option AU × List Sexp)
  | [], d, acc => some (d, acc)
  | c :: cs, d, acc =>
    if skipped c then stepStats base cs d (acc ++ [.list [.atom "skip"]]) else
    match processTop base c true with
    | none => none
    | some a =>
      match combine d a with
      | none => none
      | some p =>
        match reduceMin p with
        | none => none
        | some d' => stepStats base cs (some d') (acc ++ [.list [stats1 a, ofNat p.rules.length, statsU d']])

def sketchStats (base : A1) (d : Option AU) (sk : Tok Sym) : Option Sexp :=
  match processTop base sk false with
  | none => none
  | some a =>
    match combine d a with
    | none => none
    | some p =>
      match reduceMin p with
      | none => none
      | some d' => some (.list [stats1 a, ofNat p.rules.length, statsU d'])

def readable {Q : Type} [DecidableEq Q] (A : DFTA Sym Q) (t : Prog) : Bool := (A.run t).isSome

def answerTokens (G : CFG) (toks : List (Tok Sym)) (sk : Option (Tok Sym)) (ts : List Prog)
    (hdr : List Sexp) (nonce : Sexp) : Sexp :=
  let D := cfg2dfta G
  let base := liftBase D
  let hyp := .list [ofBool (wfCFG G), ofBool (sigFunctional G), ofBool (cfg2dftaExact G)]
  let baseS := .list (D.rules.map ruleSexp)
  let inG := fun t => gen G t G.start
  let specBits := bits (ts.map (sharpenSpec inG toks sk))
  let baseBits := bits (ts.map D.accepts)
  let inGBits := bits (ts.map inG)
  match stepStats base toks none [] with
  | none => .list ([.atom "fail", .str "constraint"] ++ hdr ++ [baseS, hyp, specBits, baseBits, inGBits, nonce])
  | some (d, steps) =>
    let skS : Option (Option Sexp) := match sk with
      | none => some none
      | some s => (sketchStats base d s).map some
    match skS, addDftaConstraints base toks sk with
    | some ss, some R =>
      .list ([.atom "ok"] ++ hdr ++ [baseS, hyp, .list steps, (ss.getD (.list [.atom "nosketch"])),
        statsU R, bits (ts.map R.accepts), bits (ts.map (readable R)), specBits, baseBits,
        bits (ts.map (sharpenSpec D.accepts toks sk)), nonce])
    | _, _ => .list ([.atom "fail", .str "sketch"] ++ hdr ++ [baseS, hyp, specBits, baseBits, inGBits, nonce])

def optTokSexp : Option (Tok Sym) → Sexp
  | some t => tokSexp t
  | none => .atom "error"

def handle : Sexp → Option Sexp
  | .list [.atom "c05.sharpen", .list flags, g, .list prims, .list vars, .list cs, sk, .list progs, nonce] => do
      let G ← decCFG g
      let fl ← allSome Sexp.string? flags
      let Sy : Syms := { prims := ← allSome decSym prims, vars := ← allSome decSym vars,
                         fixF3 := fl.contains "C05-F3", fixF4 := fl.contains "C05-F4",
                         fixF2 := fl.contains "C05-F2", fixF5 := fl.contains "C05-F5" }
      let cs ← allSome Sexp.string? cs
      let ts ← allSome decProg progs
      let parsed := cs.map (fun c => parse Sy c.toList)
      let skP : Option (Option (Tok Sym)) ← match sk with
        | .list [.atom "none"] => some none
        | .list [.atom "some", s] => do pure (some (parse Sy (← s.string?).toList))
        | _ => none
      let hdr := [.list (parsed.map optTokSexp), match skP with
        | none => .atom "none"
        | some p => optTokSexp p]
      match allSome id parsed, skP with
      | some toks, none => pure (answerTokens G toks none ts hdr nonce)
      | some toks, some (some s) => pure (answerTokens G toks (some s) ts hdr nonce)
      | _, _ => pure (.list ([.atom "fail", .str "parse"] ++ hdr ++ [nonce]))
  | .list [.atom "c05.lang", .list flags, g, .list prims, .list vars, .list cs, sk, .list progs, nonce] => do
      -- the language of the model's result BY THEOREM C05_sharpen (no automaton is built beyond the base one):
      -- parsed tokens, base table, sharpenSpec (cfg2dfta G).accepts tokens sketch
      let G ← decCFG g
      let fl ← allSome Sexp.string? flags
      let Sy : Syms := { prims := ← allSome decSym prims, vars := ← allSome decSym vars,
                         fixF3 := fl.contains "C05-F3", fixF4 := fl.contains "C05-F4",
                         fixF2 := fl.contains "C05-F2", fixF5 := fl.contains "C05-F5" }
      let cs ← allSome Sexp.string? cs
      let ts ← allSome decProg progs
      let parsed := cs.map (fun c => parse Sy c.toList)
      let skP : Option (Option (Tok Sym)) ← match sk with
        | .list [.atom "none"] => some none
        | .list [.atom "some", s] => do pure (some (parse Sy (← s.string?).toList))
        | _ => none
      let hdr := [.list (parsed.map optTokSexp), match skP with
        | none => .atom "none"
        | some p => optTokSexp p]
      let D := cfg2dfta G
      let toksO : Option (List (Tok Sym) × Option (Tok Sym)) := match allSome id parsed, skP with
        | some toks, none => some (toks, none)
        | some toks, some (some s) => some (toks, some s)
        | _, _ => none
      match toksO with
      | none => pure (.list ([.atom "fail", .str "parse"] ++ hdr ++ [nonce]))
      | some (toks, skT) =>
        -- does the model raise?  a processed local rule must be a function pattern; a function pattern needs a final state
        let localOK := toks.all (fun c => skipped c || (match c with | .func _ _ => !D.finals.isEmpty | _ => false))
        let sketchOK := match skT with
          | some (.func _ _) => !D.finals.isEmpty
          | _ => true
        if localOK && sketchOK then
          pure (.list ([.atom "ok"] ++ hdr ++ [.list (D.rules.map ruleSexp), bits (ts.map (sharpenSpec D.accepts toks skT)), nonce]))
        else pure (.list ([.atom "fail", .str "raises"] ++ hdr ++ [nonce]))
  | .list [.atom "c05.tokens", g, .list syms, .list toks, sk, .list progs, nonce] => do
      -- specification only (no automaton): sharpenSpec on the given tokens, the hypotheses, L(G)
      let G ← decCFG g
      let syms ← allSome decSym syms
      let toks ← allSome (decTok syms) toks
      let ts ← allSome decProg progs
      let skT : Option (Tok Sym) ← match sk with
        | .list [.atom "none"] => some none
        | .list [.atom "some", s] => do pure (some (← decTok syms s))
        | _ => none
      let inG := fun t => gen G t G.start
      pure (.list [.atom "ok", .list [ofBool (wfCFG G), ofBool (sigFunctional G), ofBool (cfg2dftaExact G)],
        bits (ts.map (sharpenSpec inG toks skT)), bits (ts.map inG),
        ofBool ((toks ++ skT.toList).all (noRepeatedHead [])), nonce])
  | .list [.atom "c05.parse", .list prims, .list vars, s, nonce] => do
      let Sy : Syms := { prims := ← allSome decSym prims, vars := ← allSome decSym vars }
      let s ← s.string?
      pure (.list [.atom "ok", optTokSexp (parse Sy s.toList), nonce])
  | _ => none

end PS.C05
