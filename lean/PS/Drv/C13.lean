/- Driver glue for C13: model constructors, specification bits, the verified checkers
   `subOK` / `closedOK` evaluated on the implementation's actual tables (the certificates -
   outcome sets, dead sets, ranks - are computed here by unverified code and CHECKED by the
   verified predicates), product. -/
import PS.Drv.Wire
import PS.Model.Ttcfg
namespace PS.C13
open PS PS.G PS.T PS.Wire Sexp

/-! ### codecs -/
structure Codec (α : Type) where
  dec : Sexp → Option α
  enc : α → Sexp

def ctxC : Codec Ctx := ⟨decCtx, encCtx⟩
def sizeC : Codec (Nat × Nat) :=
  ⟨fun s => match s with | .list [a, b] => do pure (← a.nat?, ← b.nat?) | _ => none,
   fun p => .list [ofNat p.1, ofNat p.2]⟩
def natC : Codec Nat := ⟨Sexp.nat?, ofNat⟩
def strC : Codec String := ⟨Sexp.string?, fun s => .str s⟩
def pairC {α β : Type} (a : Codec α) (b : Codec β) : Codec (α × β) :=
  ⟨fun s => match s with | .list [x, y] => do pure (← a.dec x, ← b.dec y) | _ => none,
   fun p => .list [a.enc p.1, b.enc p.2]⟩

section Generic
variable {S T : Type} [DecidableEq S] [DecidableEq T]

def decNTg (cs : Codec S) (ct : Codec T) : Sexp → Option (NT S T)
  | .list [t, s, st] => do pure (← decTy t, (← cs.dec s, ← ct.dec st))
  | _ => none
def encNTg (cs : Codec S) (ct : Codec T) (n : NT S T) : Sexp := .list [encTy n.1, cs.enc n.2.1, ct.enc n.2.2]

def decArgG (cs : Codec S) : Sexp → Option (Ty × S)
  | .list [t, s] => do pure (← decTy t, ← cs.dec s)
  | _ => none
def encArgG (cs : Codec S) (a : Ty × S) : Sexp := .list [encTy a.1, cs.enc a.2]

def decTTg (cs : Codec S) (ct : Codec T) : Sexp → Option (TT S T)
  | .list [.atom "tt", st, .list entries] => do
      let start ← decNTg cs ct st
      let rules ← allSome (fun e => match e with
        | .list [nt, .list rs] => do
            pure (← decNTg cs ct nt, ← allSome (fun r => match r with
              | .list [sy, .list args, st] => do pure (← decSym sy, (← allSome (decArgG cs) args, ← ct.dec st))
              | _ => none) rs)
        | _ => none) entries
      pure ⟨start, rules⟩
  | _ => none

def encTTg (cs : Codec S) (ct : Codec T) (G : TT S T) : Sexp :=
  .list [.atom "tt", encNTg cs ct G.start,
    .list (G.rules.map fun e => .list [encNTg cs ct e.1,
      .list (e.2.map fun r => .list [encSym r.1, .list (r.2.1.map (encArgG cs)), ct.enc r.2.2])])]

/-! ### certificates (unverified search; the results are checked by `subOK` / `closedOK`) -/

def addNew {α : Type} [DecidableEq α] (l : List α) (xs : List α) : List α :=
  xs.foldl (fun acc x => if acc.contains x then acc else acc ++ [x]) l

/-- lenient chain: the non-terminals touched and the end states, given outcome sets -/
def lchain (outs : AList (NT S T) (List T)) : List (Ty × S) → List T → List (NT S T) → List (NT S T) × List T
  | [], V, touched => (touched, V)
  | a :: as, V, touched =>
    let nts := V.map (fun v => ((a.1, (a.2, v)) : NT S T))
    lchain outs as (addNew [] (nts.flatMap (outsOf outs))) (touched ++ nts)

/-- reference semantics by fixpoint: universe of non-terminals reachable through `rows` and
    the end states of each -/
partial def semFix (rows : NT S T → Row S T) (univ : List (NT S T)) (outs : AList (NT S T) (List T)) (fuel : Nat) :
    List (NT S T) × AList (NT S T) (List T) :=
  let step := univ.foldl (fun (acc : List (NT S T) × AList (NT S T) (List T) × Bool) nt =>
    (rows nt).foldl (fun acc r =>
      let (touched, V) := lchain acc.2.1 r.2.1 [r.2.2] []
      let u' := addNew acc.1 touched
      let old := outsOf acc.2.1 nt
      let new := addNew old V
      if new.length = old.length && u'.length = acc.1.length then acc
      else (u', (if new.length = old.length then acc.2.1 else AList.insert nt new acc.2.1), true)) acc)
    (univ, outs, false)
  if step.2.2 && fuel > 0 then semFix rows step.1 step.2.1 (fuel - 1) else (step.1, step.2.1)

def tableRows (G : TT S T) (nt : NT S T) : Row S T := (AList.lookup nt G.rules).getD []

/-- layering by longest derivation -/
partial def ranks (G : TT S T) (outs : AList (NT S T) (List T)) (rk : AList (NT S T) Nat) (level : Nat) :
    AList (NT S T) Nat :=
  let new := G.rules.filterMap (fun e =>
    if AList.contains e.1 rk then none
    else if e.2.all (fun r => (lchain outs r.2.1 [r.2.2] []).1.all (fun nt =>
        AList.contains nt rk || !(AList.contains nt G.rules))) then some e.1 else none)
  if new.isEmpty || level > 100000 then rk
  else ranks G outs (new.foldl (fun a n => AList.insert n level a) rk) (level + 1)

/-- certificate + verdict of `closedOK` for a table -/
def closedVerdict (G : TT S T) : Bool × Nat :=
  let sem := semFix (tableRows G) (G.rules.map (·.1)) [] 100000
  let rk := ranks G sem.2 [] 0
  (closedOK G sem.2 rk, rk.length)

/-- certificate + verdict of `subOK rows G` -/
def subVerdict (rows : NT S T → Row S T) (G : TT S T) : Bool × Nat :=
  let sem := semFix rows (addNew [G.start] (G.rules.map (·.1))) [] 100000
  let dead := sem.1.filter (fun nt => !(AList.contains nt G.rules))
  (subOK rows G sem.2 dead, dead.length)

def encRes {α : Type} (f : α → Sexp) : Res α → Sexp
  | .ok a => .list [.atom "ok", f a]
  | .fuel => .list [.atom "fuel"]
  | .keyError => .list [.atom "keyError"]

def encOptNat : Option Nat → Sexp
  | some n => ofNat n
  | none => .atom "none"

end Generic

def decDsl : Sexp → Option Dsl
  | .list [.list prims, .list forb] => do
      let prims ← allSome decSym prims
      let forb ← allSome (fun e => match e with
        | .list (.list [n, i] :: names) => do pure ((← n.string?, ← i.nat?), ← allSome Sexp.string? names)
        | _ => none) forb
      pure ⟨prims, forb⟩
  | _ => none

/-- the spec bits of one term: statement's language, language through the n-gram, well-typed -/
def specBitsSize (dsl : Dsl) (req : Ty) (n : Int) (k : Nat) (t : Prog) : List Sexp :=
  [ofBool (Sized dsl req k t), ofBool (SizedVis dsl req n k t), ofBool (wtT dsl req some t none req.returns),
   ofNat (Tree.size t)]
def specBitsOcc (dsl : Dsl) (req : Ty) (n : Int) (name : String) (k : Nat) (t : Prog) : List Sexp :=
  [ofBool (AtMostOcc dsl req name k t), ofBool (AtMostOccVis dsl req n name k t),
   ofBool (wtT dsl req some t none req.returns), ofNat (occ name t)]

section Check
variable {S T : Type} [DecidableEq S] [DecidableEq T]

/-- everything the harness wants to know about an implementation table built by `B` -/
def checkTable (B : Builder S T) (dsl : Dsl) (req : Ty) (G : TT S T) (progs : List Prog)
    (spec : Prog → List Sexp) (fuel : Nat) : Sexp :=
  let rows := rowDict B dsl.prims req
  let sub := subVerdict rows G
  let cl := closedVerdict G
  .list [ofBool (sub.1 && G.start == startOf B req), ofBool cl.1, ofNat sub.2,
    encOptNat (programs G fuel), encOptNat (programsFixed G fuel),
    .list (progs.map fun t => .list ([ofBool (PS.G.contains G t), ofBool (inLang G t),
      ofBool (run (fun nt P => AList.lookup P (rows nt)) t (req.returns, B.init.1) B.init.2).isSome] ++ spec t)),
    encOptNat (programsR G fuel)]

end Check

def handle : Sexp → Option Sexp
  -- model constructors
  | .list [.atom "c13.size", d, r, k, n, actual, sk, fuel] => do
      let dsl ← decDsl d
      let req ← decTy r
      let fuel ← fuel.nat?
      let k ← k.nat?
      let n ← n.int?
      let actual ← actual.bool?
      let sk ← sk.bool?
      let res := sizeConstraint dsl req k n actual sk fuel
      pure (.list [encRes (fun g => .list [encTTg ctxC sizeC g.G, encOptNat (programs g.G fuel), encTy g.typeRequest]) res,
        match saturationTable (sizeBuilder dsl n k actual) dsl.prims req sk fuel with
        | some g => encTTg ctxC sizeC g
        | none => .atom "none",
        ofBool (firstOrder dsl)])
  | .list [.atom "c13.atmost", d, r, name, k, n, sk, fuel] => do
      let dsl ← decDsl d
      let req ← decTy r
      let fuel ← fuel.nat?
      let k ← k.nat?
      let n ← n.int?
      let name ← name.string?
      let sk ← sk.bool?
      let res := atMostK dsl req name k n sk fuel
      pure (.list [encRes (fun g => .list [encTTg ctxC natC g.G, encOptNat (programs g.G fuel), encTy g.typeRequest]) res,
        match saturationTable (atMostBuilder dsl n name k) dsl.prims req sk fuel with
        | some g => encTTg ctxC natC g
        | none => .atom "none",
        ofBool (firstOrder dsl)])
  -- checkers + membership on the implementation's table
  | .list [.atom "c13.checksize", d, r, k, n, actual, g, .list progs, fuel] => do
      let dsl ← decDsl d
      let req ← decTy r
      let G ← decTTg ctxC sizeC g
      let ps ← allSome decProg progs
      pure (checkTable (sizeBuilder dsl (← n.int?) (← k.nat?) (← actual.bool?)) dsl req G ps
        (specBitsSize dsl req (← n.int?) (← k.nat?)) (← fuel.nat?))
  | .list [.atom "c13.checkatmost", d, r, name, k, n, g, .list progs, fuel] => do
      let dsl ← decDsl d
      let req ← decTy r
      let G ← decTTg ctxC natC g
      let ps ← allSome decProg progs
      pure (checkTable (atMostBuilder dsl (← n.int?) (← name.string?) (← k.nat?)) dsl req G ps
        (specBitsOcc dsl req (← n.int?) (← name.string?) (← k.nat?)) (← fuel.nat?))
  -- product of two tables with opaque states; `gi` = the implementation's product table
  | .list [.atom "c13.mul", g1, g2, gi, .list progs, fuel] => do
      let G1 ← decTTg strC strC g1
      let G2 ← decTTg strC strC g2
      let pc := pairC strC strC
      let GI ← decTTg pc pc gi
      let ps ← allSome decProg progs
      let fuel ← fuel.nat?
      let raw := mulRaw G1 G2
      let sub := subVerdict (tableRows raw) GI
      let cl := closedVerdict GI
      pure (.list [
        encRes (fun g => .list [encTTg pc pc g, encOptNat (programs g fuel), encTy (guessTypeRequest raw)]) (mul G1 G2 fuel),
        encRes (fun g => .list [encTTg pc pc g, encOptNat (programsFixed g fuel)]) (cleanFixed raw fuel),
        encOptNat (programsFixed GI fuel),
        ofBool (sub.1 && GI.start == raw.start), ofBool cl.1, encOptNat (programs GI fuel),
        ofBool (typedOK G1 && typedOK G2 && G1.start.1 == G2.start.1),
        .list (ps.map fun t => .list [ofBool (PS.G.contains G1 t), ofBool (PS.G.contains G2 t),
          ofBool (PS.G.contains GI t), ofBool (inLang raw t)]),
        encOptNat (programsR GI fuel)])
  -- certificate check: a ranking of the types for `at_most_k` (hypothesis of C13_atmost_total_partial)
  | .list [.atom "c13.ranked", d, name, .list rk] => do
      let dsl ← decDsl d
      let name ← name.string?
      let rkT ← allSome (fun e => match e with
        | .list [t, n] => do pure ((← decTy t), (← n.nat?))
        | _ => none) rk
      pure (ofBool (uncountedRanked dsl name rkT))
  -- clean / programs of an arbitrary table with opaque states
  | .list [.atom "c13.clean", g, fuel] => do
      let G ← decTTg strC strC g
      let fuel ← fuel.nat?
      pure (.list [encRes (fun g => .list [encTTg strC strC g, encOptNat (programs g fuel)]) (clean G fuel),
        encOptNat (programs G fuel), ofBool (closedVerdict G).1])
  | _ => none

end PS.C13
