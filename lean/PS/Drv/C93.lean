/- Driver glue for bee search (part `bee` of C02, C03, C12): requests `(bee.<op> …)`.
   Symbols and non-terminal contexts are abstracted to the integers the harness assigns by Python
   equality; a symbol `k` is `Sym.prim "k" unknown`. -/
import PS.Sexp
import PS.Model.Enum.BeeSearch
namespace PS.C93
open PS PS.G Sexp

def sym (k : Nat) : Sym := Sym.prim (toString k) Ty.unknown

partial def decProg : Sexp → Option Prog
  | .list (h :: args) => do pure (.node (sym (← h.nat?)) (← allSome decProg args))
  | _ => none

partial def encProg : Prog → Sexp
  | .node h args => .list (.atom h.name :: args.map encProg)

abbrev DNT := NT Nat Unit

def decNT : Sexp → Option DNT
  | .list [t, s] => do pure (Ty.base (← t.string?), (← s.nat?, ()))
  | _ => none

def encNT (nt : DNT) : Sexp :=
  .list [.str (match nt.1 with | .base n => n | _ => "?"), ofNat nt.2.1]

def decArg : Sexp → Option (Ty × Nat)
  | .list [t, s] => do pure (Ty.base (← t.string?), ← s.nat?)
  | _ => none

/-- rule `(sym (arg …) cost)` -/
def decRule : Sexp → Option ((Sym × (List (Ty × Nat) × Unit)) × Int)
  | .list [k, .list args, w] => do pure ((sym (← k.nat?), (← allSome decArg args, ())), ← w.int?)
  | _ => none

def decGrammar : Sexp → Option (TT Nat Unit × AList DNT (AList Sym Int))
  | .list [.atom "cfg", st, .list entries] => do
      let start ← decNT st
      let es ← allSome (fun e => match e with
        | .list [nt, .list rs] => do pure (← decNT nt, ← allSome decRule rs)
        | _ => none) entries
      pure (⟨start, es.map fun e => (e.1, e.2.map (·.1))⟩,
            es.map fun e => (e.1, e.2.map fun r => (r.1.1, r.2)))
  | _ => none

inductive Act where
  | take (k : Nat)
  | merge (p : Prog) (ty : Ty)

def decAct : Sexp → Option Act
  | .list [.atom "take", k] => do pure (.take (← k.nat?))
  | .list [.atom "merge", p, t] => do pure (.merge (← decProg p) (Ty.base (← t.string?)))
  | _ => none

def runScript (E : Bee.Env Nat) (fuel : Nat) :
    List Act → Bee.Gen Nat → List Sexp → Option (Bee.Gen Nat × List Sexp)
  | [], g, out => some (g, out)
  | .merge p ty :: rest, g, out => runScript E fuel rest (Bee.merge E g p ty) out
  | .take k :: rest, g, out =>
    match Bee.take E fuel k g [] with
    | none => none
    | some (g', ys, fin) => runScript E fuel rest g' (out ++ [.list [.list (ys.map encProg), ofBool fin]])

def encOptNat : Option Nat → Sexp
  | none => .atom "none"
  | some k => ofNat k

def phaseTag : Bee.Phase Nat → Sexp
  | .init => .atom "init"
  | .outer => .atom "outer"
  | .forS .. => .atom "forS"
  | .whileQ .. => .atom "whileQ"
  | .pend _ _ _ _ _ _ pending => .list [.atom "pend", ofNat pending.length]
  | .done => .atom "done"

def report (E : Bee.Env Nat) (g : Bee.Gen Nat) (out : List Sexp) (probes : List Prog) : Sexp :=
  let s := g.st
  .list [.atom "ok", .list out,
    .list (s.costList.map ofInt),
    .list (s.bank.map fun e => .list [encNT e.1, .list (e.2.map fun b => .list [ofNat b.1, .list (b.2.map encProg)])]),
    .list (s.queued.map fun e => .list [encNT e.1, .list (e.2.map fun h => .list [ofInt h.cost, .list (h.combo.map ofNat), .atom h.P.name])]),
    .list (s.delayed.map fun e => .list [encNT e.1, .list (e.2.map fun d => .list [.list (d.1.map ofNat), .atom d.2.1.name, encOptNat d.2.2])]),
    .list (s.deleted.map encProg),
    .list (s.maxIndex.map fun e => .list [encNT e.1, ofNat e.2]),
    ofBool s.hasMerged, ofInt g.progs, ofNat g.failed, phaseTag g.phase,
    -- specification on the probes: membership and cost
    .list (probes.map fun p => .list [ofBool (gen E.G p E.G.start), ofInt (Bee.pcost E p E.G.start)]),
    -- decidable hypotheses of the theorems, evaluated on the case
    .list [ofBool (Bee.hasCosts E), ofBool (Bee.nonnegCosts E), ofBool (Bee.posArgCosts E), ofBool (Bee.nonnegW E),
           ofBool (Bee.dictOK E), ofBool (Bee.initFrontOK E), ofBool (Bee.initCoverOK E)]]

def handleRun (gr rej script fuel progs probes fix maxc : Sexp) : Option Sexp := do
  let fix ← fix.bool?
  let maxc : Option Int := maxc.int?
  let (G, W) ← decGrammar gr
  let rejected ← allSome decProg (← rej.list?)
  let acts ← allSome decAct (← script.list?)
  let fuel ← fuel.nat?
  let probes ← allSome decProg (← probes.list?)
  let E : Bee.Env Nat := { G := G, W := W, filter := fun p => !rejected.contains p, progs0 := ← progs.int?,
                           fixF11 := fix, maxCost := maxc }
  match Bee.Gen.new E with
  | none => pure (.list [.atom "undef", .atom "init"])
  | some g0 =>
    match runScript E fuel acts g0 [] with
    | none => pure (.list [.atom "undef", .atom "run"])
    | some (g, out) => pure (report E g out probes)

def handle : Sexp → Option Sexp
  | .list [.atom "bee.run", gr, rej, script, fuel, progs, probes] => handleRun gr rej script fuel progs probes (.atom "0") (.atom "none")
  | .list [.atom "bee.run", gr, rej, script, fuel, progs, probes, fix, maxc] => handleRun gr rej script fuel progs probes fix maxc
  | _ => none

end PS.C93
