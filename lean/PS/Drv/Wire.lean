/- Wire decoding/encoding of grammar objects (driver glue; shared by C01, C04, C17, …). -/
import PS.Sexp
import PS.Model.Cfg
namespace PS.Wire
open PS PS.G Sexp

partial def decTy : Sexp → Option Ty
  | .list [.atom "b", n] => do pure (.base (← n.string?))
  | .list [.atom "->", a, b] => do pure (.arrow (← decTy a) (← decTy b))
  | .list [.atom "g", n, a] => do pure (.gen (← n.string?) (← decTy a))
  | .list [.atom "unk"] => some .unknown
  | _ => none

partial def encTy : Ty → Sexp
  | .base n => .list [.atom "b", .str n]
  | .arrow a b => .list [.atom "->", encTy a, encTy b]
  | .gen n a => .list [.atom "g", .str n, encTy a]
  | .unknown => .list [.atom "unk"]

def decSym : Sexp → Option Sym
  | .list [.atom "P", n, t] => do pure (Sym.prim (← n.string?) (← decTy t))
  | .list [.atom "V", i, t] => do pure (Sym.var (← i.nat?) (← decTy t))
  | .list [.atom "C", t, v] => do pure (Sym.const (← decTy t) (← v.string?))
  | _ => none

def encSym (s : Sym) : Sexp :=
  match s.kind with
  | .prim => .list [.atom "P", .str s.name, encTy s.ty]
  | .var => .list [.atom "V", ofNat s.idx, encTy s.ty]
  | .const => .list [.atom "C", encTy s.ty, .str s.name]

partial def decProg : Sexp → Option Prog
  | .list (.atom "A" :: h :: args) => do pure (.node (← decSym h) (← allSome decProg args))
  | _ => none

partial def encProg : Prog → Sexp
  | .node h args => .list (.atom "A" :: encSym h :: args.map encProg)

/-- printed form, as `str(program)` -/
partial def showProg : Prog → String
  | .node h [] => match h.kind with
    | .prim => h.name
    | .var => "var" ++ toString h.idx
    | .const => if h.name == "" then "<" ++ h.ty.toStr ++ ">" else h.name
  | .node h args => "(" ++ " ".intercalate (showProg (.node h []) :: args.map showProg) ++ ")"

def decCtx (s : Sexp) : Option (List (Sym × Nat)) := do
  let l ← s.list?
  allSome (fun e => match e with
    | .list [sy, i] => do pure (← decSym sy, ← i.nat?)
    | _ => none) l

def encCtx (c : List (Sym × Nat)) : Sexp := .list (c.map fun p => .list [encSym p.1, ofNat p.2])

def decArg : Sexp → Option (Ty × CFGState)
  | .list [t, c, d] => do pure (← decTy t, (← decCtx c, ← d.nat?))
  | _ => none

def encArg (a : Ty × CFGState) : Sexp := .list [encTy a.1, encCtx a.2.1, ofNat a.2.2]

def decNT (s : Sexp) : Option CNT := do let a ← decArg s; pure (toNT a)
def encNT (n : CNT) : Sexp := encArg (n.1, n.2.1)

def decRule : Sexp → Option (Sym × (List (Ty × CFGState) × Unit))
  | .list [sy, .list args] => do pure (← decSym sy, (← allSome decArg args, ()))
  | _ => none

def encRule (r : Sym × (List (Ty × CFGState) × Unit)) : Sexp :=
  .list [encSym r.1, .list (r.2.1.map encArg)]

def decCFG : Sexp → Option CFG
  | .list [.atom "cfg", st, .list entries] => do
      let start ← decNT st
      let rules ← allSome (fun e => match e with
        | .list [nt, .list rs] => do pure (← decNT nt, ← allSome decRule rs)
        | _ => none) entries
      pure ⟨start, rules⟩
  | _ => none

def encCFG (G : CFG) : Sexp :=
  .list [.atom "cfg", encNT G.start, .list (G.rules.map fun e => .list [encNT e.1, .list (e.2.map encRule)])]

def decParams : Sexp → Option Params
  | .list [.atom "params", .list prims, .list forb, req, maxD, minV, ng, rec, .list consts] => do
      let prims ← allSome decSym prims
      let forb ← allSome (fun e => match e with
        | .list (.list [n, i] :: names) => do pure ((← n.string?, ← i.nat?), ← allSome Sexp.string? names)
        | _ => none) forb
      pure { prims := prims, forbidden := forb, request := ← decTy req, maxDepth := ← maxD.nat?,
             minVarDepth := ← minV.nat?, nGram := ← ng.int?, recursive := ← rec.bool?,
             constTypes := ← allSome decTy consts }
  | _ => none

end PS.Wire
