/- Driver glue for C19: decodes one request `(c19.run …)` (layer description, tensor as IEEE-754
   bit patterns, programs), runs the model of the prediction layers on `Float` and answers with
   model outputs (tables, tags, converted probabilities, log-probabilities, encodings) and
   spec outputs (normalisation values, derivations, indicator vectors, derivation weights). -/
import PS.Sexp
import PS.Model.Predictor
namespace PS.C19
open PS Sexp PS.Predictor

instance : ExpLog Float where
  ofNat := Float.ofNat
  exp := Float.exp
  log := Float.log
  pos := fun x => decide (x > 0)

def fbits? (s : Sexp) : Option Float := do
  let n ← s.nat?
  pure (Float.ofBits (UInt64.ofNat n))

def ofF (f : Float) : Sexp := .atom (toString f.toBits.toNat)

def decDP : Sexp → Option DP
  | .list [.atom "p", n] => do pure ⟨.prim, ← n.string?⟩
  | .list [.atom "v", n] => do pure ⟨.var, ← n.string?⟩
  | .list [.atom "c", n] => do pure ⟨.const, ← n.string?⟩
  | _ => none

def encDP (P : DP) : Sexp :=
  .list [.atom (match P.kind with | .prim => "p" | .var => "v" | .const => "c"), .str P.name]

def decAbs : Sexp → Option Abs
  | .atom "none" => some none
  | .list [p, i] => do pure (some (← decDP p, ← i.nat?))
  | _ => none

def encAbs : Abs → Sexp
  | none => .atom "none"
  | some (p, i) => .list [encDP p, ofNat i]

partial def decProg : Sexp → Option Prog
  | .list (.atom "A" :: h :: args) => do pure (.node (← decDP h) (← allSome decProg args))
  | s => do pure (.node (← decDP s) [])

def decAlt (s : Sexp) : Option Alt := do allSome Sexp.nat? (← s.list?)

/-- `(P alt…)` -/
def decRule : Sexp → Option (DP × List Alt)
  | .list (p :: alts) => do pure (← decDP p, ← allSome decAlt alts)
  | _ => none

/-- `(S rule…)` -/
def decNTRules : Sexp → Option (NT × AList DP (List Alt))
  | .list (s :: rules) => do pure (← s.nat?, ← allSome decRule rules)
  | _ => none

structure Gram where
  treq : String
  starts : List NT
  rules : AList NT (AList DP (List Alt))

def decGram : Sexp → Option Gram
  | .list [treq, .list starts, .list rules] => do
      pure ⟨← treq.string?, ← allSome Sexp.nat? starts, ← allSome decNTRules rules⟩
  | _ => none

def decInfo : Sexp → Option (NT × List (DP × Nat))
  | .list (s :: ng) => do
      pure (← s.nat?, ← allSome (fun e => match e with
        | .list [p, i] => do pure (← decDP p, ← i.nat?)
        | _ => none) ng)
  | _ => none

def decOrder : Sexp → Option (Abs × List DP)
  | .list [a, .list ps] => do pure (← decAbs a, ← allSome decDP ps)
  | _ => none

/-- the deterministic view of a rule table: the single alternative -/
def detRules (r : AList NT (AList DP (List Alt))) : AList NT (AList DP (List NT)) :=
  r.map (fun e => (e.1, e.2.map (fun p => (p.1, p.2.headD []))))

def encOptF : Option Float → Sexp
  | none => .atom "err"
  | some f => .list [.atom "ok", ofF f]

def encTagsDet (t : AList NT (AList DP Float)) : Sexp :=
  .list (t.map (fun e => .list (ofNat e.1 :: e.2.map (fun z => .list [encDP z.1, ofF z.2]))))

def encAltS (a : Alt) : Sexp := .list (a.map ofNat)

def encTagsU (t : AList NT (AList DP (AList Alt Float))) : Sexp :=
  .list (t.map (fun e => .list (ofNat e.1 :: e.2.map (fun d =>
    .list (encDP d.1 :: d.2.map (fun z => .list [encAltS z.1, ofF z.2]))))))

def encStartTags (t : AList NT Float) : Sexp :=
  .list (t.map (fun e => .list [ofNat e.1, ofF e.2]))

def encLayer (L : Layer) : Sexp :=
  .list [
    .list (.atom "allpairs" :: L.allPairs.map (fun e => .list [encAbs e.1, .list (e.2.map encDP)])),
    .list (.atom "abs2index" :: L.abs2index.map (fun e =>
      .list [encAbs e.1, ofNat e.2.1, ofNat e.2.2.1, .list (e.2.2.2.map (fun z => .list [encDP z.1, ofNat z.2]))])),
    .list [.atom "outsize", ofNat L.outputSize],
    .list (.atom "startsabs" :: L.allStartsAbs.map encAbs),
    .list (.atom "real2abs" :: L.real2abs.map (fun e => .list [ofNat e.1, encAbs e.2])),
    .list (.atom "abs2real" :: L.abs2real.map (fun e => .list [encAbs e.1, .list (e.2.map ofNat)]))]

def encNats (l : List Nat) : Sexp := .list (l.map ofNat)

def encOptNats : Option (List Nat) → Sexp
  | none => .atom "err"
  | some l => .list [.atom "ok", encNats l]

/-- per non-terminal: m, c, number of primitive rules, spec values, hypothesis -/
def encNTSpec (isU : Bool) (v ε : Float) (tvo : Bool) (e : NT × AList DP (List Alt)) : Sexp :=
  let m := if isU then countAlts .var e.2 else countKind .var e.2
  let c := if isU then countAlts .const e.2 else countKind .const e.2
  let np := if isU then countAlts .prim e.2 else countKind .prim e.2
  .list [ofNat e.1, ofNat m, ofNat c, ofNat np, ofF (specNorm ε tvo m c),
         ofF (specVarMass v ε tvo (np > 0) m c), ofBool (hypEps v ε tvo (np > 0) m c)]

def handle : Sexp → Option Sexp
  | .list [.atom "c19.run", .atom kind, .atom absk, vb, eb, tvo, .list grams, .list infos, .list orders,
           treq, .list xs, .list progs] => do
      let v ← fbits? vb
      let ε ← fbits? eb
      let tvo ← tvo.bool?
      let grams ← allSome decGram grams
      let infos ← allSome decInfo infos
      let orders ← allSome decOrder orders
      let treq ← treq.string?
      let x ← allSome fbits? xs
      let progs ← allSome decProg progs
      let absf : List (DP × Nat) → Abs := if absk == "presence" then absPresence else absBigram
      let abstraction : NT → Abs := fun S => absf ((AList.lookup S infos).getD [])
      let iter : Abs → List DP → List DP := fun k s => (AList.lookup k orders).getD s
      let isU := kind == "u"
      let L : Layer :=
        if isU then mkLayerU abstraction iter (grams.map (fun g => (g.rules, g.starts)))
        else mkLayerDet abstraction iter (grams.map (fun g => g.rules))
      -- `grammar_dictionary = {g.type_request: g for g in grammars}`; `grammar_dictionary[type_request]`
      let dict : AList String Gram := grams.foldl (fun d g => d.insert g.treq g) []
      let head := [.list [.atom "layer", encLayer L]]
      match AList.lookup treq dict with
      | none => pure (.list (head ++ [.list [.atom "grammar", .atom "err"]]))
      | some g =>
        let wf := wfRules g.rules && (!isU || wfAlts g.rules)
        let specs := Sexp.list (.atom "nts" :: g.rules.map (encNTSpec isU v ε tvo))
        if isU then
          match tensor2logProbU L v ε tvo g.rules g.starts x with
          | none => pure (.list (head ++ [.list [.atom "wf", ofBool wf], specs, .list [.atom "tags", .atom "err"]]))
          | some (tags, st) =>
            let pr := toProbU tags st
            let ps := progs.map (fun t =>
              let alts := g.starts.map (fun S0 => (S0, altsU g.rules t S0 []))
              let firstD := (alts.filterMap (fun a => a.2.head?.map (fun d => (a.1, d)))).head?
              let steps := (alts.map (fun a => a.2.flatten)).flatten.map (fun st => (st.S, st.P))
              let w := match firstD with
                | none => none
                | some (S0, d) => derivWeightU pr.1 pr.2 S0 d
              let wraw := match firstD with
                | none => none
                | some (S0, d) => derivWeightU (expTagsU tags) (expStartU st) S0 d
              Sexp.list [encOptF (logProbabilityU g.rules g.starts tags t),
                         encOptF (some (probabilityU g.rules g.starts pr.1 t)),
                         encOptNats (encodeU L g.rules g.starts t),
                         .list [.atom "nder", ofNat ((alts.map (fun a => a.2.length)).foldl (· + ·) 0)],
                         .list (steps.map (fun sp => .list [ofNat sp.1, encDP sp.2])),
                         encNats (indicator L.outputSize (positionsOf L steps)),
                         encOptF w, encOptF wraw])
            pure (.list (head ++ [.list [.atom "wf", ofBool wf], specs,
              .list [.atom "tags", encTagsU tags], .list [.atom "starttags", encStartTags st],
              .list [.atom "prob", encTagsU pr.1], .list [.atom "startprob", encStartTags pr.2],
              .list (.atom "progs" :: ps)]))
        else
          let rules := detRules g.rules
          let start := g.starts.headD dummyNT
          match tensor2logProbDet L v ε tvo rules x with
          | none => pure (.list (head ++ [.list [.atom "wf", ofBool wf], specs, .list [.atom "tags", .atom "err"]]))
          | some tags =>
            let pr := toProbDet tags
            let ps := progs.map (fun t =>
              let d := derivDet rules t start []
              let steps := match d with | none => [] | some r => r.1
              Sexp.list [encOptF (logProbabilityDet rules start tags t),
                         .atom "na",
                         encOptNats (encodeDet L rules start t),
                         .list [.atom "nder", ofNat (if d.isSome then 1 else 0)],
                         .list (steps.map (fun sp => .list [ofNat sp.1, encDP sp.2])),
                         encNats (indicator L.outputSize (positionsOf L steps)),
                         encOptF (derivWeightDet rules start pr t), .atom "na"])
            pure (.list (head ++ [.list [.atom "wf", ofBool wf], specs,
              .list [.atom "tags", encTagsDet tags], .list [.atom "prob", encTagsDet pr],
              .list (.atom "progs" :: ps)]))
  | _ => none

end PS.C19
