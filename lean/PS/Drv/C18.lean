/- Driver glue for C18: sessions of consecutive `generate_task` calls on one TaskGenerator whose
   samplers are replaced by the recorded draw streams.  Type requests and argument types are
   their texts; programs, values, DSL semantics and evaluator model (with its cache) are those of
   Drv/C11.lean; the specification side uses the compositional `specEval`. -/
import PS.Sexp
import PS.Model.TaskGen
import PS.Drv.C11
import PS.Drv.C10
namespace PS.C18
open PS Sexp
open PS.C11 (Lbl Val mkSem decodeProg decodeVal canon Outcome)
open PS.C10 (progStr dslEv)

abbrev Prog := Tree Lbl
abbrev Cache := PS.C11.Cache Lbl Val
abbrev DState := State String String Prog Val Cache
abbrev DCfg := Cfg String String Prog Val String
abbrev DTask := GTask String Prog Val Val

/-- variable numbers occurring in a program -/
partial def varsOf : Prog → List Nat
  | .node (.var i) ks => i :: (ks.map varsOf).flatten
  | .node _ ks => (ks.map varsOf).flatten

def usedVarsD (p : Prog) : Nat := (varsOf p).eraseDups.length

/-- task_generator.py:195-207 `basic_output_validator({int: range(lo, hi + 1)}, max_list_length)` -/
partial def basicValid (lo hi mll : Int) : Val → Bool
  | .node (.int n) _ => decide (lo ≤ n) && decide (n ≤ hi)
  | .node .list xs => (decide (mll < 0) || decide ((xs.length : Int) ≤ mll)) && xs.all (basicValid lo hi mll)
  | .node (.clo _) _ => false
  | .node (.str _) _ => false

def decodeValidator : Sexp → Option (Option Val → Bool)
  | .list [.atom "basic", lo, hi, mll] => do
      let lo ← lo.int?; let hi ← hi.int?; let mll ← mll.int?
      pure (fun o => match o with | some v => basicValid lo hi mll v | none => false)
  | .list [.atom "all"] => some (fun _ => true)
  | .list [.atom "notnone"] => some (fun o => o.isSome)
  | _ => none

def decodeTable {α : Type} (f : Sexp → Option α) : List Sexp → Option (AList String (List α))
  | [] => some []
  | .list [k, .list xs] :: r => do
      let k ← k.string?
      let xs ← allSome f xs
      let r ← decodeTable f r
      pure ((k, xs) :: r)
  | _ => none

structure Req where
  cfg : DCfg
  evalSkips : List String
  useCache : Bool
  types : List String
  progs : AList String (List Prog)
  samples : AList String (List Int)
  inputs : AList String (List Val)

def decodeReq (c a ty pr sm ip : Sexp) : Option Req :=
  match c, a, ty, pr, sm, ip with
  | .list [.atom "cfg", mt, un, .list eskips, .list gskips, uc, vd],
    .list (.atom "args" :: atab), .list (.atom "types" :: tys), .list (.atom "progs" :: prs),
    .list (.atom "samples" :: sms), .list (.atom "inputs" :: ips) => do
      let mt ← mt.nat?
      let un ← un.bool?
      let eskips ← allSome Sexp.string? eskips
      let gskips ← allSome Sexp.string? gskips
      let uc ← uc.bool?
      let valid ← decodeValidator vd
      let atab ← decodeTable Sexp.string? atab
      let cfg : DCfg :=
        { maxTries := mt, uniques := un, args := fun t => (AList.lookup t atab).getD [],
          usedVars := usedVarsD, skip := fun e => gskips.contains e, valid := valid,
          keyError := "KeyError" }
      pure { cfg := cfg, evalSkips := eskips, useCache := uc,
             types := ← allSome Sexp.string? tys, progs := ← decodeTable decodeProg prs,
             samples := ← decodeTable Sexp.int? sms, inputs := ← decodeTable decodeVal ips }
  | _, _, _, _, _, _ => none

def encOut : Option Val → Sexp
  | some v => .str (canon v)
  | none => .str "None"

def encTask (t : DTask) : Sexp :=
  .list [.str t.typeRequest, .str (progStr t.solution),
         .list (t.examples.map (fun ex => .list [.list (ex.1.map (fun v => .str (canon v))), encOut ex.2])),
         ofNat t.tries, ofBool t.unique]

def total {α : Type} (d : AList String (List α)) : Nat := (d.map (fun kv => kv.2.length)).foldl (· + ·) 0

def encState (s : DState) : Sexp :=
  .list [.list (s.seen.map (fun p => .str (progStr p))),
         .list (s.failed.map .str),
         .list (s.difficulty.map (fun kv => .list [.str kv.1, ofNat kv.2.1, ofNat kv.2.2])),
         .list (s.generated.map (fun kv => .list [.str kv.1, ofNat kv.2])),
         .list [ofNat s.types.length, ofNat (total s.progs), ofNat (total s.samples), ofNat (total s.inputs)]]

/-- the five clauses of the specification for one task, relative to the initial streams -/
def specOf (r : Req) (t : DTask) : Sexp :=
  let sem := PS.C11.specEval (mkSem r.evalSkips)
  .list [ofBool (decide (Consistent r.cfg.skip sem t)),
         ofBool (decide (Member r.progs t)),
         ofBool (decide (InputsOK r.cfg.args r.inputs t)),
         ofBool (decide (Distinct r.cfg.valid t)),
         ofBool (decide (Count r.samples t))]

def encResult (r : Req) : Out String String Prog Val Val String Cache → Sexp
  | .task t s => .list [.atom "task", encTask t, encState s, specOf r t]
  | .raised e s => .list [.atom "raised", .str e, encState s]
  | .stuck => .list [.atom "stuck"]

def decodeOut : Sexp → Option (Option Val)
  | .list [.atom "none"] => some none
  | s => do pure (some (← decodeVal s))

def decodeExample : Sexp → Option (List Val × Option Val)
  | .list [.list inp, out] => do pure (← allSome decodeVal inp, ← decodeOut out)
  | _ => none

def decodeTask : Sexp → Option DTask
  | .list [tr, p, .list exs] => do
      pure ⟨← tr.string?, ← decodeProg p, ← allSome decodeExample exs, 0, false⟩
  | _ => none

def handle : Sexp → Option Sexp
  | .list [.atom "c18.run", c, a, ty, pr, sm, ip, n] => do
      let r ← decodeReq c a ty pr sm ip
      let n ← n.nat?
      let s0 : DState := State.init r.types r.progs r.samples r.inputs []
      pure (.list ((run r.cfg (dslEv (mkSem r.evalSkips) r.useCache) n s0).map (encResult r)))
  | .list [.atom "c18.spec", c, a, ty, pr, sm, ip, .list tasks] => do
      let r ← decodeReq c a ty pr sm ip
      let tasks ← allSome decodeTask tasks
      pure (.list (tasks.map (specOf r)))
  | _ => none

end PS.C18
