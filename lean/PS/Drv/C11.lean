/- Driver glue for C11: a concrete value universe and the semantics of the harness' DSLs
   (second implementation of gen.DSLS), histories of eval/clear operations. -/
import PS.Sexp
import PS.Model.Evaluator
namespace PS.C11
open PS Sexp

inductive Lbl where
  | prim (name : String)
  | var (i : Nat)
  | const (tag : String) (repr : String)     -- Constant(type, value): python type of the value + its text
  deriving DecidableEq, Repr

inductive VL where
  | int (n : Int)
  | list
  | clo (name : String)
  | str (s : String)
  deriving DecidableEq, Repr

abbrev Val := Tree VL

def vint (n : Int) : Val := .node (.int n) []
def vlist (xs : List Val) : Val := .node .list xs

def arity : String → Nat
  | "+" | "*" | "div" | "cons" | "map" => 2
  | "neg" | "head" | "tail" | "wrap" | "len" | "inc" => 1
  | _ => 0

def leafVal (l : Lbl) (inp : List Val) : Except String Val :=
  match l with
  | .var i => match inp[i]? with
    | some v => .ok v
    | none => .error "IndexError"
  | .const "int" r => match r.toInt? with
    | some n => .ok (vint n)
    | none => .error "ValueError"
  | .const tag r => .ok (.node (.str (tag ++ ":" ++ r)) [])
  | .prim "0" => .ok (vint 0)
  | .prim "1" => .ok (vint 1)
  | .prim "2" => .ok (vint 2)
  | .prim "nil" => .ok (vlist [])
  | .prim n => if arity n > 0 then .ok (.node (.clo n) []) else .error "KeyError"

partial def applyV (f v : Val) : Except String Val :=
  match f with
  | .node (.clo n) args =>
    let args := args ++ [v]
    if args.length < arity n then .ok (.node (.clo n) args) else
    match n, args with
    | "+", [.node (.int a) [], .node (.int b) []] => .ok (vint (a + b))
    | "*", [.node (.int a) [], .node (.int b) []] => .ok (vint (a * b))
    | "neg", [.node (.int a) []] => .ok (vint (-a))
    | "inc", [.node (.int a) []] => .ok (vint (a + 1))
    | "div", [.node (.int a) [], .node (.int b) []] =>
        if b == 0 then .error "ZeroDivisionError" else .ok (vint (Int.fdiv a b))
    | "cons", [a, .node .list xs] => .ok (vlist (a :: xs))
    | "head", [.node .list xs] => match xs with | x :: _ => .ok x | [] => .error "IndexError"
    | "tail", [.node .list xs] => .ok (vlist xs.tail)
    | "len", [.node .list xs] => .ok (vint xs.length)
    | "wrap", [.node .list xs] => .ok (vlist [vlist xs, vlist xs])
    | "map", [g, .node .list xs] =>
        let rec go : List Val → Except String (List Val)
          | [] => .ok []
          | x :: r => match applyV g x, go r with
            | .ok y, .ok ys => .ok (y :: ys)
            | .error e, _ => .error e
            | _, .error e => .error e
        match go xs with | .ok ys => .ok (vlist ys) | .error e => .error e
    | _, _ => .error "TypeError"
  | _ => .error "TypeError"

def mkSem (skips : List String) : Sem Lbl Val String :=
  { leaf := leafVal, apply := applyV, skip := fun e => skips.contains e, keyError := "KeyError" }

partial def canon : Val → String
  | .node (.int n) _ => toString n
  | .node .list xs => "[" ++ ",".intercalate (xs.map canon) ++ "]"
  | .node (.clo _) _ => "<fun>"
  | .node (.str s) _ => "'" ++ s ++ "'"

partial def decodeVal : Sexp → Option Val
  | .atom s => do let n ← s.toInt?; pure (vint n)
  | .list (.atom "l" :: xs) => do pure (vlist (← allSome decodeVal xs))
  | _ => none

def decodeLbl : Sexp → Option Lbl
  | .list [.atom "P", n] => do pure (.prim (← n.string?))
  | .list [.atom "V", i] => do pure (.var (← i.nat?))
  | .list [.atom "K", t, r] => do pure (.const (← t.string?) (← r.string?))
  | _ => none

partial def decodeProg : Sexp → Option (Tree Lbl)
  | .list (.atom "A" :: h :: args) => do
      pure (.node (← decodeLbl h) (← allSome decodeProg args))
  | s => do pure (.node (← decodeLbl s) [])

def encOutcome : Outcome Val String → Sexp
  | .value v => .list [.atom "v", .str (canon v)]
  | .skipped => .list [.atom "none"]
  | .raised e => .list [.atom "raised", .str e]

def decodeOp : Sexp → Option (Op Lbl Val)
  | .list [.atom "eval", p, .list inp] => do pure (.eval (← decodeProg p) (← allSome decodeVal inp))
  | .list [.atom "clear"] => some .clear
  | _ => none

/-- run a history; for every `eval` report the model's outcome and the spec's outcome -/
def runOps (S : Sem Lbl Val String) (useCache : Bool) :
    Cache Lbl Val → List (Op Lbl Val) → List Sexp
  | _, [] => []
  | c, .clear :: rest => .list [.atom "cleared"] :: runOps S useCache (clearCache c) rest
  | c, .eval p inp :: rest =>
    let r := eval S useCache c p inp
    .list [encOutcome r.2, encOutcome (specEval S p inp)] :: runOps S useCache r.1 rest

def handle : Sexp → Option Sexp
  | .list [.atom "c11.history", uc, .list skips, .list ops] => do
      let uc ← uc.bool?
      let skips ← allSome Sexp.string? skips
      let ops ← allSome decodeOp ops
      pure (.list (runOps (mkSem skips) uc [] ops))
  | _ => none

end PS.C11
