/- Driver glue for C01: specification terms, model table, certificate check of the
   implementation's table (with unverified helpers computing the certificate). -/
import PS.Drv.Wire
import PS.Model.CfgInfinite
namespace PS.C01
open PS PS.G PS.Wire Sexp

/-- candidate dead set: explore everything reachable from the keys through `ruleSet`,
    compute the productive non-terminals by fixpoint, return the others (unverified helper:
    the result is *checked* by `deadOK`) -/
partial def deadSet (P : Params) (G : CFG) : List CNT :=
  let rec explore (todo : List CNT) (seen : List CNT) (fuel : Nat) : List CNT :=
    match fuel, todo with
    | 0, _ => seen
    | _, [] => seen
    | f + 1, d :: rest =>
      if seen.contains d then explore rest seen f else
      explore (rest ++ (ruleSet P d).flatMap (fun r => r.2.map toNT)) (seen ++ [d]) f
  let all := explore (G.rules.map (·.1)) [] 1000000
  let rec prod (known : List CNT) (fuel : Nat) : List CNT :=
    match fuel with
    | 0 => known
    | f + 1 =>
      let new := all.filter (fun n => !(known.contains n) &&
        (ruleSet P n).any (fun r => r.2.all (fun a => known.contains (toNT a))))
      if new.isEmpty then known else prod (known ++ new) f
  let p := prod [] 100000
  all.filter (fun n => !(p.contains n))

partial def reachRanks (G : CFG) : AList CNT Nat :=
  let rec go (level : List CNT) (rk : Nat) (acc : AList CNT Nat) (fuel : Nat) : AList CNT Nat :=
    match fuel with
    | 0 => acc
    | f + 1 =>
      if level.isEmpty then acc else
      let acc := level.foldl (fun a n => if AList.contains n a then a else AList.insert n rk a) acc
      let next := (level.flatMap (fun n => ((AList.lookup n G.rules).getD []).flatMap (fun r => r.2.1.map toNT))).eraseDups
      go (next.filter (fun n => !(AList.contains n acc))) (rk + 1) acc f
  go [G.start] 0 [] 100000

partial def prodRanks (G : CFG) : AList CNT Nat :=
  let rec go (rk : Nat) (acc : AList CNT Nat) (fuel : Nat) : AList CNT Nat :=
    match fuel with
    | 0 => acc
    | f + 1 =>
      let new := G.rules.filterMap (fun e =>
        if AList.contains e.1 acc then none
        else if e.2.any (fun r => r.2.1.all (fun a => AList.contains (toNT a) acc)) then some e.1 else none)
      if new.isEmpty then acc else go (rk + 1) (new.foldl (fun a n => AList.insert n rk a) acc) f
  go 1 [] 100000

def dedup (l : List Prog) : List Prog := l.eraseDups

def handle : Sexp → Option Sexp
  | .list [.atom "c01.spec", p] => do
      let P ← decParams p
      let full := (wtTerms P some (P.maxDepth + 1) 0 none P.request.returns)
      let eff := (wtTerms P (effParent P) (P.maxDepth + 1) 0 none P.request.returns)
      pure (.list [.list (full.map encProg), .list (eff.map encProg)])
  | .list [.atom "c01.model", p, fuel] => do
      let P ← decParams p
      match buildTable P (← fuel.nat?) with
      | none => pure (.list [.atom "none"])
      | some G => pure (.list [.atom "some", encCFG G, match programs G with | some n => ofNat n | none => .atom "-1"])
  | .list [.atom "c01.check", p, g, .list progs] => do
      let P ← decParams p
      let G ← decCFG g
      let progs ← allSome decProg progs
      let dead := deadSet P G
      let ok := tableOK P G dead (reachRanks G) (prodRanks G)
      pure (.list [ofBool ok, match programs G with | some n => ofNat n | none => .atom "-1",
        .list (progs.map fun t => .list [ofBool (contains G t), ofBool (gen G t G.start),
                                         ofBool (wtTop P t), ofBool (wt P (effParent P) t 0 none P.request.returns)]),
        ofNat dead.length])
  | .list [.atom "c01.debug", p, g] => do
      let P ← decParams p
      let G ← decCFG g
      let dead := deadSet P G
      pure (.list [ofBool (okStart P G), ofBool (okRules P G dead), ofBool (deadOK P dead),
        ofBool (okReach G (reachRanks G)), ofBool (okProd G (prodRanks G)), ofNat dead.length,
        .list (G.rules.map fun e => .list [encNT e.1, ofBool (sameRules e.2 ((ruleSet P e.1).filter (fun r => r.2.all (isKey G)))),
            .list ((ruleSet P e.1).map fun r => encRule (r.1, (r.2, ())))])])
  | .list [.atom "c01.show", t] => do pure (.str (showProg (← decProg t)))
  -- CFG.infinite: model table, programs(), and for each program: membership in the model's
  -- table (containsRec, gen), the statement's unbounded spec (wtITop), what the code implements
  | .list [.atom "c01.infinite", p, fuel, .list progs] => do
      let P ← decParams p
      let progs ← allSome decProg progs
      let spec := .list (progs.map fun t => .list [ofBool (wtITop P t), ofBool (wtI P (effParent P) t none P.request.returns)])
      match buildTableInf P (← fuel.nat?) with
      | none => pure (.list [.atom "none", spec])
      | some G => pure (.list [.atom "some", spec, encCFG G, match programsInf G with | some n => ofNat n | none => .atom "-1",
          .list (progs.map fun t => .list [ofBool (contains G t), ofBool (gen G t G.start)])])
  | _ => none

end PS.C01
