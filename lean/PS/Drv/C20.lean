/- Driver glue for C20: decode requests, run the model and the spec. -/
import PS.Sexp
import PS.Model.Filter
namespace PS.C20
open PS Sexp

partial def decodeExpr : Sexp → Option Expr
  | .list [.atom "a", i] => do let n ← i.nat?; pure (.atom n)
  | .list [.atom "and", a, b] => do pure (.and (← decodeExpr a) (← decodeExpr b))
  | .list [.atom "or", a, b] => do pure (.or (← decodeExpr a) (← decodeExpr b))
  | .list [.atom "neg", a] => do pure (.neg (← decodeExpr a))
  | _ => none

def decodeItem : Sexp → Option Item
  | .list [p, t, h, .atom "none"] => do
      pure ⟨← p.nat?, ← t.string?, ← h.nat?, none⟩
  | .list [p, t, h, .list (.atom "o" :: outs)] => do
      pure ⟨← p.nat?, ← t.string?, ← h.nat?, some (← allSome Sexp.string? outs)⟩
  | _ => none

def bits (bs : List Bool) : Sexp := .list (bs.map Sexp.ofBool)

def handle : Sexp → Option Sexp
  | .list [.atom "c20.expr", e, .list envBits] => do
      let e ← decodeExpr e
      let env ← allSome Sexp.bool? envBits
      let envf : Nat → Bool := fun i => env.getD i false
      let f := build e
      pure (.list [ofBool (accept envf f), ofBool (reject envf f), ofBool (sem envf e)])
  | .list [.atom "c20.obseq", .list items] => do
      let items ← allSome decodeItem items
      pure (.list [bits (run items), bits (specRun items)])
  | _ => none

end PS.C20
