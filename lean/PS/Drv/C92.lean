/- Driver glue for the heap-search family (parts `hs` of C02, C03, C12): requests `(hs.<op> …)`.
   Symbols, non-terminal contexts and states are abstracted to the integers the harness assigns
   by Python equality; a symbol `k` is `Sym.prim "k" unknown`. -/
import PS.Sexp
import PS.Model.Enum.HeapSearch
import PS.Model.Enum.UHeapSearch
namespace PS.C92
open PS PS.G Sexp

def decRat (s : Sexp) : Option Rat := do
  let t ← s.string?
  match t.splitOn "/" with
  | [n] => do pure ((← n.toInt?) : Rat)
  | [n, d] => do pure (mkRat (← n.toInt?) (← d.toNat?))
  | _ => none

def encRat (q : Rat) : Sexp := .str (toString q.num ++ "/" ++ toString q.den)

def sym (k : Nat) : Sym := Sym.prim (toString k) Ty.unknown

partial def decProg : Sexp → Option Prog
  | .list (h :: args) => do pure (.node (sym (← h.nat?)) (← allSome decProg args))
  | _ => none

partial def encProg : Prog → Sexp
  | .node h args => .list (.atom h.name :: args.map encProg)

abbrev DNT := NT Nat Nat

def decNT : Sexp → Option DNT
  | .list [t, s, st] => do pure (Ty.base (← t.string?), (← s.nat?, ← st.nat?))
  | _ => none

def decArg : Sexp → Option (Ty × Nat)
  | .list [t, s] => do pure (Ty.base (← t.string?), ← s.nat?)
  | _ => none

/-- rule `(sym (arg …) state "n/d")` -/
def decRule : Sexp → Option ((Sym × (List (Ty × Nat) × Nat)) × Rat)
  | .list [k, .list args, st, w] => do
      pure ((sym (← k.nat?), (← allSome decArg args, ← st.nat?)), ← decRat w)
  | _ => none

def decGrammar : Sexp → Option (TT Nat Nat × AList DNT (AList Sym Rat))
  | .list [.atom "tt", st, .list entries] => do
      let start ← decNT st
      let es ← allSome (fun e => match e with
        | .list [nt, .list rs] => do pure (← decNT nt, ← allSome decRule rs)
        | _ => none) entries
      pure (⟨start, es.map fun e => (e.1, e.2.map (·.1))⟩,
            es.map fun e => (e.1, e.2.map fun r => (r.1.1, r.2)))
  | _ => none

inductive Act where
  | take (k : Nat)
  | merge (p : Prog)

def decAct : Sexp → Option Act
  | .list [.atom "take", k] => do pure (.take (← k.nat?))
  | .list [.atom "merge", p] => do pure (.merge (← decProg p))
  | _ => none

/-- follow `succ[S]` from the sentinel: the pop order of the non-terminal -/
def chain (succ : AList (Option Prog) Prog) : Nat → Option Prog → List Prog
  | 0, _ => []
  | n + 1, k => match AList.lookup k succ with
    | none => []
    | some p => p :: chain succ n (some p)

section
variable {π : Type}

def runScript (E : HS.Env Nat Nat π) (fuel : Nat) :
    List Act → HS.Gen Nat Nat π → List Sexp → Option (HS.Gen Nat Nat π × List Sexp)
  | [], g, out => some (g, out)
  | .merge p :: rest, g, out => runScript E fuel rest (HS.merge E g p) out
  | .take k :: rest, g, out =>
    match HS.take E fuel k g [] with
    | none => none
    | some (g', ys, fin) => runScript E fuel rest g' (out ++ [.list [.list (ys.map encProg), ofBool fin]])

def report (E : HS.Env Nat Nat π) (encP : π → Sexp) (g : HS.Gen Nat Nat π) (out : List Sexp) : Sexp :=
  let nts := AList.keys E.G.rules
  .list [.atom "ok", .list out,
    .list (nts.map fun nt => .list ((chain (g.st.succOf nt) 100000 none).map encProg)),
    .list (nts.map fun nt => .list ((g.st.heapOf nt).map fun e => .list [encP e.1, encProg e.2])),
    .list (g.st.deleted.map encProg)]
end

def encBucket (b : HS.Bucket) : Sexp := .list (b.map ofNat)

def handleDet (gr kind rej script fuel drop : Sexp) : Option Sexp := do
  let drop ← drop.bool?
  let (G, W) ← decGrammar gr
  let rejected ← allSome decProg (← rej.list?)
  let acts ← allSome decAct (← script.list?)
  let fuel ← fuel.nat?
  let filt : Prog → Bool := fun p => !rejected.contains p
  match kind with
  | .list [.atom "heap", thr] =>
      let E : HS.Env Nat Nat Rat := { G := G, W := W, ops := HS.probOps (← decRat thr), filter := filt, dropDeleted := drop }
      match runScript E fuel acts (HS.Gen.new G) [] with
      | none => pure (.list [.atom "undef"])
      | some (g, out) => pure (report E encRat g out)
  | .list [.atom "bucket", sz] =>
      let E : HS.Env Nat Nat HS.Bucket := { G := G, W := W, ops := HS.bucketOps (← sz.nat?), filter := filt, dropDeleted := drop }
      match runScript E fuel acts (HS.Gen.new G) [] with
      | none => pure (.list [.atom "undef"])
      | some (g, out) => pure (report E encBucket g out)
  | _ => none

/-! ### unambiguous grammars -/
abbrev UN := UHS.UNT Nat

def decUNT : Sexp → Option UN
  | .list [t, s] => do pure (Ty.base (← t.string?), ← s.nat?)
  | _ => none

def decAlt : Sexp → Option (List UN × Rat)
  | .list [.list v, w] => do pure (← allSome decUNT v, ← decRat w)
  | _ => none

def decURule : Sexp → Option (Sym × List (List UN × Rat))
  | .list [k, .list alts] => do pure (sym (← k.nat?), ← allSome decAlt alts)
  | _ => none

def decUG : Sexp → Option (UHS.UG Nat)
  | .list [.atom "ucfg", .list starts, .list entries] => do
      let st ← allSome (fun e => match e with
        | .list [nt, w] => do pure (← decUNT nt, ← decRat w)
        | _ => none) starts
      let es ← allSome (fun e => match e with
        | .list [nt, .list rs] => do pure (← decUNT nt, ← allSome decURule rs)
        | _ => none) entries
      pure ⟨st, es⟩
  | _ => none

section
variable {π : Type}
def runScriptU (E : UHS.Env Nat π) (fuel : Nat) :
    List Act → UHS.St Nat π → List Sexp → Option (UHS.St Nat π × List Sexp)
  | [], g, out => some (g, out)
  | .merge p :: rest, g, out => runScriptU E fuel rest (UHS.merge E g p) out
  | .take k :: rest, g, out =>
    match UHS.take E fuel k g [] with
    | none => none
    | some (g', ys, fin) => runScriptU E fuel rest g' (out ++ [.list [.list (ys.map encProg), ofBool fin]])

def reportU (E : UHS.Env Nat π) (encP : π → Sexp) (g : UHS.St Nat π) (out : List Sexp) : Sexp :=
  let nts := AList.keys E.G.rules
  .list [.atom "ok", .list out,
    .list (nts.map fun nt => .list ((chain (g.succOf nt) 100000 none).map encProg)),
    .list (nts.map fun nt => .list ((g.heapOf nt).map fun e => .list [encP e.1, encProg e.2])),
    .list (g.deleted.map encProg),
    .list (g.startHeap.map fun e => .list [encP e.1, encProg e.2.1])]
end

def handleU (gr kind rej script fuel kway : Sexp) : Option Sexp := do
  let G ← decUG gr
  let kway ← kway.bool?
  let rejected ← allSome decProg (← rej.list?)
  let acts ← allSome decAct (← script.list?)
  let fuel ← fuel.nat?
  let filt : Prog → Bool := fun p => !rejected.contains p
  match kind with
  | .list [.atom "heap", thr] =>
      let E : UHS.Env Nat Rat := { G := G, ops := UHS.probOps (← decRat thr), filter := filt, kway := kway }
      match runScriptU E fuel acts (UHS.St.empty G) [] with
      | none => pure (.list [.atom "undef"])
      | some (g, out) => pure (reportU E encRat g out)
  | .list [.atom "bucket", sz] =>
      let E : UHS.Env Nat UHS.Bucket := { G := G, ops := UHS.bucketOps (← sz.nat?) (!kway), filter := filt, kway := kway }
      match runScriptU E fuel acts (UHS.St.empty G) [] with
      | none => pure (.list [.atom "undef"])
      | some (g, out) => pure (reportU E encBucket g out)
  | _ => none

def handle : Sexp → Option Sexp
  | .list [.atom "hs.det", gr, kind, rej, script, fuel, drop] => handleDet gr kind rej script fuel drop
  | .list [.atom "hs.u", gr, kind, rej, script, fuel, kway] => handleU gr kind rej script fuel kway
  | _ => none

end PS.C92
