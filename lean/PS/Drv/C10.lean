/- Driver glue for C10: sessions of consecutive tasks on one solver and one evaluator.
   The evaluator is the C11 model (`PS.C11.eval`, with its cache) over the value universe and
   DSL semantics of Drv/C11.lean; the specification side uses the compositional `specEval`. -/
import PS.Sexp
import PS.Model.Solver
import PS.Drv.C11
namespace PS.C10
open PS Sexp
open PS.C11 (Lbl Val mkSem decodeProg decodeVal)

abbrev Prog := Tree Lbl
abbrev Cache := PS.C11.Cache Lbl Val

partial def progStr : Prog → String
  | .node (.prim n) [] => n
  | .node (.var i) [] => "var" ++ toString i
  | .node l ks => "(" ++ " ".intercalate (progStr (.node l []) :: ks.map progStr) ++ ")"

def decodeExample : Sexp → Option (List Val × Val)
  | .list [.list inp, out] => do pure (← allSome decodeVal inp, ← decodeVal out)
  | _ => none

def decodeOp : Sexp → Option (Op Prog (List Val) Val)
  | .list [.atom "task", .list ps, .list exs, .list dl, .list as] => do
      pure (.task ⟨← allSome decodeExample exs, ← allSome decodeProg ps, ← allSome Sexp.bool? dl,
                   ← allSome Sexp.bool? as⟩)
  | .list [.atom "reset"] => some .resetStats
  | .list [.atom "clear"] => some .clearCache
  | _ => none

def decodeKind : Sexp → Option Kind
  | .atom "naive" => some .naive
  | .atom "cutoff" => some .cutoff
  | _ => none

def encStatus : Status String → Sexp
  | .suspended => .list [.atom "suspended"]
  | .finished .accepted => .list [.atom "finished", .atom "accepted"]
  | .finished .timeout => .list [.atom "finished", .atom "timeout"]
  | .finished .exhausted => .list [.atom "finished", .atom "exhausted"]
  | .finished (.raised e) => .list [.atom "finished", .atom "raised", .str e]

def encVerdict : Except String Bool → Sexp
  | .ok true => .atom "t"
  | .ok false => .atom "f"
  | .error e => .str e

def encProgs (ps : List Prog) : Sexp := .list (ps.map (fun p => .str (progStr p)))

/-- model run of one task + what the specification says about it -/
def runTask (k : Kind) (S : PS.C11.Sem Lbl Val String) (useCache : Bool) (s : Solver Prog) (c : Cache)
    (t : TaskRun Prog (List Val) Val) : Run Cache Prog String × Sexp :=
  let r := solve (test k (dslEv S useCache) t.examples) s c t.es t.dl t.answers
  let spec := PS.C11.specEval S
  let vd := verdict k spec t.examples
  let sats := sat spec t.examples
  let out := Sexp.list [
    .atom "task",
    encProgs r.yielded,
    encStatus r.status,
    ofNat r.solver.statsPrograms,
    (match r.solver.statsLast with | some p => .list [.atom "some", .str (progStr p)] | none => .list [.atom "none"]),
    ofNat r.solver.statsCloses,
    ofNat r.solver.programs,
    (match r.solver.score with | some sc => .list [ofNat sc.num, ofNat sc.den] | none => .list [.atom "none"]),
    encProgs (specYields vd sats t.es t.dl t.answers),
    .list (t.es.map (fun p => ofBool (sats p))),
    .list (t.es.map (fun p => encVerdict (vd p))),
    ofNat (horizon vd t.es t.dl)]
  (r, out)

def runOps (k : Kind) (S : PS.C11.Sem Lbl Val String) (useCache : Bool) :
    Solver Prog → Cache → List (Op Prog (List Val) Val) → List Sexp
  | _, _, [] => []
  | s, c, .task t :: rest =>
    let (r, out) := runTask k S useCache s c t
    out :: runOps k S useCache r.solver r.st rest
  | s, c, .resetStats :: rest => .list [.atom "ok"] :: runOps k S useCache (resetStats s) c rest
  | s, c, .clearCache :: rest => .list [.atom "ok"] :: runOps k S useCache s (PS.C11.clearCache c) rest

def handle : Sexp → Option Sexp
  | .list [.atom "c10.session", k, uc, .list skips, .list ops] => do
      let k ← decodeKind k
      let uc ← uc.bool?
      let skips ← allSome Sexp.string? skips
      let ops ← allSome decodeOp ops
      pure (.list (runOps k (mkSem skips) uc Solver.init [] ops))
  | _ => none

end PS.C10
