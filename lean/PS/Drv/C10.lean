/- Driver glue for C10: sessions of consecutive tasks on one solver and one evaluator.
   The evaluator is the C11 model (`PS.C11.eval`, with its cache) over the value universe and
   DSL semantics of Drv/C11.lean; the specification side uses the compositional `specEval`. -/
import PS.Sexp
import PS.Model.Solver
import PS.Model.SolverRestart
import PS.Drv.C11
import PS.Drv.C04
namespace PS.C10
open PS Sexp
open PS.C11 (Lbl Val mkSem decodeProg decodeVal)

abbrev Prog := Tree Lbl
abbrev Cache := PS.C11.Cache Lbl Val

partial def progStr : Prog → String
  | .node (.prim n) [] => n
  | .node (.var i) [] => "var" ++ toString i
  | .node l ks => "(" ++ " ".intercalate (progStr (.node l []) :: ks.map progStr) ++ ")"

def decodeExample : Sexp → Option (List Val × Val)
  | .list [.list inp, out] => do pure (← allSome decodeVal inp, ← decodeVal out)
  | _ => none

def decodeOp : Sexp → Option (Op Prog (List Val) Val)
  | .list [.atom "task", .list ps, .list exs, .list dl, .list as] => do
      pure (.task ⟨← allSome decodeExample exs, ← allSome decodeProg ps, ← allSome Sexp.bool? dl,
                   ← allSome Sexp.bool? as⟩)
  | .list [.atom "reset"] => some .resetStats
  | .list [.atom "clear"] => some .clearCache
  | _ => none

def decodeKind : Sexp → Option Kind
  | .atom "naive" => some .naive
  | .atom "cutoff" => some .cutoff
  | _ => none

def encStatus : Status String → Sexp
  | .suspended => .list [.atom "suspended"]
  | .finished .accepted => .list [.atom "finished", .atom "accepted"]
  | .finished .timeout => .list [.atom "finished", .atom "timeout"]
  | .finished .exhausted => .list [.atom "finished", .atom "exhausted"]
  | .finished (.raised e) => .list [.atom "finished", .atom "raised", .str e]

def encVerdict : Except String Bool → Sexp
  | .ok true => .atom "t"
  | .ok false => .atom "f"
  | .error e => .str e

def encProgs (ps : List Prog) : Sexp := .list (ps.map (fun p => .str (progStr p)))

/-- model run of one task + what the specification says about it -/
def runTask (k : Kind) (S : PS.C11.Sem Lbl Val String) (useCache : Bool) (s : Solver Prog) (c : Cache)
    (t : TaskRun Prog (List Val) Val) : Run Cache Prog String × Sexp :=
  let r := solve (test k (dslEv S useCache) t.examples) s c t.es t.dl t.answers
  let spec := PS.C11.specEval S
  let vd := verdict k spec t.examples
  let sats := sat spec t.examples
  let out := Sexp.list [
    .atom "task",
    encProgs r.yielded,
    encStatus r.status,
    ofNat r.solver.statsPrograms,
    (match r.solver.statsLast with | some p => .list [.atom "some", .str (progStr p)] | none => .list [.atom "none"]),
    ofNat r.solver.statsCloses,
    ofNat r.solver.programs,
    (match r.solver.score with | some sc => .list [ofNat sc.num, ofNat sc.den] | none => .list [.atom "none"]),
    encProgs (specYields vd sats t.es t.dl t.answers),
    .list (t.es.map (fun p => ofBool (sats p))),
    .list (t.es.map (fun p => encVerdict (vd p))),
    ofNat (horizon vd t.es t.dl)]
  (r, out)

def runOps (k : Kind) (S : PS.C11.Sem Lbl Val String) (useCache : Bool) :
    Solver Prog → Cache → List (Op Prog (List Val) Val) → List Sexp
  | _, _, [] => []
  | s, c, .task t :: rest =>
    let (r, out) := runTask k S useCache s c t
    out :: runOps k S useCache r.solver r.st rest
  | s, c, .resetStats :: rest => .list [.atom "ok"] :: runOps k S useCache (resetStats s) c rest
  | s, c, .clearCache :: rest => .list [.atom "ok"] :: runOps k S useCache s (PS.C11.clearCache c) rest


/-! ### restart solver (ops `c10.rsession`, `c10.rgrammar`) -/

/-- enumerators are numbered by the restart that created them; enumerator `i` serves the list
    `lists[i]` (materialised by the harness from the implementation's i-th enumerator) -/
def listStream (lists : List (List Prog)) (en : Nat) (i : Nat) : Option Prog :=
  match lists[en]? with
  | none => none
  | some l => l[i]?

/-- restart criteria of the harness: `(gt k)` = `len(_data) - _last_size > k` (the shape of the
    default criterion), `(every m)` = `_programs % m == 0`, `(never)`, `(always)` -/
def decodeCriterion : Sexp → Option (RSolver Prog → Bool)
  | .list [.atom "gt", k] => do
      let k ← k.nat?
      pure (fun s => decide (s.data.length - s.lastSize > k))
  | .list [.atom "every", m] => do
      let m ← m.nat?
      pure (fun s => decide (s.self.programs % m = 0))
  | .list [.atom "never"] => some (fun _ => false)
  | .list [.atom "always"] => some (fun _ => true)
  | _ => none

structure RTask where
  examples : List (List Val × Val)
  lists : List (List Prog)
  dl : List Bool
  answers : List Bool
  criterion : RSolver Prog → Bool
  fuel : Nat

inductive ROpD where
  | task (t : RTask)
  | resetStats
  | clearCache

def decodeROp : Sexp → Option ROpD
  | .list [.atom "task", .list lists, .list exs, .list dl, .list as, crit, fuel] => do
      let ls ← allSome (fun l => match l with | .list ps => allSome decodeProg ps | _ => none) lists
      pure (.task ⟨← allSome decodeExample exs, ls, ← allSome Sexp.bool? dl, ← allSome Sexp.bool? as,
                   ← decodeCriterion crit, ← fuel.nat?⟩)
  | .list [.atom "reset"] => some .resetStats
  | .list [.atom "clear"] => some .clearCache
  | _ => none

def encRStatus : RStatus String → Sexp
  | .suspended => .list [.atom "suspended"]
  | .outOfFuel => .list [.atom "outOfFuel"]
  | .finished .accepted => .list [.atom "finished", .atom "accepted"]
  | .finished .timeout => .list [.atom "finished", .atom "timeout"]
  | .finished .exhausted => .list [.atom "finished", .atom "exhausted"]
  | .finished .stopIteration => .list [.atom "finished", .atom "stopIteration"]
  | .finished (.raised e) => .list [.atom "finished", .atom "raised", .str e]

def encScore : Option Score → Sexp
  | some sc => .list [ofNat sc.num, ofNat sc.den]
  | none => .list [.atom "none"]

def encLast : Option Prog → Sexp
  | some p => .list [.atom "some", .str (progStr p)]
  | none => .list [.atom "none"]

def encSolver (s : Solver Prog) : Sexp :=
  .list [ofNat s.statsPrograms, encLast s.statsLast, ofNat s.statsCloses, ofNat s.programs, encScore s.score]

/-- model run of one task of the restart solver + what the specification says about it -/
def runRTask (k : Kind) (S : PS.C11.Sem Lbl Val String) (useCache fixNext fixStats : Bool) (s : RSolver Prog)
    (c : Cache) (t : RTask) : RRun Cache Prog String × Sexp :=
  let prm : Params Nat Prog := ⟨listStream t.lists, t.criterion, fun en _ => en + 1, fixNext, fixStats⟩
  let r := solveR prm (test k (dslEv S useCache) t.examples) t.fuel s c 0 t.dl t.answers
  let spec := PS.C11.specEval S
  let vd := verdict k spec t.examples
  let sats := sat spec t.examples
  let tp : Prog → Except String (Bool × Score) := fun p => (test k (pureEv spec) t.examples () p).2
  let seg := segRun prm tp t.fuel (initTaskR s) 0 0
  let es := seg.map (·.p)
  let out := Sexp.list [
    .atom "task",
    encProgs r.yielded,
    encRStatus r.status,
    encSolver r.solver.self,
    encSolver r.solver.sub,
    ofNat r.solver.statsRestarts,
    ofNat r.solver.restarts,
    .list (r.solver.data.map (fun d => .list [.str (progStr d.1), ofNat d.2.num, ofNat d.2.den])),
    ofNat r.solver.lastSize,
    -- specification
    encProgs es,
    .list (seg.map (fun e => .list [ofNat e.en, ofNat e.pos, ofNat e.s.data.length, ofNat e.s.restarts])),
    encProgs (specYields vd sats es t.dl t.answers),
    .list (es.map (fun p => ofBool (sats p))),
    .list (es.map (fun p => encVerdict (vd p))),
    ofNat (horizon vd es t.dl),
    .list (es.map (fun p => match tp p with
      | .ok (_, sc) => .list [ofNat sc.num, ofNat sc.den]
      | .error _ => .list [.atom "none"]))]
  (r, out)

def runROps (k : Kind) (S : PS.C11.Sem Lbl Val String) (useCache fixNext fixStats : Bool) :
    RSolver Prog → Cache → List ROpD → List Sexp
  | _, _, [] => []
  | s, c, .task t :: rest =>
    let (r, out) := runRTask k S useCache fixNext fixStats s c t
    out :: runROps k S useCache fixNext fixStats r.solver r.st rest
  | s, c, .resetStats :: rest => .list [.atom "ok"] :: runROps k S useCache fixNext fixStats (resetStatsR s) c rest
  | s, c, .clearCache :: rest => .list [.atom "ok"] :: runROps k S useCache fixNext fixStats s (PS.C11.clearCache c) rest

/-- `_restart_`'s grammar on the implementation's tables: model (`restartTags`) and specification
    (`specWeight`, for plain grammars) -/
def restartGrammar (g tg : Sexp) (data : List Sexp) (prior : Sexp) : Option Sexp := do
  let G ← PS.C04.decTT g
  let tags ← PS.C04.decTags tg
  let dat ← allSome (fun d => match d with
    | .list [p, sc] => do pure (← PS.Wire.decProg p, ← PS.C04.decRat sc)
    | _ => none) data
  let pr ← PS.C04.decRat prior
  match RG.restartTags G tags dat pr with
  | none => pure (.list [.atom "exn"])
  | some t =>
    let Gu := PS.C04.toUnit G
    let specT : Sexp :=
      if PS.C04.isPlain G then
        .list (Gu.rules.map (fun e => .list [PS.C04.encNTS (PS.C04.ofUnitNT e.1),
          .list (e.2.map (fun r => .list [PS.Wire.encSym r.1,
            PS.C04.encRat (RG.specWeight Gu dat pr e.1 (e.2.map (·.1)) r.1)]))]))
      else .list []
    pure (.list [.atom "ok", PS.C04.encTags t, specT])

def handle : Sexp → Option Sexp
  | .list [.atom "c10.session", k, uc, .list skips, .list ops] => do
      let k ← decodeKind k
      let uc ← uc.bool?
      let skips ← allSome Sexp.string? skips
      let ops ← allSome decodeOp ops
      pure (.list (runOps k (mkSem skips) uc Solver.init [] ops))
  | .list [.atom "c10.rsession", k, uc, .list skips, fixNext, fixStats, .list ops] => do
      let k ← decodeKind k
      let uc ← uc.bool?
      let skips ← allSome Sexp.string? skips
      let ops ← allSome decodeROp ops
      pure (.list (runROps k (mkSem skips) uc (← fixNext.bool?) (← fixStats.bool?) RSolver.init [] ops))
  | .list [.atom "c10.rgrammar", g, tg, .list data, prior] => restartGrammar g tg data prior
  | _ => none

end PS.C10
