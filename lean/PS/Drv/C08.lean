/- Driver glue for C08 (grammar splitting): compact wire format (non-terminals and symbols are
   interned by the harness), model of the node splitting / operation trace / fragment grammar
   and the specification (cover, cells) evaluated on the implementation's actual groups. -/
import PS.Sexp
import PS.Model.Splitter
namespace PS.C08
open PS PS.G PS.Sp Sexp

abbrev N := UNT Nat

def decNT : Sexp → Option N
  | .list [.atom "u", i] => do pure (Ty.unknown, ← i.nat?)
  | .list [t, i] => do pure (Ty.base (← t.string?), ← i.nat?)
  | _ => none

def encNT (n : N) : Sexp :=
  match n.1 with
  | .unknown => .list [.atom "u", ofNat n.2]
  | .base t => .list [.atom t, ofNat n.2]
  | _ => .list [.atom "?", ofNat n.2]

def decSym (s : Sexp) : Option Sym := do pure (Sym.prim (← s.string?) Ty.unknown)
def encSym (s : Sym) : Sexp := .atom s.name

def decRat : Sexp → Option Rat
  | .list [a, b] => do pure (mkRat (← a.int?) (← b.nat?))
  | _ => none
def encRat (r : Rat) : Sexp := .list [ofInt r.num, ofNat r.den]

def decNTs (s : Sexp) : Option (List N) := do allSome decNT (← s.list?)

def decPUG : Sexp → Option (PUG Nat)
  | .list [.atom "pug", starts, ss, .list rules, .list tags, .list stags] => do
    let rules ← allSome (fun e => match e with
      | .list (nt :: rs) => do
        pure (← decNT nt, ← allSome (fun r => match r with
          | .list (sy :: alts) => do pure (← decSym sy, ← allSome decNTs alts)
          | _ => none) rs)
      | _ => none) rules
    let tags ← allSome (fun e => match e with
      | .list (nt :: rs) => do
        pure (← decNT nt, ← allSome (fun r => match r with
          | .list (sy :: alts) => do pure (← decSym sy, ← allSome (fun a => match a with
            | .list [args, w] => do pure (← decNTs args, ← decRat w)
            | _ => none) alts)
          | _ => none) rs)
      | _ => none) tags
    let stags ← allSome (fun e => match e with
      | .list [nt, w] => do pure (← decNT nt, ← decRat w)
      | _ => none) stags
    pure { g := { starts := ← decNTs starts, rules := rules, someStart := ← decNT ss }, tags := tags, startTags := stags }
  | _ => none

def decNode : Sexp → Option (Node Nat)
  | .list [p, info, s, .list prog, hist, .list choices] => do
    pure { prob := ← decRat p, info := ← decNTs info, S := ← decNT s, program := ← allSome decSym prog,
           history := ← decNTs hist, choices := ← allSome decNTs choices }
  | _ => none

def encNode (n : Node Nat) : Sexp :=
  .list [encRat n.prob, .list (n.info.map encNT), encNT n.S, .list (n.program.map encSym),
         .list (n.history.map encNT), .list (n.choices.map (fun c => .list (c.map encNT)))]

def decOp : Sexp → Option Op
  | .list [.atom "swap", gi, j, k, l] => do
    let k ← k.int?
    pure (.swap (← gi.nat?) (← j.nat?) (if k < 0 then none else some k.toNat) (← l.nat?))
  | .list [.atom "split", gi] => do pure (.splitIn (← gi.nat?))
  | _ => none

def encPG (pgs : PG Nat) : Sexp := .list (pgs.map fun g => .list [.list (g.1.map encNode), encRat g.2])

/-- the program of a derivation, as the pre-order word of (symbol, arity) -/
def wordOf {V : Type} (w : List (UNT V × Sym × List (UNT V))) : Sexp :=
  .list (w.map fun st => .list [encSym st.2.1, ofNat st.2.2.length])

def handle : Sexp → Option Sexp
  | .list [.atom "c08.nodes", g, q, fuel] => do
    let pg ← decPUG g
    let res := splitUntil pg (← q.nat?) (← fuel.nat?) (startNodes pg)
    pure (.list [ofBool (WF pg), ofBool (normalised pg),
      match res with | none => .atom "none" | some ns => .list (ns.map encNode)])
  | .list [.atom "c08.groups", g, .list nodes, splits, .list trace] => do
    let pg ← decPUG g
    let nodes ← allSome decNode nodes
    let tr ← allSome decOp trace
    let g0 := initGroups nodes (← splits.nat?)
    pure (.list [encPG g0, match applyTrace pg g0 tr with | none => .atom "none" | some r => encPG r])
  | .list [.atom "c08.cover", g, .list groups, fuel] => do
    let pg ← decPUG g
    let groups ← allSome (fun s => do allSome decNode (← s.list?)) groups
    let k ← fuel.nat?
    let ns := groups.flatMap id
    pure (.list [ofBool (WF pg), ofBool (normalised pg), ofBool (ns.all (validB pg.g)), ofBool (coverUpTo pg.g k ns),
      ofNat (derivations pg.g k).length, ofNat (derivations pg.g (k + 1)).length,
      .list (groups.map fun grp => .list ((grp.flatMap (cell pg.g k)).map fun d => wordOf d.2))])
  | .list [.atom "c08.frag", g, .list group, fuel] => do
    let pg ← decPUG g
    let group ← allSome decNode group
    let k ← fuel.nat?
    let spec := cellSpec pg k group
    let specS : Sexp := .list (spec.map fun e => .list [wordOf e.1.2, encRat e.2])
    match pcfgFrom pg group 100000 with
    | none => pure (.list [specS, .atom "none"])
    | some fr =>
      let ds := derivations fr.g k
      pure (.list [specS, .list [ofBool (WF fr), ofBool (normalised fr), ofNat fr.g.rules.length,
        .list (ds.map fun d => .list [wordOf d.2, encRat (derivProb fr d.1 d.2)]),
        ofNat (derivations fr.g (k + 1)).length]])
  | _ => none

end PS.C08
