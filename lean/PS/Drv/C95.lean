/- Driver glue for constant-delay search (parts `cd` of C02, C03, C12): requests `(cd.<op> …)`.
   Non-terminals, symbols and types are the integers the harness assigns by Python equality.
   `cd.run` runs the model twice: with IEEE doubles (`floatArith`, full table dump, floats as their
   64 bits) and with exact rationals (`ratArith`, yielded sequence and cost list of the start symbol).
   `cd.queue` runs a script of queue operations on a single `CDQueue` (both arithmetics). -/
import PS.Sexp
import PS.Model.Enum.ConstantDelay
namespace PS.C95
open PS PS.CD Sexp

partial def decProg : Sexp → Option Prog
  | .list (h :: args) => do pure (.node (← h.nat?) (← allSome decProg args))
  | _ => none

partial def encProg : Prog → Sexp
  | .node h args => .list (ofNat h :: args.map encProg)

def decRule : Sexp → Option (Sym × (List NT × Int))
  | .list [p, .list args, w] => do pure (← p.nat?, (← allSome Sexp.nat? args, ← w.int?))
  | _ => none

/-- `(start ((nt ty (rule …)) …))` -/
def decGram : Sexp → Option Gram
  | .list [st, .list entries] => do
      let es ← allSome (fun e => match e with
        | .list [nt, ty, .list rs] => do pure (← nt.nat?, ← ty.nat?, ← allSome decRule rs)
        | _ => none) entries
      pure { start := ← st.nat?, rules := es.map fun e => (e.1, e.2.2), ty := es.map fun e => (e.1, e.2.1) }
  | _ => none

inductive Act where
  | take (k : Nat)
  | merge (p : Prog) (ty : Nat)

def decAct : Sexp → Option Act
  | .list [.atom "take", k] => do pure (.take (← k.nat?))
  | .list [.atom "merge", p, t] => do pure (.merge (← decProg p) (← t.nat?))
  | _ => none

section
variable {α : Type}

def runScript (E : Env α) (fuel : Nat) : List Act → Gen α → List Sexp → Option (Gen α × List Sexp)
  | [], g, out => some (g, out)
  | .merge p t :: rest, g, out => runScript E fuel rest (merge E g p t) out
  | .take k :: rest, g, out =>
    match take E fuel k g [] with
    | none => none
    | some (g', ys, fin) => runScript E fuel rest g' (out ++ [.list [.list (ys.map encProg), ofBool fin]])

partial def encCell (enc : α → Sexp) : Cell α → Sexp
  | .empty => ofNat 0
  | .leaf ct => .list [ofNat 1, enc ct.cost, .list (ct.combs.map fun c => .list (c.map ofNat))]
  | .node n sub => .list [ofNat n, .list (sub.map (encCell enc))]

def encOpt (enc : α → Sexp) : Option α → Sexp
  | none => .atom "none"
  | some x => enc x

def encQ (enc : α → Sexp) (q : Q α) : Sexp :=
  .list [enc q.maxi, ofNat q.k, encOpt enc q.mini, ofNat q.translation, ofNat q.nelements, ofNat q.n,
         encOpt enc q.start, .list (q.cells.map (encCell enc))]

def encRef : Ref → Sexp
  | none => .atom "none"
  | some (S, ci) => .list [ofNat S, ofNat ci]

def report (enc : α → Sexp) (g : Gen α) (out : List Sexp) : Sexp :=
  let s := g.st
  .list [.atom "ok", .list out,
    .list (s.queueNt.map fun (S, h) => .list [ofNat S, .list (h.map fun d => .list [enc d.cost, ofNat d.comb, ofNat d.P])]),
    .list (s.costNt.map fun (S, l) => .list [ofNat S, .list (l.map enc)]),
    .list (s.bankNt.map fun (S, b) => .list [ofNat S, .list (b.map fun (ci, l) => .list [ofNat ci, .list (l.map encProg)])]),
    .list (s.queueDer.map fun (a, q) => .list [.list (a.map ofNat), encQ enc q]),
    .list (s.costDer.map fun (a, l) => .list [.list (a.map ofNat), .list (l.map enc)]),
    .list (s.bankDer.map fun (a, b) => .list [.list (a.map ofNat),
        .list (b.map fun (ci, l) => .list [ofNat ci, .list (l.map fun poss => .list (poss.map encRef))])]),
    .list (s.emptiesNt.map fun (S, l) => .list [ofNat S, .list (l.map ofNat)]),
    .list (s.emptiesDer.map fun (a, l) => .list [.list (a.map ofNat), .list (l.map ofNat)]),
    .list (s.deleted.map encProg)]
end

def encFloat (x : Float) : Sexp := .atom (toString x.toBits.toNat)
def encRat (q : Rat) : Sexp := .str (toString q.num ++ "/" ++ toString q.den)

def handleRun (gr k rej script fuel fixM mulFirst : Sexp) : Option Sexp := do
  let fixM ← fixM.bool?
  let mulFirst ← mulFirst.bool?
  let G ← decGram gr
  let k ← k.nat?
  let rejected ← allSome decProg (← rej.list?)
  let acts ← allSome decAct (← script.list?)
  let fuel ← fuel.nat?
  let filt : Prog → Bool := fun p => !rejected.contains p
  let EF : Env Float := { A := { floatArith with mulFirst := mulFirst }, G := G, k := k, filter := filt, fixM := fixM }
  let ER : Env Rat := { A := { ratArith with mulFirst := mulFirst }, G := G, k := k, filter := filt, fixM := fixM }
  let rf : Sexp := match (Gen.new EF).bind fun g => runScript EF fuel acts g [] with
    | none => .list [.atom "undef"]
    | some (g, out) => report encFloat g out
  let rr : Sexp := match (Gen.new ER).bind fun g => runScript ER fuel acts g [] with
    | none => .list [.atom "undef"]
    | some (g, out) => .list [.atom "ok", .list out,
        .list (((AList.lookup G.start g.st.costNt).getD []).map encRat)]
  -- when the float run is undefined: is it the `assert` of CDQueue.push (defined without it)?
  let na : Sexp := match rf with
    | .list [.atom "undef"] =>
      let EN : Env Float := { EF with asserts := false }
      match (Gen.new EN).bind fun g => runScript EN fuel acts g [] with
      | none => .atom "undef"
      | some _ => .atom "ok"
    | _ => .atom "ok"
  pure (.list [rf, rr, na])

/-! ### a single queue -/
inductive QAct where
  | push (cost : Int) (comb : List Nat)
  | pop
  | update
  | peek
  | clear

def decQAct : Sexp → Option QAct
  | .list [.atom "push", c, .list comb] => do pure (.push (← c.int?) (← allSome Sexp.nat? comb))
  | .list [.atom "pop"] => some .pop
  | .list [.atom "update"] => some .update
  | .list [.atom "peek"] => some .peek
  | .list [.atom "clear"] => some .clear
  | _ => none

section
variable {α : Type}
def encCT (enc : α → Sexp) (ct : CT α) : Sexp := .list [enc ct.cost, .list (ct.combs.map fun c => .list (c.map ofNat))]

/-- the answers of the observers (`pop`, `peek`) and the final queue; stops at the first
    undefined operation and reports its position -/
def runQ (A : Arith α) (enc : α → Sexp) : List QAct → Q α → Nat → List Sexp → Sexp
  | [], q, _, out => .list [.atom "ok", .list out, encQ enc q]
  | a :: rest, q, i, out =>
    match a with
    | .push c comb =>
      match q.push A ⟨A.ofInt c, [comb]⟩ with
      | none => .list [.atom "undef", ofNat i, .list out, encQ enc q]
      | some q' => runQ A enc rest q' (i + 1) out
    | .pop =>
      match q.pop with
      | none => .list [.atom "undef", ofNat i, .list out, encQ enc q]
      | some (ct, q') => runQ A enc rest q' (i + 1) (out ++ [encCT enc ct])
    | .update =>
      match q.update A with
      | none => .list [.atom "undef", ofNat i, .list out, encQ enc q]
      | some q' => runQ A enc rest q' (i + 1) out
    | .peek =>
      match q.peek with
      | none => runQ A enc rest q (i + 1) (out ++ [.atom "none"])
      | some ct => runQ A enc rest q (i + 1) (out ++ [encCT enc ct])
    | .clear => runQ A enc rest q.clear (i + 1) out
end

def handleQueue (maxi k script mulFirst : Sexp) : Option Sexp := do
  let mulFirst ← mulFirst.bool?
  let fA : Arith Float := { floatArith with mulFirst := mulFirst }
  let rA : Arith Rat := { ratArith with mulFirst := mulFirst }
  let maxi ← maxi.int?
  let k ← k.nat?
  let acts ← allSome decQAct (← script.list?)
  let rf := match Q.new fA maxi k with
    | none => .list [.atom "undef", ofNat 0]
    | some q => runQ fA encFloat acts q 0 []
  let rr := match Q.new rA maxi k with
    | none => .list [.atom "undef", ofNat 0]
    | some q => runQ rA encRat acts q 0 []
  pure (.list [rf, rr])

def handle : Sexp → Option Sexp
  | .list [.atom "cd.run", gr, k, rej, script, fuel, fixM, mulFirst] => handleRun gr k rej script fuel fixM mulFirst
  | .list [.atom "cd.queue", maxi, k, script, mulFirst] => handleQueue maxi k script mulFirst
  | _ => none

end PS.C95
