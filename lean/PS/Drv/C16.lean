/- Driver glue for C16: decode objects, answer with model (literal) and spec outputs. -/
import PS.Sexp
import PS.Model.HashEq
namespace PS.C16
open PS Sexp

def decodeAtom : Sexp → Option Atom
  | .atom "none" => some .none
  | .list [.atom "b", b] => do pure (.bool (← b.bool?))
  | .list [.atom "i", n] => do pure (.int (← n.int?))
  | .list [.atom "h", n] => do pure (.half (← n.int?))
  | .list [.atom "s", .str s] => some (.str s)
  | _ => none

def decodeVal : Sexp → Option PyVal
  | .list (.atom "t" :: xs) => do pure (.tuple (← allSome decodeAtom xs))
  | .list (.atom "l" :: xs) => do pure (.list (← allSome decodeAtom xs))
  | x => do pure (.atom (← decodeAtom x))

/-- objects are decoded by *applying the constructors* (`Constant(type, value, has_value)`
    normalises `_has_value`) -/
partial def decode : Sexp → Option T
  | .list [.atom "p", .str n] => some (.node (.tprim n) [])
  | .list [.atom "poly", .str n] => some (.node (.tpoly n) [])
  | .list (.atom "fpoly" :: .str n :: ts) => do pure (.node (.tfpoly n) (← allSome decode ts))
  | .list (.atom "sum" :: ts) => do pure (.node .tsum (← allSome decode ts))
  | .list [.atom "->", a, b] => do pure (.node .tarrow [← decode a, ← decode b])
  | .list (.atom "g" :: .str n :: i :: ts) => do pure (.node (.tgeneric n (← i.bool?)) (← allSome decode ts))
  | .list [.atom "unk"] => some (.node .unknown [])
  | .list [.atom "P", .str n, t] => do pure (.node (.pprim n) [← decode t])
  | .list [.atom "V", i, t] => do pure (.node (.pvar (← i.int?)) [← decode t])
  | .list [.atom "C", t, hv, v, .str r] => do
      pure (.node (constLab (← decodeVal v) r (← hv.bool?)) [← decode t])
  | .list (.atom "F" :: tup :: f :: as) => do
      pure (.node (.pfun (← tup.bool?)) ((← decode f) :: (← allSome decode as)))
  | .list [.atom "L", b, t] => do pure (.node .plam [← decode b, ← decode t])
  | _ => none

def encodeAtom : Atom → Sexp
  | .none => .atom "none"
  | .bool b => .list [.atom "b", ofBool b]
  | .int n => .list [.atom "i", ofInt n]
  | .half n => .list [.atom "h", ofInt n]
  | .str s => .list [.atom "s", .str s]

def encodeVal : PyVal → Sexp
  | .atom a => encodeAtom a
  | .tuple l => .list (.atom "t" :: l.map encodeAtom)
  | .list l => .list (.atom "l" :: l.map encodeAtom)

partial def encode : T → Sexp
  | .node l ks =>
    let kids := ks.map encode
    match l with
    | .tprim n => .list [.atom "p", .str n]
    | .tpoly n => .list [.atom "poly", .str n]
    | .tfpoly n => .list (.atom "fpoly" :: .str n :: kids)
    | .tsum => .list (.atom "sum" :: kids)
    | .tarrow => .list (.atom "->" :: kids)
    | .tgeneric n i => .list (.atom "g" :: .str n :: ofBool i :: kids)
    | .unknown => .list [.atom "unk"]
    | .pprim n => .list (.atom "P" :: .str n :: kids)
    | .pvar i => .list (.atom "V" :: ofInt i :: kids)
    | .pconst hv v r => .list (.atom "C" :: (kids ++ [ofBool hv, encodeVal v, .str r]))
    | .pfun t => .list (.atom "F" :: ofBool t :: kids)
    | .plam => .list (.atom "L" :: kids)

def decodePath (s : Sexp) : Option (List Nat) := do
  let xs ← s.list?
  allSome Sexp.nat? xs

def decodeOp : Sexp → Option (List Nat × Bool × PyVal × String)
  | .list [path, hv, v, .str r] => do pure (← decodePath path, ← hv.bool?, ← decodeVal v, r)
  | _ => none

def handle : Sexp → Option Sexp
  | .list [.atom "c16.pair", a, b] => do
      let a ← decode a
      let b ← decode b
      let ha := pyHash h0 a
      let hb := pyHash h0 b
      pure (.list [
        ofBool (pyEq h0 a b), ofBool (pyEq h0 b a), ofBool (ha == hb),
        ofBool (memKey h0 a b), ofBool (memKey h0 b a),
        ofBool (eqS a b), ofBool (eqS b a), ofBool (hashS h0 a == hashS h0 b),
        ofBool (ha == hashS h0 a && hb == hashS h0 b),
        ofBool (wf a && wf b)])
  | .list [.atom "c16.pickle", a] => do
      let a ← decode a
      let o := build h0 a
      let o' := unpickle h0 (pickle o)
      pure (.list [encode (erase o'), ofBool (cached o' == pyHash h0 a), ofBool (pyEq h0 (erase o') a),
                   ofBool (cached o == pyHash h0 a), ofBool (wf a)])
  -- `fx` = 1: the implementation contains the repair of C16-F7 (probed by the harness); the hash
  -- of the mutated object is then `hashAfter` (recomputed through Function/Lambda), else the cached field
  | .list [.atom "c16.assign", fx, a, .list ops, fresh] => do
      let fx := (← fx.nat?) != 0
      let a ← decode a
      let fresh ← decode fresh
      let ops ← allSome decodeOp ops
      let ops' : List Op := ops.map fun (op : List Nat × Bool × PyVal × String) => ⟨op.1, op.2.1, op.2.2.1, op.2.2.2⟩
      let o := runOps h0 ops' (build h0 a)
      pure (.list [encode (erase o), ofBool (pyEq h0 (erase o) fresh), ofBool (pyEq h0 fresh (erase o)),
                   ofBool (objHash h0 fx o == pyHash h0 fresh), ofBool (objHash h0 fx o == pyHash h0 a),
                   ofBool (validOps h0 ops' (build h0 a))])
  | _ => none

end PS.C16
