/- Driver glue for C09: decode weights / draw scripts / small grammars, run the model
   (PS.Sampler) and the specification functions. Rationals travel as strings "n/d". -/
import PS.Sexp
import PS.Model.Sampler
import PS.Model.SamplerU
namespace PS.C09
open PS Sexp PS.Sampler

def rat? : Sexp → Option Rat
  | .str s | .atom s =>
    match s.splitOn "/" with
    | [a] => a.toInt?.map (fun (i : Int) => (i : Rat))
    | [a, b] => do
        let n ← a.toInt?
        let d ← b.toNat?
        if d = 0 then none else pure (mkRat n d)
    | _ => none
  | _ => none

def ofRat (r : Rat) : Sexp := .str (toString r.num ++ "/" ++ toString r.den)
def rats (rs : List Rat) : Sexp := .list (rs.map ofRat)
def nats (ns : List Nat) : Sexp := .list (ns.map ofNat)

def pair? : Sexp → Option (Rat × Rat)
  | .list [a, b] => do pure (← rat? a, ← rat? b)
  | _ => none

def optRats? : Sexp → Option (Option (List Rat))
  | .atom "none" => some none
  | .list xs => do pure (some (← allSome rat? xs))
  | _ => none

partial def vty? : Sexp → Option VTy
  | .list [.atom "b", n] => do pure (.base (← n.string?))
  | .list [.atom "l", t] => do pure (.list (← vty? t))
  | _ => none

partial def ofVal : Val → Sexp
  | .node (some v) _ => .list [.atom "v", .str v]
  | .node none ks => .list (.atom "l" :: ks.map ofVal)

partial def ofTree : Tree Nat → Sexp
  | .node s ks => .list (ofNat s :: ks.map ofTree)

partial def tree? : Sexp → Option (Tree Nat)
  | .list (s :: ks) => do pure (.node (← s.nat?) (← allSome tree? ks))
  | _ => none

def rule? : Sexp → Option (Sym × (List NT × Rat))
  | .list [s, .list args, w] => do pure (← s.nat?, (← allSome Sexp.nat? args, ← rat? w))
  | _ => none

def detG? : Sexp → Option DetG
  | .list nts => allSome (fun
      | .list [s, .list rules] => do pure (← s.nat?, ← allSome rule? rules)
      | _ => none) nts
  | _ => none

def draws? : Sexp → Option Draws
  | .list xs => allSome (fun
      | .list [s, .list is] => do pure (← s.nat?, ← allSome Sexp.nat? is)
      | _ => none) xs
  | _ => none

def urule? : Sexp → Option (Sym × List (List NT × Rat))
  | .list [s, .list alts] => do
      pure (← s.nat?, ← allSome (fun
        | .list [.list args, w] => do pure (← allSome Sexp.nat? args, ← rat? w)
        | _ => none) alts)
  | _ => none

def uG? : Sexp → Option UG
  | .list nts => allSome (fun
      | .list [s, .list rules] => do pure (← s.nat?, ← allSome urule? rules)
      | _ => none) nts
  | _ => none

def altDraws? : Sexp → Option ADraws
  | .list xs => allSome (fun
      | .list [s, p, .list is] => do pure ((← s.nat?, ← p.nat?), ← allSome Sexp.nat? is)
      | _ => none) xs
  | _ => none

/-- merge equal trees of a finite distribution (first-occurrence order) -/
def mergeDist (d : Dist (Tree Nat)) : List (Tree Nat × Rat) :=
  d.foldl (fun acc p =>
    if acc.any (fun q => q.1 = p.1) then acc.map (fun q => if q.1 = p.1 then (q.1, q.2 + p.2) else q)
    else acc ++ [p]) []

def optTree (r : Option (Tree Nat)) : Sexp :=
  match r with
  | none => .atom "none"
  | some t => .list [.atom "t", ofTree t]

def handle : Sexp → Option Sexp
  -- (c09.alias (w …) ((x u) …)) → tables, induced distribution, normalised weights, sample_1 decisions
  | .list [.atom "c09.alias", .list ws, .list ds] => do
      let ws ← allSome rat? ws
      let ds ← allSome pair? ds
      if ws = [] then pure (.list [.atom "raised", .str "empty"]) else
      let T := build ws
      let n := ws.length
      pure (.list [nats T.alias, rats T.proba,
                   rats ((List.range n).map (aliasDist T)),
                   rats ((List.range n).map (normalised ws)),
                   nats (sampleMany T ds)])
  -- (c09.lex ("a" "b" …) probs|none (index …)) → weights, values for the indices, (value dist spec)…
  | .list [.atom "c09.lex", .list lexicon, probs, .list idx] => do
      let lexicon ← allSome Sexp.string? lexicon
      let probs ← optRats? probs
      let idx ← allSome Sexp.nat? idx
      let ws := lexWeights lexicon.length probs
      let vals := lexicon.eraseDups
      pure (.list [rats ws,
                   .list (idx.map (fun i => match lexSample lexicon i with | some v => .str v | none => .atom "none")),
                   .list (vals.map (fun v => .list [.str v, ofRat (lexDist lexicon probs v), ofRat (lexSpec lexicon probs v)]))])
  -- (c09.list maxDepth (mapping …) ty (lens …) (elems …)) → value | none, remaining draws
  | .list [.atom "c09.list", md, .list mapping, ty, .list lens, .list elems] => do
      let md ← md.int?
      let mapping ← allSome Sexp.nat? mapping
      let ty ← vty? ty
      let lens ← allSome Sexp.nat? lens
      let elems ← allSome Sexp.string? elems
      match listSampleFor md mapping ty ⟨lens, elems⟩ with
      | none => pure (.atom "none")
      | some (v, d) => pure (.list [ofVal v, nats d.lens, ofNat d.elems.length])
  -- (c09.lentable (p …)) → ((len p) …)
  | .list [.atom "c09.lentable", .list ps] => do
      let ps ← allSome rat? ps
      pure (.list ((lengthTable ps).map (fun q => .list [ofNat q.1, ofRat q.2])))
  -- (c09.union ((ty i) …) fallback|none ty) → i | none
  | .list [.atom "c09.union", .list tbl, fb, ty] => do
      let tbl ← allSome (fun
        | .list [t, i] => do pure (← vty? t, ← i.nat?)
        | _ => none) tbl
      let fb ← (match fb with | .atom "none" => some none | x => x.nat?.map some)
      let ty ← vty? ty
      match unionPick tbl fb ty with
      | none => pure (.atom "none")
      | some i => pure (ofNat i)
  -- (c09.gdet G start fuel draws n) → per call: (t tree)|none ; then membership/probability of each
  | .list [.atom "c09.gdet", g, start, fuel, ds, n] => do
      let G ← detG? g
      let start ← start.nat?
      let fuel ← fuel.nat?
      let ds ← draws? ds
      let n ← n.nat?
      let seq := sampleSeq G fuel start n ds
      pure (.list (seq.map (fun r =>
        match r with
        | none => .atom "none"
        | some t => .list [.atom "t", ofTree t, ofBool (derives G start t), ofRat (prob G start t)])))
  -- (c09.gdist G start fuel) → ((tree mass prob derives) …) of the distribution unfolding
  | .list [.atom "c09.gdist", g, start, fuel] => do
      let G ← detG? g
      let start ← start.nat?
      let fuel ← fuel.nat?
      pure (.list ((mergeDist (sampleDist G fuel start)).map (fun p =>
        .list [ofTree p.1, ofRat p.2, ofRat (prob G start p.1), ofBool (derives G start p.1)])))
  -- (c09.gprob G start (tree …)) → ((derives prob) …)
  | .list [.atom "c09.gprob", g, start, .list ts] => do
      let G ← detG? g
      let start ← start.nat?
      let ts ← allSome tree? ts
      pure (.list (ts.map (fun t => .list [ofBool (derives G start t), ofRat (prob G start t)])))
  -- (c09.gu G starts fuel startDraws ruleDraws altDraws n)
  | .list [.atom "c09.gu", g, .list starts, fuel, .list sd, rd, ad, n] => do
      let G ← uG? g
      let starts ← allSome Sexp.nat? starts
      let fuel ← fuel.nat?
      let sd ← allSome Sexp.nat? sd
      let rd ← draws? rd
      let ad ← altDraws? ad
      let n ← n.nat?
      let seq := sampleSeqU G starts fuel n ⟨sd, rd, ad⟩
      pure (.list (seq.map (fun r =>
        match r with
        | none => .atom "none"
        | some t => .list [.atom "t", ofTree t, ofBool (starts.any (fun s => derivesU G s t))])))
  -- (c09.seeds seed nTags nRules) → (det seeds) (rule seeds) start (alternative seeds)
  | .list [.atom "c09.seeds", seed, nt, nr] => do
      let seed ← seed.nat?
      let nt ← nt.nat?
      let nr ← nr.nat?
      pure (.list [nats (detSeeds seed nt), nats (ruleSeedsU seed nt), ofNat (startSeedU seed nt), nats (altSeedsU seed nt nr)])
  | _ => none

end PS.C09
