/- Driver glue for C07: decode an automaton over string letters and a universal state type
   (ints, `none`, tuples — what the Python operations build), apply one operation of
   PS/Model/Dfta.lean, answer with the resulting table, its reachable states, the acceptance
   bits of the result (model) and of the language operation on the inputs (spec) on every tree
   up to a depth bound plus explicitly listed trees, and some `read` queries. -/
import PS.Sexp
import PS.Model.Dfta
namespace PS.C07
open PS Sexp

/-- universal state: `node s []` is the atom `s` (an int or `none`), `node "" kids` a tuple -/
abbrev QV := Tree String
abbrev Aut := DFTA String QV

partial def decQ : Sexp → Option QV
  | .atom s => some (.node s [])
  | .str s => some (.node s [])
  | .list xs => do pure (.node "" (← allSome decQ xs))

partial def encQ : QV → Sexp
  | .node "" ks => .list (ks.map encQ)
  | .node s _ => .atom s

def tup (xs : List QV) : QV := .node "" xs
def qnone : QV := .node "none" []

def decRule : Sexp → Option ((String × List QV) × QV)
  | .list [l, .list args, d] => do pure ((← l.string?, ← allSome decQ args), ← decQ d)
  | _ => none

def decAut : Sexp → Option Aut
  | .list [.atom "dfta", .list rules, .list finals] => do
      pure { rules := ← allSome decRule rules, finals := ← allSome decQ finals }
  | _ => none

def encAut (A : Aut) : Sexp :=
  .list [.atom "dfta", .list (A.rules.map (fun r => .list [.str r.1.1, .list (r.1.2.map encQ), encQ r.2])),
         .list (A.finals.map encQ)]

partial def decTree : Sexp → Option (Tree String)
  | .list (l :: ks) => do pure (.node (← l.string?) (← allSome decTree ks))
  | _ => none

def decAlpha : Sexp → Option (String × Nat)
  | .list [l, a] => do pure (← l.string?, ← a.nat?)
  | _ => none

/-- all trees of depth ≤ d, letters in the given order, children in product order -/
def treesUpTo (alpha : List (String × Nat)) : Nat → List (Tree String)
  | 0 => []
  | d + 1 =>
    let prev := treesUpTo alpha d
    alpha.flatMap (fun la => (cartesian (List.replicate la.2 prev)).map (Tree.node la.1))

def bitString (bs : List Bool) : Sexp := .str (String.ofList (bs.map (fun b => if b then '1' else '0')))

/-- plain relabelling of a table (glue: no dict semantics involved, `g` is injective) -/
def relabel {Q : Type} (g : Q → QV) (A : DFTA String Q) : Aut :=
  { rules := A.rules.map (fun r => ((r.1.1, r.1.2.map g), g r.2)), finals := A.finals.map g }

def encOpt : Option QV → QV
  | some q => q
  | none => qnone

def decPair : Sexp → Option (QV × QV)
  | .list [a, b] => do pure (← decQ a, ← decQ b)
  | _ => none

/-- result automaton (none = fuel exhausted) and the specification's acceptance function -/
def applyOp (name : String) (A B : Aut) (params : Sexp) : Option (Option Aut × (Tree String → Bool)) :=
  match name with
  | "states" => some (some A, A.accepts)
  | "reduce" => some (some A.reduce, A.accepts)
  | "unreachable" => some (some A.removeUnreachable, A.accepts)
  | "product" =>
      some (some (relabel (fun p => tup [p.1, p.2]) (A.readProduct B)), fun t => A.accepts t && B.accepts t)
  | "union" =>
      some (some (relabel (fun p => tup [encOpt p.1, encOpt p.2]) (A.readUnion B)), fun t => A.accepts t || B.accepts t)
  | "map" => do
      let tbl ← allSome decPair (← params.list?)
      some (some (A.mapStates (fun q => (AList.lookup q tbl).getD q)), A.accepts)
  | "minimise" =>
      match params with
      | .list [.list c0, .list c1] => do
          let c0 ← allSome decQ c0
          let c1 ← allSome decQ c1
          some ((DFTA.minimiseCore tup A c0 c1 (A.states.length + 2)), A.accepts)
      | _ => some (DFTA.minimiseWith tup A, A.accepts)
  | "minimise_map" => some (DFTA.minimiseWith (fun c => tup (.node "m" [] :: c)) A, A.accepts)
  | _ => none

/-- for `minimise`: the congruence certificate (PS.DFTA.congruenceCert) of the final partition,
    the hypothesis of theorem `C07_min_lang_cert`; `-` for the other operations -/
def certOf (name : String) (A : Aut) (params : Sexp) : Sexp :=
  let c0 := A.states.filter (fun q => decide (q ∉ A.finals))
  let c1 := A.states.filter (fun q => decide (q ∈ A.finals))
  let cls : Option (List QV × List QV) := match params with
    | .list [.list a, .list b] => match allSome decQ a, allSome decQ b with
      | some x, some y => some (x, y)
      | _, _ => none
    | _ => some (c0, c1)
  match name, cls with
  | "minimise", some (x, y) =>
    match DFTA.minimiseState A x y (A.states.length + 2) with
    | some st => ofBool (DFTA.congruenceCert A (fun q => tup (DFTA.clsTuple st q)) (DFTA.stateSet A))
    | none => .atom "-"
  | "minimise_map", _ =>
    match DFTA.minimiseState A c0 c1 (A.states.length + 2) with
    | some st => ofBool (DFTA.congruenceCert A (fun q => tup (.node "m" [] :: DFTA.clsTuple st q)) (DFTA.stateSet A))
    | none => .atom "-"
  | _, _ => .atom "-"

def handle : Sexp → Option Sexp
  | .list [.atom "c07.op", name, a, b, params, depth, .list alpha, .list xtrees, .list reads, nonce] => do
      let name ← name.string?
      let A ← decAut a
      let B ← match b with
        | .list [] => some { rules := [], finals := [] }
        | _ => decAut b
      let d ← depth.nat?
      let alpha ← allSome decAlpha alpha
      let xt ← allSome decTree xtrees
      let rd ← allSome (fun s => match s with
        | .list [l, .list qs] => do pure (← l.string?, ← allSome decQ qs)
        | _ => none) reads
      let (res, spec) ← applyOp name A B params
      match res with
      | none => pure (.list [.atom "fail", .str "fuel", nonce])
      | some R =>
        let ts := treesUpTo alpha d
        pure (.list [.atom "ok", encAut R, .list (R.states.map encQ),
          bitString (ts.map R.accepts), bitString (ts.map spec),
          bitString (xt.map R.accepts), bitString (xt.map spec),
          .list (rd.map (fun lq => match R.read lq.1 lq.2 with
            | some q => encQ q
            | none => .atom "none")), certOf name A params, nonce])
  | _ => none

end PS.C07
