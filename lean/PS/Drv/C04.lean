/- Driver glue for C04: probabilistic deterministic / unambiguous grammars.
   Non-terminal state components are opaque strings on the wire (`TT String String`,
   `UCFG String`); a grammar all of whose rule states are "None" is also read as `TT String Unit`
   so that the specification (`prob`, `gen`, `lang`, `mass`, `bounded`) can be evaluated. -/
import PS.Drv.Wire
import PS.Model.Prob
import PS.Model.Ttcfg
namespace PS.C04
open PS PS.G PS.U PS.Wire Sexp

/-! ### rationals "n/d" -/
def decRat (s : Sexp) : Option Rat := do
  let str ← s.string?
  match str.splitOn "/" with
  | [n] => do pure ((← n.toInt?) : Rat)
  | [n, d] => do
      let dn ← d.toNat?
      if dn = 0 then none else pure (mkRat (← n.toInt?) dn)
  | _ => none

def encRat (q : Rat) : Sexp := .str (toString q.num ++ "/" ++ toString q.den)

/-! ### deterministic grammars, generic states -/
abbrev GS := TT String String

def decArgS : Sexp → Option (Ty × String)
  | .list [t, s] => do pure (← decTy t, ← s.string?)
  | _ => none
def decNTS : Sexp → Option (NT String String)
  | .list [t, s, st] => do pure (← decTy t, (← s.string?, ← st.string?))
  | _ => none
def encNTS (n : NT String String) : Sexp := .list [encTy n.1, .str n.2.1, .str n.2.2]

def decTT : Sexp → Option GS
  | .list [.atom "tt", st, .list entries] => do
      let start ← decNTS st
      let rules ← allSome (fun e => match e with
        | .list [nt, .list rs] => do
            pure (← decNTS nt, ← allSome (fun r => match r with
              | .list [sy, .list args, st] => do pure (← decSym sy, (← allSome decArgS args, ← st.string?))
              | _ => none) rs)
        | _ => none) entries
      pure ⟨start, rules⟩
  | _ => none

def decTags : Sexp → Option (Tags String String)
  | .list entries => allSome (fun e => match e with
      | .list [nt, .list row] => do
          pure (← decNTS nt, ← allSome (fun r => match r with
            | .list [sy, w] => do pure (← decSym sy, ← decRat w)
            | _ => none) row)
      | _ => none) entries
  | _ => none

def encTags (t : Tags String String) : Sexp :=
  .list (t.map fun e => .list [encNTS e.1, .list (e.2.map fun r => .list [encSym r.1, encRat r.2])])

/-- forget the (trivial) rule states -/
def toUnitNT (n : NT String String) : NT String Unit := (n.1, (n.2.1, ()))
def ofUnitNT (n : NT String Unit) : NT String String := (n.1, (n.2.1, "None"))
def isPlain (G : GS) : Bool :=
  G.start.2.2 == "None" && G.rules.all (fun e => e.1.2.2 == "None" && e.2.all (fun r => r.2.2 == "None"))
def toUnit (G : GS) : TT String Unit :=
  ⟨toUnitNT G.start, G.rules.map (fun e => (toUnitNT e.1, e.2.map (fun r => (r.1, (r.2.1, ())))))⟩
def tagsToUnit (t : Tags String String) : Tags String Unit := t.map (fun e => (toUnitNT e.1, e.2))
def tagsOfUnit (t : Tags String Unit) : Tags String String := t.map (fun e => (ofUnitNT e.1, e.2))

/-- least `k ≤ limit` with `bounded G k nt` -/
def leastBound (G : TT String Unit) (nt : NT String Unit) (limit : Nat) : Option Nat :=
  (List.range (limit + 1)).find? (fun k => bounded G k nt)

/-! ### unambiguous grammars -/
abbrev GU := UCFG String

def decUNT : Sexp → Option (UNT String)
  | .list [t, s] => do pure (← decTy t, ← s.string?)
  | _ => none
def encUNT (n : UNT String) : Sexp := .list [encTy n.1, .str n.2]

def decUCFG : Sexp → Option GU
  | .list [.atom "ucfg", .list starts, .list entries, some_] => do
      let rules ← allSome (fun e => match e with
        | .list [nt, .list rs] => do
            pure (← decUNT nt, ← allSome (fun r => match r with
              | .list [sy, .list alts] => do
                  pure (← decSym sy, ← allSome (fun a => do allSome decUNT (← a.list?)) alts)
              | _ => none) rs)
        | _ => none) entries
      pure ⟨← allSome decUNT starts, rules, ← decUNT some_⟩
  | _ => none

def encUCFG (G : GU) : Sexp :=
  .list [.atom "ucfg", .list (G.starts.map encUNT),
    .list (G.rules.map fun e => .list [encUNT e.1, .list (e.2.map fun r =>
      .list [encSym r.1, .list (r.2.map fun a => .list (a.map encUNT))])]), encUNT G.someStart]

def decUTags : Sexp → Option (UTags String)
  | .list [.atom "utags", .list entries, .list st] => do
      let tags ← allSome (fun e => match e with
        | .list [nt, .list row] => do
            pure (← decUNT nt, ← allSome (fun r => match r with
              | .list [sy, .list alts] => do
                  pure (← decSym sy, ← allSome (fun a => match a with
                    | .list [.list args, w] => do pure (← allSome decUNT args, ← decRat w)
                    | _ => none) alts)
              | _ => none) row)
        | _ => none) entries
      let stt ← allSome (fun e => match e with
        | .list [nt, w] => do pure (← decUNT nt, ← decRat w)
        | _ => none) st
      pure ⟨tags, stt⟩
  | _ => none

def encUTags (t : UTags String) : Sexp :=
  .list [.atom "utags",
    .list (t.tags.map fun e => .list [encUNT e.1, .list (e.2.map fun r =>
      .list [encSym r.1, .list (r.2.map fun a => .list [.list (a.1.map encUNT), encRat a.2])])]),
    .list (t.startTags.map fun e => .list [encUNT e.1, encRat e.2])]

def encOptNat : Option Nat → Sexp
  | some n => ofNat n
  | none => .atom "none"

def leastBoundU (G : GU) (limit : Nat) : Option Nat :=
  (List.range (limit + 1)).find? (fun k => G.starts.all (fun s => boundedU G k s))

def handle : Sexp → Option Sexp
  -- probability / membership of a list of programs: model and (for plain grammars) spec
  | .list [.atom "c04.det", g, tg, .list progs] => do
      let G ← decTT g
      let tags ← decTags tg
      let ps ← allSome decProg progs
      let plain := isPlain G
      let Gu := toUnit G
      let tu := tagsToUnit tags
      pure (.list [ofBool plain, ofBool (plain && normalisedB Gu tu),
        .list (ps.map fun p => .list
          ([encRat (probabilityDet G tags p), ofBool (PS.G.contains G p)] ++
           (if plain then [encRat (prob Gu tu p Gu.start), ofBool (gen Gu p Gu.start)] else [])))])
  -- normalise / uniform
  | .list [.atom "c04.detops", g, tg] => do
      let G ← decTT g
      let tags ← decTags tg
      pure (.list [encTags (normalise tags), encTags (uniform G)])
  -- Σ over the language, counters (plain grammars)
  | .list [.atom "c04.mass", g, tg, limit] => do
      let G ← decTT g
      let tags ← decTags tg
      let Gu := toUnit G
      let tu := tagsToUnit tags
      match leastBound Gu Gu.start (← limit.nat?) with
      | none => pure (.list [.atom "unbounded"])
      | some k =>
        pure (.list [.atom "bounded", ofNat k, encRat (mass Gu tu k Gu.start), ofNat (count Gu k Gu.start),
          ofNat (lang Gu k Gu.start).length, ofNat (lang Gu (k + 1) Gu.start).length,
          .list ((lang Gu k Gu.start).map encProg)])
  -- pcfg_from_samples
  | .list [.atom "c04.samples", g, .list progs] => do
      let G ← decTT g
      let ps ← allSome decProg progs
      match fromSamples (toUnit G) ps with
      | .error .key => pure (.list [.atom "exn", .str "KeyError"])
      | .error .index => pure (.list [.atom "exn", .str "IndexError"])
      | .ok t => pure (.list [.atom "ok", encTags (tagsOfUnit t)])
  -- CFG.programs() on the implementation's table (wire format of C01)
  | .list [.atom "c04.programs", g] => do
      let G ← decCFG g
      pure (match PS.G.programs G with | some n => ofNat n | none => .atom "-1")
  -- U grammars
  | .list [.atom "c04.u", g, tg, .list progs] => do
      let G ← decUCFG g
      let tags ← decUTags tg
      let ps ← allSome decProg progs
      pure (.list [ofBool (normalisedUB G tags),
        .list (ps.map fun p => .list [encRat (probabilityU G tags p), encRat (probU G tags p),
          ofBool (U.contains G p), ofBool (genU G p), ofNat (allDerivs G p).length])])
  | .list [.atom "c04.uops", g, tg, fuel] => do
      let G ← decUCFG g
      let tags ← decUTags tg
      let fuel ← fuel.nat?
      let kb := leastBoundU G fuel
      pure (.list [encUTags (normaliseU tags), encUTags (uniformU G), encOptNat (U.programs G fuel),
        encOptNat kb,
        match kb with
        | some k => .list [ofNat ((G.starts.map (fun s => countU G k s)).sum),
                           ofNat ((G.starts.map (fun s => (langU G k s).length)).sum)]
        | none => .atom "none"])
  -- TTCFG.programs() (ProbDetGrammar.programs over a TTCFG): model `PS.T.programsR`, the three
  -- decidable hypotheses of theorem C04_programs_ttcfg (same expressions as PS.T.rowsNodup /
  -- noUnknownKey / noUnknownArg, which live in proof files), and the spec enumeration `langOf`
  | .list [.atom "c04.programsT", g, fuel] => do
      let G ← decTT g
      let fuel ← fuel.nat?
      let rowsNodup := G.rules.all (fun e => decide ((AList.keys e.2).Nodup))
      let noUnknownKey := G.rules.all (fun e => decide (e.1.1 ≠ Ty.unknown))
      let noUnknownArg := G.rules.all (fun e => e.2.all (fun r => r.2.1.all (fun a => decide (a.1 ≠ Ty.unknown))))
      let n := PS.T.programsR G fuel
      pure (.list [.list [ofBool rowsNodup, ofBool noUnknownKey, ofBool noUnknownArg], encOptNat n,
        match n with
        | some _ => ofNat (PS.T.langOf G fuel).length
        | none => .atom "none"])
  | .list [.atom "c04.fromcfg", g] => do
      let G ← decTT g
      pure (encUCFG (fromCFG (toUnit G)))
  | _ => none

end PS.C04
