import sys
sys.path.insert(0, sys.argv[1])
from synth.syntax.dsl import DSL
from synth.syntax.type_system import PrimitiveType, Arrow
from synth.syntax.grammars.cfg import CFG
from synth.syntax.grammars.tagged_det_grammar import ProbDetGrammar
from synth.syntax.grammars.enumeration.heap_search import enumerate_prob_grammar
import itertools, random
from fractions import Fraction
def FT(*a):
    r = a[-1]
    for x in reversed(a[:-1]): r = Arrow(x, r)
    return r
t0 = PrimitiveType("t0"); t1 = PrimitiveType("t1")
dsl = DSL({"F": FT(t1, t1, t0), "b": t0, "g": FT(t0, t1), "c": t1, "h": FT(t1, t0)})
bad = 0
for seed in range(40):
    rng = random.Random(seed)
    g = CFG.infinite(dsl, t0, n_gram=1)
    probs = {}
    for S in g.rules:
        ws = [rng.randint(1, 15) for _ in g.rules[S]]
        tot = 16 * len(ws)
        probs[S] = {P: w / tot for P, w in zip(g.rules[S], ws)}
    pg = ProbDetGrammar(g, probs)
    out = list(itertools.islice(enumerate_prob_grammar(pg).generator(), 300))
    ps = [pg.probability(p) for p in out]
    srt = all(ps[i] >= ps[i+1] * (1 - 1e-12) for i in range(len(ps)-1))
    dup = len(set(map(str, out))) != len(out)
    # brute force: all programs with probability > ps[-1] must be in out
    lowest = ps[-1]
    found = set()
    def expand(S, budget):
        # programs from S with probability >= budget
        res = []
        for P, (args, _) in g.rules[S].items():
            w = probs[S][P]
            if w < budget: continue
            partial = [((), w)]
            for a in args:
                nS = (a[0], (a[1], None))
                nxt = []
                for kids, ww in partial:
                    for sub, w2 in expand(nS, budget / ww):
                        if ww * w2 >= budget:
                            nxt.append((kids + (sub,), ww * w2))
                partial = nxt
            for kids, ww in partial:
                res.append(((str(P), kids), ww))
        return res
    def show(t): return t[0] if not t[1] else "(" + " ".join([t[0]] + [show(k) for k in t[1]]) + ")"
    owed = {show(t) for t, w in expand(g.start, lowest * (1 + 1e-9))}
    miss = owed - set(map(str, out))
    if not srt or dup or miss:
        bad += 1
        print("seed", seed, "sorted", srt, "dup", dup, "missing", len(miss), list(miss)[:3])
print("bad:", bad)
