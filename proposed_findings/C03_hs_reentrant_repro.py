from synth.syntax.dsl import DSL
from synth.syntax.type_system import PrimitiveType, Arrow
def FunctionType(*a):
    r = a[-1]
    for x in reversed(a[:-1]): r = Arrow(x, r)
    return r
from synth.syntax.grammars.cfg import CFG
from synth.syntax.grammars.tagged_det_grammar import ProbDetGrammar
from synth.syntax.grammars.enumeration.heap_search import enumerate_prob_grammar, enumerate_bucket_prob_grammar
import itertools
t0 = PrimitiveType("t0"); t1 = PrimitiveType("t1")
dsl = DSL({"F": FunctionType(t1, t1, t0), "b": t0, "g": FunctionType(t0, t1), "c": t1})
for ng in (1, 2):
    g = CFG.infinite(dsl, t0, n_gram=ng)
    print("n_gram", ng, "rules:")
    for S in g.rules:
        print("  ", S, {str(P): g.rules[S][P] for P in g.rules[S]})
    probs = {}
    for S in g.rules:
        probs[S] = {}
        for P in g.rules[S]:
            probs[S][P] = {"F": 63/64, "b": 1/64, "g": 0.5, "c": 0.5}[str(P)]
    pg = ProbDetGrammar(g, probs)
    out = []
    for p in itertools.islice(enumerate_prob_grammar(pg).generator(), 8):
        out.append((str(p), pg.probability(p)))
    for o in out: print("   ", o)
    ps = [x[1] for x in out]
    print("   sorted non-increasing:", all(ps[i] >= ps[i+1] for i in range(len(ps)-1)))
