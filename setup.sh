#!/bin/sh
# MANIFEST.setup_cmd: build the Lean library, the model driver and every property's theorems
# from the files on disk (offline; Lean 4.33 toolchain and Mathlib olean files are pre-installed).
here=$(cd "$(dirname "$0")" && pwd)
cd "$here/lean" || exit 2
python3 "$here/tools/gen_lean_roots.py" >/dev/null || exit 2
lake build PS psdriver || exit 2
mods=""
for f in PS/Props/*.lean; do mods="$mods PS.Props.$(basename "$f" .lean)"; done
lake build $mods || exit 2
echo "setup ok"
