"""Recursive grammars (CFG.infinite) for the heap-search parts: truncated runs.

Region of the findings C03-F3 (re-entrant query: order) / C03-F4 (max_priority tables out of sync
after _reevaluate_: programs lost).  The cases are generated only when the finding is registered in
known_findings.json (so that a check of a tree without the registration is unchanged).

oracle : exact Fraction probability of every yielded program by walking its derivation in the rule
         table (written here), order of the prefix, duplicates, and prefix completeness against a
         brute-force expansion of the rule table bounded by probability
model  : PS.HS through the driver op hs.det on the same (finite) rule table, script [take K]
"""
import json
import os
import random
from fractions import Fraction

from harness import enumhs as E
from harness.sexp import Sym

HERE = os.path.dirname(os.path.abspath(__file__))

DSLS = [
    {"F": ["->", "t1", ["->", "t1", "t0"]], "b": "t0", "g": ["->", "t0", "t1"], "c": "t1"},
    {"F": ["->", "t1", ["->", "t1", "t0"]], "b": "t0", "g": ["->", "t0", "t1"], "c": "t1", "h": ["->", "t1", "t0"]},
    {"F": ["->", "t0", ["->", "t1", "t0"]], "b": "t0", "g": ["->", "t0", "t1"], "c": "t1"},
]
WITNESS_W = {"F": Fraction(63, 64), "b": Fraction(1, 64), "g": Fraction(1, 2), "c": Fraction(1, 2), "h": Fraction(1, 4)}


def enabled(fid):
    try:
        d = json.load(open(os.path.join(os.path.dirname(HERE), "known_findings.json")))
        return any(f.get("id") == fid for f in d["findings"])
    except Exception:  # noqa
        return False


def gen_rec(rng, tier):
    return {"family": "rec", "dsl": rng.randrange(len(DSLS)), "n_gram": rng.choice([1, 1, 2]),
            "wmode": rng.choice(["witness", "pow2", "pow2", "skew"]), "wseed": rng.randrange(1 << 30),
            "take": rng.choice([5, 13, 50, 50, 100, 100, 200, 300]), "enum": {"kind": "heap", "threshold": "0"}, "tier": tier}


def _ty(t):
    from synth.syntax.type_system import Arrow, PrimitiveType
    if isinstance(t, str):
        return PrimitiveType(t)
    return Arrow(_ty(t[1]), _ty(t[2]))


def build(case):
    from synth.syntax.dsl import DSL
    from synth.syntax.grammars.cfg import CFG
    dsl = DSL({n: _ty(t) for n, t in DSLS[case["dsl"]].items()})
    return CFG.infinite(dsl, _ty("t0"), n_gram=case["n_gram"])


def weights_of(case, g):
    rng = random.Random(case["wseed"])
    out = {}
    for S, rs in g.rules.items():
        out[S] = {}
        for P in rs:
            if case["wmode"] == "witness":
                out[S][P] = WITNESS_W[str(P)]
            elif case["wmode"] == "pow2":
                out[S][P] = Fraction(1, 1 << rng.randint(1, 4))
            else:
                out[S][P] = Fraction(rng.choice([1, 1, 31, 30, 2]), 32)
    return out


def prob_of(g, weights, t, S):
    """exact probability of program t from S (None when not derivable)"""
    P, kids = t
    if S not in g.rules or P not in g.rules[S]:
        return None
    args, _ = g.rules[S][P]
    if len(args) != len(kids):
        return None
    w = weights[S][P]
    for a, k in zip(args, kids):
        q = prob_of(g, weights, k, (a[0], (a[1], None)))
        if q is None:
            return None
        w *= q
    return w


def above(g, weights, S, bound, limit):
    """all programs from S of probability > bound (weights <= 1 make the expansion finite as soon as
    every cycle of the grammar goes through a weight < 1); raises E.TooLarge"""
    count = [0]

    def go(S, bound):
        res = []
        for P, (args, _) in g.rules[S].items():
            w = weights[S][P]
            if w <= bound:
                continue
            partial = [((), w)]
            for a in args:
                nS = (a[0], (a[1], None))
                nxt = []
                for kids, ww in partial:
                    for sub, w2 in go(nS, bound / ww):
                        if ww * w2 > bound:
                            nxt.append((kids + (sub,), ww * w2))
                            count[0] += 1
                            if count[0] > limit:
                                raise E.TooLarge()
                partial = nxt
            for kids, ww in partial:
                res.append(((P, kids), ww))
        return res
    return go(S, bound)


def recursive(g):
    """decidable classifier of the findings: some non-terminal is reachable from itself"""
    succ = {S: {(a[0], (a[1], None)) for args, _ in rs.values() for a in args} for S, rs in g.rules.items()}
    for S0 in g.rules:
        seen, todo = set(), list(succ[S0])
        while todo:
            x = todo.pop()
            if x == S0:
                return True
            if x in seen or x not in succ:
                continue
            seen.add(x)
            todo.extend(succ[x])
    return False


def check_rec(case, M, pid):
    import inspect
    import itertools
    from synth.syntax.grammars.enumeration.heap_search import HeapSearch, HSEnumerator
    from synth.syntax.grammars.tagged_det_grammar import ProbDetGrammar
    key = json.dumps(case, sort_keys=True)
    g = build(case)
    weights = weights_of(case, g)
    if any(w >= 1 for ws in weights.values() for w in ws.values()):
        return {"key": key, "nontrivial": False, "tags": ["trivial:weight>=1"], "failures": []}
    K = case["take"]
    en = HeapSearch(ProbDetGrammar(g, {S: {P: float(w) for P, w in ws.items()} for S, ws in weights.items()}))
    err = None
    try:
        ys = [E.of_prog(p) for p in itertools.islice(en.generator(), K)]
    except RecursionError:
        ys, err = [], "RecursionError"
    rec = recursive(g)          # the decidable classifier of both findings
    failures = []

    def fail(kind, what, detail, fid=None):
        f = {"kind": kind, "what": what, "detail": detail}
        if rec and pid == "C03" and fid:
            f["finding"] = fid
        failures.append(f)
    probs = [prob_of(g, weights, t, g.start) for t in ys]
    if not all(q is not None and E.exact_float(q) for q in probs):
        if any(q is None for q in probs):
            fail("oracle", "a yielded program is not derivable from the start symbol", str([E.show(t) for t, q in zip(ys, probs) if q is None][:3]))
        else:
            return {"key": key, "nontrivial": False, "tags": ["trivial:inexact-weights"], "failures": []}
    # model
    wire = E.Wire()
    drops = "not in self.deleted" in inspect.getsource(HSEnumerator.__add_successors__)
    ans = M.ask([Sym("hs.det"), wire.det(g, weights), [Sym("heap"), "0/1"], [], [[Sym("take"), K]], E.FUEL, drops])
    if ans[0] == "undef":
        if err is None:
            failures.append({"kind": "corr", "what": "model undefined (fuel or uncaught exception) where the implementation runs", "detail": ""})
    elif err is not None:
        failures.append({"kind": "corr", "what": "implementation raises where the model runs", "detail": err})
    else:
        m_ys = [E.show(wire.unprog(p)) for s in ans[1] for p in s[0]]
        if m_ys != [E.show(t) for t in ys]:
            failures.append({"kind": "corr", "what": "yielded sequence differs from the model", "detail": f"impl {[E.show(t) for t in ys][:6]} model {m_ys[:6]}"})
    if err is None and all(q is not None for q in probs):
        Y = [E.show(t) for t in ys]
        if len(set(Y)) != len(Y):
            fail("oracle", "a program is yielded twice", "")
        bad = next((k for k in range(1, len(probs)) if probs[k] > probs[k - 1]), None)
        if bad is not None:
            fail("oracle", "a program is yielded after a less probable one", f"position {bad}: {Y[bad]} ({probs[bad]}) after {Y[bad-1]} ({probs[bad-1]})", "C03-F3")
        if len(ys) < K:
            fail("oracle", "the generator stops although the language is infinite", f"after {len(ys)} programs", "C03-F4")
        if probs:
            try:
                owed = {E.show(t) for t, _ in above(g, weights, g.start, min(probs), 60000)}
                miss = sorted(owed - set(Y))
                if miss:
                    fail("oracle", "a strictly more probable program was not yielded before", f"{len(miss)} e.g. {miss[:3]} (> {min(probs)})", "C03-F4")
                complete = "prefix-complete" if not miss else "prefix-incomplete"
            except E.TooLarge:
                complete = "prefix-completeness-not-checked(too large)"
    tags = ["rec", f"n_gram:{case['n_gram']}", "weights:" + case["wmode"], "recursive" if rec else "not-recursive"]
    if err is None and all(q is not None for q in probs):
        tags.append("rec:behaves-correctly" if not [f for f in failures if f["kind"] == "oracle"] else "rec:C03-F3/F4 region fails")
        if probs:
            tags.append(complete)
    return {"key": key, "nontrivial": len(ys) >= 3 and len(set(probs)) >= 2, "tags": tags, "failures": failures,
            "sample": {"family": "rec", "dsl": sorted(DSLS[case["dsl"]]), "n_gram": case["n_gram"], "weights": case["wmode"],
                       "asked": K, "yielded": len(ys), "first": [E.show(t) for t in ys[:5]]}}
