"""Dispatcher for properties whose check is built from several parts (one per enumerator
family): harness/cxx.py does   from harness.parts import make; make(globals(), ["cxx_hs", "cxx_cost"])"""
import importlib


def make(ns, part_names):
    mods = [importlib.import_module(f"harness.{n}") for n in part_names]
    ns["CASE_TIMEOUT"] = {t: max(getattr(m, "CASE_TIMEOUT", {"quick": 60, "thorough": 300})[t] for m in mods) for t in ("quick", "thorough")}

    def gen(rng, i, tier):
        k = i % len(mods)
        c = mods[k].gen(rng, i // len(mods), tier)
        c["part"] = part_names[k]
        return c

    def check(case, M):
        m = mods[part_names.index(case["part"])]
        r = m.check(case, M)
        r["key"] = case["part"] + ":" + str(r.get("key"))
        r["tags"] = [case["part"]] + [f"{case['part']}.{t}" for t in r.get("tags", [])]
        return r

    def shrink(case):
        m = mods[part_names.index(case["part"])]
        if hasattr(m, "shrink"):
            for c in m.shrink(case):
                c = dict(c)
                c["part"] = case["part"]
                yield c

    def corpus():
        out = []
        for n, m in zip(part_names, mods):
            if hasattr(m, "corpus"):
                for c in m.corpus():
                    c = dict(c)
                    c["part"] = n
                    out.append(c)
        return out
    ns.update(gen=gen, check=check, shrink=shrink, corpus=corpus)
