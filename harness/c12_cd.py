"""C12, part cd — a filter or merge declarations during constant-delay search remove only what they
should.

oracle : language by exhaustive expansion; the filter is a predicate on program tuples evaluated by the
         harness; with a filter: no duplicate, nothing rejected, everything whose sub-programs are all
         accepted; closed filter: exactly the accepted part; after merges of already-yielded programs:
         no later program contains a merged program and every not-yet-yielded accepted program that
         contains no merged program is yielded; the enumeration stops.
"""
from harness import enumcd as C
from harness import enumhs as E

CASE_TIMEOUT = {"quick": 150, "thorough": 600}


def gen(rng, i, tier):
    c = C.gen_case(rng, i, tier)
    mode = rng.choice(["filter", "filter", "merge", "merge", "both"])
    if mode in ("filter", "both"):
        c["filter"] = E.gen_filter(rng)
    if mode in ("merge", "both"):
        c["merges"] = sorted([rng.choice([1, 2, 3, 5, 8, 13, 21, 40, 80]), rng.randrange(1 << 16)] for _ in range(rng.choice([1, 1, 2, 3, 4])))
    return c


def shrink(case):
    return C.shrink_case(case)


def contains(t, o):
    """Program.__contains__: o occurs in t (as the term, an argument sub-term, or a head symbol)"""
    if t == o:
        return True
    if t[1] and (t[0], ()) == o:
        return True
    return any(contains(k, o) for k in t[1])


def check(case, M):
    tier = case.get("tier", "quick")
    r = C.run_case(case, M, tier)
    if "trivial" in r:
        return {"key": C.key_of(case), "nontrivial": False, "tags": ["trivial:" + r["trivial"]], "failures": []}
    failures = []
    merged_any = any(a[0] == "merge" for a in r["script"])
    fid = C.raise_finding(r, "C12")
    filt = "C12-F6" if r["rejected"] else None       # classifier of C12-F6: the filter rejects a (sub)program of the language

    def fail(kind, what, detail, finding=None):
        if any(g["what"] == what for g in failures):
            return
        f = {"kind": kind, "what": what, "detail": detail}
        if fid or finding:
            f["finding"] = fid or finding
        failures.append(f)
    for what, detail in r["corr"]:
        failures.append({"kind": "corr", "what": what, "detail": detail})
    pred = r["pred"] or (lambda t: True)
    lang = [p for p, _, _ in r["lang"]]
    L = {E.show(p) for p in lang}
    accepted = {E.show(p) for p in lang if pred(p)}
    strict = {E.show(p) for p in lang if all(pred(s) for s in args_subterms(p))}
    if r["err"] is not None:
        fail("oracle", "the enumerator raises instead of enumerating", r["err"])
    else:
        if not r["steps"] or not r["steps"][-1][1]:
            fail("oracle", "the enumerator does not stop", "")
        Y = [E.show(p) for p in r["ys"]]
        if len(Y) != len(set(Y)):
            fail("oracle", "a program is yielded twice", next(y for k, y in enumerate(Y) if y in Y[:k]))
        if set(Y) - L:
            fail("oracle", "a program outside the language is yielded", str(sorted(set(Y) - L)[:3]))
        rej = sorted(y for y in set(Y) & L if y not in accepted)
        if rej:
            fail("oracle", "a program rejected by the filter is yielded", str(rej[:3]))
        if not merged_any:
            miss = sorted(strict - set(Y))
            if miss:
                fail("oracle", "a program all of whose sub-programs are accepted is never yielded", f"{len(miss)} e.g. {miss[:3]}", filt)
        else:
            it = iter(r["steps"])
            seen, merged = [], []
            for act in r["script"]:
                if act[0] == "take":
                    st = next(it, ([], True))
                    for p in st[0]:
                        if any(contains(p, o) for o in merged):
                            fail("oracle", "a program containing a merged program is yielded after the merge",
                                 f"{E.show(p)} contains one of {[E.show(o) for o in merged]}", "C12-F5")
                        seen.append(E.show(p))
                else:
                    merged.append(act[1])
            final_owed = {E.show(p) for p in lang if E.show(p) in strict and not any(contains(p, o) for o in merged)}
            miss = sorted(final_owed - set(seen))
            if miss:
                fail("oracle", "a program that contains no merged program is never yielded", f"{len(miss)} e.g. {miss[:3]}", filt or "C12-F5")
    tags = C.base_tags(case, r)
    if case.get("filter"):
        tags.append("filter:" + case["filter"]["kind"])
        if accepted == strict:
            tags.append("filter-closed-on-language")
    if merged_any:
        tags.append(f"merges:{sum(1 for a in r['script'] if a[0] == 'merge')}")
    nrej = len(L) - len(accepted)
    nontrivial = len(lang) >= 5 and ((case.get("filter") and 0 < nrej < len(L)) or merged_any)
    return {"key": C.key_of(case), "nontrivial": bool(nontrivial), "tags": tags, "failures": failures, "sample": C.sample_of(case, r)}


def args_subterms(t):
    """t and the sub-programs at argument positions, recursively (what the enumerator builds and
    submits to the filter; the head symbol of an application is not a program of the language)"""
    yield t
    for k in t[1]:
        yield from args_subterms(k)


def corpus():
    return [
        {"family": "cd", "build": {"src": "testdsl", "request": ["->", "int", "int"], "kind": "cfg", "max_depth": 3, "min_var": 0, "n_gram": 2},
         "order": "built", "oseed": 0, "weights": "random", "wseed": 4, "k": 4, "precision": 1e-2, "filter": None, "merges": [[8, 7]]},
        {"family": "cd", "build": {"src": "testdsl", "request": ["->", "int", "int"], "kind": "cfg", "max_depth": 3, "min_var": 0, "n_gram": 2},
         "order": "built", "oseed": 0, "weights": "random", "wseed": 5, "k": 10, "precision": 1e-3, "filter": {"kind": "even"}, "merges": []},
        {"family": "cd", "build": {"src": "prims", "prims": [["f0", ["->", "bool", "bool"]], ["f1", ["->", "bool", "bool"]], ["c0", "bool"]], "forbidden": [],
                                   "request": ["->", "bool", "bool"], "kind": "cfg", "max_depth": 4, "min_var": 1, "n_gram": 2},
         "order": "shuffled", "oseed": 848682430, "weights": "skewed", "wseed": 554486384, "k": 5, "precision": 0.1,
         "filter": {"kind": "reject", "idx": [257263, 588494]}, "merges": []},
    ]
