"""C07 — tree-automaton operations are the language operations they are named after.

A case is a pair of random (partial, possibly non-trim, cyclic or acyclic) deterministic
bottom-up tree automata A, B over one alphabet and a sequence of <= 5 operations applied to the
current automaton (initially A):
    states | reduce | minimise (always on a reduced automaton) | minimise_map (mapping=...) |
    product (with B) | union (with B) | map (injective renaming) | map_noninj (last op only)
For every step
  impl   : the real synth.syntax.automata.tree_automaton.DFTA method on the current object
  model  : PS.DFTA.<op> of lean/PS/Model/Dfta.lean applied to the *same* input automaton
           (driver op c07.op), which also returns the Lean spec (the language operation on the
           inputs) on every tree up to depth <= 3 and on deeper guided/random trees
  oracle : this file's own bottom-up run (`orun`, written from the definition of a run; never
           DFTA.read), own reachability / productivity fix-points and Myhill-Nerode refinement
Failures:  oracle = the property fails on the implementation (language changed, result not
minimal, not a quotient, reduce left a useless state, `states` wrong); corr = implementation
and model disagree on the resulting table / states / read.
"""
import json

from harness.sexp import Sym

CASE_TIMEOUT = {"quick": 20, "thorough": 240}
TREE_CAP = 6000


# ------------------------------------------------------------------ wire
def tt(x):
    """JSON round trip: lists back to tuples (states are ints, None, tuples)"""
    return tuple(tt(y) for y in x) if isinstance(x, (list, tuple)) else x


def wq(q):
    if q is None:
        return Sym("none")
    if isinstance(q, tuple):
        return [wq(x) for x in q]
    if isinstance(q, str):
        return Sym(q)
    return int(q)


def rq(x):
    if isinstance(x, list):
        return tuple(rq(y) for y in x)
    if x == "none":
        return None
    try:
        return int(x)
    except ValueError:
        return str(x)


def wire_aut(rules, finals):
    return [Sym("dfta"), [[l, [wq(a) for a in args], wq(d)] for (l, args), d in rules.items()],
            [wq(q) for q in sorted(finals, key=repr)]]


def wire_tree(t):
    return [t[0]] + [wire_tree(k) for k in t[1]]


# ------------------------------------------------------------------ independent oracle
def orun(rules, t, memo):
    """bottom-up run of the table `rules` on the tree t = (letter, (kids...)); None = undefined,
    otherwise the reached state wrapped in a 1-tuple"""
    r = memo.get(t, memo)
    if r is not memo:
        return r
    qs = []
    out = None
    ok = True
    for k in t[1]:
        q = orun(rules, k, memo)
        if q is None:
            ok = False
            break
        qs.append(q[0])
    if ok:
        key = (t[0], tuple(qs))
        if key in rules:
            out = (rules[key],)
    memo[t] = out
    return out


def obits(rules, finals, trees):
    memo = {}
    res = []
    for t in trees:
        r = orun(rules, t, memo)
        res.append(r is not None and r[0] in finals)
    return res


def oreach(rules):
    reach = set()
    changed = True
    while changed:
        changed = False
        for (l, args), d in rules.items():
            if d not in reach and all(a in reach for a in args):
                reach.add(d)
                changed = True
    return reach


def otrim(rules, finals):
    """(trim rules, useful states): what occurs in some accepting run"""
    reach = oreach(rules)
    live = {k: d for k, d in rules.items() if all(a in reach for a in k[1])}
    useful = set(q for q in finals if q in reach)
    changed = True
    while changed:
        changed = False
        for (l, args), d in live.items():
            if d in useful:
                for a in args:
                    if a not in useful:
                        useful.add(a)
                        changed = True
    trim = {k: d for k, d in live.items() if d in useful}
    return trim, useful


def nerode_count(rules, finals):
    """number of states of the minimal deterministic (partial) automaton of the language:
    Myhill-Nerode classes of the useful states, by signature refinement"""
    trim, useful = otrim(rules, finals)
    block = {q: (1 if q in finals else 0) for q in useful}
    while True:
        sigs = {q: set() for q in useful}
        for (l, args), d in trim.items():
            for k, a in enumerate(args):
                sigs[a].add((l, k, args[:k], args[k + 1:], block[d]))
        keys = {}
        new = {}
        for q in useful:
            key = (block[q], frozenset(sigs[q]))
            new[q] = keys.setdefault(key, len(keys))
        if len(keys) == len(set(block.values())):
            return len(keys)
        block = new


# ------------------------------------------------------------------ generation
def trees_upto(alpha, d):
    from itertools import product
    prev = []
    for _ in range(d):
        cur = []
        for l, ar in alpha:
            for kids in product(*([prev] * ar)):
                cur.append((l, tuple(kids)))
        prev = cur
    return prev


def count_upto(alpha, d):
    n = 0
    for _ in range(d):
        n = sum(n ** ar for _, ar in alpha)
    return n


def gen_aut(rng, alpha, nstates, density, finals_mode, big_budget):
    from itertools import product
    states = list(range(nstates))
    rules = []
    for l, ar in alpha:
        keys = list(product(*([states] * ar)))
        rng.shuffle(keys)
        dens = density if ar < 3 else min(density, 0.25)
        for k in keys:
            if rng.random() < dens and len(rules) < big_budget:
                rules.append([l, list(k), rng.choice(states)])
    rng.shuffle(rules)
    if finals_mode == "none":
        finals = []
    elif finals_mode == "all":
        finals = list(states)
    else:
        finals = [q for q in states if rng.random() < 0.4] or [rng.choice(states)]
    return {"rules": rules, "finals": finals}


def gen_alpha(rng):
    alpha = [["a", 0]]
    if rng.random() < 0.6:
        alpha.append(["b", 0])
    if rng.random() < 0.15:
        alpha.append(["c", 0])
    if rng.random() < 0.7:
        alpha.append(["s", 1])
    if rng.random() < 0.3:
        alpha.append(["u", 1])
    if rng.random() < 0.8:
        alpha.append(["f", 2])
    if rng.random() < 0.3:
        alpha.append(["g", 2])
    if rng.random() < 0.2:
        alpha.append(["h", 3])
    return alpha


OPS = ["reduce", "minimise", "minimise", "product", "union", "map", "states", "minimise_map"]


def tsize(t):
    return 1 + sum(tsize(k) for k in t[1])


def guided_trees(rng, rules, n, max_nodes=40):
    """trees on which the run of `rules` is defined, grown bottom-up (deep, cyclic behaviour)"""
    pool = {}
    rl = list(rules.items())
    res = []
    if not rl:
        return res
    for _ in range(n * 8):
        (l, args), d = rng.choice(rl)
        if all(a in pool for a in args):
            kids = tuple(rng.choice(pool[a]) for a in args)
            t = (l, kids)
            if tsize(t) <= max_nodes:
                pool.setdefault(d, []).append(t)
                res.append(t)
    rng.shuffle(res)
    return res[:n]


def random_tree(rng, alpha, depth):
    cands = [x for x in alpha if depth > 1 or x[1] == 0]
    l, ar = rng.choice(cands)
    return (l, tuple(random_tree(rng, alpha, depth - 1) for _ in range(ar)))


def to_dict(a):
    return {(str(r[0]), tt(r[1])): tt(r[2]) for r in a["rules"]}


def gen(rng, i, tier):
    malformed = rng.random() < 0.12
    alpha = gen_alpha(rng)
    nops = rng.randint(1, 5)
    ops = [rng.choice(OPS) for _ in range(nops)]
    if rng.random() < 0.1:
        ops.append("map_noninj")
    nun = sum(1 for o in ops if o == "union")
    npr = sum(1 for o in ops if o == "product")
    # keep products of products small
    cap = 6 if nun + npr <= 1 else (4 if nun <= 1 and npr <= 1 else 3)
    if nun >= 2:
        cap = 2
    if tier == "quick" and nun + npr >= 2:
        cap = min(cap, 3)       # the quick tier runs on every change: keep iterated products/unions small
    na = rng.randint(1, cap)
    nb = rng.randint(1, cap)
    modes = ["some", "some", "some", "none", "all"]
    A = gen_aut(rng, alpha, na, rng.uniform(0.3, 0.9), rng.choice(modes), 60)
    alpha_b = list(alpha)
    if rng.random() < 0.2 and len(alpha_b) > 1:
        alpha_b.pop(rng.randrange(len(alpha_b)))
    B = gen_aut(rng, alpha_b, nb, rng.uniform(0.3, 0.9), rng.choice(modes), 60)
    if malformed:
        k = rng.random()
        if k < 0.3:      # finals / arguments that no rule produces
            A["finals"].append(97)
            A["rules"].append([alpha[0][0], [], 0])
            A["rules"].append([alpha[-1][0], [98] * alpha[-1][1], 0])
        elif k < 0.5:    # a letter used with two arities
            A["rules"].append(["a", [0], 0])
            B["rules"].append(["a", [0, 0], 0])
        elif k < 0.7:    # empty tables
            A["rules"] = []
        elif k < 0.85:
            B["rules"] = []
            B["finals"] = []
        else:            # tuple / None states from the start
            ren = {q: (q, None) for q in range(na)}
            A = {"rules": [[l, [ren[a] for a in args], ren[d]] for l, args, d in A["rules"]],
                 "finals": [ren[q] for q in A["finals"]]}
    # de-duplicate keys (a Python dict cannot hold two rules with one key)
    for X in (A, B):
        seen = {}
        for r in X["rules"]:
            seen[json.dumps([r[0], r[1]])] = r
        X["rules"] = list(seen.values())
    da = to_dict(A)
    db = to_dict(B)
    xt = guided_trees(rng, da, 10) + guided_trees(rng, db, 6)
    xt += [random_tree(rng, alpha, rng.randint(2, 5)) for _ in range(4)]
    xt = [t for t in xt if tsize(t) <= 60]
    return {"alpha": alpha, "A": A, "B": B, "ops": ops, "xtrees": [wire_tree(t) for t in xt],
            "mapseed": rng.randrange(10 ** 6), "malformed": malformed}


_SHRINK = {"left": 250}     # candidates a worker process may try in total (keeps a run with
#                              many failing cases, e.g. under a mutation, within its time budget)


def shrink(case):
    for c in _shrink(case):
        if _SHRINK["left"] <= 0:
            return
        _SHRINK["left"] -= 1
        yield c


def _shrink(case):
    for j in range(len(case["ops"])):
        if len(case["ops"]) > 1:
            c = dict(case)
            c["ops"] = case["ops"][:j] + case["ops"][j + 1:]
            yield c
    for X in ("A", "B"):
        for j in range(len(case[X]["rules"])):
            c = dict(case)
            c[X] = {"rules": case[X]["rules"][:j] + case[X]["rules"][j + 1:], "finals": case[X]["finals"]}
            yield c
        for j in range(len(case[X]["finals"])):
            c = dict(case)
            c[X] = {"rules": case[X]["rules"], "finals": case[X]["finals"][:j] + case[X]["finals"][j + 1:]}
            yield c
    if case["xtrees"]:
        c = dict(case)
        c["xtrees"] = []
        yield c
    for j in range(len(case["alpha"])):
        l = case["alpha"][j][0]
        if all(r[0] != l for X in ("A", "B") for r in case[X]["rules"]) and len(case["alpha"]) > 1:
            c = dict(case)
            c["alpha"] = case["alpha"][:j] + case["alpha"][j + 1:]
            c["xtrees"] = []
            yield c


# ------------------------------------------------------------------ check
_NONCE = [0]


def ask(M, req):
    """M.ask with a nonce echoed by the driver: an answer left in the pipe by a request that was
    interrupted by the per-case time limit is skipped instead of being taken for this one"""
    _NONCE[0] += 1
    n = str(_NONCE[0])
    ans = M.ask(req + [int(n)])
    for _ in range(4):
        if isinstance(ans, list) and ans and ans[-1] == n:
            return ans
        ans = M.sexp.parse(M.p.stdout.readline().rstrip("\n"))
    raise RuntimeError("model driver out of step with the harness")


def untree(w):
    return (str(w[0]), tuple(untree(k) for k in w[1:]))


def tree_str(t):
    return t[0] if not t[1] else "(" + " ".join([t[0]] + [tree_str(k) for k in t[1]]) + ")"


def canon_rules(rules, finals, cq=lambda q: q):
    rs = sorted(json.dumps([l, [repr(cq(a)) for a in args], repr(cq(d))]) for (l, args), d in rules.items())
    fs = sorted(set(repr(cq(q)) for q in finals))
    return rs, fs


def sort_cls(q):
    return tuple(sorted(q, key=repr))


def sort_cls_m(q):
    return (q[0],) + tuple(sorted(q[1:], key=repr))


def all_states(rules, finals):
    s = set(finals)
    for (l, args), d in rules.items():
        s.add(d)
        s.update(args)
    return s


def check(case, M):
    import random
    from synth.syntax.automata.tree_automaton import DFTA
    alpha = [(str(l), int(ar)) for l, ar in case["alpha"]]
    dA, dB = to_dict(case["A"]), to_dict(case["B"])
    fA, fB = set(tt(case["A"]["finals"])), set(tt(case["B"]["finals"]))
    depth = 3 if count_upto(alpha, 3) <= TREE_CAP else 2
    trees = trees_upto(alpha, depth)
    xtrees = [untree(w) for w in case["xtrees"]]
    allt = trees + xtrees
    walpha = [[l, ar] for l, ar in alpha]
    wx = [wire_tree(t) for t in xtrees]
    bitsA = obits(dA, fA, allt)
    bitsB = obits(dB, fB, allt)
    expect = list(bitsA)                       # language expression over L(A), L(B) so far
    cur = DFTA(dict(dA), set(fA))
    other = DFTA(dict(dB), set(fB))
    mrng = random.Random(case["mapseed"])
    failures = []
    tags = ["malformed" if case.get("malformed") else "valid", f"depth{depth}"]
    nontrivial = False
    reduced = False
    steps = []
    stop = False
    for opi, op in enumerate(case["ops"]):
        todo = ["reduce", op] if op in ("minimise", "minimise_map") and not reduced else [op]
        for o in todo:
            pre_rules, pre_finals = dict(cur.rules), set(cur.finals)
            # the container objects the operand was built over: another automaton may share them (DFTA keeps its rule
            # table and its final set by reference), so an operation must not edit them in place
            shared_rules, shared_finals = cur.rules, cur.finals
            wpre = wire_aut(pre_rules, pre_finals)
            wB = wire_aut(dB, fB) if o in ("product", "union") else []
            params = []
            cq = lambda q: q  # noqa
            noninj = False
            # ---- implementation
            try:
                if o == "states":
                    res = cur
                elif o == "reduce":
                    cur.reduce()
                    res = cur
                    reduced = True
                elif o == "minimise":
                    res = cur.minimise()
                    cq = sort_cls
                elif o == "minimise_map":
                    res = cur.minimise(lambda t: ("m",) + tuple(t))
                    cq = sort_cls_m
                elif o == "product":
                    res = cur.read_product(other)
                    reduced = False
                elif o == "union":
                    fv = mrng.randrange(3)
                    if fv == 0:
                        res = cur.read_union(other)
                    else:
                        # a caller-supplied injective fusion (theorem C07_union_fusion): the result must be the default
                        # union up to the renaming  fusion(a, b) -> (a, b), which is undone here
                        fus = (lambda a, b: ("u", b, a)) if fv == 1 else (lambda a, b: ((a, "L"), (b, "R")))
                        inv = (lambda q: (q[2], q[1])) if fv == 1 else (lambda q: (q[0][0], q[1][0]))
                        ru = cur.read_union(other, fus)
                        res = DFTA({(l, tuple(inv(a) for a in args)): inv(d) for (l, args), d in ru.rules.items()}, {inv(q) for q in ru.finals})
                        if len(res.rules) != len(ru.rules):
                            raise RuntimeError("undoing the fusion merged rules")
                        tags.append("union.custom-fusion")
                    reduced = True
                elif o in ("map", "map_noninj"):
                    sts = sorted(all_states(pre_rules, pre_finals), key=repr)
                    if o == "map":
                        imgs = list(range(100, 100 + len(sts)))
                        mrng.shuffle(imgs)
                        if mrng.random() < 0.3:
                            imgs = [(x, None) for x in imgs]
                    else:
                        imgs = [mrng.randrange(max(1, len(sts) - 1)) + 200 for _ in sts]
                        noninj = True
                    table = dict(zip(sts, imgs))
                    res = cur.map_states(lambda q: table[q])
                    params = [[wq(a), wq(b)] for a, b in table.items()]
                else:
                    raise ValueError(o)
                r_rules, r_finals = dict(res.rules), set(res.finals)
                impl_states = set(res.states)
                if (res is not cur or o == "reduce") and (shared_rules is not res.rules or o != "states"):
                    if dict(shared_rules) != pre_rules or set(shared_finals) != pre_finals or dict(other.rules) != dB or set(other.finals) != set(fB):
                        failures.append({"kind": "oracle", "what": f"{o} edits the rule table / final set of its operand in place: an automaton sharing them changes its language",
                                         "detail": f"step {opi} ({o}): the containers held {len(pre_rules)} rules / {len(pre_finals)} final states before, {len(shared_rules)} / {len(shared_finals)} after"})
            except Exception as e:  # noqa
                failures.append({"kind": "oracle", "what": f"{o} raised {type(e).__name__}",
                                 "detail": f"step {opi} ({o}) on {len(pre_rules)} rules: {e!r}"})
                stop = True
                break
            # ---- model + Lean spec
            reads = []
            ks = list(r_rules.keys())
            for _ in range(3):
                if ks:
                    reads.append(mrng.choice(ks))
            if ks:
                l0, a0 = mrng.choice(ks)
                reads.append((l0, tuple(reversed(a0))))
            mop = "map" if o == "map_noninj" else o
            ans = ask(M, [Sym("c07.op"), mop, wpre, wB, params, depth, walpha, wx,
                          [[l, [wq(a) for a in args]] for l, args in reads]])
            if ans[0] != "ok":
                failures.append({"kind": "corr", "what": f"model {o}: fuel exhausted", "detail": str(ans)})
                stop = True
                break
            _, maut, mstates, mb, sb, mxb, sxb, mreads, cert, _nonce = ans
            if o in ("minimise", "minimise_map") and cert != "1":
                failures.append({"kind": "corr", "what": "minimise: the model's final partition fails the congruence certificate",
                                 "detail": f"step {opi}: hypothesis of theorem C07_min_lang_cert is false on this input (cert={cert})"})
                stop = True
            m_rules = {(str(r[0]), tuple(rq(a) for a in r[1])): rq(r[2]) for r in maut[1]}
            if len(m_rules) != len(maut[1]):
                raise RuntimeError("model returned a table with duplicate keys")
            m_finals = set(rq(q) for q in maut[2])
            model_bits = [c == "1" for c in str(mb) + str(mxb)]
            spec_bits = [c == "1" for c in str(sb) + str(sxb)]
            # ---- oracle: language
            pre_bits = obits(pre_rules, pre_finals, allt)
            if o == "product":
                want = [x and y for x, y in zip(pre_bits, bitsB)]
                expect = [x and y for x, y in zip(expect, bitsB)]
            elif o == "union":
                want = [x or y for x, y in zip(pre_bits, bitsB)]
                expect = [x or y for x, y in zip(expect, bitsB)]
            else:
                want = pre_bits
            impl_bits = obits(r_rules, r_finals, allt)
            if not noninj:
                if len(spec_bits) != len(want) or spec_bits != want:
                    raise RuntimeError(f"Lean spec and harness oracle disagree on the language after {o}")
                if model_bits != spec_bits:
                    raise RuntimeError(f"Lean model and Lean spec disagree after {o} (contradicts theorem C07_{o})")
                if impl_bits != want or impl_bits != expect:
                    ref = want if impl_bits != want else expect
                    k = next(j for j in range(len(ref)) if impl_bits[j] != ref[j])
                    failures.append({"kind": "oracle", "what": f"{o} changes the language",
                                     "detail": f"step {opi}: tree {tree_str(allt[k])}: accepted after {o} = {impl_bits[k]}, expected {ref[k]}"})
                    stop = True
            # ---- oracle: states = exactly the states some tree reaches
            reach = oreach(r_rules)
            if impl_states != reach:
                failures.append({"kind": "oracle", "what": "states is not the set of reachable states",
                                 "detail": f"step {opi} after {o}: states={sorted(impl_states, key=repr)} reachable={sorted(reach, key=repr)}"})
                stop = True
            # ---- oracle: reduce / union leave a trim automaton
            if o in ("reduce", "union"):
                trim, useful = otrim(r_rules, r_finals)
                if len(trim) != len(r_rules):
                    bad = next(k for k in r_rules if k not in trim)
                    failures.append({"kind": "oracle", "what": "reduce leaves a rule that is in no accepting run",
                                     "detail": f"step {opi} after {o}: rule {bad} -> {r_rules[bad]}"})
                    stop = True
                if o == "reduce" and len(r_rules) < len(pre_rules):
                    nontrivial = True
                    tags.append("reduce-removes")
            # ---- oracle: minimise returns a quotient with the Myhill-Nerode number of states
            if o in ("minimise", "minimise_map"):
                off = 1 if o == "minimise_map" else 0
                cls = {}
                okq = True
                for s in all_states(r_rules, r_finals):
                    for q in s[off:]:
                        if q in cls:
                            okq = False
                        cls[q] = s
                for (l, args), d in pre_rules.items():
                    if not okq:
                        break
                    if any(a not in cls for a in args) or d not in cls or r_rules.get((l, tuple(cls[a] for a in args))) != cls[d]:
                        okq = False
                if okq and set(cls[q] for q in pre_finals) != r_finals:
                    okq = False
                if not okq:
                    failures.append({"kind": "oracle", "what": "minimise result is not a quotient of its input",
                                     "detail": f"step {opi}: classes {sorted(map(repr, set(cls.values())))}"})
                    stop = True
                nmin = nerode_count(pre_rules, pre_finals)
                if len(impl_states) != nmin:
                    failures.append({"kind": "oracle", "what": "minimise result is not minimal",
                                     "detail": f"step {opi}: {len(impl_states)} states, Myhill-Nerode classes of the language: {nmin}"})
                    stop = True
                if len(impl_states) < len(oreach(pre_rules)):
                    nontrivial = True
                    tags.append("minimise-merges")
                else:
                    tags.append("minimise-nomerge")
            if o in ("product", "union") and any(want) and want != pre_bits:
                nontrivial = True
                tags.append(o + "-proper")
            if o == "map" and pre_rules:
                nontrivial = True
            # ---- correspondence: table, finals, states, read
            ci, cm = canon_rules(r_rules, r_finals, cq), canon_rules(m_rules, m_finals, cq)
            if ci[0] != cm[0]:
                d1 = [x for x in ci[0] if x not in cm[0]][:3]
                d2 = [x for x in cm[0] if x not in ci[0]][:3]
                failures.append({"kind": "corr", "what": f"{o}: rule table differs from the model",
                                 "detail": f"step {opi}: impl-only {d1} model-only {d2} ({len(ci[0])} vs {len(cm[0])} rules)"})
                stop = True
            elif ci[1] != cm[1]:
                failures.append({"kind": "corr", "what": f"{o}: final states differ from the model",
                                 "detail": f"step {opi}: impl {ci[1]} model {cm[1]}"})
                stop = True
            ms = sorted(repr(cq(rq(q))) for q in mstates)
            if sorted(repr(cq(q)) for q in impl_states) != ms:
                failures.append({"kind": "corr", "what": f"{o}: states differ from the model",
                                 "detail": f"step {opi}: impl {sorted(map(repr, impl_states))} model {ms}"})
                stop = True
            if not stop and o not in ("minimise", "minimise_map"):
                for (l, args), mr in zip(reads, mreads):
                    ir = res.read(l, args)
                    tbl = r_rules.get((l, args))
                    if repr(ir) != repr(rq(mr)) or ir != tbl:
                        failures.append({"kind": "oracle" if ir != tbl else "corr", "what": "read differs from the rule table",
                                         "detail": f"step {opi}: read({l},{args}) = {ir!r}, table {tbl!r}, model {rq(mr)!r}"})
                        stop = True
                        break
            if model_bits != impl_bits and not stop:
                failures.append({"kind": "corr", "what": f"{o}: language differs from the model", "detail": f"step {opi}"})
                stop = True
            steps.append(f"{o}:{len(pre_rules)}->{len(r_rules)}r/{len(impl_states)}q")
            tags.append("op." + o)
            tags.append("rules<%d" % (10 ** len(str(len(r_rules)))))
            cur = res
            if noninj or stop:
                stop = True
                break
        if stop:
            break
    if any(bitsA):
        tags.append("LA-nonempty")
    if not any(bitsA) and not any(bitsB):
        tags.append("both-empty-on-sample")
    key = json.dumps([case["alpha"], case["A"], case["B"], case["ops"]], sort_keys=True)
    return {"key": key, "nontrivial": nontrivial, "tags": sorted(set(tags)), "failures": failures,
            "sample": {"alphabet": case["alpha"], "A": case["A"], "B": case["B"], "ops": case["ops"], "trace": steps,
                       "trees_compared": len(allt)}}


def corpus():
    base = {"xtrees": [], "mapseed": 1, "malformed": False}
    res = []
    # C07-F1 (repaired by proposed fix): reduce kept an unproductive cycle, minimise was not minimal
    res.append(dict(base, alpha=[["a", 0], ["b", 0], ["s", 1]],
                    A={"rules": [["a", [], 0], ["s", [0], 0], ["b", [], 1]], "finals": [1]},
                    B={"rules": [], "finals": []}, ops=["reduce", "minimise"]))
    res.append(dict(base, alpha=[["a", 0], ["b", 0], ["c", 0], ["s", 1], ["u", 1]],
                    A={"rules": [["a", [], 0], ["b", [], 1], ["s", [0], 0], ["u", [1], 1], ["c", [], 2]], "finals": [2]},
                    B={"rules": [["a", [], 0], ["s", [0], 0]], "finals": []}, ops=["union", "minimise"]))
    # equivalent states reached through different letters; merges, then product and union
    res.append(dict(base, alpha=[["a", 0], ["b", 0], ["s", 1], ["f", 2]],
                    A={"rules": [["a", [], 0], ["b", [], 1], ["s", [0], 2], ["s", [1], 2], ["f", [0, 2], 3], ["f", [1, 2], 3]],
                       "finals": [3]},
                    B={"rules": [["a", [], 0], ["s", [0], 1], ["f", [0, 1], 1]], "finals": [1]},
                    ops=["minimise", "product", "union", "minimise"]))
    # one half of are_equivalent is not enough: one state has a consumer that the other lacks
    # (both orientations, so that either choice of representative meets it)
    for extra in (["u", [1], 2], ["u", [0], 2]):
        res.append(dict(base, alpha=[["a", 0], ["b", 0], ["s", 1], ["u", 1]],
                        A={"rules": [["a", [], 0], ["b", [], 1], ["s", [0], 2], ["s", [1], 2], extra], "finals": [2]},
                        B={"rules": [], "finals": []}, ops=["reduce", "minimise"]))
    return res
