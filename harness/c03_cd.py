"""C03, part cd — constant-delay search yields programs by non-increasing probability within the slack
implied by the requested precision, on finite and recursive grammars, for every prefix; its bucketed
queue pops a minimum within its merge tolerance.

The implementation works on integer costs c(P) = -int(log(p) / precision) added along the derivation.
oracle : (a) the cost table is floor(-ln p / precision) (tolerance 1: trusted float expression);
         (b) with C(t) = the sum of the rule costs of t (walked in the rule table by the harness): for every
         earlier y_i and later y_j, C(y_i) - C(y_j) <= max(SLACK, size(y_i) + size(y_j) + 2) (SLACK = 16 cost units, i.e. 16 x precision in
         log-probability: the slack of the pinned tests); (c) the same on exact probabilities:
         -ln P(y_i) + ln P(y_j) <= precision * (SLACK + size(y_i)) (each rule cost is rounded down by less
         than one unit); (d) prefix completeness: a program of the language that is not in the prefix
         costs at least max C(prefix) - SLACK (finite grammars: by exhaustive expansion; recursive
         grammars: brute-force enumeration of all programs below that cost).
Case families: "cd" finite grammar (a quarter stop after a prefix), "cd-rec" CFG.infinite (1 of 6), "queue"
(1 of 6): a single CDQueue driven through the usage protocol of its docstring (push*, then repeatedly
update / peek / pop / push* of costs between the popped cost and the popped cost + maxi), compared with the
queue model (cells, fields, results) and with a reference multiset: nothing lost, nothing invented, every
merged index tuple within 1 of the cost of its CostTuple, popped cost at most 2 above the minimum.
"""
import json
import math
import random

from harness import enumcd as C
from harness import enumhs as E
from harness.sexp import Sym

CASE_TIMEOUT = {"quick": 150, "thorough": 600}


def gen(rng, i, tier):
    if i % 6 == 4:
        return gen_queue(rng, tier)
    if i % 6 == 1:
        return C.gen_rec(random.Random(rng.randrange(1 << 30) ^ i), tier)
    c = C.gen_case(rng, i, tier)
    if rng.random() < 0.25:
        c["take"] = rng.choice([1, 2, 3, 5, 8, 13, 30, 100])
    return c


def shrink(case):
    if case.get("family") == "queue":
        return shrink_queue(case)
    return C.shrink_case(case)


def size(t):
    return 1 + sum(size(k) for k in t[1])


def prob_of(g, probs, t, S):
    from fractions import Fraction
    P, kids = t
    args, _ = g.rules[S][P]
    p = Fraction(probs[S][P])
    for a, k in zip(args, kids):
        p *= prob_of(g, probs, k, C.arg_nt(a))
    return p


def check(case, M):
    if case.get("family") == "queue":
        return check_queue(case, M)
    tier = case.get("tier", "quick")
    case = dict(case)
    case["merges"] = []
    case["filter"] = None
    r = C.run_case(case, M, tier)
    if "trivial" in r:
        return {"key": C.key_of(case), "nontrivial": False, "tags": ["trivial:" + r["trivial"]], "failures": []}
    failures = []
    fid = C.raise_finding(r, "C03") or ("C03-F5" if r["float_exact"] is False else None)

    def fail(kind, what, detail):
        if any(f["what"] == what for f in failures):
            return
        f = {"kind": kind, "what": what, "detail": detail}
        if fid:
            f["finding"] = fid
        failures.append(f)
    for what, detail in r["corr"]:
        failures.append({"kind": "corr", "what": what, "detail": detail})
    g, costs, probs, prec = r["g"], r["costs"], r["probs"], case["precision"]
    if r["table_bad"]:
        failures.append({"kind": "oracle", "what": "a discretised rule cost is not floor(-ln p / precision)", "detail": str(r["table_bad"][:2])})
    ys = r["ys"]
    cs = [C.cost_of(g, costs, p, g.start) for p in ys]
    worst = 0
    degenerate = r["rec"] and C.zero_cycle(g, costs)
    if degenerate:
        pass        # a cycle of zero-cost rules: infinitely many programs of one cost, no order to check
    elif r["err"] is None and all(c is not None for c in cs) and ys:
        # The slack the precision implies (theorems C03_Cd_merge_slack / C03_Cd_queue_slack): every merge of CostTuples
        # moves a claimed cost by at most one unit and a popped tuple is at most 2 units above what is still stored, so
        # the claimed cost of a program is within one unit per node of its true cost and two yields can be inverted by
        # at most size(earlier) + size(later) + 2 units. The figure of the pinned tests (16 units) is kept as the floor:
        # it is what the tests tolerate on their shallow programs, it is not a bound the code guarantees on deep ones
        # (thorough run, recursive grammar, k = 2: 18 units between two programs of 10 and 11 nodes).
        def pair_slack(i, j):
            return max(C.SLACK, size(ys[i]) + size(ys[j]) + 2)
        mx, arg = cs[0], 0
        for j in range(1, len(cs)):
            if mx - cs[j] > worst:
                worst = mx - cs[j]
            if mx - cs[j] > C.SLACK:
                bad = next((i for i in range(j) if cs[i] - cs[j] > pair_slack(i, j)), None)
                if bad is not None:
                    fail("oracle", "a program is yielded after a costlier one, beyond the slack", f"position {j}: {E.show(ys[j])} (cost {cs[j]}) after {E.show(ys[bad])} (cost {cs[bad]}); slack {pair_slack(bad, j)}")
            if cs[j] > mx:
                mx, arg = cs[j], j
        # the same on exact probabilities
        Ls = [-math.log(float(prob_of(g, probs, p, g.start))) for p in ys]
        best = -1e300
        for j in range(len(ys)):
            if best - Ls[j] > prec * max(C.SLACK, size(ys[j]) + 2) + 1e-9 * (1 + abs(Ls[j])):
                fail("oracle", "a program is yielded after a less probable one, beyond the slack", f"position {j}: {E.show(ys[j])} (-ln p = {Ls[j]})")
            best = max(best, Ls[j] - prec * size(ys[j]))
        # prefix completeness
        Y = {E.show(p) for p in ys}
        bound = max(cs) - C.SLACK

        def owed_now(p, c):     # some yielded program is costlier than p by more than the pair's slack
            sp = size(p)
            return any(cs[i] - c > max(C.SLACK, size(ys[i]) + sp + 2) for i in range(len(ys)))
        if r["lang"] is not None:
            miss = sorted(E.show(p) for p, c, _ in r["lang"] if c < bound and E.show(p) not in Y and owed_now(p, c))
            if miss:
                fail("oracle", "a cheaper program was not yielded before (beyond the slack)", f"{len(miss)} e.g. {miss[:3]} (< {bound})")
        else:
            try:
                owed = C.below(g, costs, g.start, bound - 1, 60000)
                miss = sorted(E.show(p) for p, c in owed if E.show(p) not in Y and owed_now(p, c))
                if miss:
                    fail("oracle", "a cheaper program was not yielded before (beyond the slack)", f"{len(miss)} e.g. {miss[:3]} (< {bound})")
            except (E.TooLarge, RecursionError):
                pass
        if r["rec"] and len(ys) < case["take"] and not failures:
            fail("oracle", "the enumeration of an infinite language stops", f"after {len(ys)} programs")
        if len(Y) != len(ys):
            fail("oracle", "a program is yielded twice", "")
    elif r["err"] is not None:
        fail("oracle", "the enumerator raises instead of enumerating", r["err"])
    elif any(c is None for c in cs):
        fail("oracle", "a program outside the language is yielded", "")
    tags = C.base_tags(case, r)
    tags.append(f"inversion:{worst if worst <= 3 else ('4-16' if worst <= 16 else '>16')}")
    if case.get("take"):
        tags.append("prefix")
    if degenerate:
        tags.append("zero-cost-cycle(correspondence only)")
    if C.raise_finding(r, "C03"):
        tags.append(f"raises({C.raise_finding(r, 'C03')} region)")
    ncost = len(set(cs))
    nontrivial = len(ys) >= 10 and ncost >= 2 and ncost < len(ys)
    return {"key": C.key_of(case), "nontrivial": nontrivial, "tags": tags, "failures": failures, "sample": C.sample_of(case, r)}


# --------------------------------------------------------------------------- a single CDQueue
def gen_queue(rng, tier):
    maxi = rng.choice([1, 2, 3, 7, 22, 49, 100, 500, 1000, 1001, 2000, 5000, 12345, 100000])
    k = rng.choice([1, 2, 3, 4, 5, 10, 16, 64]) if maxi > 1000 or rng.random() < 0.3 else maxi
    rounds = rng.choice([5, 20, 50, 100]) if tier == "quick" else rng.choice([20, 100, 300])
    return {"family": "queue", "maxi": maxi, "k": k, "c0": rng.choice([0, 0, 5, 1000, 123456]), "rounds": rounds,
            "dense": rng.choice([True, False]), "seed": rng.randrange(1 << 30), "tier": tier}


def shrink_queue(case):
    for r in (1, 2, 3, 5, 10):
        if r < case["rounds"]:
            c = dict(case)
            c["rounds"] = r
            yield c


def check_queue(case, M):
    """drive the real CDQueue through the protocol; the pushes of a round are the popped cost plus
    pre-drawn non-negative integers <= maxi (the spread the search promises); then replay the concrete
    script on the model"""
    from synth.syntax.grammars.enumeration.constant_delay_queue import CDQueue, CostTuple
    import json
    rng = random.Random(case["seed"])
    maxi, k = case["maxi"], case["k"]
    failures = []

    def fail(kind, what, detail):
        if not any(f["what"] == what for f in failures):
            failures.append({"kind": kind, "what": what, "detail": detail})
    q = CDQueue(maxi, k)
    script, outs = [], []
    uid = [0]
    ref = []          # outstanding (cost, uid) pushed and not yet popped
    worst = 0
    err = None

    def delta():
        if case["dense"]:
            return min(maxi, rng.choice([0, 0, 1, 1, 2, 3, rng.randint(0, 8)]))
        return min(maxi, rng.choice([0, 1, rng.randint(0, maxi), rng.randint(0, maxi), maxi]))

    def push(c):
        uid[0] += 1
        script.append([Sym("push"), int(c), [uid[0]]])
        ref.append((c, uid[0]))
        q.push(CostTuple(float(c), [[uid[0]]]))
    try:
        push(case["c0"])
        for _ in range(rng.choice([0, 0, 1, 2])):
            push(case["c0"] + delta())
        for _ in range(case["rounds"]):
            if q.is_empty():
                break
            script.append([Sym("update")])
            q.update()
            script.append([Sym("peek")])
            pk = q.peek()
            outs.append([C.fbits(pk.cost), [list(c) for c in pk.combinations]] if pk is not None else "none")
            script.append([Sym("pop")])
            ct = q.pop()
            outs.append([C.fbits(ct.cost), [list(c) for c in ct.combinations]])
            if pk is None or pk.cost != ct.cost or pk.combinations != ct.combinations:
                fail("oracle", "peek() is not what pop() returns next", "")
            got = {c[0] for c in ct.combinations}
            mine = [x for x in ref if x[1] in got]
            if len(mine) != len(got) or len(ct.combinations) != len(got):
                fail("oracle", "pop() returns an index tuple that was not pushed (or twice)", str(ct))
            lo = min(c for c, _ in ref)
            for c, _ in mine:
                worst = max(worst, abs(c - ct.cost))
                if abs(c - ct.cost) > 1:
                    fail("oracle", "a merged index tuple is more than 1 away from the cost of its CostTuple", f"{c} in {ct}")
                if c > lo + 2:      # |c - ct.cost| <= 1 for every merged tuple, and ct.cost is a minimum
                    fail("oracle", "pop() returns a cost more than 2 above the minimum", f"popped {c}, minimum {lo}")
            ref[:] = [x for x in ref if x[1] not in got]
            for _ in range(rng.choice([0, 1, 1, 2, 2, 3])):
                push(int(ct.cost) + delta())
    except Exception as e:  # noqa
        err = type(e).__name__
        fail("oracle", "the queue raises inside its usage protocol", err)
    ans = M.ask([Sym("cd.queue"), maxi, k, script, C.impl_flags()[1]])
    rf, rr = ans
    if err is None:
        if rf[0] != "ok":
            failures.append({"kind": "corr", "what": "queue model undefined where the implementation runs", "detail": str(C.norm(rf))[:200]})
        else:
            m = C.norm(rf)
            if m[1] != outs:
                j = next((j for j, (a, b) in enumerate(zip(outs, m[1])) if a != b), None)
                failures.append({"kind": "corr", "what": "pop/peek results differ from the model", "detail": f"observation {j}: impl {str(outs[j])[:100] if j is not None else len(outs)} model {str(m[1][j])[:100] if j is not None else len(m[1])}"})
            if m[2] != C.dump_queue(q):
                failures.append({"kind": "corr", "what": "queue fields / cells differ from the model", "detail": f"impl {str(C.dump_queue(q))[:150]} model {str(m[2])[:150]}"})
    else:
        if rf[0] == "ok":
            failures.append({"kind": "corr", "what": "implementation raises where the queue model runs", "detail": err})
    def sig(x):
        x = C.norm(x)
        outs_ = x[1] if x[0] == "ok" else x[2]
        return (x[0], None if x[0] == "ok" else x[1], [o[1] if isinstance(o, list) else o for o in outs_])
    exact = sig(rf) == sig(rr)
    if not exact:
        # decidable classifier of finding C03-F5: the queue model run with IEEE doubles differs from the run
        # with exact rationals on this script (the bucket index int(cost / maxi * k) is rounded down)
        for f in failures:
            if f["kind"] == "oracle":
                f["finding"] = "C03-F5"
    tags = ["queue", "queue.M>1000" if maxi > 1000 else ("queue.unit-width" if k == maxi else "queue.M<=1000,k!=M"),
            "queue.float==rational" if exact else "queue.float!=rational(rounding visible)", f"queue.worst-merge:{worst}"]
    return {"key": json.dumps(case, sort_keys=True), "nontrivial": len(outs) >= 6, "tags": tags, "failures": failures,
            "sample": {"maxi": maxi, "k": k, "operations": len(script), "pops": len(outs) // 2}}


def corpus():
    return [
        # the witness of finding C03-F5 (int(4 / 49.0 * 49) = 3): (f0 var1 var1 var0) of cost 135 before (f0 c0 var1 c0) of cost 134
        {"family": "queue", "maxi": 49, "k": 49, "c0": 5, "rounds": 5, "dense": False, "seed": 126110569},
        {"family": "queue", "maxi": 2000, "k": 4, "c0": 1000, "rounds": 60, "dense": False, "seed": 7},
        {"family": "cd", "build": {"src": "testdsl", "request": ["->", "int", "int"], "kind": "cfg", "max_depth": 3, "min_var": 0, "n_gram": 2},
         "order": "built", "oseed": 0, "weights": "random", "wseed": 4, "k": 4, "precision": 1e-2, "filter": None, "merges": []},
        {"family": "cd-rec", "dsl": 0, "request": ["->", "int", "int"], "n_gram": 1, "weights": "random", "wseed": 1, "k": 16, "precision": 1e-4,
         "take": 400, "order": "built", "oseed": 0, "filter": None, "merges": []},
    ]
