"""C02, part cd — constant-delay search yields every program of a finite grammar exactly once, nothing
else, and stops.

impl   : enumerate_prob_grammar -> CDSearch (constant_delay.py), CDQueue (constant_delay_queue.py)
model  : PS.CD.next / PS.CD.Q (driver ops cd.run / cd.queue): yielded sequence and EVERY table of the
         object (heaps, cost lists, banks, the cells of every CDQueue, derivation banks with their aliased
         pools, empties, deleted) compared exactly, floats by their 64 bits
oracle : language by exhaustive expansion of the rule table (harness/enumcd.py)
(the queue alone is driven through its usage protocol in harness/c03_cd.py)
"""
from harness import enumcd as C
from harness import enumhs as E

CASE_TIMEOUT = {"quick": 150, "thorough": 600}


def gen(rng, i, tier):
    return C.gen_case(rng, i, tier)


def shrink(case):
    return C.shrink_case(case)


def set_failures(r, ys, fail):
    Y = [E.show(p) for p in ys]
    L = {E.show(p) for p, _, _ in r["lang"]}
    if len(Y) != len(set(Y)):
        fail("oracle", "a program is yielded twice", next(y for k, y in enumerate(Y) if y in Y[:k]))
    extra = sorted(set(Y) - L)
    if extra:
        fail("oracle", "a program outside the language is yielded", str(extra[:3]))
    missing = sorted(L - set(Y))
    if missing:
        fail("oracle", "a program of the language is never yielded", f"{len(missing)} of {len(L)} missing, e.g. {missing[:3]}")


def check(case, M):
    tier = case.get("tier", "quick")
    r = C.run_case(case, M, tier)
    if "trivial" in r:
        return {"key": C.key_of(case), "nontrivial": False, "tags": ["trivial:" + r["trivial"]], "failures": []}
    failures = []
    fid = C.raise_finding(r, "C02")

    def fail(kind, what, detail):
        f = {"kind": kind, "what": what, "detail": detail}
        if fid:
            f["finding"] = fid
        failures.append(f)
    for what, detail in r["corr"]:
        failures.append({"kind": "corr", "what": what, "detail": detail})
    if r["err"] is not None:
        fail("oracle", "the enumerator raises instead of enumerating", r["err"])
    else:
        if not r["steps"] or not r["steps"][-1][1]:
            fail("oracle", "the enumerator does not stop", "")
        set_failures(r, r["ys"], fail)
    tags = C.base_tags(case, r)
    if fid:
        tags.append(f"raises({fid} region)")
    ncost = len({c for _, c, _ in r["lang"]})
    nontrivial = len(r["lang"]) >= 10 and ncost >= 2 and ncost < len(r["lang"])
    return {"key": C.key_of(case), "nontrivial": nontrivial, "tags": tags, "failures": failures, "sample": C.sample_of(case, r)}


def corpus():
    return [
        # finding C02-F4: uniform probabilities, every non-terminal has the same number of rules
        {"family": "cd", "build": {"src": "prims", "prims": [["f", ["->", "int", "int"]], ["1", "int"]], "forbidden": [], "request": "int",
                                   "kind": "cfg", "max_depth": 3, "min_var": 0, "n_gram": 1},
         "order": "built", "oseed": 0, "weights": "uniform", "wseed": 0, "k": 5, "precision": 1e-2, "filter": None, "merges": []},
        # the pinned test grammar, random probabilities, three precisions
        {"family": "cd", "build": {"src": "testdsl", "request": ["->", "int", "int"], "kind": "cfg", "max_depth": 3, "min_var": 0, "n_gram": 2},
         "order": "built", "oseed": 0, "weights": "random", "wseed": 4, "k": 4, "precision": 1e-2, "filter": None, "merges": []},
        {"family": "cd", "build": {"src": "testdsl", "request": ["->", "int", "int"], "kind": "cfg", "max_depth": 4, "min_var": 0, "n_gram": 2},
         "order": "reversed", "oseed": 3, "weights": "skewed", "wseed": 9, "k": 16, "precision": 1e-4, "filter": None, "merges": []},
    ]
