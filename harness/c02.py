"""C02: multi-part check (parts: bee, cd, hs); see harness/parts.py and the part modules."""
from harness.parts import make

make(globals(), ['c02_bee', 'c02_cd', 'c02_hs'])
