from harness.parts import make; make(globals(), ["c02_hs"])
