"""C02: multi-part check (parts: beap, bee, cd, hs); see harness/parts.py and the part modules."""
from harness.parts import make

make(globals(), ['c02_beap', 'c02_bee', 'c02_cd', 'c02_hs'])
