"""C10 — a PBE solver yields exactly the enumerated programs consistent with all examples.

A case is a *session*: 1-3 consecutive tasks (plus optional reset_stats / clear_cache between
them) on ONE solver object and ONE DSLEvaluator, run once with NaivePBESolver and once with
CutoffPBESolver.  A task = (examples, program source, clock events, answers):
  program source : a scripted list of well-typed terms (with duplicates, solutions, near misses,
                   terms of another type, failing primitives) served by a minimal
                   ProgramEnumerator subclass, or the first N programs of the real heap-search
                   enumerator on ProbDetGrammar.uniform(CFG.depth_constraint(dsl, tr, 3))
  clock events   : "deadline passed before program i", injected through the `timeout` argument
                   (a float subclass whose comparison with the elapsed time is scripted), or a
                   real `timeout <= 0`
  answers        : what the caller sends into the generator after each yielded program
                   (True/False and other truthy/falsy objects); the caller may stop answering.
impl   : real solver over real DSLEvaluator (in process)
model  : PS.C10.solve (driver op c10.session) over the C11 evaluator model; the answer also carries
         the Lean spec (specYields, sat, verdict, horizon) computed from the compositional semantics
oracle : this file's reading of the English statement, evaluating with gen.denote only

A second kind of case (kind "restart", 30% of the quick cases / 6% of the thorough ones) drives RestartPBESolver over
both sub-solvers on real enumerators: harness/c10_restart.py (gen/check/shrink/corpus are dispatched from here).
"""
import itertools
import json

from harness import gen as G
from harness.sexp import Sym

CASE_TIMEOUT = {"quick": 30, "thorough": 60}
EXC = {"ZeroDivisionError": ZeroDivisionError, "IndexError": IndexError}
KINDS = ("naive", "cutoff")
# answers sent into the generator: token -> (python object, truth value)
ANSWERS = {"T": (True, True), "F": (False, False), "none": (None, False), "zero": (0, False), "one": (1, True),
           "str": ("no", True), "empty": ([], False)}
HEAP_TR = {"arith": [["int"], ["int", "int"]], "lists": [[("list", "int")], ["int", ("list", "int")]]}


def _tt(t):
    return tuple(_tt(x) for x in t) if isinstance(t, list) else t


def _term(t):
    """JSON round trip: lists -> the tuple form used by gen.py"""
    if t[0] == "A":
        return ("A", _term(t[1]), [_term(a) for a in t[2]])
    return (t[0], t[1])


# ------------------------------------------------------------------------------- generation
def _variants(rng, spec, t, ty):
    """semantically equal (on non-failing inputs) rewritings of t"""
    out = [t]
    if ty == "int" and "+" in spec and "0" in spec:
        out.append(("A", ("P", "+"), [t, ("P", "0")]))
        out.append(("A", ("P", "+"), [("P", "0"), t]))
    if ty == "int" and "*" in spec:
        out.append(("A", ("P", "*"), [("P", "1"), t]))
    if ty == "int" and "neg" in spec:
        out.append(("A", ("P", "neg"), [("A", ("P", "neg"), [t])]))
    if ty == ("list", "int") and "tail" in spec:
        out.append(("A", ("P", "tail"), [("A", ("P", "cons"), [("P", "0"), t])]))
    return out


def _safe_denote(t, spec, inp):
    try:
        return True, G.denote(t, spec, inp)
    except Exception:  # noqa
        return False, None


def gen_task(rng, name, spec, var_types, tier):
    rtypes = ["int"] if name == "arith" else ["int", "int", ("list", "int"), ("list", ("list", "int"))]
    rty = rng.choice(rtypes)
    target = None
    for _ in range(5):
        target = G.random_term(rng, spec, var_types, rty, rng.randint(1, 3), p_leaf=0.3)
        if target is not None:
            break
    if target is None:
        rty, target = "int", ("P", "1")
    nex = rng.choice([0, 1, 1, 2, 2, 3, 3, 4, 5])
    examples = []
    for _ in range(nex):
        inp = [G.random_value(rng, t) for t in var_types]
        ok, out = _safe_denote(target, spec, inp)
        if not ok or rng.random() < 0.12:
            out = G.random_value(rng, rty if rty != ("list", ("list", "int")) else ("list", "int"))
            if rty == ("list", ("list", "int")):
                out = [out, out]
        if rng.random() < 0.04 and inp:
            inp = inp[:-1]                      # malformed example: an input is missing
        examples.append([inp, out])
    if rng.random() < 0.15 and len(examples) >= 2:
        examples[rng.randrange(len(examples))] = list(examples[0])      # repeated example
    dl = []
    mode = rng.random()
    if mode < 0.2 and name in HEAP_TR and [t for t in HEAP_TR[name] if [_tt(x) for x in t] == list(var_types)] and rty in ("int", ("list", "int")):
        limit = rng.choice([5, 20, 60, 150] if tier == "thorough" else [5, 20, 60])
        source = {"heap": {"rtype": rty, "depth": 3, "limit": limit}}
        nprogs = limit
    else:
        progs = []
        n = rng.choice([0, 1, 2, 3, 5, 8, 12, 20] if tier == "quick" else [0, 1, 2, 3, 5, 8, 12, 20, 40])
        for _ in range(n):
            r = rng.random()
            if r < 0.25:
                progs.append(rng.choice(_variants(rng, spec, target, rty)))
            elif r < 0.35 and progs:
                progs.append(rng.choice(progs))                                     # duplicate
            elif r < 0.42:
                t = G.random_term(rng, spec, var_types, rng.choice(rtypes), rng.randint(1, 3))   # maybe another type
                if t is not None:
                    progs.append(t)
            else:
                t = G.random_term(rng, spec, var_types, rty, rng.randint(1, 4), p_leaf=0.3)
                if t is not None:
                    progs.append(t)
        source = {"list": progs}
        nprogs = len(progs)
    r = rng.random()
    if r < 0.12:
        k = rng.randint(0, max(0, nprogs))
        dl = [0] * k + [1]
    elif r < 0.16:
        dl = "real0"                       # a real time-out that has already expired
    am = rng.random()
    if am < 0.4:
        answers = ["F"] * rng.randint(nprogs, nprogs + 2)
    elif am < 0.85:
        answers = [rng.choice(["F", "F", "F", "T", "none", "zero", "one", "str", "empty"]) for _ in range(rng.randint(0, 8))]
    else:
        answers = ["F"] * rng.randint(0, 3) + [rng.choice(["T", "one"])] + ["F"] * rng.randint(0, 2)
    return {"examples": examples, "source": source, "dl": dl, "answers": answers}


# share of the cases that drive RestartPBESolver (harness/c10_restart.py); a restart case costs 20-30 times a plain one
RESTART_SHARE = {"quick": 0.3, "thorough": 0.06}


def gen(rng, i, tier):
    if rng.random() < RESTART_SHARE.get(tier, 0.3):
        from harness import c10_restart
        return c10_restart.gen(rng, i, tier)
    name = rng.choice(["arith", "lists", "lists"])
    spec = G.DSLS[name]
    if rng.random() < 0.5:
        var_types = rng.choice(HEAP_TR[name])
    else:
        var_types = [rng.choice(["int", ("list", "int")] if name == "lists" else ["int"]) for _ in range(rng.randint(1, 2))]
    var_types = [_tt(t) for t in var_types]
    ops = []
    for j in range(rng.choice([1, 1, 2, 2, 3])):
        if j > 0 and rng.random() < 0.2:
            ops.append(["reset"])
        if j > 0 and rng.random() < 0.2:
            ops.append(["clear"])
        ops.append(["task", gen_task(rng, name, spec, var_types, tier)])
    skips = rng.choice([["ZeroDivisionError", "IndexError"]] * 5 + [["ZeroDivisionError"], ["IndexError"], []])
    return {"dsl": name, "var_types": var_types, "use_cache": rng.random() < 0.8, "skips": skips, "ops": ops}


_SHRINK_BUDGET = [1500]      # candidates per worker process: the first failures are minimised fully,
                              # a flood of failures (a badly broken tree) does not stall the run


def shrink(case):
    if case.get("kind") == "restart":
        from harness import c10_restart
        src = c10_restart.shrink(case)
    else:
        src = _shrink(case)
    for c in src:
        if _SHRINK_BUDGET[0] <= 0:
            return
        _SHRINK_BUDGET[0] -= 1
        yield c


def _shrink(case):
    ops = case["ops"]
    for j in range(len(ops)):
        if len(ops) > 1:
            c = dict(case); c["ops"] = ops[:j] + ops[j + 1:]
            if any(o[0] == "task" for o in c["ops"]):
                yield c
    for j, op in enumerate(ops):
        if op[0] != "task":
            continue
        t = op[1]

        def with_task(nt):
            c = dict(case); c["ops"] = ops[:j] + [["task", nt]] + ops[j + 1:]
            return c
        if "list" in t["source"]:
            ps = t["source"]["list"]
            if len(ps) >= 4:
                for half in (ps[:len(ps) // 2], ps[len(ps) // 2:]):
                    nt = dict(t); nt["source"] = {"list": half}; nt["dl"] = [] if isinstance(t["dl"], list) else t["dl"]
                    yield with_task(nt)
            for k in range(len(ps)):
                nt = dict(t); nt["source"] = {"list": ps[:k] + ps[k + 1:]}
                if isinstance(t["dl"], list) and k < len(t["dl"]):
                    nt["dl"] = t["dl"][:k] + t["dl"][k + 1:]
                yield with_task(nt)
        elif t["source"]["heap"]["limit"] > 1:
            nt = dict(t); nt["source"] = {"heap": dict(t["source"]["heap"], limit=t["source"]["heap"]["limit"] // 2)}
            yield with_task(nt)
        for k in range(len(t["examples"])):
            nt = dict(t); nt["examples"] = t["examples"][:k] + t["examples"][k + 1:]
            yield with_task(nt)
        for k in range(len(t["answers"])):
            nt = dict(t); nt["answers"] = t["answers"][:k] + t["answers"][k + 1:]
            yield with_task(nt)
        if t["dl"]:
            nt = dict(t); nt["dl"] = []
            yield with_task(nt)
    if not case["use_cache"]:
        c = dict(case); c["use_cache"] = True
        yield c


# ------------------------------------------------------------------------------- wire
def wire_term(t):
    if t[0] == "P":
        return [Sym("P"), t[1]]
    if t[0] == "V":
        return [Sym("V"), t[1]]
    return [Sym("A"), wire_term(t[1])] + [wire_term(a) for a in t[2]]


def wire_val(v):
    if isinstance(v, (list, tuple)):
        return [Sym("l")] + [wire_val(x) for x in v]
    return int(v)


def from_repo_program(p):
    from synth.syntax.program import Function, Primitive, Variable
    if isinstance(p, Function):
        return ("A", from_repo_program(p.function), [from_repo_program(a) for a in p.arguments])
    if isinstance(p, Variable):
        return ("V", p.variable)
    if isinstance(p, Primitive):
        return ("P", p.primitive)
    raise ValueError(p)


# ------------------------------------------------------------------------------- implementation side
class Deadline(float):
    """`timeout` argument whose comparison with the elapsed time is scripted:
    the i-th evaluation of `elapsed >= timeout` answers script[i] (False afterwards)."""

    def __new__(cls, script):
        o = float.__new__(cls, 1e9)
        o.script = [bool(x) for x in script]
        o.k = 0
        return o

    def _passed(self):
        r = self.script[self.k] if self.k < len(self.script) else False
        self.k += 1
        return r

    def __le__(self, other):      # elapsed >= timeout
        return self._passed()

    def __lt__(self, other):      # elapsed > timeout
        return self._passed()

    def __ge__(self, other):      # elapsed <= timeout
        return not self._passed()

    def __gt__(self, other):      # elapsed < timeout
        return not self._passed()


def _enumerator_classes():
    from synth.syntax.grammars.enumeration.program_enumerator import ProgramEnumerator

    class Scripted(ProgramEnumerator):
        """serves a fixed list; probability = a dyadic number identifying the program"""

        def __init__(self, progs, table, inner=None, limit=None):
            super().__init__(None)
            self.progs, self.table, self.inner, self.limit = progs, table, inner, limit
            self.pulled = []

        @classmethod
        def name(cls):
            return "scripted"

        def generator(self):
            src = self.progs if self.inner is None else itertools.islice(self.inner.generator(), self.limit)
            for p in src:
                self.pulled.append(p)
                yield p

        def programs_in_banks(self):
            return 0

        def programs_in_queues(self):
            return 0

        def probability(self, p):
            if self.inner is not None:
                return self.inner.probability(p)
            return self.table[G.term_str(from_repo_program(p))]

        def clone(self, grammar):
            return Scripted(self.progs, self.table, self.inner, self.limit)
    return Scripted


def _heap(dsl, var_types, h):
    from synth.syntax import auto_type
    from synth.syntax.grammars.cfg import CFG
    from synth.syntax.grammars.tagged_det_grammar import ProbDetGrammar
    from synth.syntax.grammars.enumeration.heap_search import enumerate_prob_grammar
    tr = auto_type(G.ty_str(G.arrow(*var_types, _tt(h["rtype"]))))
    pcfg = ProbDetGrammar.uniform(CFG.depth_constraint(dsl, tr, h["depth"]))
    return lambda: enumerate_prob_grammar(pcfg)


def run_impl(kind, case, ctx):
    """-> list of observations, one per op"""
    from synth.semantic.evaluator import DSLEvaluator
    from synth.specification import PBE, Example
    from synth.task import Task
    from synth.pbe.solvers import NaivePBESolver, CutoffPBESolver
    from synth.syntax import auto_type
    Scripted = _enumerator_classes()
    ev = DSLEvaluator(ctx["sem"], use_cache=case["use_cache"])
    for s in case["skips"]:
        ev.skip_exceptions.add(EXC[s])
    solver = (NaivePBESolver if kind == "naive" else CutoffPBESolver)(ev)
    obs = []
    for op, tk in zip(case["ops"], ctx["tasks"]):
        if op[0] == "reset":
            solver.reset_stats(); obs.append(None); continue
        if op[0] == "clear":
            ev.clear_cache(); obs.append(None); continue
        t = op[1]
        if tk["heap"] is not None:
            enum = Scripted(None, None, tk["heap"](), t["source"]["heap"]["limit"])
        else:
            enum = Scripted(tk["progs"], tk["table"])
        tr = auto_type(G.ty_str(G.arrow(*ctx["var_types"], "int")))
        task = Task(tr, PBE([Example(list(i), o) for i, o in t["examples"]]))
        if t["dl"] == "real0":
            timeout = 0.0
        elif t["dl"]:
            timeout = Deadline(t["dl"])
        else:
            timeout = 1e9
        before = solver.get_stats("programs")
        yielded, at_yield = [], []
        g = solver.solve(task, enum, timeout)
        try:
            p = next(g)
            yielded.append(G.term_str(from_repo_program(p))); at_yield.append([solver._programs, float(solver._score)])
            for a in t["answers"]:
                p = g.send(ANSWERS[a][0])
                yielded.append(G.term_str(from_repo_program(p))); at_yield.append([solver._programs, float(solver._score)])
            status = "suspended"
            g.close()
        except StopIteration:
            status = "finished"
        except Exception as e:  # noqa
            status = "raised:" + type(e).__name__
        pulled = [G.term_str(from_repo_program(p)) for p in enum.pulled]
        if pulled != tk["strs"][:len(pulled)]:
            raise RuntimeError("the enumerator did not produce the materialised sequence (assumption: enumeration is deterministic)")
        pp = solver.get_stats("program_probability")
        by_str = dict(zip(tk["strs"], tk["progs"]))
        sc = getattr(solver, "_score", None)
        obs.append({"yielded": yielded, "status": status, "stats_programs": solver.get_stats("programs"),
                    "delta": solver.get_stats("programs") - before, "pp": pp,
                    "prob_of": (lambda x, e=enum, d=by_str: e.probability(d[x])), "_programs": getattr(solver, "_programs", 0),
                    "score": None if sc is None else float(sc), "at_yield": at_yield, "pulled": len(pulled)})
    return obs


# ------------------------------------------------------------------------------- oracle (English statement)
def oracle_task(kind, t, tk, spec, skips):
    """expected yields, and the rank of the accepted program (None when nothing is accepted)"""
    def outcome(term, inp, out):
        try:
            v = G.denote(term, spec, inp)
        except Exception as e:  # noqa
            return "nomatch" if type(e).__name__ in skips else "raise:" + type(e).__name__
        return "match" if G.canon_value(v) == G.canon_value(out) and not callable(v) else "nomatch"
    dl = [1] if t["dl"] == "real0" else list(t["dl"])
    truth = [ANSWERS[a][1] for a in t["answers"]]
    sats, exp, idxs = [], [], []
    k = 0           # answers consumed
    end = "exhausted"
    rank = None
    for i, term in enumerate(tk["terms"]):
        if i < len(dl) and dl[i]:
            end = "timeout"; break
        outs = [outcome(term, inp, out) for inp, out in t["examples"]]
        if kind == "cutoff":
            cut = next((j for j, o in enumerate(outs) if o != "match"), None)
            if cut is not None:
                outs = outs[:cut + 1]
        r = next((o for o in outs if o.startswith("raise:")), None)
        if r is not None:
            end = "raised:" + r[6:]; break
        ok = all(o == "match" for o in outs)
        sats.append(ok)
        if ok:
            exp.append(tk["strs"][i]); idxs.append(i)
            if k >= len(truth):
                end = "suspended"; break
            a = truth[k]; k += 1
            if a:
                end = "accepted"; rank = i + 1; break
    return {"yields": exp, "idxs": idxs, "end": end, "rank": rank, "sats": sats}


def all_sat(term, t, spec, skips):
    for inp, out in t["examples"]:
        try:
            v = G.denote(term, spec, inp)
        except Exception:  # noqa
            return False
        if callable(v) or G.canon_value(v) != G.canon_value(out):
            return False
    return True


# ------------------------------------------------------------------------------- check
def check(case, M):
    if case.get("kind") == "restart":
        from harness import c10_restart
        return c10_restart.check(case, M)
    dsl, semt, spec = G.make_dsl(case["dsl"])
    prims = G.prims_by_name(dsl)
    var_types = [_tt(t) for t in case["var_types"]]
    skips = list(case["skips"])
    tasks = []
    for op in case["ops"]:
        if op[0] != "task":
            tasks.append(None); continue
        t = op[1]
        if "heap" in t["source"]:
            mk = _heap(dsl, var_types, t["source"]["heap"])
            progs = list(itertools.islice(mk().generator(), t["source"]["heap"]["limit"]))
            terms = [from_repo_program(p) for p in progs]
            tasks.append({"heap": mk, "progs": progs, "terms": terms, "table": None})
        else:
            terms = [_term(x) for x in t["source"]["list"]]
            progs = [G.to_repo_program(x, prims, var_types) for x in terms]
            table = {}
            for x in terms:
                table.setdefault(G.term_str(x), 2.0 ** -(len(table) + 1))
            tasks.append({"heap": None, "progs": progs, "terms": terms, "table": table})
        tasks[-1]["strs"] = [G.term_str(x) for x in tasks[-1]["terms"]]
    ctx = {"sem": semt, "var_types": var_types, "tasks": tasks}

    wire_ops = []
    for op, tk in zip(case["ops"], tasks):
        if op[0] != "task":
            wire_ops.append([Sym(op[0])]); continue
        t = op[1]
        dl = [1] if t["dl"] == "real0" else list(t["dl"])
        wire_ops.append([Sym("task"), [wire_term(x) for x in tk["terms"]],
                         [[[wire_val(v) for v in inp], wire_val(out)] for inp, out in t["examples"]],
                         [bool(x) for x in dl], [ANSWERS[a][1] for a in t["answers"]]])

    failures = []
    tags = set([f"dsl.{case['dsl']}", f"skips{len(skips)}", "cache-on" if case["use_cache"] else "cache-off",
                f"tasks{sum(1 for o in case['ops'] if o[0] == 'task')}"])
    nontrivial = False
    impl_by_kind, want_by_kind = {}, {}
    summary = []
    for kind in KINDS:
        impl = run_impl(kind, case, ctx)
        ans = M.ask([Sym("c10.session"), Sym(kind), case["use_cache"], skips, wire_ops])
        impl_by_kind[kind] = impl
        wants = []
        stats_before, closes_before, want_pp = 0, 0, 0
        for j, (op, tk, ob, a) in enumerate(zip(case["ops"], tasks, impl, ans)):
            if op[0] != "task":
                wants.append(None)
                if op[0] == "reset":
                    stats_before, closes_before, want_pp = 0, 0, 0
                continue
            t = op[1]
            _, m_y, m_status, m_sp, m_last, m_closes, m_progs, m_score, s_y, s_sat, s_vd, s_h = a
            m_y, s_y = [str(x) for x in m_y], [str(x) for x in s_y]
            m_sp, m_closes, m_progs, s_h = int(m_sp), int(m_closes), int(m_progs), int(s_h)
            m_score = m_score if m_score[0] == "none" else [int(m_score[0]), int(m_score[1])]
            want = oracle_task(kind, t, tk, spec, skips)
            wants.append(want)
            # --- Lean spec against the independent oracle, model against spec (theorems)
            if s_y != want["yields"]:
                raise RuntimeError(f"Lean spec and harness oracle disagree on the yielded programs: {s_y} vs {want['yields']}")
            if [x == "1" for x in s_sat] != [all_sat(x, t, spec, skips) for x in tk["terms"]]:
                raise RuntimeError("Lean spec and harness oracle disagree on which programs satisfy the examples")
            if m_y != s_y:
                raise RuntimeError(f"model yields differ from Lean spec (contradicts theorem C10_yields): {m_y} vs {s_y}")
            m_st = "suspended" if m_status[0] == "suspended" else ("raised:" + m_status[2] if m_status[1] == "raised" else "finished")
            m_end = "suspended" if m_status[0] == "suspended" else ("raised:" + m_status[2] if m_status[1] == "raised" else m_status[1])
            if m_end != want["end"]:
                raise RuntimeError(f"model status {m_end} differs from oracle {want['end']}")
            if want["rank"] is not None and m_sp - stats_before != want["rank"]:
                raise RuntimeError("model stats differ from the rank (contradicts theorem C10_rank)")
            where = f"{kind} solver, operation #{j}"
            # --- the property on the implementation
            bad = [y for y in ob["yielded"] if y in tk["strs"] and not all_sat(tk["terms"][tk["strs"].index(y)], t, spec, skips)]
            if bad:
                failures.append({"kind": "oracle", "what": "a yielded program fails an example",
                                 "detail": f"{where}: yielded {bad[0]} which does not satisfy the examples {t['examples']}"})
            elif ob["yielded"] != want["yields"]:
                what = "a program satisfying every example was skipped" if _is_subseq(ob["yielded"], want["yields"]) and len(ob["yielded"]) < len(want["yields"]) and ob["status"] != "suspended" \
                    else "yielded programs are not the satisfying programs in enumeration order up to the first accepted one"
                failures.append({"kind": "oracle", "what": what,
                                 "detail": f"{where}: impl yielded {ob['yielded']} expected {want['yields']} (answers {t['answers']}, deadline {t['dl']})"})
            elif want["rank"] is not None and ob["delta"] != want["rank"]:
                failures.append({"kind": "oracle", "what": "stats 'programs' increment is not the rank of the accepted solution",
                                 "detail": f"{where}: accepted {want['yields'][-1]} of rank {want['rank']}, get_stats('programs') grew by {ob['delta']}"})
            # --- correspondence with the model on the remaining observables
            if ob["status"] != m_st:
                failures.append({"kind": "corr", "what": "generator end state differs from the model",
                                 "detail": f"{where}: impl {ob['status']} model {m_end}"})
            if ob["stats_programs"] != m_sp:
                failures.append({"kind": "corr", "what": "get_stats('programs') differs from the model",
                                 "detail": f"{where}: impl {ob['stats_programs']} model {m_sp} (model end state {m_end})"})
            ml = None if m_last[0] == "none" else m_last[1]
            if m_closes != closes_before:       # _close_task_solving_ ran in this task
                want_pp = ob["prob_of"](ml)
            closes_before = m_closes
            if ob["pp"] != want_pp:
                failures.append({"kind": "corr", "what": "stats 'program_probability' is not that of the model's last program",
                                 "detail": f"{where}: impl {ob['pp']} model: probability of {ml} = {want_pp}"})
            if ob["_programs"] != m_progs:
                failures.append({"kind": "corr", "what": "_programs counter differs from the model",
                                 "detail": f"{where}: impl {ob['_programs']} model {m_progs}"})
            if ob["yielded"] == want["yields"] and ob["at_yield"] != [[i + 1, 1.0] for i in want["idxs"]]:
                failures.append({"kind": "corr", "what": "(_programs, _score) at a yield is not (rank of the yielded program, 1)",
                                 "detail": f"{where}: impl {ob['at_yield']} expected {[[i + 1, 1.0] for i in want['idxs']]}"})
            msc = None if m_score[0] == "none" else m_score[0] / m_score[1]
            if ob["score"] != msc:
                failures.append({"kind": "corr", "what": "_score differs from the model",
                                 "detail": f"{where}: impl {ob['score']} model {m_score}"})
            stats_before = m_sp
            # --- histogram
            tags.add("end." + m_end.split(":")[0])
            tags.add(f"examples{len(t['examples'])}")
            tags.add("source.heap" if tk["heap"] is not None else "source.list")
            if t["dl"]:
                tags.add("deadline-real0" if t["dl"] == "real0" else "deadline-event")
            if len(want["yields"]) >= 2:
                tags.add("resumed-after-False")
            if len(set(tk["strs"])) < len(tk["strs"]):
                tags.add("duplicate-programs")
            if any(a not in ("T", "F") for a in t["answers"]):
                tags.add("non-bool-answers")
            if msc is not None and 0 < msc < 1:
                tags.add("partial-score")
            rejected_before_yield = bool(want["idxs"]) and want["idxs"][0] > 0
            if t["examples"] and rejected_before_yield and t["answers"]:
                nontrivial = True
            if kind == "cutoff":
                summary.append({"programs": tk["strs"][:8], "examples": t["examples"], "answers": t["answers"], "deadline": t["dl"],
                                "yielded": want["yields"][:6], "end": m_end, "stats_programs": m_sp})
        want_by_kind[kind] = wants
    # --- naive and cut-off agree (whenever no exception escapes from either)
    for j, op in enumerate(case["ops"]):
        if op[0] != "task":
            continue
        wn, wc = want_by_kind["naive"][j], want_by_kind["cutoff"][j]
        if wn["end"].startswith("raised") or wc["end"].startswith("raised"):
            tags.add("escaping-exception")
            break        # later tasks start from different statistics; the per-kind checks above still apply
        if (wn["yields"], wn["end"], wn["rank"]) != (wc["yields"], wc["end"], wc["rank"]):
            raise RuntimeError("oracle: naive and cutoff expectations differ without an escaping exception")
        on, oc = impl_by_kind["naive"][j], impl_by_kind["cutoff"][j]
        for f in ("yielded", "status", "stats_programs", "pp"):
            if on[f] != oc[f]:
                failures.append({"kind": "oracle", "what": "naive and cutoff solvers disagree",
                                 "detail": f"operation #{j}: {f}: naive {on[f]} cutoff {oc[f]}"})
                break
    if any(o[0] == "reset" for o in case["ops"]):
        tags.add("has-reset_stats")
    if any(o[0] == "clear" for o in case["ops"]):
        tags.add("has-clear_cache")
    key = json.dumps([case["dsl"], case["var_types"], case["use_cache"], skips,
                      [[o[0]] if o[0] != "task" else [tk["strs"], o[1]["examples"], o[1]["dl"], o[1]["answers"]] for o, tk in zip(case["ops"], tasks)]])
    return {"key": key, "nontrivial": nontrivial, "tags": sorted(tags), "failures": failures,
            "sample": {"dsl": case["dsl"], "skips": skips, "use_cache": case["use_cache"], "tasks": summary[:3]}}


def _is_subseq(a, b):
    it = iter(b)
    return all(x in it for x in a)


def corpus():
    add1 = ["A", ["P", "+"], [["V", 0], ["P", "1"]]]
    add1b = ["A", ["P", "+"], [["P", "1"], ["V", 0]]]
    div = ["A", ["P", "div"], [["P", "1"], ["V", 0]]]
    exs = [[[0], 1], [[1], 2]]
    from harness import c10_restart
    return c10_restart.corpus() + [
        # C10-F1: a task without examples (NaivePBESolver divided by zero)
        {"dsl": "arith", "var_types": ["int"], "use_cache": True, "skips": ["ZeroDivisionError", "IndexError"],
         "ops": [["task", {"examples": [], "source": {"list": [["P", "1"], ["V", 0]]}, "dl": [], "answers": ["F", "F"]}]]},
        # reject-and-continue, failing primitive in between, acceptance of the second solution, then a second task
        {"dsl": "arith", "var_types": ["int"], "use_cache": True, "skips": ["ZeroDivisionError"],
         "ops": [["task", {"examples": exs, "source": {"list": [["P", "1"], ["V", 0], add1, div, add1b, ["P", "2"]]}, "dl": [], "answers": ["F", "T"]}],
                 ["task", {"examples": exs, "source": {"list": [div, add1b, add1]}, "dl": [0, 0, 1], "answers": ["F", "F"]}],
                 ["task", {"examples": exs, "source": {"list": [["P", "0"], ["P", "1"]]}, "dl": [], "answers": ["F"]}]]},
        # first example passes, second fails (a cut-off on the first *success* would yield it)
        {"dsl": "arith", "var_types": ["int"], "use_cache": False, "skips": [],
         "ops": [["task", {"examples": exs, "source": {"list": [["P", "1"], add1]}, "dl": [], "answers": ["one"]}]]},
    ]
