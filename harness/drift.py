"""Drift probe: normalised-AST hashes of the library's source files (positions, docstrings and
comments do not count), compared with the record taken when the models were last aligned."""
import sys
import tokenize
import hashlib
import json
import os


def file_hash(path):
    """hash of the token stream without comments and blank lines (independent of the Python version that runs it)"""
    try:
        h = hashlib.sha256()
        with open(path, "rb") as fh:
            for tok in tokenize.tokenize(fh.readline):
                if tok.type in (tokenize.COMMENT, tokenize.NL, tokenize.ENCODING):
                    continue
                if tok.type in (tokenize.INDENT, tokenize.DEDENT, tokenize.NEWLINE, tokenize.ENDMARKER):
                    h.update(f"<{tok.type}>".encode())
                else:
                    h.update(tok.string.encode() + b"\0")
        return h.hexdigest()[:16]
    except (tokenize.TokenError, SyntaxError, IndentationError):
        return "syntax-error"
    except OSError:
        return "missing"


def tree_hashes(repo):
    res = {}
    root = os.path.join(repo, "synth")
    for d, _, files in os.walk(root):
        for f in files:
            if f.endswith(".py"):
                p = os.path.join(d, f)
                res[os.path.relpath(p, repo)] = file_hash(p)
    return res


def drift(repo, anchors_path, anchor_files):
    """returns (changed anchor files of the property, other changed files)"""
    try:
        rec = json.load(open(anchors_path))
        if rec.get("python") != list(sys.version_info[:2]):
            return [], []          # recorded under another tokenizer: the probe says nothing
        rec = rec["files"]
    except Exception:
        return [], []
    cur = tree_hashes(repo)
    changed = sorted(f for f in set(rec) | set(cur) if rec.get(f) != cur.get(f))
    a = [f for f in changed if f in anchor_files]
    return a, [f for f in changed if f not in anchor_files]
