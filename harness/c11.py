"""C11 — DSLEvaluator.eval is compositional and independent of cache and history.

A case is a history on ONE evaluator: 1-30 operations `eval program input` / `clear_cache`,
over a DSL with partial primitives (div, head) and higher-order map, where programs are drawn
from a pool that contains random terms *and their sub-terms* (so that cached sub-programs,
including failing ones, are reused by later larger programs), on 1-3 distinct inputs.
impl  : two real DSLEvaluator instances fed the same history (use_cache=True / False)
model : PS.C11.eval folded over the history (driver op c11.history), which also returns
        the spec outcome PS.C11.specEval for every evaluation
oracle: harness' own compositional evaluation gen.denote (independent of `synth`)
"""
import json

from harness import gen as G
from harness.sexp import Sym

CASE_TIMEOUT = {"quick": 30, "thorough": 60}
EXC = {"ZeroDivisionError": ZeroDivisionError, "IndexError": IndexError}


def _tt(t):
    return tuple(_tt(x) for x in t) if isinstance(t, list) else t


def gen(rng, i, tier):
    name = rng.choice(["arith", "lists", "lists"])
    spec = G.DSLS[name]
    nargs = rng.choice([1, 1, 2, 2, 3, 4])
    var_types = [rng.choice(["int", "int", ("list", "int")] if name == "lists" else ["int"]) for _ in range(nargs)]
    inputs = [[G.random_value(rng, t) for t in var_types] for _ in range(rng.randint(1, 3))]
    if nargs >= 3 and all(t == "int" for t in var_types) and rng.random() < 0.7:
        # inputs that are rearrangements of each other: equal on some sub-sets of the arguments
        base = rng.sample([0, 1, 2, 3, 5, 7, 9, -1], nargs)
        inputs = [base]
        for _ in range(rng.randint(1, 3)):
            k = rng.randrange(1, nargs)
            inputs.append(inputs[-1][k:] + inputs[-1][:k] if rng.random() < 0.6 else rng.sample(base, nargs))
    rtypes = ["int"] if name == "arith" else ["int", ("list", "int"), ("list", ("list", "int"))]
    pool = []
    for _ in range(rng.randint(2, 6)):
        t = G.random_term(rng, spec, var_types, rng.choice(rtypes), rng.randint(2, 5), p_leaf=0.25)
        if t is None:
            continue
        subs = [s for s in G.subterms(t) if s[0] == "A"]
        pool.append(t)
        for s in rng.sample(subs, min(len(subs), rng.randint(0, 3))):
            pool.append(s)
    if name == "lists" and rng.random() < 0.35:
        # constants whose values differ but print alike / compare alike: each must keep its own value
        # (values that are == AND print alike, e.g. 0.5 and Decimal("0.5"), are the same Constant: not used)
        fam = rng.choice([[("int", "12"), ("str", "12")], [("int", "-3"), ("str", "-3")], [("int", "7"), ("str", "7"), ("int", "8")]])
        for tag, txt in fam:
            k = ("K", tag, txt)
            shape = rng.randrange(3)
            if shape == 0:
                pool.append(("A", ("P", "cons"), [k, ("P", "nil")]))
            elif shape == 1:
                pool.append(("A", ("P", "head"), [("A", ("P", "cons"), [k, ("P", "nil")])]))
            else:
                pool.append(("A", ("P", "len"), [("A", ("P", "cons"), [k, ("A", ("P", "cons"), [("P", "1"), ("P", "nil")])])]))
    if not pool:
        pool = [("P", "1")]
    ops = []
    for _ in range(rng.randint(1, 30)):
        if rng.random() < 0.08:
            ops.append(["clear"])
        else:
            ops.append(["eval", rng.randrange(len(pool)), rng.randrange(len(inputs))])
    skips = rng.choice([["ZeroDivisionError", "IndexError"], ["ZeroDivisionError", "IndexError"], ["ZeroDivisionError"], ["IndexError"], []])
    return {"dsl": name, "var_types": var_types, "inputs": inputs, "pool": pool, "ops": ops, "skips": skips}


def shrink(case):
    for j in range(len(case["ops"])):
        if len(case["ops"]) > 1:
            c = dict(case)
            c["ops"] = case["ops"][:j] + case["ops"][j + 1:]
            yield c


def wire_term(t):
    if t[0] == "P":
        return [Sym("P"), t[1]]
    if t[0] == "V":
        return [Sym("V"), t[1]]
    if t[0] == "K":
        return [Sym("K"), "int" if t[1] == "int" else t[1], t[2]]
    return [Sym("A"), wire_term(t[1])] + [wire_term(a) for a in t[2]]


def wire_val(v):
    if isinstance(v, (list, tuple)):
        return [Sym("l")] + [wire_val(x) for x in v]
    return int(v)


def outcome_of(fn, skips):
    try:
        v = fn()
    except Exception as e:  # noqa
        n = type(e).__name__
        return "none" if n in skips else "raised:" + n
    if v is None:
        return "none"
    return "v:" + G.canon_value(v)


def check(case, M):
    from synth.semantic.evaluator import DSLEvaluator
    dsl, semt, spec = G.make_dsl(case["dsl"])
    prims = G.prims_by_name(dsl)
    var_types = [_tt(t) for t in case["var_types"]]
    pool = [_tt(t) for t in case["pool"]]
    progs = [G.to_repo_program(t, prims, var_types) for t in pool]
    skips = list(case["skips"])
    evs = {}
    for uc in (True, False):
        ev = DSLEvaluator(semt, use_cache=uc)
        for s in skips:
            ev.skip_exceptions.add(EXC[s])
        evs[uc] = ev
    wire_ops = []
    impl_on, impl_off, want = [], [], []
    for op in case["ops"]:
        if op[0] == "clear":
            for ev in evs.values():
                ev.clear_cache()
            wire_ops.append([Sym("clear")])
            impl_on.append("cleared"); impl_off.append("cleared"); want.append("cleared")
            continue
        _, pi, ii = op
        inp = case["inputs"][ii]
        wire_ops.append([Sym("eval"), wire_term(pool[pi]), [wire_val(v) for v in inp]])
        impl_on.append(outcome_of(lambda: evs[True].eval(progs[pi], list(inp)), skips))
        impl_off.append(outcome_of(lambda: evs[False].eval(progs[pi], list(inp)), skips))
        want.append(outcome_of(lambda: G.denote(pool[pi], spec, inp), skips))
    failures = []
    model = {}
    for uc in (True, False):
        ans = M.ask([Sym("c11.history"), uc, skips, wire_ops])
        outs, specs = [], []
        for a in ans:
            if a == ["cleared"]:
                outs.append("cleared"); specs.append("cleared")
                continue
            o, s = a
            def dec(x):
                if x[0] == "v":
                    return "v:" + x[1]
                if x[0] == "none":
                    return "none"
                return "raised:" + x[1]
            outs.append(dec(o)); specs.append(dec(s))
        if outs != specs:
            raise RuntimeError("model eval differs from model spec (contradicts theorem C11_independent)")
        model[uc] = outs
    if model[True] != want:
        raise RuntimeError(f"Lean spec and harness oracle disagree: {model[True]} vs {want}")
    for uc, impl in ((True, impl_on), (False, impl_off)):
        if impl != want:
            k = next(i for i in range(len(want)) if impl[i] != want[i])
            op = case["ops"][k]
            failures.append({"kind": "oracle", "what": f"eval outcome depends on cache/history (use_cache={uc})",
                             "detail": f"operation #{k}: eval {G.term_str(pool[op[1]])} on {case['inputs'][op[2]]}: impl={impl[k]} compositional value={want[k]}"})
            break
    evals = [op for op in case["ops"] if op[0] == "eval"]
    seen = set()
    reuse_fail = False
    hit = False
    failed_before = set()
    for op in case["ops"]:
        if op[0] == "clear":
            seen.clear(); failed_before.clear()
            continue
        _, pi, ii = op
        subs = list(G.subterms(pool[pi]))
        for s in subs:
            if (G.term_str(s), ii) in seen:
                hit = True
            if (G.term_str(s), ii) in failed_before and s != pool[pi]:
                reuse_fail = True
        o = outcome_of(lambda: G.denote(pool[pi], spec, case["inputs"][ii]), skips)
        if o == "none":
            failed_before.add((G.term_str(pool[pi]), ii))
        for s in subs:
            seen.add((G.term_str(s), ii))
    tags = [f"dsl.{case['dsl']}", f"skips{len(skips)}", f"args{len(var_types)}"]
    if any(s[0] == "K" for t in pool for s in G.subterms(t)):
        tags.append("constants-printing-alike")
    if len(case["inputs"]) > 1 and len({tuple(sorted(map(str, i))) for i in case["inputs"]}) == 1:
        tags.append("inputs-are-rearrangements")
    if hit:
        tags.append("cache-hit")
    if reuse_fail:
        tags.append("failed-subprogram-reused-by-larger-program")
    if any(w == "none" for w in want):
        tags.append("has-skipped-failure")
    if any(w.startswith("raised") for w in want):
        tags.append("has-propagated-exception")
    if any(op[0] == "clear" for op in case["ops"]):
        tags.append("has-clear")
    # ---- function-valued inputs (oracle only: the Lean value model has no functions): a history of evaluations of
    # programs whose head is a function-typed variable, on ONE evaluator with its cache on, with different functions
    # as inputs — the outcome must be the direct application, whatever was evaluated before
    if not failures:
        import random as _random
        from synth.syntax import DSL as _DSL, auto_type as _auto_type
        hr = _random.Random(json.dumps([case["inputs"], len(case["ops"])]))
        hdsl = _DSL(_auto_type({"+": "int -> int -> int", "1": "int", "2": "int"}))
        hev = DSLEvaluator(hdsl.instantiate_semantics({"+": lambda a: lambda b: a + b, "1": 1, "2": 2}))
        htr = _auto_type("(int -> int) -> int")
        texts = ["(var0 1)", "(+ (var0 1) 1)", "(var0 (var0 2))", "(+ (var0 2) (var0 1))", "(+ 1 2)"]
        hps = [hdsl.parse_program(t, htr) for t in texts]
        refs = [lambda f: f(1), lambda f: f(1) + 1, lambda f: f(f(2)), lambda f: f(2) + f(1), lambda f: 3]
        a1, b1, a2, b2 = hr.randint(2, 9), hr.randint(-5, 5), hr.randint(-9, -2), hr.randint(6, 12)
        funs = [lambda x: a1 * x + b1, lambda x: a2 * x + b2, lambda x: x * x - a1]
        for _ in range(12):
            k, fi = hr.randrange(len(hps)), hr.randrange(len(funs))
            try:
                got = hev.eval(hps[k], [funs[fi]])
            except Exception as e:  # noqa
                got = type(e).__name__
            if got != refs[k](funs[fi]):
                failures.append({"kind": "oracle", "what": "evaluation with a function-valued input depends on earlier evaluations (cache shared across inputs)",
                                 "detail": f"{texts[k]} on function #{fi}: got {got}, direct application gives {refs[k](funs[fi])}"})
                break
        tags.append("function-valued-inputs-history")
    return {"key": json.dumps([case["dsl"], case["inputs"], skips, [(G.term_str(pool[o[1]]), o[2]) if o[0] == "eval" else "clear" for o in case["ops"]]]),
            "nontrivial": hit and len(evals) >= 2, "tags": tags, "failures": failures,
            "sample": {"dsl": case["dsl"], "skips": skips, "inputs": case["inputs"],
                       "history": [f"eval {G.term_str(pool[o[1]])} on input#{o[2]}" if o[0] == "eval" else "clear_cache" for o in case["ops"]][:10],
                       "outcomes": want[:10]}}


def corpus():
    # the history that exposed C11-F1 (repaired): failing sub-program, then a larger program
    div = ["A", ["P", "div"], [["P", "1"], ["V", 0]]]
    return [{"dsl": "arith", "var_types": ["int"], "inputs": [[0]], "pool": [div, ["A", ["P", "neg"], [div]], ["A", ["P", "*"], [["P", "0"], div]]],
             "ops": [["eval", 0, 0], ["eval", 1, 0], ["eval", 2, 0], ["eval", 0, 0]], "skips": ["ZeroDivisionError"]}]
