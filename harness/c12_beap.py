"""C12, part beap — a filter or merge declarations during beap search remove only what they should.

oracle : language by exhaustive expansion; the filter is a predicate on program tuples evaluated by
         the harness; with a filter: no duplicate, nothing rejected, everything whose sub-programs
         are all accepted; after merges of already-yielded programs: nothing that contains a merged
         program is yielded after the merge, every accepted program that contains no merged program
         is yielded (before or after); the enumeration stops.
"""
from harness import enumbeap as B
from harness import enumhs as E
from harness.c02_beap import common_failures
from harness.c12_hs import contains

CASE_TIMEOUT = {"quick": 150, "thorough": 600}


def gen(rng, i, tier):
    c = B.gen_case(rng, i, tier, "C12")
    c["fseed"] = None
    c["take"] = None
    mode = rng.choice(["filter", "filter", "merge", "merge", "both"])
    if not (B.enabled("C12-F12") and B.enabled("C12-F13")):
        mode = "filter"
    if mode in ("filter", "both"):
        c["filter"] = E.gen_filter(rng)
    if mode in ("merge", "both"):
        c["merges"] = sorted([rng.choice([1, 2, 3, 5, 8, 13, 21, 40, 80]), rng.randrange(1 << 16)] for _ in range(rng.choice([1, 1, 2, 3, 4])))
    return c


def shrink(case):
    return B.shrink_case(case)


@B.deep
def check(case, M):
    tier = case.get("tier", "quick")
    r = B.run_case(case, M, tier)
    if "trivial" in r:
        return {"key": B.key_of(case), "nontrivial": False, "tags": ["trivial:" + r["trivial"]], "failures": []}
    if r.get("inconclusive"):
        return {"key": B.key_of(case), "nontrivial": False, "tags": ["inconclusive:" + r["inconclusive"]], "failures": []}
    if r["lang"] is None:
        return {"key": B.key_of(case), "nontrivial": False, "tags": ["trivial:recursive"], "failures": []}
    failures = []
    fid = B.finding_of(case, r, "C12")
    merged_any = any(a[0] == "merge" for a in r["script"])

    def fail(kind, what, detail, cls="other"):
        if any(g["what"] == what for g in failures):
            return
        f = {"kind": kind, "what": what, "detail": detail}
        if fid and fid.get(cls):
            f["finding"] = fid[cls]
        failures.append(f)
    common_failures(case, r, failures)
    pred = r["pred"] or (lambda t: True)
    lang = [p for p, _ in r["lang"]]
    L = {E.show(p) for p in lang}
    accepted = {E.show(p) for p in lang if pred(p)}
    strict = {E.show(p) for p in lang if all(pred(s) for s in E.subterms(p))}
    if r["err"] is not None:
        fail("oracle", "the enumerator raises instead of enumerating", r["err"], "lost" if case.get("merges") else "other")
    else:
        if not r["steps"] or not r["steps"][-1][1]:
            fail("oracle", "the enumerator does not stop", "")
        ys = B.flat(r["steps"])
        Y = [E.show(p) for p in ys]
        if len(Y) != len(set(Y)):
            fail("oracle", "a program is yielded twice", next(y for k, y in enumerate(Y) if y in Y[:k]))
        if set(Y) - L:
            fail("oracle", "a program outside the language is yielded", str(sorted(set(Y) - L)[:3]))
        rej = sorted(y for y in set(Y) & L if y not in accepted)
        if rej:
            fail("oracle", "a program rejected by the filter is yielded", str(rej[:3]))
        if not merged_any:
            miss = sorted(strict - set(Y))
            if miss:
                fail("oracle", "a program all of whose sub-programs are accepted is never yielded", f"{len(miss)} e.g. {miss[:3]}")
        else:
            it = iter(r["steps"])
            seen, merged = [], []
            for act in r["script"]:
                if act[0] == "take":
                    st = next(it, ([], True))
                    for p in st[0]:
                        if any(contains(p, o) for o in merged):
                            fail("oracle", "a program containing a merged program is yielded after the merge", f"{E.show(p)} contains one of {[E.show(o) for o in merged]}", "contains")
                        seen.append(E.show(p))
                else:
                    merged.append(act[1])
            final_owed = {E.show(p) for p in lang if E.show(p) in strict and not any(contains(p, o) for o in merged)}
            miss = sorted(final_owed - set(seen))
            if miss:
                fail("oracle", "a program that contains no merged program is never yielded", f"{len(miss)} e.g. {miss[:3]}", "lost")
    tags = B.base_tags(case, r)
    if case.get("filter"):
        tags.append("filter:" + case["filter"]["kind"])
        if accepted == strict:
            tags.append("filter-closed-on-language")
    if merged_any:
        tags.append(f"merges:{sum(1 for a in r['script'] if a[0] == 'merge')}")
    nrej = len(L) - len(accepted)
    nontrivial = len(lang) >= 5 and ((case.get("filter") and 0 < nrej < len(L)) or merged_any)
    return {"key": B.key_of(case), "nontrivial": bool(nontrivial), "tags": tags, "failures": failures, "sample": B.sample_of(case, r)}


def corpus():
    # the witness of findings C12-F12 / C12-F13 (a posteriori merges) once they are registered
    extra = []
    if B.enabled("C12-F12") and B.enabled("C12-F13"):
        extra = [{"family": "fin", "build": {"src": "testdsl", "request": ["->", "int", "int"], "kind": "cfg", "max_depth": 3, "min_var": 1, "n_gram": 1},
                  "order": "built", "oseed": 120293944, "costs": "wide", "wseed": 613028649, "filter": None, "merges": [[8, 37888]], "take": None, "fseed": None}]
    return extra + [
        {"family": "fin", "build": {"src": "testdsl", "request": ["->", "int", "int"], "kind": "cfg", "max_depth": 3, "min_var": 1, "n_gram": 2},
         "order": "built", "oseed": 0, "costs": "dyadic", "wseed": 5, "filter": {"kind": "even"}, "merges": [], "take": None, "fseed": None},
        {"family": "fin", "build": {"src": "prims", "prims": [["f0", ["->", "bool", "bool"]], ["f1", ["->", "bool", "bool"]], ["c0", "bool"]], "forbidden": [],
                                    "request": ["->", "bool", "bool"], "kind": "cfg", "max_depth": 4, "min_var": 1, "n_gram": 2},
         "order": "built", "oseed": 848682430, "costs": "int", "wseed": 554486384, "filter": {"kind": "reject", "idx": [257263, 588494]}, "merges": [], "take": None, "fseed": None},
    ]
